// place this file in: dot/state (package state)
// Base-tree findings for C26: every test here FAILS on the UNCHANGED tree.

package state

import (
	"testing"

	"github.com/ChainSafe/gossamer/dot/types"
	"github.com/ChainSafe/gossamer/lib/common"
	"github.com/stretchr/testify/require"
)

type baseC26Env struct {
	t  *testing.T
	es *EpochState
	bs *BlockState
}

func newBaseC26Env(t *testing.T) *baseC26Env {
	es := newTestEpochStateFromGenesis(t)
	return &baseC26Env{t: t, es: es, bs: es.blockState}
}

func (e *baseC26Env) addBlock(slot uint64, number uint, parent common.Hash) *types.Header {
	pre, err := types.BabePrimaryPreDigest{SlotNumber: slot}.ToPreRuntimeDigest()
	require.NoError(e.t, err)
	d := types.NewDigest()
	require.NoError(e.t, d.Add(*pre))
	return AddBlockToState(e.t, e.bs, number, d, parent)
}

func (e *baseC26Env) announceEpochData(h *types.Header, tag byte) {
	dg := types.NewBabeConsensusDigest()
	require.NoError(e.t, dg.SetValue(types.NextEpochData{
		Authorities: []types.AuthorityRaw{{Key: [32]byte{tag}, Weight: 1}},
		Randomness:  [32]byte{tag},
	}))
	require.NoError(e.t, e.es.HandleBABEDigest(h, dg))
}

func (e *baseC26Env) announceConfig(h *types.Header, tag byte) {
	versioned := types.NewVersionedNextConfigData()
	versioned.SetValue(types.NextConfigDataV1{C1: uint64(tag), C2: 250, SecondarySlots: 1})
	dg := types.NewBabeConsensusDigest()
	require.NoError(e.t, dg.SetValue(versioned))
	require.NoError(e.t, e.es.HandleBABEDigest(h, dg))
}

// A fork that announced no configuration for epoch 2 must use the latest
// earlier configuration (here: genesis). Because a competing fork announced a
// configuration for epoch 2, GetConfigData fails with errHashNotInMemory instead
// (GetConfigData only falls through to earlier epochs on ErrEpochNotInMemory /
// errEpochNotInDatabase, epoch.go GetConfigData loop).
func TestBaseC26_ConfigFallbackBlockedByOtherFork(t *testing.T) {
	e := newBaseC26Env(t)
	b1 := e.addBlock(1, 1, e.bs.GenesisHash())
	a2 := e.addBlock(201, 2, b1.Hash())
	e.announceConfig(a2, 0xa1)
	d2 := e.addBlock(205, 2, b1.Hash()) // announces nothing
	d3 := e.addBlock(206, 3, d2.Hash())

	got, err := e.es.GetConfigData(2, d3)
	require.NoError(t, err)
	require.Equal(t, e.es.genesisEpochDescriptor.ConfigData, got)
}

// Finality jumps from epoch 0 straight to a block of epoch 2. The finalisation
// handler persists the data for epoch 3 only and drops everything <= 3 from
// memory, so the data of epoch 2 (announced on this very chain by #2) is lost:
// it is neither in the database nor in memory any more.
func TestBaseC26_FinalityJumpDropsCurrentEpochData(t *testing.T) {
	e := newBaseC26Env(t)
	b1 := e.addBlock(1, 1, e.bs.GenesisHash())
	e.announceEpochData(b1, 0x01) // for epoch 1
	b2 := e.addBlock(201, 2, b1.Hash())
	e.announceEpochData(b2, 0x02) // for epoch 2
	b3 := e.addBlock(401, 3, b2.Hash())
	e.announceEpochData(b3, 0x03) // for epoch 3
	b4 := e.addBlock(402, 4, b3.Hash())

	before, err := e.es.GetEpochDataRaw(2, b4)
	require.NoError(t, err)
	require.Equal(t, [32]byte{0x02}, before.Randomness)

	require.NoError(t, e.bs.SetFinalisedHash(b3.Hash(), 1, 0))
	require.NoError(t, e.es.FinalizeBABENextEpochData(b3))

	after, err := e.es.GetEpochDataRaw(2, b4)
	require.NoError(t, err)
	require.Equal(t, [32]byte{0x02}, after.Randomness)
}

// updateSkippedEpochDataRaw read-locks nextEpochDataLock but defers the
// RUnlock of nextConfigDataLock. In production this is a fatal
// "sync: RUnlock of unlocked RWMutex"; here the config lock is read-locked
// up-front so the wrong unlock succeeds and the leaked read lock can be observed
// (every later HandleBABEDigest / lookup would block forever).
func TestBaseC26_SkippedEpochLockMismatch(t *testing.T) {
	e := newBaseC26Env(t)
	b1 := e.addBlock(1, 1, e.bs.GenesisHash())
	b2 := e.addBlock(201, 2, b1.Hash())
	e.announceEpochData(b2, 0x02) // for epoch 2
	b3 := e.addBlock(801, 3, b2.Hash())

	e.es.nextConfigDataLock.RLock()
	err := e.es.updateSkippedEpochDataRaw(2, 4, b3)
	require.NoError(t, err)

	locked := !e.es.nextEpochDataLock.TryLock()
	require.False(t, locked, "nextEpochDataLock is still read-locked after updateSkippedEpochDataRaw")
}

// FinalizeBABENextConfigData checks "already defined" with epochDataKey instead
// of configDataKey: once the epoch data of the next epoch was persisted (which
// the finalisation handler always does first), the configuration is never
// persisted nor pruned from memory.
func TestBaseC26_ConfigNeverFinalisedAfterEpochData(t *testing.T) {
	e := newBaseC26Env(t)
	b1 := e.addBlock(1, 1, e.bs.GenesisHash())
	e.announceEpochData(b1, 0x01)
	e.announceConfig(b1, 0x01)
	b2 := e.addBlock(2, 2, b1.Hash())
	_ = b2

	require.NoError(t, e.bs.SetFinalisedHash(b1.Hash(), 1, 0))
	require.NoError(t, e.es.FinalizeBABENextEpochData(b1))
	require.NoError(t, e.es.FinalizeBABENextConfigData(b1))

	got, err := getEpochDefinitionFromDatabase[types.ConfigData](e.es.db, 1, configDataKey)
	require.NoError(t, err)
	require.Equal(t, uint64(0x01), got.C1)
}
