// Place this file in package directory: dot/sync  (fails on the UNCHANGED tree)

package sync

import (
	"fmt"
	"testing"

	"github.com/ChainSafe/gossamer/dot/network"
	"github.com/ChainSafe/gossamer/dot/network/messages"
	"github.com/ChainSafe/gossamer/dot/types"
	"github.com/ChainSafe/gossamer/lib/common"
	"github.com/libp2p/go-libp2p/core/peer"
	"github.com/stretchr/testify/require"
	"go.uber.org/mock/gomock"
)

type baseC32Importer struct {
	known      map[common.Hash]struct{}
	order      []string
	violations []string
}

func (i *baseC32Importer) importBlock(bd *types.BlockData, _ BlockOrigin) (bool, error) {
	if _, ok := i.known[bd.Hash]; ok {
		return false, nil
	}
	i.order = append(i.order, fmt.Sprintf("#%d(%s)", bd.Header.Number, bd.Hash.Short()))
	if _, ok := i.known[bd.Header.ParentHash]; !ok {
		i.violations = append(i.violations,
			fmt.Sprintf("block #%d (%s) handed to the importer while its parent %s is unknown",
				bd.Header.Number, bd.Hash.Short(), bd.Header.ParentHash.Short()))
		return false, nil
	}
	i.known[bd.Hash] = struct{}{}
	return true, nil
}

// Two blocks are announced (so both sit in unreadyBlocks.incompleteBlocks waiting for a body):
//
//	X = #1, child of genesis (parent known)
//	Y = #3, child of a block the node has never seen
//
// A single body-only response (the answer to the body request for X) carries the bodies of BOTH
// X and Y. Body-only responses are exempt from the chain check, updateIncompleteBlocks returns
// [X, Y] as one "fragment", Process only looks at the parent of fragment[0] (= X) and then hands
// Y to the importer although Y's parent is unknown.
func TestBaseC32_BodyOnlyResponseCompletingUnrelatedBlocks(t *testing.T) {
	genesis := types.NewHeader(common.Hash{}, common.Hash{0xfe}, common.Hash{}, 0, types.NewDigest())

	imp := &baseC32Importer{known: map[common.Hash]struct{}{genesis.Hash(): {}}}

	ctrl := gomock.NewController(t)
	bs := NewMockBlockState(ctrl)
	bs.EXPECT().IsPaused().Return(false).AnyTimes()
	bs.EXPECT().GetHighestFinalisedHeader().Return(genesis, nil).AnyTimes()
	bs.EXPECT().BestBlockHeader().Return(genesis, nil).AnyTimes()
	bs.EXPECT().HasHeader(gomock.Any()).DoAndReturn(func(h common.Hash) (bool, error) {
		_, ok := imp.known[h]
		return ok, nil
	}).AnyTimes()

	fs := NewFullSyncStrategy(&FullSyncConfig{BlockState: bs})
	fs.blockImporter = imp

	announceX := &network.BlockAnnounceMessage{
		ParentHash: genesis.Hash(), Number: 1, StateRoot: common.Hash{1}, Digest: types.NewDigest(),
	}
	announceY := &network.BlockAnnounceMessage{
		ParentHash: common.Hash{0xde, 0xad}, Number: 3, StateRoot: common.Hash{2}, Digest: types.NewDigest(),
	}

	_, err := fs.OnBlockAnnounce(peer.ID("peerA"), announceX)
	require.NoError(t, err)
	_, err = fs.OnBlockAnnounce(peer.ID("peerA"), announceY)
	require.NoError(t, err)
	require.Len(t, fs.unreadyBlocks.incompleteBlocks, 2)

	hashX := types.NewHeader(announceX.ParentHash, announceX.StateRoot, announceX.ExtrinsicsRoot,
		announceX.Number, announceX.Digest).Hash()
	hashY := types.NewHeader(announceY.ParentHash, announceY.StateRoot, announceY.ExtrinsicsRoot,
		announceY.Number, announceY.Digest).Hash()

	bodyRequestForX, ok := fs.requestQueue.PopFront()
	require.True(t, ok)
	require.False(t, bodyRequestForX.RequestField(messages.RequestedDataHeader))

	results := []*SyncTaskResult{{
		who:       peer.ID("peerA"),
		request:   bodyRequestForX,
		completed: true,
		response: &messages.BlockResponseMessage{BlockData: []*types.BlockData{
			{Hash: hashX, Body: types.NewBody([]types.Extrinsic{{1}})},
			{Hash: hashY, Body: types.NewBody([]types.Extrinsic{{2}})},
		}},
	}}

	_, _, _, err = fs.Process(results)
	require.NoError(t, err)
	require.Empty(t, imp.violations, "hand-over order: %v", imp.order)
}
