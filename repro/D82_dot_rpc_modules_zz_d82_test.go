// Place this file in: dot/rpc/modules (package modules). Fails on the tree before the fix of D82.
package modules

import (
	"errors"
	"testing"

	"github.com/ChainSafe/gossamer/lib/common"
	"github.com/stretchr/testify/require"
)

// d82Storage distinguishes block hashes from state roots: a state is only found under its root.
type d82Storage struct {
	StorageAPI
	block, root common.Hash
}

func (s *d82Storage) GetStateRootFromBlock(bhash *common.Hash) (*common.Hash, error) {
	if bhash != nil && *bhash == s.block {
		r := s.root
		return &r, nil
	}
	return nil, errors.New("unknown block")
}

func (s *d82Storage) GetKeysWithPrefix(root *common.Hash, _ []byte) ([][]byte, error) {
	if root != nil && *root != s.root {
		return nil, errors.New("trie does not exist")
	}
	return [][]byte{{0xaa, 0x01}, {0xaa, 0x02}}, nil
}

func TestD82GetKeysPagedAtBlock(t *testing.T) {
	st := &d82Storage{block: common.Hash{1}, root: common.Hash{2}}
	sm := &StateModule{storageAPI: st}
	var res StateStorageKeysResponse
	err := sm.GetKeysPaged(nil, &StateStorageKeyRequest{Prefix: "0xaa", Qty: 10, Block: &st.block}, &res)
	require.NoError(t, err, "paging the keys of a known block must read that block's state")
	require.Equal(t, StateStorageKeysResponse{"0xaa01", "0xaa02"}, res)
}
