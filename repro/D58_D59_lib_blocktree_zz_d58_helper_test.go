package blocktree

import "github.com/ChainSafe/gossamer/pkg/scale"

func scaleMarshalD58(v any) ([]byte, error) { return scale.Marshal(v) }
