package storage

import (
	"testing"

	"github.com/ChainSafe/gossamer/pkg/trie/inmemory"
	"github.com/stretchr/testify/require"
)

func TestD46(t *testing.T) {
	tr := inmemory.NewEmptyTrie()
	require.NoError(t, tr.Put([]byte{0xaa}, []byte("v0")))
	require.NoError(t, tr.Put([]byte{0xaa, 0xbb}, []byte("v1")))
	require.NoError(t, tr.Put([]byte{0xab}, []byte("v2")))
	ts := NewTrieState(tr)

	ts.StartTransaction()
	require.NoError(t, ts.ClearPrefix([]byte{0xaa}))
	require.Nil(t, ts.Get([]byte{0xaa, 0xbb}))
	require.Nil(t, ts.Get([]byte{0xaa}), "the key equal to the prefix starts with the prefix and must be cleared")
	ts.CommitTransaction()
	require.Nil(t, ts.Get([]byte{0xaa}))
}

func TestD46EmptyPrefix(t *testing.T) {
	tr := inmemory.NewEmptyTrie()
	require.NoError(t, tr.Put([]byte{0xaa}, []byte("v0")))
	require.NoError(t, tr.Put([]byte{0xab}, []byte("v2")))
	ts := NewTrieState(tr)
	ts.StartTransaction()
	require.NoError(t, ts.ClearPrefix([]byte{}))
	require.Nil(t, ts.Get([]byte{0xaa}))
	require.Nil(t, ts.Get([]byte{0xab}))
}
