// Place this file in lib/runtime/storage (package storage). Every subtest fails on the unchanged tree.

package storage

import (
	"testing"

	inmemory_trie "github.com/ChainSafe/gossamer/pkg/trie/inmemory"
	"github.com/stretchr/testify/require"
)

// TestBaseC08 compares, for short operation sequences, a TrieState that applies the operations
// directly with one that applies them inside a storage transaction.
func TestBaseC08(t *testing.T) {
	limit := func(n byte) *[]byte {
		b := []byte{n, 0, 0, 0}
		return &b
	}

	// F1: the main storage key "c" and the child trie named "c" share one entry in storageDiff.deletes
	// and storageDiff.delete drops childChangeSet["c"]: deleting the main key kills the child trie.
	t.Run("F1_main_key_delete_kills_child_trie_of_the_same_name", func(t *testing.T) {
		newState := func() *TrieState {
			ts := NewTrieState(inmemory_trie.NewEmptyTrie())
			require.NoError(t, ts.Put([]byte("c"), []byte("main")))
			require.NoError(t, ts.SetChildStorage([]byte("c"), []byte("x"), []byte("1")))
			return ts
		}
		direct := newState()
		require.NoError(t, direct.Delete([]byte("c")))
		want, err := direct.GetChildStorage([]byte("c"), []byte("x"))
		require.NoError(t, err)
		require.Equal(t, []byte("1"), want)
		require.Nil(t, direct.Get([]byte("c")))

		ts := newState()
		ts.StartTransaction()
		require.NoError(t, ts.Delete([]byte("c")))
		got, err := ts.GetChildStorage([]byte("c"), []byte("x"))
		require.NoError(t, err, "read of the child trie inside the transaction")
		require.Equal(t, want, got)
		ts.CommitTransaction()
		got, err = ts.GetChildStorage([]byte("c"), []byte("x"))
		require.NoError(t, err, "read of the child trie after the commit")
		require.Equal(t, want, got)
		require.Nil(t, ts.Get([]byte("c")), "the main key has to be deleted by the commit")
		require.Equal(t, direct.Trie().MustHash(), ts.Trie().MustHash())
	})

	// F2: upsertChild reverts the deletion mark of the child trie, so the content the child trie had
	// in the state before it was killed is visible again and survives the commit.
	t.Run("F2_child_trie_killed_then_written_shows_its_old_content", func(t *testing.T) {
		newState := func() *TrieState {
			ts := NewTrieState(inmemory_trie.NewEmptyTrie())
			require.NoError(t, ts.SetChildStorage([]byte("c"), []byte("x"), []byte("1")))
			return ts
		}
		operations := func(ts *TrieState) {
			require.NoError(t, ts.DeleteChild([]byte("c")))
			require.NoError(t, ts.SetChildStorage([]byte("c"), []byte("y"), []byte("2")))
		}
		direct := newState()
		operations(direct)
		want, err := direct.GetChildStorage([]byte("c"), []byte("x"))
		require.NoError(t, err)
		require.Nil(t, want)

		ts := newState()
		ts.StartTransaction()
		operations(ts)
		got, err := ts.GetChildStorage([]byte("c"), []byte("x"))
		require.NoError(t, err)
		require.Nil(t, got, "read inside the transaction")
		keys, err := ts.GetKeysWithPrefixFromChild([]byte("c"), []byte{})
		require.NoError(t, err)
		require.Equal(t, [][]byte{[]byte("y")}, keys)
		next, err := ts.GetChildNextKey([]byte("c"), []byte{})
		require.NoError(t, err)
		require.Equal(t, []byte("y"), next)
		ts.CommitTransaction()
		got, err = ts.GetChildStorage([]byte("c"), []byte("x"))
		require.NoError(t, err)
		require.Nil(t, got, "read after the commit")
		require.Equal(t, direct.Trie().MustHash(), ts.Trie().MustHash())
	})

	// F3: deleteChildLimit lists a key that is in the state and overwritten in the transaction twice
	// and treats both as new, so more keys of the state are deleted than the limit allows.
	t.Run("F3_child_kill_with_limit_deletes_more_state_keys_than_the_limit", func(t *testing.T) {
		ts := NewTrieState(inmemory_trie.NewEmptyTrie())
		require.NoError(t, ts.SetChildStorage([]byte("c"), []byte("x"), []byte("1")))
		require.NoError(t, ts.SetChildStorage([]byte("c"), []byte("y"), []byte("1")))
		ts.StartTransaction()
		require.NoError(t, ts.SetChildStorage([]byte("c"), []byte("x"), []byte("2")))
		deleted, all, err := ts.DeleteChildLimit([]byte("c"), limit(1))
		require.NoError(t, err)
		// the limit of 1 covers the key x of the state, the key y has to stay
		got, err := ts.GetChildStorage([]byte("c"), []byte("y"))
		require.NoError(t, err)
		require.Equal(t, []byte("1"), got)
		require.False(t, all)
		require.LessOrEqual(t, deleted, uint32(2))
	})

	// F4: clearPrefix compares the number of deleted keys with the number of ALL upserts of the
	// transaction plus the state keys with the prefix, so one unrelated pending write makes
	// allDeleted false.
	t.Run("F4_clear_prefix_limit_all_deleted_with_an_unrelated_pending_write", func(t *testing.T) {
		newState := func() *TrieState {
			ts := NewTrieState(inmemory_trie.NewEmptyTrie())
			require.NoError(t, ts.Put([]byte("a1"), []byte("1")))
			return ts
		}
		direct := newState()
		require.NoError(t, direct.Put([]byte("b"), []byte("1")))
		wantDeleted, wantAll, err := direct.ClearPrefixLimit([]byte("a"), 10)
		require.NoError(t, err)
		require.True(t, wantAll)

		ts := newState()
		ts.StartTransaction()
		require.NoError(t, ts.Put([]byte("b"), []byte("1")))
		deleted, all, err := ts.ClearPrefixLimit([]byte("a"), 10)
		require.NoError(t, err)
		require.Equal(t, wantDeleted, deleted)
		require.Equal(t, wantAll, all)
	})

	// F5: keysWithPrefix looks up the key equal to the prefix with state.Get, and the in-memory trie
	// answers Get of the empty key with the value of the root branch whatever its partial key is: a
	// clear of the empty prefix counts (and marks as deleted) the key "" that is not in the storage.
	t.Run("F5_clear_of_the_empty_prefix_counts_a_key_that_does_not_exist", func(t *testing.T) {
		newState := func() *TrieState {
			ts := NewTrieState(inmemory_trie.NewEmptyTrie())
			require.NoError(t, ts.Put([]byte("a"), []byte("1")))
			require.NoError(t, ts.Put([]byte("ab"), []byte("1")))
			require.NoError(t, ts.Put([]byte("ac"), []byte("1")))
			return ts
		}
		direct := newState()
		wantDeleted, wantAll, err := direct.ClearPrefixLimit([]byte{}, 10)
		require.NoError(t, err)
		require.Equal(t, uint32(3), wantDeleted)

		ts := newState()
		ts.StartTransaction()
		deleted, all, err := ts.ClearPrefixLimit([]byte{}, 10)
		require.NoError(t, err)
		require.Equal(t, wantDeleted, deleted)
		require.Equal(t, wantAll, all)
	})

	// F6: TrieState.Get tells a pending write from "not in the transaction" with val != nil, so a
	// nil value written in a transaction is not seen and the value of the state is returned.
	t.Run("F6_nil_value_written_in_a_transaction_is_not_read", func(t *testing.T) {
		newState := func() *TrieState {
			ts := NewTrieState(inmemory_trie.NewEmptyTrie())
			require.NoError(t, ts.Put([]byte("a"), []byte("1")))
			return ts
		}
		direct := newState()
		require.NoError(t, direct.Put([]byte("a"), nil))
		want := direct.Get([]byte("a"))
		require.Empty(t, want)

		ts := newState()
		ts.StartTransaction()
		require.NoError(t, ts.Put([]byte("a"), nil))
		require.Empty(t, ts.Get([]byte("a")), "read inside the transaction")
	})

	// F7: the in-memory trie trims a trailing zero nibble of the prefix (ClearPrefix, ClearPrefixLimit),
	// so without a transaction the prefix "p" (0x70) clears every key whose first nibble is 7, e.g. "q";
	// inside a transaction only the keys that start with the byte "p" are cleared.
	t.Run("F7_clear_prefix_with_and_without_a_transaction", func(t *testing.T) {
		newState := func() *TrieState {
			ts := NewTrieState(inmemory_trie.NewEmptyTrie())
			require.NoError(t, ts.Put([]byte("pa"), []byte("1")))
			require.NoError(t, ts.Put([]byte("q"), []byte("1")))
			return ts
		}
		direct := newState()
		require.NoError(t, direct.ClearPrefix([]byte("p")))

		ts := newState()
		ts.StartTransaction()
		require.NoError(t, ts.ClearPrefix([]byte("p")))
		inTransaction := ts.Get([]byte("q"))
		ts.CommitTransaction()

		require.Equal(t, []byte("1"), inTransaction)
		require.Equal(t, ts.Get([]byte("q")), direct.Get([]byte("q")), "the key q after a clear of the prefix p")
		require.Equal(t, direct.Trie().MustHash(), ts.Trie().MustHash())
	})

	// F8: GetChildRoot reads the state only: the child root asked for inside a transaction does not
	// cover the writes of the transaction.
	t.Run("F8_child_root_inside_a_transaction_ignores_the_transaction", func(t *testing.T) {
		newState := func() *TrieState {
			ts := NewTrieState(inmemory_trie.NewEmptyTrie())
			require.NoError(t, ts.SetChildStorage([]byte("c"), []byte("x"), []byte("1")))
			return ts
		}
		direct := newState()
		require.NoError(t, direct.SetChildStorage([]byte("c"), []byte("y"), []byte("2")))
		want, err := direct.GetChildRoot([]byte("c"))
		require.NoError(t, err)

		ts := newState()
		ts.StartTransaction()
		require.NoError(t, ts.SetChildStorage([]byte("c"), []byte("y"), []byte("2")))
		got, err := ts.GetChildRoot([]byte("c"))
		require.NoError(t, err)
		require.Equal(t, want, got)
	})
}
