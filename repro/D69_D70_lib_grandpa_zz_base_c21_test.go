// Place this file in lib/grandpa/ (package grandpa). Self-contained; fails on the UNCHANGED tree.

package grandpa

import (
	"sync"
	"testing"
	"time"

	"github.com/ChainSafe/gossamer/dot/state"
	"github.com/ChainSafe/gossamer/dot/types"
	"github.com/ChainSafe/gossamer/internal/database"
	"github.com/ChainSafe/gossamer/lib/crypto/ed25519"
	"github.com/ChainSafe/gossamer/lib/keystore"
	"github.com/ChainSafe/gossamer/pkg/scale"
	"github.com/ChainSafe/gossamer/pkg/trie"
	"github.com/stretchr/testify/require"
	"go.uber.org/mock/gomock"
)

type baseC21Env struct {
	t      *testing.T
	bs     *state.BlockState
	gs     *state.GrandpaState
	kr     *keystore.Ed25519Keyring
	voters []Voter
	svc    *Service
	at     time.Time
}

func newBaseC21Env(t *testing.T, nVoters int) *baseC21Env {
	t.Helper()
	ctrl := gomock.NewController(t)
	tel := NewMockTelemetry(ctrl)
	tel.EXPECT().SendMessage(gomock.Any()).AnyTimes()

	db, err := database.LoadDatabase(t.TempDir(), true)
	require.NoError(t, err)
	t.Cleanup(func() { _ = db.Close() })

	genesis := &types.Header{Number: 0, StateRoot: trie.EmptyHash, Digest: types.NewDigest()}
	bs, err := state.NewBlockStateFromGenesis(db, state.NewTries(), genesis, tel)
	require.NoError(t, err)

	kr, err := keystore.NewEd25519Keyring()
	require.NoError(t, err)
	voters := make([]Voter, 0, nVoters)
	for i := 0; i < nVoters; i++ {
		voters = append(voters, Voter{Key: *kr.Keys[i].Public().(*ed25519.PublicKey), ID: uint64(i)})
	}
	gs, err := state.NewGrandpaStateFromGenesis(db, bs, voters, tel)
	require.NoError(t, err)

	head, err := bs.GetFinalisedHeader(0, 0)
	require.NoError(t, err)

	svc := &Service{
		state:              NewState(voters, 0, 1),
		blockState:         bs,
		grandpaState:       gs,
		keypair:            kr.Keys[len(kr.Keys)-1],
		authority:          true,
		prevotes:           new(sync.Map),
		precommits:         new(sync.Map),
		pvEquivocations:    make(map[ed25519.PublicKeyBytes][]*SignedVote),
		pcEquivocations:    make(map[ed25519.PublicKeyBytes][]*SignedVote),
		preVotedBlock:      make(map[uint64]*Vote),
		bestFinalCandidate: make(map[uint64]*Vote),
		head:               head,
		telemetry:          tel,
	}
	svc.messageHandler = NewMessageHandler(svc, bs, tel)
	svc.tracker = newTracker(bs, svc.messageHandler)
	return &baseC21Env{t: t, bs: bs, gs: gs, kr: kr, voters: voters, svc: svc, at: time.Now()}
}

func (e *baseC21Env) genesis() *types.Header {
	h, err := e.bs.GetFinalisedHeader(0, 0)
	require.NoError(e.t, err)
	return h
}

func (e *baseC21Env) addBlock(parent *types.Header, fork byte) *types.Header {
	e.t.Helper()
	prd, err := types.NewBabeSecondaryPlainPreDigest(uint32(fork), uint64(parent.Number)+1).ToPreRuntimeDigest()
	require.NoError(e.t, err)
	digest := types.NewDigest()
	require.NoError(e.t, digest.Add(*prd))
	b := &types.Block{
		Header: types.Header{ParentHash: parent.Hash(), Number: parent.Number + 1, StateRoot: trie.EmptyHash, Digest: digest},
		Body:   types.Body{},
	}
	e.at = e.at.Add(time.Second)
	require.NoError(e.t, e.bs.AddBlockWithArrivalTime(b, e.at))
	return &b.Header
}

func (e *baseC21Env) vote(voter int, stage Subround, h *types.Header) {
	e.t.Helper()
	kp := e.kr.Keys[voter]
	v := NewVoteFromHeader(h)
	msg, err := scale.Marshal(FullVote{Stage: stage, Vote: *v, Round: e.svc.state.round, SetID: e.svc.state.setID})
	require.NoError(e.t, err)
	sig, err := kp.Sign(msg)
	require.NoError(e.t, err)
	vm := &VoteMessage{
		Round: e.svc.state.round,
		SetID: e.svc.state.setID,
		Message: SignedMessage{
			Stage: stage, BlockHash: v.Hash, Number: v.Number,
			Signature: [64]byte(sig), AuthorityID: kp.Public().(*ed25519.PublicKey).AsBytes(),
		},
	}
	_, err = e.svc.validateVoteMessage("", vm)
	require.NoError(e.t, err)
}

// Finding 1: getPossibleSelectedBlocks returns as soon as ANY directly voted
// block has >2/3 of the votes, so a higher block that was not voted for directly
// but has >2/3 through its descendants is never considered.
//
// genesis - q - y
//
//	\ z
//
// 4 voters (need 3): prevotes genesis:1, y:2, z:1. q has 3 > 2 votes and is the
// highest such block; genesis (4 votes) is returned instead.
func TestBaseC21_GhostIgnoresHigherCommonAncestor(t *testing.T) {
	e := newBaseC21Env(t, 4)
	q := e.addBlock(e.genesis(), 0)
	y := e.addBlock(q, 0)
	z := e.addBlock(q, 1)
	e.vote(0, prevote, e.genesis())
	e.vote(1, prevote, y)
	e.vote(2, prevote, y)
	e.vote(3, prevote, z)

	total, err := e.svc.getTotalVotesForBlock(q.Hash(), prevote)
	require.NoError(t, err)
	require.Equal(t, uint64(3), total)

	ghost, err := e.svc.getPreVotedBlock()
	require.NoError(t, err)
	require.Equalf(t, q.Hash(), ghost.Hash, "prevote GHOST should be q (#1) but is #%d", ghost.Number)
}

// Finding 2: determinePreCommit caps the vote at a pending authority change with
// GetHeaderByNumber, which resolves the number on the BEST chain. If the prevote
// GHOST is on another fork the node precommits a block that is not an ancestor of
// the GHOST (and has no prevotes at all).
//
// genesis - a - b  - c  - d      (best chain)
//
//	\ b' - c'          (all prevotes on c')
//
// a announces a scheduled change with delay 1 => effective at #2.
func TestBaseC21_PrecommitCapOnWrongFork(t *testing.T) {
	e := newBaseC21Env(t, 4)
	a := e.addBlock(e.genesis(), 0)
	b := e.addBlock(a, 0)
	c := e.addBlock(b, 0)
	_ = e.addBlock(c, 0)
	b2 := e.addBlock(a, 1)
	c2 := e.addBlock(b2, 1)

	auths := make([]types.GrandpaAuthoritiesRaw, 0, len(e.voters))
	for _, v := range e.voters {
		auths = append(auths, types.GrandpaAuthoritiesRaw{Key: v.Key.AsBytes(), ID: v.ID})
	}
	digest := types.NewGrandpaConsensusDigest()
	require.NoError(t, digest.SetValue(types.GrandpaScheduledChange{Auths: auths, Delay: 1}))
	require.NoError(t, e.gs.HandleGRANDPADigest(a, digest))

	for i := 0; i < 4; i++ {
		e.vote(i, prevote, c2)
	}

	pc, err := e.svc.determinePreCommit()
	require.NoError(t, err)
	require.Equal(t, uint32(2), pc.Number)
	require.Equalf(t, b2.Hash(), pc.Hash,
		"precommit must be the ancestor of the GHOST at the change height (b'), got b=%v", pc.Hash == b.Hash())
}
