// place in: dot/network (package network)
// Every subtest below FAILS on the unchanged tree: each one is a pre-existing
// violation of C33 (decoders withstand arbitrary peer input).

// Copyright 2024 ChainSafe Systems (ON)
// SPDX-License-Identifier: LGPL-3.0-only

package network

import (
	"bytes"
	"runtime"
	"testing"

	"github.com/ChainSafe/gossamer/dot/types"
	"github.com/ChainSafe/gossamer/lib/common"
	"github.com/ChainSafe/gossamer/pkg/scale"
	"github.com/stretchr/testify/require"
	"go.uber.org/mock/gomock"
)

func baseC33Stream(t *testing.T, wire []byte) *MockStream {
	t.Helper()
	ctrl := gomock.NewController(t)
	src := bytes.NewBuffer(wire)
	stream := NewMockStream(ctrl)
	stream.EXPECT().Read(gomock.Any()).
		DoAndReturn(func(p []byte) (int, error) { return src.Read(p) }).AnyTimes()
	return stream
}

func baseC33AllocatedBy(f func()) uint64 {
	var before, after runtime.MemStats
	runtime.GC()
	runtime.ReadMemStats(&before)
	f()
	runtime.ReadMemStats(&after)
	return after.TotalAlloc - before.TotalAlloc
}

// 1. readStream grows the (pooled) message buffer to the announced length
// BEFORE it compares the length with maxSize. A ten byte LEB128 prefix that
// announces 2^63 bytes panics in make(); smaller over-limit prefixes allocate
// the announced amount although the message is rejected.
func TestBaseC33_ReadStreamLengthPrefix(t *testing.T) {
	t.Run("prefix_2^63_panics", func(t *testing.T) {
		wire := Uint64ToLEB128(1 << 63)
		require.Len(t, wire, 10)
		buf := make([]byte, 16)

		var (
			err      error
			panicked any
		)
		func() {
			defer func() { panicked = recover() }()
			_, err = readStream(baseC33Stream(t, wire), &buf, maxBlockAnnounceNotificationSize)
		}()
		require.Nil(t, panicked, "readStream panicked on a crafted length prefix")
		require.ErrorIs(t, err, ErrGreaterThanMaxSize)
	})

	t.Run("rejected_message_still_allocates_announced_length", func(t *testing.T) {
		const announced = 64 << 20 // 64 MiB, limit is 1 MiB
		wire := Uint64ToLEB128(announced)
		buf := make([]byte, 16)

		_, err := readStream(baseC33Stream(t, wire), &buf, maxBlockAnnounceNotificationSize)
		require.ErrorIs(t, err, ErrGreaterThanMaxSize)
		require.LessOrEqual(t, uint64(len(buf)), maxBlockAnnounceNotificationSize,
			"a %d byte wire input made the reusable read buffer grow to %d bytes", len(wire), len(buf))
	})
}

// 2. scale.decodeBytes allocates the announced length before a single payload
// byte is read: a four byte input makes every decoder with a []byte / string
// field allocate 64 MiB (five bytes: up to 4 GiB).
func TestBaseC33_ByteArrayLengthPrefixAllocation(t *testing.T) {
	// compact(2^26) in four-byte mode
	in := []byte{0x02, 0x00, 0x00, 0x10}

	var err error
	allocated := baseC33AllocatedBy(func() {
		_, err = newLightRequestFromBytes(in)
	})
	require.Error(t, err)
	require.Less(t, allocated, uint64(1<<20),
		"decoding a %d byte light request allocated %d bytes", len(in), allocated)
}

// 3. scale.decodeBytes uses a single Read and ignores short reads: a byte
// array that is cut off is silently zero-filled. A block response whose header
// lost the tail of its seal decodes without error into a different header.
func TestBaseC33_TruncatedByteArrayAccepted(t *testing.T) {
	digest := types.NewDigest()
	require.NoError(t, digest.Add(types.SealDigest{
		ConsensusEngineID: types.BabeEngineID,
		Data:              bytes.Repeat([]byte{0xee}, 64),
	}))
	header := types.NewHeader(common.Hash{1}, common.Hash{2}, common.Hash{3}, 77, digest)
	encHeader, err := scale.Marshal(*header)
	require.NoError(t, err)

	truncated := encHeader[:len(encHeader)-40]
	decoded := types.NewEmptyHeader()
	err = scale.Unmarshal(truncated, decoded)
	require.Error(t, err, "a header cut off in the middle of its seal decoded to %s", decoded)
}

// 4. ConsensusMessage.Decode keeps the caller's slice. Service.readStream hands
// it a window of the pooled read buffer that is overwritten by the next
// message of the stream, while the decoded message is still used by the
// gossip goroutines started from broadcastExcluding (sendData, messageCache).
func TestBaseC33_ConsensusMessageAliasesReadBuffer(t *testing.T) {
	readBuffer := make([]byte, 64)
	first := []byte{0x03, 0x01, 0x02, 0x03, 0x04, 0x05, 0x06, 0x07, 0x08, 0x09, 0x0a, 0x0b, 0x0c, 0x0d, 0x0e, 0x0f, 0x10}
	n := copy(readBuffer, first)

	msg := new(ConsensusMessage)
	require.NoError(t, msg.Decode(readBuffer[:n]))
	hashBefore, err := msg.Hash()
	require.NoError(t, err)

	// the next message of the same stream arrives in the same buffer
	copy(readBuffer, bytes.Repeat([]byte{0xff}, 17))

	hashAfter, err := msg.Hash()
	require.NoError(t, err)
	require.Equal(t, first, msg.Data, "decoded message changed when the read buffer was reused")
	require.Equal(t, hashBefore, hashAfter)
}
