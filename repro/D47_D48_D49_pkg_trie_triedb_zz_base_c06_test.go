// NOTE: run the two subtests of TestBaseC06InlineReload separately (-run .../overwrite, -run .../add_sibling): they share one
// database and the commit of the first prunes the root the second reopens.
// Place this file in: pkg/trie/triedb/ (package triedb)
//
// Reproductions of three violations of property C06 that exist on the
// UNPATCHED tree (they are not related to the C06 seed).

package triedb

import (
	"bytes"
	"fmt"
	"runtime/debug"
	"testing"

	"github.com/ChainSafe/gossamer/internal/primitives/core/hash"
	"github.com/ChainSafe/gossamer/internal/primitives/runtime"
	"github.com/ChainSafe/gossamer/pkg/trie"
	inmemory_trie "github.com/ChainSafe/gossamer/pkg/trie/inmemory"
	"github.com/stretchr/testify/assert"
	"github.com/stretchr/testify/require"
)

type baseC06TrieDB = TrieDB[hash.H256, runtime.BlakeTwo256]

func baseC06New(db *MemoryDB) *baseC06TrieDB {
	return NewEmptyTrieDB[hash.H256, runtime.BlakeTwo256](db)
}

func baseC06Open(root hash.H256, db *MemoryDB) *baseC06TrieDB {
	return NewTrieDB[hash.H256, runtime.BlakeTwo256](root, db)
}

// baseC06SpecRoot is the root the reference in-memory trie computes for model.
func baseC06SpecRoot(t *testing.T, model map[string][]byte) []byte {
	t.Helper()
	spec := inmemory_trie.NewEmptyTrie()
	spec.SetVersion(trie.V0)
	for k, v := range model {
		require.NoError(t, spec.Put([]byte(k), v))
	}
	h, err := spec.Hash()
	require.NoError(t, err)
	return h.ToBytes()
}

// baseC06Guard turns a panic of f into an error carrying the stack.
func baseC06Guard(f func() error) (err error) {
	defer func() {
		if r := recover(); r != nil {
			err = fmt.Errorf("PANIC: %v\n%s", r, debug.Stack())
		}
	}()
	return f()
}

// baseC06Check verifies root and contents of tr against model, through a
// fresh instance opened at the committed root.
func baseC06Check(t *testing.T, tr *baseC06TrieDB, db *MemoryDB, model map[string][]byte, absent ...[]byte) {
	t.Helper()
	var root hash.H256
	err := baseC06Guard(func() (err error) {
		root, err = tr.Hash()
		return err
	})
	require.NoError(t, err, "Hash()")
	require.Equal(t, baseC06SpecRoot(t, model), root.Bytes(), "root differs from the spec root")

	fresh := baseC06Open(root, db)
	for k, v := range model {
		require.Equal(t, v, fresh.Get([]byte(k)), "fresh Get(%x)", k)
	}
	for _, k := range absent {
		require.Nil(t, fresh.Get(k), "fresh Get(%x) should be absent", k)
	}
}

// Deleting a leaf whose removal leaves its parent branch with a single child
// and no value (so the branch has to be merged with the remaining child).
func TestBaseC06Delete(t *testing.T) {
	// (a) nothing committed yet: two sibling leaves, delete one of them.
	t.Run("uncommitted_two_siblings", func(t *testing.T) {
		db := NewMemoryDB[hash.H256, runtime.BlakeTwo256](EmptyNode)
		tr := baseC06New(db)
		require.NoError(t, tr.Put([]byte{0x10}, []byte("a")))
		require.NoError(t, tr.Put([]byte{0x11}, []byte("b")))

		err := baseC06Guard(func() error { return tr.Delete([]byte{0x10}) })
		require.NoError(t, err, "Delete(0x10)")

		baseC06Check(t, tr, db, map[string][]byte{"\x11": []byte("b")}, []byte{0x10})
	})

	// (b) the remaining sibling is a hashed (>= 32 byte) node that was
	// committed before, so that fix has to load it from the database. The
	// root branch has an empty partial key here, so fix does not panic but
	// computes the wrong database prefix for the sibling.
	t.Run("committed_hashed_sibling", func(t *testing.T) {
		db := NewMemoryDB[hash.H256, runtime.BlakeTwo256](EmptyNode)
		tr := baseC06New(db)
		big := bytes.Repeat([]byte{0xbb}, 40)
		require.NoError(t, tr.Put([]byte{0x10}, bytes.Repeat([]byte{0xaa}, 40)))
		require.NoError(t, tr.Put([]byte{0x20}, big))
		_, err := tr.Hash()
		require.NoError(t, err)

		err = baseC06Guard(func() error { return tr.Delete([]byte{0x10}) })
		require.NoError(t, err, "Delete(0x10)")

		baseC06Check(t, tr, db, map[string][]byte{"\x20": big}, []byte{0x10})
	})
}

// Put of a key whose backing array has capacity >= 32 into a trie whose root
// is persisted (i.e. after a commit).
func TestBaseC06LongKey(t *testing.T) {
	db := NewMemoryDB[hash.H256, runtime.BlakeTwo256](EmptyNode)
	tr := baseC06New(db)
	require.NoError(t, tr.Put([]byte{0x01}, []byte("a")))
	_, err := tr.Hash()
	require.NoError(t, err)

	key := bytes.Repeat([]byte{0x22}, 32)
	orig := bytes.Clone(key)
	err = baseC06Guard(func() error { return tr.Put(key, []byte("b")) })
	require.NoError(t, err, "Put(32-byte key)")

	model := map[string][]byte{"\x01": []byte("a"), string(orig): []byte("b")}

	// same session read
	assert.Equal(t, []byte("b"), tr.Get(bytes.Clone(orig)), "same-session Get(long key)")
	// the caller's key buffer must not be modified by Put
	assert.Equal(t, orig, key, "Put modified the caller's key buffer")

	baseC06Check(t, tr, db, model)
}

// A fresh instance opened at a committed root whose root branch has inline
// (< 32 byte) children, followed by a Put below one of those children.
func TestBaseC06InlineReload(t *testing.T) {
	db := NewMemoryDB[hash.H256, runtime.BlakeTwo256](EmptyNode)
	tr := baseC06New(db)
	require.NoError(t, tr.Put([]byte{0x10}, []byte("a")))
	require.NoError(t, tr.Put([]byte{0x11}, []byte("b")))
	root, err := tr.Hash()
	require.NoError(t, err)
	require.Len(t, db.data, 1, "both leaves are expected to be inlined in the root branch")

	// (a) overwrite the value of an inline child
	t.Run("overwrite_inline_child", func(t *testing.T) {
		fresh := baseC06Open(root, db)
		err := baseC06Guard(func() error { return fresh.Put([]byte{0x10}, []byte("c")) })
		require.NoError(t, err, "Put(0x10)")
		baseC06Check(t, fresh, db, map[string][]byte{"\x10": []byte("c"), "\x11": []byte("b")})
	})

	// (b) add a third sibling next to the two inline children
	t.Run("add_sibling_of_inline_children", func(t *testing.T) {
		fresh := baseC06Open(root, db)
		err := baseC06Guard(func() error { return fresh.Put([]byte{0x12}, []byte("c")) })
		require.NoError(t, err, "Put(0x12)")
		baseC06Check(t, fresh, db, map[string][]byte{
			"\x10": []byte("a"), "\x11": []byte("b"), "\x12": []byte("c"),
		})
	})
}
