// place in: lib/transaction
// Copyright 2021 ChainSafe Systems (ON)
// SPDX-License-Identifier: LGPL-3.0-only

package transaction

import (
	"encoding/binary"
	"fmt"
	"sync"
	"testing"
	"time"
)

// TestBaseC34PoolTransactionsSnapshot exercises Pool.Transactions concurrently with
// Insert/Remove. Transactions sizes its result slice from len(p.transactions) BEFORE
// taking the read lock, so a concurrent Insert makes the copy loop index past the end
// (panic: index out of range) and a concurrent Remove leaves trailing nil entries in
// the returned snapshot. It is also a data race under -race.
func TestBaseC34PoolTransactionsSnapshot(t *testing.T) {
	pool := NewPool()

	stop := make(chan struct{})
	var wg sync.WaitGroup
	wg.Add(1)
	go func() {
		defer wg.Done()
		var n uint32
		for {
			select {
			case <-stop:
				return
			default:
			}
			var hashes [64][32]byte
			for i := 0; i < 64; i++ {
				ext := make([]byte, 4)
				binary.LittleEndian.PutUint32(ext, n)
				n++
				hashes[i] = pool.Insert(&ValidTransaction{Extrinsic: ext, Validity: &Validity{}})
			}
			for i := 0; i < 64; i++ {
				pool.Remove(hashes[i])
			}
		}
	}()

	var failure string
	deadline := time.Now().Add(3 * time.Second)
	for failure == "" && time.Now().Before(deadline) {
		func() {
			defer func() {
				if r := recover(); r != nil {
					failure = fmt.Sprintf("Transactions panicked: %v", r)
				}
			}()
			for i, tx := range pool.Transactions() {
				if tx == nil {
					failure = fmt.Sprintf("Transactions returned a nil entry at index %d", i)
					return
				}
			}
		}()
	}

	close(stop)
	wg.Wait()

	if failure != "" {
		t.Fatal(failure)
	}
}
