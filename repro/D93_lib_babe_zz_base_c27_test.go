// Place this file in package directory lib/babe (package babe).
//
// Base-tree finding for C27: verifying the very same, validly sealed block header
// twice through verifier.verifyAuthorshipRight reports a slot equivocation, although
// "re-checking an identical header never yields a proof".
//
// verifyAuthorshipRight strips the seal from header.Digest before it calls
// SlotState.CheckEquivocation, but header.Hash() was already called (and cached) on
// the sealed header. The slot table stores the SCALE encoding of the unsealed header,
// so when the same header is checked again the stored header re-hashes to the
// pre-seal hash, while the incoming header still answers with its cached sealed hash.
// The hashes differ, and a BabeEquivocationProof is produced whose two headers are the
// same header.

package babe

import (
	"testing"

	"github.com/ChainSafe/gossamer/dot/state"
	"github.com/ChainSafe/gossamer/dot/types"
	"github.com/ChainSafe/gossamer/internal/database"
	"github.com/ChainSafe/gossamer/lib/common"
	"github.com/ChainSafe/gossamer/lib/crypto/sr25519"
	"github.com/ChainSafe/gossamer/pkg/scale"
	"github.com/stretchr/testify/require"
	"go.uber.org/mock/gomock"
)

func TestBaseC27_ReverifySameHeaderIsNotEquivocation(t *testing.T) {
	ctrl := gomock.NewController(t)

	kp, err := sr25519.GenerateKeypair()
	require.NoError(t, err)

	db, err := database.NewPebble(t.TempDir(), true)
	require.NoError(t, err)
	slotState := state.NewSlotState(db)

	// the current slot: the header stays within the retained window of the slot
	// table (1000 slots of one second) for the whole test
	slot := getCurrentSlot(testSlotDuration)
	authIdx, err := getSecondarySlotAuthor(slot, 2, Randomness{})
	require.NoError(t, err)

	preDigest, err := types.BabeSecondaryPlainPreDigest{
		AuthorityIndex: authIdx,
		SlotNumber:     slot,
	}.ToPreRuntimeDigest()
	require.NoError(t, err)

	header := newTestHeader(t, *preDigest)
	signAndAddSeal(t, kp, header, encodeAndHashHeaderC27(t, header))
	sealedHash := header.Hash()

	// record every proof the slot state hands out
	recording := &recordingSlotStateC27{inner: slotState}

	mockBlockState := NewMockBlockState(ctrl)
	mockBlockState.EXPECT().GenesisHash().Return(common.Hash{}).AnyTimes()
	// only reached when an equivocation is (wrongly) reported
	mockBlockState.EXPECT().BestBlockHash().Return(common.Hash{}).AnyTimes()
	mockBlockState.EXPECT().GetRuntime(gomock.Any()).Return(nil, errEmptyKeyOwnershipProof).AnyTimes()

	verifier := newTestVerifier(kp, mockBlockState, recording, scale.MaxUint128, true)

	err = verifier.verifyAuthorshipRight(header)
	require.NoError(t, err)
	require.Len(t, header.Digest, 2, "seal is put back")
	require.Equal(t, sealedHash, header.Hash())

	// the identical header once more
	err = verifier.verifyAuthorshipRight(header)
	require.Empty(t, recording.proofs, "an identical header must never yield an equivocation proof")
	require.NoError(t, err)
}

type recordingSlotStateC27 struct {
	inner  *state.SlotState
	proofs []*types.BabeEquivocationProof
}

func (r *recordingSlotStateC27) CheckEquivocation(slotNow, slot uint64, header *types.Header,
	signer types.AuthorityID) (*types.BabeEquivocationProof, error) {
	proof, err := r.inner.CheckEquivocation(slotNow, slot, header, signer)
	if proof != nil {
		r.proofs = append(r.proofs, proof)
	}
	return proof, err
}

func encodeAndHashHeaderC27(t *testing.T, header *types.Header) []byte {
	t.Helper()
	hash := encodeAndHashHeader(t, header)
	return hash[:]
}
