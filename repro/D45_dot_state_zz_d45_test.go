package state

import (
	"testing"

	"github.com/ChainSafe/gossamer/dot/types"
	"github.com/ChainSafe/gossamer/lib/crypto/sr25519"
	"github.com/ChainSafe/gossamer/lib/keystore"
	"github.com/stretchr/testify/require"
	"go.uber.org/mock/gomock"
)

func TestD45(t *testing.T) {
	keyring, err := keystore.NewSr25519Keyring()
	require.NoError(t, err)
	genesisRaw := []types.GrandpaAuthoritiesRaw{{Key: keyring.KeyAlice.Public().(*sr25519.PublicKey).AsBytes()}}
	genesisAuths, err := types.GrandpaAuthoritiesRawToAuthorities(genesisRaw)
	require.NoError(t, err)
	genesisVoters := types.NewGrandpaVotersFromAuthorities(genesisAuths)
	change := types.GrandpaScheduledChange{Delay: 3, Auths: []types.GrandpaAuthoritiesRaw{{Key: keyring.KeyBob.Public().(*sr25519.PublicKey).AsBytes()}}}

	ctrl := gomock.NewController(t)
	telemetryMock := NewMockTelemetry(ctrl)
	telemetryMock.EXPECT().SendMessage(gomock.Any()).AnyTimes()
	db := NewInMemoryDB(t)
	blockState := testBlockState(t, db)
	gs, err := NewGrandpaStateFromGenesis(db, blockState, genesisVoters, telemetryMock)
	require.NoError(t, err)
	chain := issueBlocksWithBABEPrimary(t, keyring.KeyAlice, blockState, testGenesisHeader, 10)
	require.NoError(t, gs.addScheduledChange(chain[5], change)) // announced at #6, effective at #9

	require.NoError(t, gs.ApplyScheduledChanges(chain[6])) // finalise #7: not yet effective
	require.Equal(t, 1, gs.scheduledChangeRoots.Len(), "the pending change on the finalised chain must be kept")
	require.NoError(t, gs.ApplyScheduledChanges(chain[8])) // finalise #9
	setID, err := gs.GetCurrentSetID()
	require.NoError(t, err)
	require.Equal(t, uint64(1), setID)
}
