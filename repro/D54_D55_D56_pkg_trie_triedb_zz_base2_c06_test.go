// Place this file in: pkg/trie/triedb/ (package triedb)
// Minimal reproductions of three defects present on the UNCHANGED tree.

package triedb

import (
	"bytes"
	"testing"

	"github.com/ChainSafe/gossamer/internal/primitives/core/hash"
	"github.com/ChainSafe/gossamer/internal/primitives/runtime"
	"github.com/ChainSafe/gossamer/pkg/trie"
	inmemory_trie "github.com/ChainSafe/gossamer/pkg/trie/inmemory"
)

type base2KV struct {
	key   []byte
	value []byte
}

// base2SpecRoot is the root of a reference trie built with Puts only from the
// final key/value map (it never replays Deletes on the reference).
func base2SpecRoot(model map[string][]byte, v trie.TrieLayout) hash.H256 {
	ref := inmemory_trie.NewEmptyTrie()
	ref.SetVersion(v)
	for k, val := range model {
		if err := ref.Put([]byte(k), bytes.Clone(val)); err != nil {
			panic(err)
		}
	}
	return hash.H256(ref.MustHash().ToBytes())
}

func base2NewTrie() (*TrieDB[hash.H256, runtime.BlakeTwo256], *MemoryDB) {
	db := NewMemoryDB[hash.H256, runtime.BlakeTwo256](EmptyNode)
	return NewEmptyTrieDB[hash.H256, runtime.BlakeTwo256](db), db
}

// Deleting a key that is NOT in the map must be a no-op.
func TestBase2C06AbsentDelete(t *testing.T) {
	cases := map[string]struct {
		puts   []base2KV
		delete []byte
	}{
		// the absent key ends on the edge into a branch (partial key "23")
		// that holds the value of 0x0123 and has two children
		"value_lost_two_children": {
			puts: []base2KV{
				{[]byte{0x00}, []byte("d")},
				{[]byte{0x01, 0x23}, []byte("a")},
				{[]byte{0x01, 0x23, 0x45}, []byte("b")},
				{[]byte{0x01, 0x23, 0x55}, []byte("c")},
			},
			delete: []byte{0x01},
		},
		// same with the empty key and the root branch (partial key "12")
		"value_lost_empty_key": {
			puts: []base2KV{
				{[]byte{0x12}, []byte("a")},
				{[]byte{0x12, 0x30}, []byte("b")},
				{[]byte{0x12, 0x40}, []byte("c")},
			},
			delete: []byte{},
		},
		// the branch has a single child: fix() panics
		"panic_one_child": {
			puts: []base2KV{
				{[]byte{0x00}, []byte("d")},
				{[]byte{0x01, 0x23}, []byte("a")},
				{[]byte{0x01, 0x23, 0x45}, []byte("b")},
			},
			delete: []byte{0x01},
		},
		"panic_one_child_empty_key": {
			puts: []base2KV{
				{[]byte{0x12}, []byte("a")},
				{[]byte{0x12, 0x30}, []byte("b")},
			},
			delete: []byte{},
		},
	}

	for name, tc := range cases {
		tc := tc
		t.Run(name, func(t *testing.T) {
			defer func() {
				if r := recover(); r != nil {
					t.Errorf("Delete(%x) of an absent key panicked: %v", tc.delete, r)
				}
			}()
			tr, db := base2NewTrie()
			model := map[string][]byte{}
			for _, kv := range tc.puts {
				if err := tr.Put(bytes.Clone(kv.key), bytes.Clone(kv.value)); err != nil {
					t.Fatal(err)
				}
				model[string(kv.key)] = kv.value
			}
			if _, present := model[string(tc.delete)]; present {
				t.Fatal("test setup: key must be absent")
			}
			if err := tr.Delete(bytes.Clone(tc.delete)); err != nil {
				t.Fatalf("Delete(%x): %v", tc.delete, err)
			}

			root, err := tr.Hash()
			if err != nil {
				t.Fatal(err)
			}
			if want := base2SpecRoot(model, trie.V0); root != want {
				t.Errorf("root after deleting absent key %x: got %x want %x", tc.delete, root.Bytes(), want.Bytes())
			}
			fresh := NewTrieDB[hash.H256, runtime.BlakeTwo256](root, db)
			for k, v := range model {
				if got := fresh.Get([]byte(k)); !bytes.Equal(got, v) {
					t.Errorf("fresh.Get(%x) = %q, want %q", k, got, v)
				}
			}
		})
	}
}

// Reading an absent key on the writing instance before commit must give nil.
func TestBase2C06GetBeforeCommit(t *testing.T) {
	defer func() {
		if r := recover(); r != nil {
			t.Errorf("Get(0x12) on an uncommitted trie panicked: %v", r)
		}
	}()
	tr, _ := base2NewTrie()
	if err := tr.Put([]byte{0x12, 0x30}, []byte("b")); err != nil {
		t.Fatal(err)
	}
	if err := tr.Put([]byte{0x12, 0x40}, []byte("c")); err != nil {
		t.Fatal(err)
	}
	// 0x12 ends exactly on the value-less branch with partial key "12"
	if got := tr.Get([]byte{0x12}); got != nil {
		t.Errorf("Get(0x12) = %q, want nil", got)
	}
}

// The trie must not modify key slices owned by the caller, nor keep them.
func TestBase2C06KeyAliasing(t *testing.T) {
	// Delete merges a branch into its child in place (combineKey)
	t.Run("delete_rewrites_caller_key", func(t *testing.T) {
		tr, _ := base2NewTrie()
		k1 := []byte{0x01, 0x10, 0x00}
		k2 := []byte{0x11}
		k3 := []byte{0x11, 0x01, 0x00}
		for _, kv := range []base2KV{{k1, []byte("x")}, {k2, []byte("y")}, {k3, []byte("z")}} {
			if err := tr.Put(kv.key, kv.value); err != nil {
				t.Fatal(err)
			}
		}
		if err := tr.Delete([]byte{0x11}); err != nil {
			t.Fatal(err)
		}
		if !bytes.Equal(k1, []byte{0x01, 0x10, 0x00}) || !bytes.Equal(k2, []byte{0x11}) ||
			!bytes.Equal(k3, []byte{0x11, 0x01, 0x00}) {
			t.Errorf("caller keys changed: k1=%x k2=%x k3=%x, want 011000 11 110100", k1, k2, k3)
		}
	})

	// Puts alone are enough (NodeKeyRange shifts a sub slice of the key in place);
	// the key that gets rewritten is still in the map
	t.Run("put_rewrites_caller_key_of_live_entry", func(t *testing.T) {
		tr, db := base2NewTrie()
		ka := []byte{0x11, 0x01, 0x00}
		kb := []byte{0x01, 0x10}
		kc := []byte{0x01, 0x10, 0x00}
		kd := []byte{0x00}
		model := map[string][]byte{}
		for _, kv := range []base2KV{{ka, []byte("a")}, {kb, []byte("b")}, {kc, []byte("c")}, {kd, []byte("d")}} {
			model[string(kv.key)] = kv.value
			if err := tr.Put(kv.key, kv.value); err != nil {
				t.Fatal(err)
			}
		}
		if !bytes.Equal(kb, []byte{0x01, 0x10}) {
			t.Errorf("caller key kb changed from 0110 to %x", kb)
		}
		root, err := tr.Hash()
		if err != nil {
			t.Fatal(err)
		}
		if want := base2SpecRoot(model, trie.V0); root != want {
			t.Errorf("root: got %x want %x", root.Bytes(), want.Bytes())
		}
		fresh := NewTrieDB[hash.H256, runtime.BlakeTwo256](root, db)
		if got := fresh.Get(kb); !bytes.Equal(got, []byte("b")) {
			t.Errorf("fresh.Get(kb) = %q, want \"b\" (kb is now %x)", got, kb)
		}
	})

	// The uncommitted trie keeps pointing into the caller's buffer
	t.Run("caller_reuses_key_buffer", func(t *testing.T) {
		tr, db := base2NewTrie()
		if err := tr.Put([]byte{0x12, 0x30}, []byte("x")); err != nil {
			t.Fatal(err)
		}
		if err := tr.Put([]byte{0x12, 0x40}, []byte("y")); err != nil {
			t.Fatal(err)
		}
		// new leaves below the existing branch keep a view of buf
		buf := []byte{0x12, 0x56}
		if err := tr.Put(buf, []byte("a")); err != nil {
			t.Fatal(err)
		}
		buf[1] = 0x78
		if err := tr.Put(buf, []byte("b")); err != nil {
			t.Fatal(err)
		}
		model := map[string][]byte{
			string([]byte{0x12, 0x30}): []byte("x"),
			string([]byte{0x12, 0x40}): []byte("y"),
			string([]byte{0x12, 0x56}): []byte("a"),
			string([]byte{0x12, 0x78}): []byte("b"),
		}
		root, err := tr.Hash()
		if err != nil {
			t.Fatal(err)
		}
		if want := base2SpecRoot(model, trie.V0); root != want {
			t.Errorf("root: got %x want %x", root.Bytes(), want.Bytes())
		}
		fresh := NewTrieDB[hash.H256, runtime.BlakeTwo256](root, db)
		for k, v := range model {
			if got := fresh.Get([]byte(k)); !bytes.Equal(got, v) {
				t.Errorf("fresh.Get(%x) = %q, want %q", k, got, v)
			}
		}
	})
}
