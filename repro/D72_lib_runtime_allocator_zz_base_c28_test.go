// place this file in: lib/runtime/allocator   (fails on the UNCHANGED tree: pre-existing defects of property C28)

package allocator

import (
	"testing"
)

// sparseMemoryC28 is a runtime.Memory that only stores the 8 byte words written to it,
// so that a linear memory of up to 65536 pages (4 GiB) can be modelled without backing it.
type sparseMemoryC28 struct {
	pages    uint32
	maxPages uint32
	words    map[uint32]uint64
}

func newSparseMemoryC28(pages uint32) *sparseMemoryC28 {
	return &sparseMemoryC28{pages: pages, maxPages: MaxWasmPages, words: map[uint32]uint64{}}
}

func (m *sparseMemoryC28) Size() uint64 { return uint64(m.pages) * PageSize }
func (m *sparseMemoryC28) Grow(delta uint32) (uint32, bool) {
	if uint64(m.pages)+uint64(delta) > uint64(m.maxPages) {
		return 0, false
	}
	prev := m.pages
	m.pages += delta
	return prev, true
}
func (m *sparseMemoryC28) ReadUint64Le(offset uint32) (uint64, bool) {
	if uint64(offset)+8 > m.Size() || offset%8 != 0 {
		return 0, false
	}
	return m.words[offset], true
}
func (m *sparseMemoryC28) WriteUint64Le(offset uint32, v uint64) bool {
	if uint64(offset)+8 > m.Size() || offset%8 != 0 {
		return false
	}
	m.words[offset] = v
	return true
}

//nolint:govet
func (*sparseMemoryC28) ReadByte(uint32) (byte, bool)       { return 0, false }
func (*sparseMemoryC28) Read(uint32, uint64) ([]byte, bool) { return nil, false }

//nolint:govet
func (*sparseMemoryC28) WriteByte(uint32, byte) bool { return false }
func (*sparseMemoryC28) Write(uint32, []byte) bool   { return false }

type liveBlockC28 struct{ ptr, size uint32 }

// checkPtrC28 checks one successful allocation against the property: aligned, above the heap
// base, rounded-up block inside linear memory, disjoint from all live allocations.
func checkPtrC28(t *testing.T, what string, heapBase uint32, memSize uint64, live []liveBlockC28,
	ptr uint32, order Order) bool {
	t.Helper()
	ok := true
	if ptr%8 != 0 {
		t.Errorf("%s: pointer %d is not 8 byte aligned", what, ptr)
		ok = false
	}
	if uint64(ptr) < uint64(heapBase)+HeaderSize {
		t.Errorf("%s: pointer %d is below the heap base %d", what, ptr, heapBase)
		ok = false
	}
	if uint64(ptr)+uint64(order.size()) > memSize {
		t.Errorf("%s: block [%d, +%d) ends outside the linear memory of %d bytes", what, ptr, order.size(), memSize)
		ok = false
	}
	for _, b := range live {
		aLo, aHi := uint64(ptr)-HeaderSize, uint64(ptr)+uint64(order.size())
		bLo, bHi := uint64(b.ptr)-HeaderSize, uint64(b.ptr)+uint64(b.size)
		if aLo < bHi && bLo < aHi {
			t.Errorf("%s: block [%d, %d) overlaps the live block [%d, %d)", what, aLo, aHi, bLo, bHi)
			ok = false
			break
		}
	}
	return ok
}

// Finding 1: bump() computes the required size in 64 bits but advances the 32 bit bumper with
// `*bumper += size`. When a block ends exactly at the 4 GiB boundary (required size == 1<<32, which
// passes both MaxWasmPages checks) the bumper wraps around to 0: the following allocations are
// handed out from address 0 upwards, below the heap base, and then on top of live allocations.
func TestBaseC28_BumperWrapsAtFourGiB(t *testing.T) {
	// heap base of about 1 MiB, 127 blocks of 32 MiB, then 16, 8, 4, 2 and 1 MiB:
	// 1047520 + 127*(1<<25+8) + (1<<24+8) + (1<<23+8) + (1<<22+8) + (1<<21+8) + (1<<20+8) == 1<<32
	const heapBase = 1047520
	mem := newSparseMemoryC28(17)
	heap := NewFreeingBumpHeapAllocator(heapBase)

	var live []liveBlockC28
	alloc := func(size uint32) {
		t.Helper()
		ptr, err := heap.Allocate(mem, size)
		if err != nil {
			t.Fatalf("Allocate(%d): %v", size, err)
		}
		order, _ := orderFromSize(size)
		if !checkPtrC28(t, "filling", heapBase, mem.Size(), live, ptr, order) {
			t.FailNow()
		}
		live = append(live, liveBlockC28{ptr, order.size()})
	}
	for i := 0; i < 127; i++ {
		alloc(MaxPossibleAllocations)
	}
	for _, size := range []uint32{1 << 24, 1 << 23, 1 << 22, 1 << 21, 1 << 20} {
		alloc(size)
	}
	last := live[len(live)-1]
	if uint64(last.ptr)+uint64(last.size) != 1<<32 || mem.Size() != 1<<32 {
		t.Fatalf("setup: last block ends at %d, memory size %d", uint64(last.ptr)+uint64(last.size), mem.Size())
	}
	t.Logf("heap is full: last block ends at 1<<32, bumper is now %d", heap.bumper)

	// the address space is exhausted: these must fail with ErrAllocatorOutOfSpace
	for _, size := range []uint32{8, 1 << 20} {
		ptr, err := heap.Allocate(mem, size)
		if err != nil {
			t.Logf("Allocate(%d) refused: %v", size, err)
			break
		}
		order, _ := orderFromSize(size)
		checkPtrC28(t, "after the heap is full", heapBase, mem.Size(), live, ptr, order)
		live = append(live, liveBlockC28{ptr, order.size()})
	}
	if mem.Size() > 1<<32 {
		t.Errorf("memory grew past 4 GiB: %d", mem.Size())
	}
}

// The same wrap with the smallest possible sequence.
func TestBaseC28_BumperWrapsAtFourGiB_Minimal(t *testing.T) {
	const heapBase = 1<<32 - 16
	mem := newSparseMemoryC28(MaxWasmPages)
	heap := NewFreeingBumpHeapAllocator(heapBase)

	ptr, err := heap.Allocate(mem, 8)
	if err != nil || ptr != 1<<32-8 {
		t.Fatalf("setup: ptr %d err %v", ptr, err)
	}
	ptr, err = heap.Allocate(mem, 8)
	if err == nil {
		t.Errorf("Allocate(8) on a full 4 GiB heap returned %d (heap base %d, bumper now %d), want an error",
			ptr, uint32(heapBase), heap.bumper)
	}
}

// Finding 2: NewFreeingBumpHeapAllocator aligns with (heapBase + 7) / 8 * 8 in uint32, which wraps
// to 0 for a heap base in the last 7 bytes of the address space: allocations start at address 0.
func TestBaseC28_HeapBaseAlignmentWraps(t *testing.T) {
	const heapBase = 1<<32 - 5
	mem := newSparseMemoryC28(MaxWasmPages)
	heap := NewFreeingBumpHeapAllocator(heapBase)
	ptr, err := heap.Allocate(mem, 8)
	if err == nil {
		t.Errorf("heap base %d: Allocate(8) returned %d, which is below the heap base (aligned heap base is %d)",
			uint32(heapBase), ptr, heap.originalHeapBase)
	}
}

// Finding 3 (by design, same as the Substrate allocator): Deallocate trusts whatever 8 bytes
// precede the pointer. A pointer into the middle of a live allocation whose payload happens to
// look like an occupied header is accepted (no error, no poisoning), and the next allocation of
// that class is carved out of the live allocation.
func TestBaseC28_InvalidFreeInsideLiveAllocationAccepted(t *testing.T) {
	mem := NewMemoryInstanceWithPages(t, 1)
	heap := NewFreeingBumpHeapAllocator(0)

	p, err := heap.Allocate(mem, 16)
	if err != nil {
		t.Fatal(err)
	}
	// the guest stores the value 1<<32 in the first word of its own buffer
	mem.WriteUint64Le(p, 1<<32)

	// p+8 was never returned by Allocate
	err = heap.Deallocate(mem, p+8)
	if err == nil {
		t.Errorf("Deallocate(%d) of a pointer that was never allocated succeeded (poisoned=%v)", p+8, heap.poisoned)
		q, err := heap.Allocate(mem, 8)
		if err == nil && q >= p && q < p+16 {
			t.Errorf("Allocate(8) returned %d inside the live allocation [%d, %d)", q, p, p+16)
		}
	}
}
