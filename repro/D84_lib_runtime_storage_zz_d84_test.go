package storage

import (
	"testing"

	"github.com/ChainSafe/gossamer/pkg/trie/inmemory"
	"github.com/stretchr/testify/require"
)

// Outside a transaction the child-trie mutators changed the child in place and left the child root stored in the
// parent trie (and the parent's root) untouched.
func TestD84ChildRootAfterDirectChildMutation(t *testing.T) {
	build := func(entries map[string]string) *TrieState {
		ts := NewTrieState(inmemory.NewEmptyTrie())
		for k, v := range entries {
			require.NoError(t, ts.SetChildStorage([]byte("c"), []byte(k), []byte(v)))
		}
		return ts
	}
	all := map[string]string{"pa": "1", "pb": "2", "q": "3"}

	t.Run("ClearPrefixInChild", func(t *testing.T) {
		ts := build(all)
		require.NoError(t, ts.ClearPrefixInChild([]byte("c"), []byte("p")))
		want := build(map[string]string{"q": "3"})
		requireSameRoot(t, want, ts)
	})
	t.Run("ClearPrefixInChildWithLimit", func(t *testing.T) {
		ts := build(all)
		deleted, allDeleted, err := ts.ClearPrefixInChildWithLimit([]byte("c"), []byte("p"), 1)
		require.NoError(t, err)
		require.Equal(t, uint32(1), deleted)
		require.False(t, allDeleted)
		want := build(map[string]string{"pb": "2", "q": "3"})
		requireSameRoot(t, want, ts)
	})
	t.Run("DeleteChildLimit", func(t *testing.T) {
		ts := build(all)
		limit := []byte{1, 0, 0, 0}
		deleted, allDeleted, err := ts.DeleteChildLimit([]byte("c"), &limit)
		require.NoError(t, err)
		require.Equal(t, uint32(1), deleted)
		require.False(t, allDeleted)
		want := build(map[string]string{"pb": "2", "q": "3"})
		requireSameRoot(t, want, ts)
	})
}

func requireSameRoot(t *testing.T, want, got *TrieState) {
	t.Helper()
	w, err := want.Trie().Hash()
	require.NoError(t, err)
	g, err := got.Trie().Hash()
	require.NoError(t, err)
	require.Equal(t, w, g)
}
