// place this file in: dot/state  (package state). It FAILS on the unchanged tree.

package state

import (
	"testing"

	"github.com/ChainSafe/gossamer/dot/types"
	"github.com/ChainSafe/gossamer/lib/crypto/sr25519"
	"github.com/ChainSafe/gossamer/lib/keystore"
	"github.com/stretchr/testify/require"
	"go.uber.org/mock/gomock"
)

func baseC23Setup(t *testing.T) (*GrandpaState, *keystore.Sr25519Keyring) {
	t.Helper()
	keyring, err := keystore.NewSr25519Keyring()
	require.NoError(t, err)
	db := NewInMemoryDB(t)

	ctrl := gomock.NewController(t)
	tm := NewMockTelemetry(ctrl)
	tm.EXPECT().SendMessage(gomock.Any()).AnyTimes()
	bs, err := NewBlockStateFromGenesis(db, newTriesEmpty(), testGenesisHeader, tm)
	require.NoError(t, err)

	auths, err := types.GrandpaAuthoritiesRawToAuthorities(baseC23Auths(keyring.KeyAlice))
	require.NoError(t, err)
	gs, err := NewGrandpaStateFromGenesis(db, bs, types.NewGrandpaVotersFromAuthorities(auths), tm)
	require.NoError(t, err)
	return gs, keyring
}

func baseC23Auths(k *sr25519.Keypair) []types.GrandpaAuthoritiesRaw {
	return []types.GrandpaAuthoritiesRaw{{Key: k.Public().(*sr25519.PublicKey).AsBytes(), ID: 1}}
}

// Finding 1: a pending change announced on a fork that is abandoned by a (real) finalisation.
//
//	1 -> 2 -> 3 -> 4 -> 5 -> ...   (A)   scheduled change announced by A#4, delay 1 (effective A#5)
//	      \-> 3 -> 4 -> 5 -> ...   (B)   scheduled change announced by B#4, delay 1
//
// Finalising A#3 through BlockState.SetFinalisedHash prunes fork B from the block tree and
// drops its blocks (they were never written to the database). From then on every ancestry
// check that involves B#4 fails with "getting header: ... not found", so
// ApplyScheduledChanges returns an error for every later finalised block instead of
// discarding the change of the abandoned fork, and the change announced by A#4 is never applied
// (and addScheduledChange / addForcedChange of later blocks fail too).
// Substrate: the B change is discarded, the A change is applied when A#5 is finalised (set id 1).
func TestBaseC23_ChangeOnAbandonedForkBlocksLaterChanges(t *testing.T) {
	for _, kind := range []string{"scheduled", "forced"} {
		kind := kind
		t.Run(kind+"_change_on_abandoned_fork", func(t *testing.T) {
			gs, kr := baseC23Setup(t)
			bs := gs.blockState
			chainA := issueBlocksWithBABEPrimary(t, kr.KeyAlice, bs, testGenesisHeader, 8)
			chainB := issueBlocksWithBABEPrimary(t, kr.KeyBob, bs, chainA[1], 8)

			// B#4 (chainB[0] is B#3)
			if kind == "scheduled" {
				require.NoError(t, gs.addScheduledChange(chainB[1],
					types.GrandpaScheduledChange{Delay: 1, Auths: baseC23Auths(kr.KeyBob)}))
			} else {
				require.NoError(t, gs.addForcedChange(chainB[1],
					types.GrandpaForcedChange{Delay: 5, BestFinalizedBlock: 1, Auths: baseC23Auths(kr.KeyBob)}))
			}
			// A#4, effective at A#5
			require.NoError(t, gs.addScheduledChange(chainA[3],
				types.GrandpaScheduledChange{Delay: 1, Auths: baseC23Auths(kr.KeyCharlie)}))

			// finalise A#3: fork B is abandoned
			require.NoError(t, bs.SetFinalisedHash(chainA[2].Hash(), 1, 0))
			require.NoError(t, gs.ApplyScheduledChanges(chainA[2]),
				"finalising A#3 must discard the change of the abandoned fork B")

			// finalise A#5: the change announced by A#4 takes effect
			require.NoError(t, bs.SetFinalisedHash(chainA[4].Hash(), 2, 0))
			require.NoError(t, gs.ApplyScheduledChanges(chainA[4]))

			setID, err := gs.GetCurrentSetID()
			require.NoError(t, err)
			require.Equal(t, uint64(1), setID)
		})
	}
}

// Finding 2: a forced change that is applied while the current set id is > 0 overwrites the
// block at which the CURRENT set started (setChangeSetIDAtBlock(currentSetID, bestFinalized)),
// so GetSetIDByBlockNumber reports the previous set for blocks that belong to the current one.
//
//	scheduled change announced by #2, delay 1 -> set 1 starts after block 3
//	forced change announced by #8, delay 2, best finalised 6 -> set 2 starts after block 10
//
// Substrate (authority_set_changes = [(0, 3), (1, 6)]): blocks 4..6 belong to set 1.
// Unchanged tree: blocks 4..6 are reported as set 0.
func TestBaseC23_ForcedChangeRewritesStartOfCurrentSet(t *testing.T) {
	gs, kr := baseC23Setup(t)
	bs := gs.blockState
	chainA := issueBlocksWithBABEPrimary(t, kr.KeyAlice, bs, testGenesisHeader, 12)

	require.NoError(t, gs.addScheduledChange(chainA[1],
		types.GrandpaScheduledChange{Delay: 1, Auths: baseC23Auths(kr.KeyCharlie)})) // effective #3
	require.NoError(t, gs.ApplyScheduledChanges(chainA[2]))
	setID, err := gs.GetCurrentSetID()
	require.NoError(t, err)
	require.Equal(t, uint64(1), setID)

	for n := uint(4); n <= 6; n++ {
		got, err := gs.GetSetIDByBlockNumber(n)
		require.NoError(t, err)
		require.Equal(t, uint64(1), got, "before the forced change: block %d", n)
	}

	require.NoError(t, gs.addForcedChange(chainA[7],
		types.GrandpaForcedChange{Delay: 2, BestFinalizedBlock: 6, Auths: baseC23Auths(kr.KeyBob)})) // effective #10
	require.NoError(t, gs.ApplyForcedChanges(chainA[9]))
	setID, err = gs.GetCurrentSetID()
	require.NoError(t, err)
	require.Equal(t, uint64(2), setID)

	for n := uint(1); n <= 3; n++ {
		got, err := gs.GetSetIDByBlockNumber(n)
		require.NoError(t, err)
		require.Equal(t, uint64(0), got, "block %d", n)
	}
	// blocks 4..6 were finalised by set 1 (6 is the best finalised block of the forced change)
	for n := uint(4); n <= 6; n++ {
		got, err := gs.GetSetIDByBlockNumber(n)
		require.NoError(t, err)
		require.Equal(t, uint64(1), got, "after the forced change: block %d", n)
	}
	for n := uint(11); n <= 12; n++ {
		got, err := gs.GetSetIDByBlockNumber(n)
		require.NoError(t, err)
		require.Equal(t, uint64(2), got, "block %d", n)
	}
}
