// place in: pkg/trie/cache/inmemory (package inmemory)

package inmemory

import (
	"fmt"
	"testing"
)

// TestBaseC35ValueCacheGetDoesNotRefreshRecency fails on the UNCHANGED tree.
//
// maxBytesLRUCache.set stores every item with a TTL of 0, so the item is
// already expired when it is stored. ccache only promotes items that are not
// expired (Cache.Get: `if !item.Expired() { promotables <- item }`), so a get
// never refreshes the recency of a value: the trie value cache evicts in
// insertion order (FIFO), not in least-recently-used order.
func TestBaseC35ValueCacheGetDoesNotRefreshRecency(t *testing.T) {
	const entries = 1000
	const entrySize = 1 + cacheValueOverheadSize

	c := newLruCache(entries * entrySize)
	for i := 0; i < entries; i++ {
		c.set(fmt.Sprintf("k%04d", i), []byte{byte(i)})
	}
	c.lru.SyncUpdates()
	if size := c.lru.GetSize(); size != entries*entrySize {
		t.Fatalf("unexpected size %d", size)
	}

	// k0000 is the oldest entry: use it repeatedly (ccache promotes an item
	// on every 3rd get) so that it becomes the most recently used one.
	for i := 0; i < 9; i++ {
		if v := c.get("k0000"); len(v) != 1 {
			t.Fatalf("k0000 missing before the cache overflows")
		}
		c.lru.SyncUpdates()
	}

	// one more entry: the cache is over its size, the least recently used
	// entries (a batch of 500) are evicted
	c.set("overflow", []byte{1})
	c.lru.SyncUpdates()

	if v := c.get("k0250"); v != nil {
		t.Fatalf("k0250 was neither used nor among the newest entries, it should have been evicted")
	}
	if v := c.get("k0000"); v == nil {
		t.Fatalf("k0000 was the most recently used entry before the overflow but it was evicted: " +
			"get does not refresh recency")
	}
}
