// place in: pkg/finality-grandpa
// Copyright 2023 ChainSafe Systems (ON)
// SPDX-License-Identifier: LGPL-3.0-only

package grandpa

import "testing"

// 4 voters of weight 1: threshold 3, tolerated equivocation weight f = 1.
// Two voters equivocate in the precommit phase (weight 2 > f), so
// `toleratedEquivocations - currentEquivocations` in Round.update() wraps around
// instead of saturating at 0 as the Rust reference does.
func TestBaseC20EquivocationUnderflow(t *testing.T) {
	chain := newDummyChain()
	chain.PushBlocks(GenesisHash, []string{"A", "B", "C", "D", "E", "F"})
	chain.PushBlocks("E", []string{"EA"})

	voters := NewVoterSet([]IDWeight[string]{{"a", 1}, {"b", 1}, {"c", 1}, {"d", 1}})
	round := NewRound[string, string, uint32, string](RoundParams[string, string, uint32]{
		RoundNumber: 1,
		Voters:      *voters,
		Base:        HashNumber[string, uint32]{"C", chain.Number("C")},
	})

	prevote := func(voter, target, sig string) {
		t.Helper()
		_, err := round.importPrevote(chain, Prevote[string, uint32]{target, chain.Number(target)}, voter, sig)
		if err != nil {
			t.Fatal(err)
		}
	}
	precommit := func(voter, target, sig string) {
		t.Helper()
		_, err := round.importPrecommit(chain, Precommit[string, uint32]{target, chain.Number(target)}, voter, sig)
		if err != nil {
			t.Fatal(err)
		}
	}
	name := func(hn *HashNumber[string, uint32]) string {
		if hn == nil {
			return "<nil>"
		}
		return hn.Hash
	}
	check := func(step, ghost, finalized, estimate string, completable bool) {
		t.Helper()
		st := round.State()
		if name(st.PrevoteGHOST) != ghost || name(st.Finalized) != finalized ||
			name(st.Estimate) != estimate || st.Completable != completable {
			t.Errorf("%s:\n  got  ghost=%s finalized=%s estimate=%s completable=%v\n  want ghost=%s finalized=%s estimate=%s completable=%v",
				step, name(st.PrevoteGHOST), name(st.Finalized), name(st.Estimate), st.Completable,
				ghost, finalized, estimate, completable)
		}
	}

	for _, v := range []string{"a", "b", "c", "d"} {
		prevote(v, "F", v)
	}
	precommit("c", "EA", "c")
	precommit("d", "EA", "d")
	precommit("a", "EA", "a1")
	precommit("b", "EA", "b1")
	// all weight precommitted on EA, nothing on F: F cannot get a supermajority any more
	check("no equivocation", "F", "E", "E", true)

	// a equivocates (weight 1 == f): F carries weight 1, no further equivocations tolerated
	precommit("a", "F", "a2")
	check("one equivocator", "F", "E", "E", true)

	// b equivocates as well (weight 2 > f): F carries weight 2 < 3, no votes remain and
	// (saturating) no further equivocations are tolerated, so the estimate stays at E
	precommit("b", "F", "b2")
	check("two equivocators", "F", "E", "E", true)
}
