// Place this file in: pkg/trie/triedb/codec (package codec). It fails on the UNCHANGED tree.

package codec

import (
	"bytes"
	"runtime"
	"testing"

	"github.com/ChainSafe/gossamer/internal/primitives/core/hash"
	"github.com/ChainSafe/gossamer/pkg/trie/triedb/nibbles"
)

// A hashed value (or hashed child) whose 32 hash bytes are all zero does not
// round trip: H256.UnmarshalSCALE leaves the hash as the empty string, so the
// decoded node holds a 0-byte hash and re-encodes to a truncated node.
func TestBaseC07_ZeroHashDoesNotRoundTrip(t *testing.T) {
	zero := make([]byte, 32)

	original := Leaf{
		PartialKey: nibbles.NewNibbles([]byte{0x09}, 1),
		Value:      HashedValue[hash.H256]{Hash: hash.H256(zero)},
	}
	encoding := bytes.NewBuffer(nil)
	if err := EncodeHeader([]byte{0x09}, 1, LeafWithHashedValue, encoding); err != nil {
		t.Fatal(err)
	}
	if err := original.Value.Write(encoding); err != nil {
		t.Fatal(err)
	}
	if encoding.Len() != 2+32 {
		t.Fatalf("unexpected encoding length %d", encoding.Len())
	}

	decoded, err := Decode[hash.H256](bytes.NewReader(encoding.Bytes()))
	if err != nil {
		t.Fatal(err)
	}
	value := decoded.GetValue().(HashedValue[hash.H256])
	if got := len(value.Hash.Bytes()); got != 32 {
		t.Errorf("decoded hashed value has %d bytes, want 32", got)
	}
	if decoded.(Leaf).Value != original.Value {
		t.Errorf("decoded value %v differs from the encoded value %v", decoded.(Leaf).Value, original.Value)
	}
	reencoded := bytes.NewBuffer(nil)
	if err := value.Write(reencoded); err != nil {
		t.Fatal(err)
	}
	if reencoded.Len() != 32 {
		t.Errorf("re-encoded hashed value has %d bytes, want 32", reencoded.Len())
	}

	// same for a hashed child of a branch
	branchEncoding := []byte{branchVariant.bits, 0b0000_0001, 0b0000_0000, 32 << 2}
	branchEncoding = append(branchEncoding, zero...)
	decodedBranch, err := Decode[hash.H256](bytes.NewReader(branchEncoding))
	if err != nil {
		t.Fatal(err)
	}
	child := decodedBranch.(Branch).Children[0].(HashedNode[hash.H256])
	if got := len(child.Hash.Bytes()); got != 32 {
		t.Errorf("decoded child hash has %d bytes, want 32", got)
	}
}

// A node cut short inside its SCALE encoded value (or child reference) is
// accepted and silently completed with zero bytes: scale's decodeBytes
// ignores the count returned by Read.
func TestBaseC07_TruncatedValueIsAccepted(t *testing.T) {
	truncated := []byte{
		leafVariant.bits | 1, 0x09,
		10 << 2, // the value is announced with 10 bytes
		1, 2, 3, // but only 3 are present
	}
	n, err := Decode[hash.H256](bytes.NewReader(truncated))
	if err == nil {
		t.Errorf("truncated leaf decoded without an error to value %x", []byte(n.GetValue().(InlineValue)))
	}

	truncatedBranch := []byte{
		branchVariant.bits, 0b0000_0001, 0b0000_0000,
		32 << 2,    // child hash announced with 32 bytes
		0xaa, 0xbb, // only two present
	}
	b, err := Decode[hash.H256](bytes.NewReader(truncatedBranch))
	if err == nil {
		t.Errorf("truncated branch decoded without an error to child %v", b.(Branch).Children[0])
	}
}

// Six bytes of input make the decoder allocate the announced value length
// (up to 4 GiB - 1; 256 MiB is used here) before it notices that the bytes are not there.
func TestBaseC07_AnnouncedLengthIsAllocatedUpfront(t *testing.T) {
	input := []byte{
		leafVariant.bits | 1, 0x09,
		0x02, 0x00, 0x00, 0x40, // compact length 1<<28 = 256 MiB (four byte mode)
	}
	var before, after runtime.MemStats
	runtime.ReadMemStats(&before)
	_, err := Decode[hash.H256](bytes.NewReader(input))
	runtime.ReadMemStats(&after)
	if err == nil {
		t.Errorf("expected an error")
	}
	if allocated := after.TotalAlloc - before.TotalAlloc; allocated > 1<<20 {
		t.Errorf("decoding %d bytes allocated %d bytes", len(input), allocated)
	}
}
