// Place this file in: lib/keystore  (package keystore). Fails on the UNCHANGED tree.

package keystore

import (
	"bytes"
	"encoding/json"
	"os"
	"path/filepath"
	"strings"
	"testing"

	"github.com/ChainSafe/gossamer/lib/crypto"
	"github.com/ChainSafe/gossamer/lib/crypto/secp256k1"
)

func noPanic(t *testing.T, what string, f func()) {
	t.Helper()
	defer func() {
		if r := recover(); r != nil {
			t.Errorf("%s: panicked instead of returning an error: %v", what, r)
		}
	}()
	f()
}

// An authentic ciphertext (right password, untouched tag) whose 32-byte plaintext is not a valid
// secp256k1 scalar (zero, or >= the group order) crashes DecryptPrivateKey: go-ethereum's
// ToECDSAUnsafe returns nil for such input and secp256k1.PrivateKey.Decode dereferences it.
func TestBaseC37_Secp256k1InvalidScalarCrashes(t *testing.T) {
	password := []byte("noot")

	for name, scalar := range map[string][]byte{
		"zero":          make([]byte, 32),
		"all-ones(>=N)": bytes.Repeat([]byte{0xff}, 32),
	} {
		data, err := Encrypt(scalar, password)
		if err != nil {
			t.Fatal(err)
		}

		noPanic(t, "DecryptPrivateKey/"+name, func() {
			priv, err := DecryptPrivateKey(data, password, crypto.Secp256k1Type)
			if err == nil {
				t.Errorf("DecryptPrivateKey/%s: no error, got key %x", name, priv.Encode())
			}
		})

		path := filepath.Join(t.TempDir(), "k.key")
		raw, err := json.Marshal(&EncryptedKeystore{Type: crypto.Secp256k1Type, PublicKey: "0x00", Ciphertext: data})
		if err != nil {
			t.Fatal(err)
		}
		if err = os.WriteFile(path, raw, 0600); err != nil {
			t.Fatal(err)
		}
		noPanic(t, "ReadFromFileAndDecrypt/"+name, func() {
			if _, err := ReadFromFileAndDecrypt(path, password); err == nil {
				t.Errorf("ReadFromFileAndDecrypt/%s: no error", name)
			}
		})
	}

	// same crash from the raw import path (gossamer account import-raw --scheme secp256k1)
	noPanic(t, "ImportRawPrivateKey/zero", func() {
		_, err := ImportRawPrivateKey("0x"+strings.Repeat("00", 32), crypto.Secp256k1Type, t.TempDir(), password)
		if err == nil {
			t.Errorf("ImportRawPrivateKey/zero: no error")
		}
	})
}

// A truncated / stripped key file ("{}" or one whose PublicKey is shorter than 2 characters)
// makes ImportKeypair slice out of range.
func TestBaseC37_ImportKeypairShortPublicKeyCrashes(t *testing.T) {
	for _, content := range []string{`{}`, `{"Type":"sr25519","PublicKey":"0","Ciphertext":""}`} {
		src := filepath.Join(t.TempDir(), "in.key")
		if err := os.WriteFile(src, []byte(content), 0600); err != nil {
			t.Fatal(err)
		}
		noPanic(t, "ImportKeypair "+content, func() {
			if _, err := ImportKeypair(src, t.TempDir()); err == nil {
				t.Errorf("ImportKeypair(%s): no error", content)
			}
		})
	}
}

// The Type field of the key file is not bound to the ciphertext: editing it from secp256k1 to
// sr25519 (both 32-byte encodings) makes ReadFromFileAndDecrypt return, without error, a key of a
// different scheme with a different public key than the one that was stored.
func TestBaseC37_KeyFileTypeFieldNotAuthenticated(t *testing.T) {
	password := []byte("noot")
	path := filepath.Join(t.TempDir(), "k.key")

	kp, err := secp256k1.GenerateKeypair()
	if err != nil {
		t.Fatal(err)
	}
	if err = EncryptAndWriteToFile(path, kp.Private(), password); err != nil {
		t.Fatal(err)
	}

	raw, err := os.ReadFile(path)
	if err != nil {
		t.Fatal(err)
	}
	tampered := bytes.Replace(raw, []byte(`"secp256k1"`), []byte(`"sr25519"`), 1)
	if bytes.Equal(raw, tampered) {
		t.Fatal("type field not found")
	}
	if err = os.WriteFile(path, tampered, 0600); err != nil {
		t.Fatal(err)
	}

	res, err := ReadFromFileAndDecrypt(path, password)
	if err == nil {
		_, isSecp := res.(*secp256k1.PrivateKey)
		gotPub := "<unusable: Public() fails>"
		if pub, perr := res.Public(); perr == nil {
			gotPub = pub.Hex()
		}
		t.Errorf("tampered key file accepted: returned %T (secp256k1: %v) with public key %s, stored key had %s",
			res, isSecp, gotPub, kp.Public().Hex())
	}
}
