// place this file in: dot/state (package state)
//
// Every subtest below FAILS on the unchanged tree: each one shows a block that does
// not get the epoch data / configuration announced on its own ancestry.

package state

import (
	"testing"

	"github.com/ChainSafe/gossamer/dot/types"
	"github.com/ChainSafe/gossamer/lib/common"
	"github.com/ChainSafe/gossamer/tests/utils/config"
	"github.com/stretchr/testify/require"
)

func baseC26Header(t *testing.T, parent common.Hash, number uint, slot uint64) *types.Header {
	t.Helper()
	header := types.NewEmptyHeader()
	header.ParentHash = parent
	header.Number = number
	header.Digest = buildBlockPrimaryDigest(t, types.BabePrimaryPreDigest{AuthorityIndex: 0, SlotNumber: slot})
	return header
}

func baseC26Import(t *testing.T, bs *BlockState, header *types.Header) {
	t.Helper()
	err := bs.AddBlock(&types.Block{Header: *header, Body: *types.NewBody([]types.Extrinsic{})})
	require.NoError(t, err)
}

func baseC26Block(t *testing.T, bs *BlockState, parent common.Hash, number uint, slot uint64) *types.Header {
	t.Helper()
	header := baseC26Header(t, parent, number, slot)
	baseC26Import(t, bs, header)
	return header
}

func baseC26AnnounceData(t *testing.T, s *EpochState, header *types.Header, tag byte) types.NextEpochData {
	t.Helper()
	data := types.NextEpochData{
		Authorities: []types.AuthorityRaw{{Key: [32]byte{tag}, Weight: 1}},
		Randomness:  [32]byte{tag, tag},
	}
	digest := types.NewBabeConsensusDigest()
	require.NoError(t, digest.SetValue(data))
	require.NoError(t, s.HandleBABEDigest(header, digest))
	return data
}

func baseC26AnnounceConfig(t *testing.T, s *EpochState, header *types.Header, c2 uint64) types.NextConfigDataV1 {
	t.Helper()
	cfg := types.NextConfigDataV1{C1: 1, C2: c2, SecondarySlots: 1}
	versioned := types.NewVersionedNextConfigData()
	require.NoError(t, versioned.SetValue(cfg))
	digest := types.NewBabeConsensusDigest()
	require.NoError(t, digest.SetValue(versioned))
	require.NoError(t, s.HandleBABEDigest(header, digest))
	return cfg
}

func TestBaseC26(t *testing.T) {
	// genesis - b1 - x - c        c is in epoch 2
	//                 \ b         b is in epoch 4 (epochs 2 and 3 are skipped on its fork)
	// x is in epoch 1 and announces the data and the configuration of epoch 2.
	// Importing b re-keys x's announcement from epoch 2 to epoch 4 (as
	// core.Service.HandleBlockImport does) and takes it away from the sibling c.
	t.Run("skipping_fork_takes_the_announcement_away_from_its_sibling", func(t *testing.T) {
		s := newTestEpochStateFromGenesis(t)
		bs := s.blockState
		l := s.epochLength

		b1 := baseC26Block(t, bs, bs.genesisHash, 1, 1)
		x := baseC26Block(t, bs, b1.Hash(), 2, 1+l)
		dataX := baseC26AnnounceData(t, s, x, 0x11)
		cfgX := baseC26AnnounceConfig(t, s, x, 9)
		c := baseC26Block(t, bs, x.Hash(), 3, 1+2*l)

		got, err := s.GetEpochDataRaw(2, c)
		require.NoError(t, err)
		require.Equal(t, dataX.ToEpochDataRaw(), got)

		b := baseC26Header(t, x.Hash(), 3, 1+4*l)
		require.NoError(t, s.UpdateSkippedEpochDefinitions(2, 4, b))
		baseC26Import(t, bs, b)

		// b uses x's announcement for epoch 4
		got, err = s.GetEpochDataRaw(4, b)
		require.NoError(t, err)
		require.Equal(t, dataX.ToEpochDataRaw(), got)

		// c is still in epoch 2 and its ancestry (x) announced the data of epoch 2
		gotCfg, err := s.GetConfigData(2, c)
		require.NoError(t, err)
		require.Equal(t, cfgX.ToConfigData(), gotCfg, "c silently gets the genesis configuration")

		got, err = s.GetEpochDataRaw(2, c)
		require.NoError(t, err)
		require.Equal(t, dataX.ToEpochDataRaw(), got)
	})

	// genesis - b1 - xa              xa (epoch 1) announces a configuration for epoch 2
	//              \ xb - b          xb (epoch 1) announces only epoch data, b is in epoch 4
	// Only the other fork announced a configuration for the skipped epoch: b must keep
	// the latest earlier configuration of its own chain, instead the lookup and the
	// block import (UpdateSkippedEpochDefinitions) fail with errHashNotInMemory.
	t.Run("skipped_epoch_configuration_announced_only_on_another_fork", func(t *testing.T) {
		s := newTestEpochStateFromGenesis(t)
		bs := s.blockState
		l := s.epochLength

		b1 := baseC26Block(t, bs, bs.genesisHash, 1, 1)
		xa := baseC26Block(t, bs, b1.Hash(), 2, 1+l)
		baseC26AnnounceData(t, s, xa, 0x21)
		baseC26AnnounceConfig(t, s, xa, 9)
		xb := baseC26Block(t, bs, b1.Hash(), 2, 2+l)
		baseC26AnnounceData(t, s, xb, 0x22)

		b := baseC26Header(t, xb.Hash(), 3, 1+4*l)

		gotCfg, err := s.GetSkippedConfigData(2, 4, b)
		require.NoError(t, err)
		require.Equal(t, s.genesisEpochDescriptor.ConfigData, gotCfg)

		require.NoError(t, s.UpdateSkippedEpochDefinitions(2, 4, b))
	})

	// genesis - b1 - b2 - b3    b1 epoch 0 (announces epoch 1), b2 epoch 1 (announces epoch 2), b3 epoch 1
	// b2 is the first block whose finalisation is notified (b1 is finalised with it as
	// its ancestor). FinalizeBABENextEpochData(b2) persists epoch 2 and drops every
	// in-memory epoch <= 2, including epoch 1 which was never persisted.
	t.Run("finalisation_drops_the_never_persisted_data_of_the_current_epoch", func(t *testing.T) {
		s := newTestEpochStateFromGenesis(t)
		bs := s.blockState
		l := s.epochLength

		b1 := baseC26Block(t, bs, bs.genesisHash, 1, 1)
		data1 := baseC26AnnounceData(t, s, b1, 0x31)
		b2 := baseC26Block(t, bs, b1.Hash(), 2, 1+l)
		baseC26AnnounceData(t, s, b2, 0x32)
		b3 := baseC26Block(t, bs, b2.Hash(), 3, 2+l)

		got, err := s.GetEpochDataRaw(1, b3)
		require.NoError(t, err)
		require.Equal(t, data1.ToEpochDataRaw(), got)

		require.NoError(t, bs.SetFinalisedHash(b2.Hash(), 1, 0))
		require.NoError(t, s.FinalizeBABENextEpochData(b2))
		require.NoError(t, s.FinalizeBABENextConfigData(b2))

		got, err = s.GetEpochDataRaw(1, b3)
		require.NoError(t, err)
		require.Equal(t, data1.ToEpochDataRaw(), got)
	})

	// genesis - b1 - b2 - b3    b1 epoch 0 (announces epoch 1), b2 epoch 9 (announces epoch 10), b3 epoch 10
	// Finalising b1 removes the persisted announcements of epoch 1 from disk with the key
	// prefix "nextepochdata1", which also matches "nextepochdata10:<hash>": after a restart
	// the announcement for epoch 10 is gone.
	t.Run("disk_cleanup_of_epoch_1_removes_epoch_10_announcements", func(t *testing.T) {
		db := NewInMemoryDB(t)
		bs := newTestBlockState(t, newTriesEmpty())
		s, err := NewEpochStateFromGenesis(db, bs, config.BABEConfigurationTestDefault)
		require.NoError(t, err)
		l := s.epochLength

		b1 := baseC26Block(t, bs, bs.genesisHash, 1, 1)
		baseC26AnnounceData(t, s, b1, 0x41)
		b2 := baseC26Block(t, bs, b1.Hash(), 2, 1+9*l)
		data10 := baseC26AnnounceData(t, s, b2, 0x42)
		b3 := baseC26Block(t, bs, b2.Hash(), 3, 1+10*l)

		require.NoError(t, bs.SetFinalisedHash(b1.Hash(), 1, 0))
		require.NoError(t, s.FinalizeBABENextEpochData(b1))

		got, err := s.GetEpochDataRaw(10, b3)
		require.NoError(t, err)
		require.Equal(t, data10.ToEpochDataRaw(), got)

		restarted, err := NewEpochState(db, bs, config.BABEConfigurationTestDefault)
		require.NoError(t, err)

		got, err = restarted.GetEpochDataRaw(10, b3)
		require.NoError(t, err)
		require.Equal(t, data10.ToEpochDataRaw(), got)
	})
}
