// place this file in: dot/state  (package state)
// Both tests FAIL on the unchanged tree (base-tree findings for C23), independent of the C23 seed.

package state

import (
	"testing"

	"github.com/ChainSafe/gossamer/dot/types"
	"github.com/ChainSafe/gossamer/lib/crypto/sr25519"
	"github.com/ChainSafe/gossamer/lib/keystore"
	"github.com/stretchr/testify/require"
	"go.uber.org/mock/gomock"
)

func baseC23Setup(t *testing.T) (*GrandpaState, []*types.Header, *keystore.Sr25519Keyring) {
	t.Helper()
	keyring, err := keystore.NewSr25519Keyring()
	require.NoError(t, err)

	ctrl := gomock.NewController(t)
	telemetryMock := NewMockTelemetry(ctrl)
	telemetryMock.EXPECT().SendMessage(gomock.Any()).AnyTimes()

	db := NewInMemoryDB(t)
	blockState := testBlockState(t, db)
	auths, err := types.GrandpaAuthoritiesRawToAuthorities([]types.GrandpaAuthoritiesRaw{
		{Key: keyring.KeyAlice.Public().(*sr25519.PublicKey).AsBytes()},
	})
	require.NoError(t, err)
	gs, err := NewGrandpaStateFromGenesis(db, blockState, types.NewGrandpaVotersFromAuthorities(auths), telemetryMock)
	require.NoError(t, err)

	chain := issueBlocksWithBABEPrimary(t, keyring.KeyAlice, blockState, testGenesisHeader, 11)
	return gs, chain, keyring
}

// A forced change announced at #5 (delay 5) is silently dropped when #6 - a descendant of the
// announcing block - is finalised before the effective block #10 is imported. There is no
// pending standard change, so Substrate's apply_standard_changes returns Unchanged and leaves
// pending_forced_changes untouched; the change must be applied on import of #10.
func TestBaseC23ForcedChangeDroppedByFinalisingDescendant(t *testing.T) {
	gs, chain, keyring := baseC23Setup(t)

	for n := 1; n <= 6; n++ {
		if n == 5 {
			require.NoError(t, gs.addForcedChange(chain[n-1], types.GrandpaForcedChange{
				Delay: 5, BestFinalizedBlock: 3,
				Auths: []types.GrandpaAuthoritiesRaw{{Key: keyring.KeyBob.Public().(*sr25519.PublicKey).AsBytes()}},
			}))
		}
		require.NoError(t, gs.ApplyForcedChanges(chain[n-1]))
	}

	require.NoError(t, gs.ApplyScheduledChanges(chain[5])) // finalise #6

	for n := 7; n <= 10; n++ {
		require.NoError(t, gs.ApplyForcedChanges(chain[n-1]))
	}

	setID, err := gs.GetCurrentSetID()
	require.NoError(t, err)
	require.Equal(t, uint64(1), setID, "forced change effective at #10 must have been applied")
}

// Applying a forced change overwrites the start block of the *current* set with the
// "median last finalised" number of the digest, which re-attributes blocks of the current set
// to the previous set.
func TestBaseC23ForcedChangeRewritesStartOfCurrentSet(t *testing.T) {
	gs, chain, keyring := baseC23Setup(t)

	// scheduled change at #2, delay 0 -> set 1 begins after #2
	require.NoError(t, gs.addScheduledChange(chain[1], types.GrandpaScheduledChange{
		Delay: 0,
		Auths: []types.GrandpaAuthoritiesRaw{{Key: keyring.KeyBob.Public().(*sr25519.PublicKey).AsBytes()}},
	}))
	require.NoError(t, gs.ApplyScheduledChanges(chain[1]))

	setID, err := gs.GetSetIDByBlockNumber(4)
	require.NoError(t, err)
	require.Equal(t, uint64(1), setID)

	// forced change at #6, delay 1, median last finalised 5 -> set 2 on import of #7
	require.NoError(t, gs.addForcedChange(chain[5], types.GrandpaForcedChange{
		Delay: 1, BestFinalizedBlock: 5,
		Auths: []types.GrandpaAuthoritiesRaw{{Key: keyring.KeyCharlie.Public().(*sr25519.PublicKey).AsBytes()}},
	}))
	require.NoError(t, gs.ApplyForcedChanges(chain[6]))

	cur, err := gs.GetCurrentSetID()
	require.NoError(t, err)
	require.Equal(t, uint64(2), cur)

	start, err := gs.GetSetIDChange(1)
	require.NoError(t, err)
	require.Equal(t, uint(2), start, "set 1 began after block 2")

	setID, err = gs.GetSetIDByBlockNumber(4)
	require.NoError(t, err)
	require.Equal(t, uint64(1), setID, "block 4 was, and still is, a block of set 1")
}
