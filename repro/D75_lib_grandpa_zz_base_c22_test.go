// place in: lib/grandpa/  (package grandpa); needs zz_seed_c22_test.go helpers next to it.
// Run with: go test -race -vet=off -count=1 -run 'TestBaseC22$' ./lib/grandpa/
//
// Base-tree observation: the vote tally used by the finalisation engine
// (getTotalVotesForBlock / getDirectVotes, reached from attemptToFinalize) reads
// s.pcEquivocations and s.precommits without holding mapLock, while
// checkAndReportEquivocation (network goroutine) first inserts the voter into the
// equivocation map and only afterwards deletes its direct vote. A tally that runs in
// between counts the equivocator twice (direct vote + equivocation).

package grandpa

import (
	"sync"
	"testing"

	"github.com/ChainSafe/gossamer/lib/crypto/ed25519"
	"github.com/ChainSafe/gossamer/lib/keystore"
	"github.com/stretchr/testify/require"
)

func TestBaseC22(t *testing.T) {
	kr, err := keystore.NewEd25519Keyring()
	require.NoError(t, err)
	alice := kr.Alice().(*ed25519.Keypair)
	bob := kr.Bob().(*ed25519.Keypair)
	charlie := kr.Charlie().(*ed25519.Keypair)
	dave := kr.Dave().(*ed25519.Keypair)

	var voters []Voter
	for i, kp := range []*ed25519.Keypair{alice, bob, charlie, dave} {
		voters = append(voters, Voter{Key: *kp.Public().(*ed25519.PublicKey), ID: uint64(i)})
	}

	node, tree := seedC22Node(t, alice, voters)
	seedC22Own(t, node, tree.a2, precommit)
	seedC22Deliver(t, node, seedC22Sign(t, dave, tree.a2, precommit, 1), false)

	var wg sync.WaitGroup
	stop := make(chan struct{})
	wg.Add(1)
	go func() {
		defer wg.Done()
		for {
			select {
			case <-stop:
				return
			default:
			}
			// what the finalisation engine does every interval/2
			total, err := node.getTotalVotesForBlock(tree.a2.Hash(), precommit)
			if err != nil {
				t.Error(err)
				return
			}
			if total > node.state.threshold() {
				t.Errorf("tally for A2 is %d although only alice and dave precommitted on that fork", total)
				return
			}
		}
	}()

	seedC22Deliver(t, node, seedC22Sign(t, dave, tree.b2, precommit, 1), true)
	close(stop)
	wg.Wait()
}
