// Package directory: dot/state  (in-package test, package state). Fails on the UNCHANGED tree.

package state

import (
	"testing"

	"github.com/ChainSafe/gossamer/dot/types"
	"github.com/stretchr/testify/require"
)

// A finalisation request that is rejected (here: because its set id is lower
// than the highest one already recorded) must change nothing. On the base tree
// SetFinalisedHash has, by the time it rejects the request, already moved the
// subchain out of the unfinalised block map, written the number->hash index
// and the (round,setID)->hash entry. The block tree and lastFinalised are left
// untouched, so the very next legitimate request for the same target fails with
// "failed to find block in unfinalised block map": finality is stuck for good.
func TestBaseC17_RejectedFinalisationIsNotANoOp(t *testing.T) {
	bs := newTestBlockState(t, newTriesEmpty())

	mk := func(parent *types.Header, salt byte) *types.Block {
		return &types.Block{
			Header: types.Header{
				ParentHash: parent.Hash(),
				Number:     parent.Number + 1,
				StateRoot:  [32]byte{0xc1, salt},
				Digest:     createPrimaryBABEDigest(t),
			},
			Body: sampleBlockBody,
		}
	}
	b1 := mk(testGenesisHeader, 1)
	b2 := mk(&b1.Header, 2)
	b3 := mk(&b2.Header, 3)
	for _, b := range []*types.Block{b1, b2, b3} {
		require.NoError(t, bs.AddBlock(b))
	}

	require.NoError(t, bs.SetFinalisedHash(b1.Header.Hash(), 1, 1))

	// rejected: set id 0 < highest set id 1
	err := bs.SetFinalisedHash(b3.Header.Hash(), 7, 0)
	require.ErrorIs(t, err, errSetIDLowerThanHighest)

	// the finalised head did not move ...
	head, err := bs.GetHighestFinalisedHash()
	require.NoError(t, err)
	require.Equal(t, b1.Header.Hash(), head)
	require.Equal(t, b1.Header.Hash(), bs.lastFinalised)

	// ... so nothing else may have changed either.
	var failures []string
	if has, _ := bs.HasFinalisedBlock(7, 0); has {
		failures = append(failures, "rejected request left a (round 7, set 0) finalised-hash entry behind")
	}
	if bs.unfinalisedBlocks.getBlock(b2.Header.Hash()) == nil || bs.unfinalisedBlocks.getBlock(b3.Header.Hash()) == nil {
		failures = append(failures, "rejected request removed blocks from the unfinalised block map")
	}
	if _, err := bs.db.Get(headerHashKey(3)); err == nil {
		failures = append(failures, "rejected request wrote the number->hash index for block 3")
	}

	// a later legitimate request for the same (descendant) target must succeed
	if err := bs.SetFinalisedHash(b3.Header.Hash(), 2, 1); err != nil {
		failures = append(failures, "legitimate finalisation after the rejected one fails: "+err.Error())
	}

	require.Empty(t, failures)
}
