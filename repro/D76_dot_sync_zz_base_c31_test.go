// place in: dot/sync  (package sync)
//
// Base-tree finding for C31 (fails on the UNCHANGED tree): a descending request BY NUMBER whose start
// number is exactly max+1 is answered with max+1 blocks, i.e. more than the requested maximum and, for
// max >= 128 (or no max), more than the 128-block protocol maximum.
// handleDescendingRequest computes `endNumber = 1` unless `startNumber > max+1`, so for
// startNumber == max+1 the range [1, max+1] holds max+1 blocks. The by-hash path is rescued by the
// pruning in handleChainByHash, the by-number path (handleDescendingByNumber) is not.

package sync

import (
	"fmt"
	"testing"

	"github.com/ChainSafe/gossamer/dot/network/messages"
	"github.com/ChainSafe/gossamer/dot/types"
	"github.com/ChainSafe/gossamer/lib/common"
	lrucache "github.com/ChainSafe/gossamer/lib/utils/lru-cache"
	"github.com/libp2p/go-libp2p/core/peer"
	"github.com/stretchr/testify/require"
	"go.uber.org/mock/gomock"
)

func TestBaseC31DescendingByNumberOvershoot(t *testing.T) {
	const best = uint(200)

	hashOf := func(n uint) common.Hash { return common.Hash{byte(n), byte(n >> 8), 0xc3, 0x1f} }

	ctrl := gomock.NewController(t)
	blockState := NewMockBlockState(ctrl)
	blockState.EXPECT().BestBlockNumber().Return(best, nil).AnyTimes()
	blockState.EXPECT().GetHashByNumber(gomock.Any()).DoAndReturn(func(n uint) (common.Hash, error) {
		if n > best {
			return common.Hash{}, fmt.Errorf("no block %d", n)
		}
		return hashOf(n), nil
	}).AnyTimes()
	blockState.EXPECT().GetHeader(gomock.Any()).DoAndReturn(func(h common.Hash) (*types.Header, error) {
		n := uint(h[0]) | uint(h[1])<<8
		return &types.Header{Number: n, ParentHash: hashOf(n - 1)}, nil
	}).AnyTimes()

	svc := &SyncService{blockState: blockState}

	u32 := func(v uint32) *uint32 { return &v }
	cases := []struct {
		start uint
		max   *uint32
		limit int
	}{
		{start: 2, max: u32(1), limit: 1},
		{start: 4, max: u32(3), limit: 3},
		{start: 129, max: u32(128), limit: 128},
		{start: 129, max: nil, limit: 128}, // what a decoded request with max_blocks == 0 looks like
		{start: 129, max: u32(500), limit: 128},
	}

	for _, tc := range cases {
		tc := tc
		t.Run(fmt.Sprintf("start_%d_limit_%d", tc.start, tc.limit), func(t *testing.T) {
			req := &messages.BlockRequestMessage{
				RequestedData: messages.RequestedDataHeader,
				StartingBlock: *messages.NewFromBlock(tc.start),
				Direction:     messages.Descending,
				Max:           tc.max,
			}
			svc.seenBlockSyncRequests = lrucache.NewLRUCache[common.Hash, uint](10)
			resp, err := svc.CreateBlockResponse(peer.ID("requester"), req)
			require.NoError(t, err)
			require.NotEmpty(t, resp.BlockData)
			require.Equal(t, tc.start, resp.BlockData[0].Header.Number)
			require.LessOrEqualf(t, len(resp.BlockData), tc.limit,
				"descending request from #%d answered with %d blocks (down to #%d)", tc.start,
				len(resp.BlockData), resp.BlockData[len(resp.BlockData)-1].Header.Number)
		})
	}
}
