package blocktree

import (
	"testing"
	"time"

	"github.com/ChainSafe/gossamer/dot/types"
	"github.com/ChainSafe/gossamer/lib/common"
	"github.com/stretchr/testify/require"
)

func d58Header(t *testing.T, parent common.Hash, number uint, primary bool, salt byte) *types.Header {
	t.Helper()
	digest := types.NewDigest()
	var pd types.BabeDigest
	var err error
	if primary {
		pd = types.NewBabeDigest()
		require.NoError(t, pd.SetValue(types.BabePrimaryPreDigest{AuthorityIndex: uint32(salt)}))
	} else {
		pd = types.NewBabeDigest()
		require.NoError(t, pd.SetValue(types.BabeSecondaryPlainPreDigest{AuthorityIndex: uint32(salt)}))
	}
	enc, err := scaleMarshalD58(pd)
	require.NoError(t, err)
	require.NoError(t, digest.Add(types.PreRuntimeDigest{ConsensusEngineID: types.BabeEngineID, Data: enc}))
	return &types.Header{ParentHash: parent, Number: number, Digest: digest, StateRoot: common.Hash{salt}}
}

// D58: Range between two siblings must fail, they are not on one chain.
func TestD58RangeSiblings(t *testing.T) {
	root := &types.Header{Number: 0, Digest: types.NewDigest()}
	bt := NewBlockTreeFromRoot(root)
	a := d58Header(t, root.Hash(), 1, true, 1)
	b := d58Header(t, root.Hash(), 1, true, 2)
	require.NoError(t, bt.AddBlock(a, time.Unix(1, 0)))
	require.NoError(t, bt.AddBlock(b, time.Unix(2, 0)))
	hashes, err := bt.RangeInMemory(a.Hash(), b.Hash())
	require.Error(t, err, "a and b are siblings, got %v", hashes)
}

// D59: by-number query must list the blocks of every fork, also above the fork-choice head.
func TestD59HashesAtNumberAboveBest(t *testing.T) {
	root := &types.Header{Number: 0, Digest: types.NewDigest()}
	bt := NewBlockTreeFromRoot(root)
	a := d58Header(t, root.Hash(), 1, true, 1)
	b := d58Header(t, root.Hash(), 1, false, 2)
	c := d58Header(t, b.Hash(), 2, false, 3)
	require.NoError(t, bt.AddBlock(a, time.Unix(1, 0)))
	require.NoError(t, bt.AddBlock(b, time.Unix(2, 0)))
	require.NoError(t, bt.AddBlock(c, time.Unix(3, 0)))
	require.Equal(t, a.Hash(), bt.BestBlockHash(), "fork choice prefers the primary block")
	require.Equal(t, []common.Hash{c.Hash()}, bt.GetHashesAtNumber(2))
}
