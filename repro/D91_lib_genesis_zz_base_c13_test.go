// Place this file in: lib/genesis   (fails on the UNCHANGED tree; independent of the seeded patch)
package genesis

import (
	"encoding/binary"
	"encoding/json"
	"math/big"
	"testing"

	"github.com/ChainSafe/gossamer/dot/types"
	"github.com/ChainSafe/gossamer/lib/common"
	"github.com/ChainSafe/gossamer/pkg/scale"
)

// TestBaseC13 feeds a human-readable genesis runtime section holding one balance to buildRawMap and
// checks that the SCALE (little-endian 128-bit) "free" balance written to the raw System.Account entry
// denotes the same number as the decimal JSON number in the spec.
func TestBaseC13(t *testing.T) {
	const addr = "5GrwvaEF5zXb26Fz9rcQpDWS57CtERHpNehXCPcNoHGKutQY"

	for _, balance := range []string{
		"1000000000000",                           // control: passes
		"9007199254740993",                        // 2^53+1: rounded by float64
		"10000000000000000000",                    // 1e19 (< 2^64): becomes 2^63
		"18446744073709551616",                    // 2^64: becomes 2^63
		"340282366920938463463374607431768211455", // 2^128-1: becomes 2^63
	} {
		want, _ := new(big.Int).SetString(balance, 10)

		var rt Runtime
		doc := `{"balances":{"balances":[["` + addr + `",` + balance + `]]}}`
		if err := json.Unmarshal([]byte(doc), &rt); err != nil {
			t.Fatalf("balance %s: %v", balance, err)
		}

		raw, err := buildRawMap(rt)
		if err != nil {
			t.Fatalf("balance %s: buildRawMap: %v", balance, err)
		}

		found := false
		for k, v := range raw {
			if len(k) <= len(systemAccountKeyHex) || k[:len(systemAccountKeyHex)] != systemAccountKeyHex {
				continue
			}
			found = true
			var info types.AccountInfo
			if err := scale.Unmarshal(common.MustHexToBytes(v), &info); err != nil {
				t.Fatalf("balance %s: decoding account info: %v", balance, err)
			}
			got := new(big.Int).SetBytes(info.Data.Free.Bytes(binary.BigEndian))
			if got.Cmp(want) != 0 {
				t.Errorf("genesis balance %s is stored as free balance %s", want, got)
			}
		}
		if !found {
			t.Fatalf("balance %s: no System.Account entry produced", balance)
		}
	}
}
