// Place this file in pkg/trie/inmemory (package inmemory). Every subtest FAILS on the unchanged tree.

package inmemory

import (
	"bytes"
	"testing"
)

func zzBaseTrie(t *testing.T, kv ...[]byte) *InMemoryTrie {
	t.Helper()
	tr := NewEmptyTrie()
	for i := 0; i < len(kv); i += 2 {
		if err := tr.Put(kv[i], kv[i+1]); err != nil {
			t.Fatal(err)
		}
	}
	return tr
}

// A prefix whose last byte has a zero low nibble (0x10) loses that nibble
// (bytes.TrimSuffix(prefixNibbles, []byte{0})) and then matches every key that
// starts with the nibble 1, for instance 0x11.
func TestBaseC02_ZeroLowNibblePrefix(t *testing.T) {
	t.Run("GetKeysWithPrefix", func(t *testing.T) {
		tr := zzBaseTrie(t, []byte{0x11, 0x00}, []byte{1})
		if got := tr.GetKeysWithPrefix([]byte{0x10}); len(got) != 0 {
			t.Errorf("GetKeysWithPrefix(0x10) = %x, want no key (0x1100 does not start with the byte 0x10)", got)
		}
	})
	t.Run("ClearPrefix", func(t *testing.T) {
		tr := zzBaseTrie(t, []byte{0x11, 0x00}, []byte{1}, []byte{0x22}, []byte{2})
		if err := tr.ClearPrefix([]byte{0x10}); err != nil {
			t.Fatal(err)
		}
		if tr.Get([]byte{0x11, 0x00}) == nil {
			t.Errorf("ClearPrefix(0x10) removed the key 0x1100")
		}
	})
	t.Run("ClearPrefixLimit", func(t *testing.T) {
		tr := zzBaseTrie(t, []byte{0x11, 0x00}, []byte{1}, []byte{0x22}, []byte{2})
		deleted, allDeleted, err := tr.ClearPrefixLimit([]byte{0x10}, 1)
		if err != nil {
			t.Fatal(err)
		}
		if deleted != 0 || !allDeleted || tr.Get([]byte{0x11, 0x00}) == nil {
			t.Errorf("ClearPrefixLimit(0x10, 1) = (%d, %t), 0x1100 present: %t; want (0, true) and the key kept",
				deleted, allDeleted, tr.Get([]byte{0x11, 0x00}) != nil)
		}
	})
}

// A limited prefix clear removes the children of a branch before the value
// held by the branch itself, so the smallest matching key (the one stored on
// the branch) survives while greater keys are removed.
func TestBaseC02_LimitedClearOrder(t *testing.T) {
	tr := zzBaseTrie(t,
		[]byte{0x12}, []byte{1},
		[]byte{0x12, 0x34}, []byte{2},
		[]byte{0x12, 0x35}, []byte{3})
	deleted, allDeleted, err := tr.ClearPrefixLimit([]byte{0x12}, 1)
	if err != nil {
		t.Fatal(err)
	}
	if deleted != 1 || allDeleted {
		t.Errorf("ClearPrefixLimit(0x12, 1) = (%d, %t), want (1, false)", deleted, allDeleted)
	}
	if tr.Get([]byte{0x12}) != nil {
		t.Errorf("the smallest matching key 0x12 is still present")
	}
	if tr.Get([]byte{0x12, 0x34}) == nil {
		t.Errorf("the key 0x1234 was removed although the smaller key 0x12 matched")
	}
}

// retrieveFromBranch and deleteBranch treat an exhausted key (len(key) == 0)
// as a match whatever the partial key of the branch, and deleteLeaf does the
// same for a leaf. A key that ends exactly on the edge into a node whose
// partial key is not empty therefore reads / deletes a longer key.
func TestBaseC02_KeyEndingOnEdge(t *testing.T) {
	build := func(t *testing.T) *InMemoryTrie {
		return zzBaseTrie(t,
			[]byte{0x01}, []byte{0xea},
			[]byte{0x12, 0x12}, []byte{0x8a},
			[]byte{0x10}, []byte{0xd4},
			[]byte{0x12, 0x12, 0x12}, []byte{0x0f})
	}
	t.Run("Get", func(t *testing.T) {
		tr := build(t)
		if got := tr.Get([]byte{0x12}); got != nil {
			t.Errorf("Get(0x12) = %x, want absent (it is the value of 0x1212)", got)
		}
	})
	t.Run("Delete", func(t *testing.T) {
		tr := build(t)
		if err := tr.Delete([]byte{0x12}); err != nil {
			t.Fatal(err)
		}
		if got := tr.Get([]byte{0x12, 0x12}); !bytes.Equal(got, []byte{0x8a}) {
			t.Errorf("Delete(0x12), an absent key, changed 0x1212 to %x", got)
		}
	})
	t.Run("EmptyKeyGet", func(t *testing.T) {
		tr := zzBaseTrie(t, []byte{0x00}, []byte{0xc9}, []byte{0x00, 0x00}, []byte{0x6b})
		if got := tr.Get([]byte{}); got != nil {
			t.Errorf("Get(empty key) = %x, want absent (it is the value of 0x00)", got)
		}
	})
	t.Run("EmptyKeyDeleteLeaf", func(t *testing.T) {
		tr := zzBaseTrie(t, []byte{0x77}, []byte{1})
		if err := tr.Delete([]byte{}); err != nil {
			t.Fatal(err)
		}
		if tr.Get([]byte{0x77}) == nil {
			t.Errorf("Delete(empty key), an absent key, removed 0x77")
		}
	})
}

// With limit 0 and no key under the prefix nothing remains, yet the call
// reports allDeleted == false (early return before looking at the trie).
func TestBaseC02_LimitZeroNothingMatches(t *testing.T) {
	tr := zzBaseTrie(t, []byte{0x22}, []byte{2})
	deleted, allDeleted, err := tr.ClearPrefixLimit([]byte{0x11}, 0)
	if err != nil {
		t.Fatal(err)
	}
	if deleted != 0 || !allDeleted {
		t.Errorf("ClearPrefixLimit(0x11, 0) = (%d, %t), want (0, true): no key has the prefix", deleted, allDeleted)
	}
}

// Two limited prefix clears that each merge a branch twice on the way up
// subtract one node too many from the Descendants counter of the ancestors
// (deleteNodesLimit counts the merge of the same branch once per loop turn).
// After a further Delete the counter of the branch at 0xaa wraps around to
// 4294967295, so clearPrefixAtNode computes nodesRemoved = 1 + Descendants = 0,
// the parent takes that as "nothing removed" and ClearPrefix(0xaa) is a no-op.
func TestBaseC02_ClearPrefixAfterDescendantsWrapAround(t *testing.T) {
	one := []byte{1}
	tr := zzBaseTrie(t,
		[]byte{0xbb}, one,
		[]byte{0xaa}, one,
		[]byte{0xaa, 0x11, 0x00}, one, []byte{0xaa, 0x11, 0x10}, one, []byte{0xaa, 0x11, 0x11}, one,
		[]byte{0xaa, 0x22, 0x00}, one, []byte{0xaa, 0x22, 0x10}, one, []byte{0xaa, 0x22, 0x11}, one)

	for _, prefix := range [][]byte{{0xaa, 0x11}, {0xaa, 0x22}} {
		deleted, allDeleted, err := tr.ClearPrefixLimit(prefix, 2)
		if err != nil {
			t.Fatal(err)
		}
		if deleted != 2 || allDeleted {
			t.Fatalf("ClearPrefixLimit(%x, 2) = (%d, %t), want (2, false)", prefix, deleted, allDeleted)
		}
	}
	if err := tr.Delete([]byte{0xaa, 0x22, 0x11}); err != nil {
		t.Fatal(err)
	}
	// The ordered map now holds 0xaa, 0xaa1111 and 0xbb.
	if err := tr.ClearPrefix([]byte{0xaa}); err != nil {
		t.Fatal(err)
	}
	if got := tr.GetKeysWithPrefix(nil); len(got) != 1 || !bytes.Equal(got[0], []byte{0xbb}) {
		t.Errorf("after ClearPrefix(0xaa) the keys are %x, want [bb]", got)
	}
	if tr.Get([]byte{0xaa}) != nil || tr.Get([]byte{0xaa, 0x11, 0x11}) != nil {
		t.Errorf("ClearPrefix(0xaa) left 0xaa / 0xaa1111 in the trie")
	}
}
