// place this file in: dot/state  (package state)
//
// Findings on the UNCHANGED tree that were noticed while studying C36.
// Both tests fail on the unchanged tree.

package state

import (
	"testing"

	"github.com/ChainSafe/gossamer/dot/types"
	rtstorage "github.com/ChainSafe/gossamer/lib/runtime/storage"
	inmemory_trie "github.com/ChainSafe/gossamer/pkg/trie/inmemory"
	"github.com/stretchr/testify/require"
	"go.uber.org/mock/gomock"
)

// After a (clean or unclean) restart BlockState.GetRoundAndSetID reports (0, 0)
// although the database holds a later finalised round: NewBlockState does not
// load lastRound/lastSetID from the highest round and set id key.
func TestBaseC36_RoundAndSetIDLostOnRestart(t *testing.T) {
	ctrl := gomock.NewController(t)
	telemetryMock := NewMockTelemetry(ctrl)
	telemetryMock.EXPECT().SendMessage(gomock.Any()).AnyTimes()

	db := NewInMemoryDB(t)
	bs, err := NewBlockStateFromGenesis(db, newTriesEmpty(), testGenesisHeader, telemetryMock)
	require.NoError(t, err)

	digest := types.NewDigest()
	pre, err := types.NewBabeSecondaryPlainPreDigest(0, 1).ToPreRuntimeDigest()
	require.NoError(t, err)
	require.NoError(t, digest.Add(*pre))
	header := &types.Header{
		ParentHash: testGenesisHeader.Hash(),
		Number:     1,
		StateRoot:  testGenesisHeader.StateRoot,
		Digest:     digest,
	}
	require.NoError(t, bs.AddBlock(&types.Block{Header: *header, Body: types.Body{}}))
	require.NoError(t, bs.SetFinalisedHash(header.Hash(), 7, 3))

	round, setID := bs.GetRoundAndSetID()
	require.Equal(t, uint64(7), round)
	require.Equal(t, uint64(3), setID)

	restarted, err := NewBlockState(db, newTriesEmpty(), telemetryMock)
	require.NoError(t, err)

	highestRound, highestSetID, err := restarted.GetHighestRoundAndSetID()
	require.NoError(t, err)
	require.Equal(t, uint64(7), highestRound)
	require.Equal(t, uint64(3), highestSetID)

	round, setID = restarted.GetRoundAndSetID()
	require.Equal(t, uint64(7), round, "finalised round is older after the restart")
	require.Equal(t, uint64(3), setID, "finalised set id is older after the restart")
}

// A state whose top trie holds a single entry, the root of a child trie, is
// stored without its child trie: writeDirtyNode only walks the child tries from
// inside a branch node, and here the root is a leaf. The state of such a block
// cannot be read back from the database.
func TestBaseC36_ChildTrieOfLeafRootNotPersisted(t *testing.T) {
	ctrl := gomock.NewController(t)
	telemetryMock := NewMockTelemetry(ctrl)
	telemetryMock.EXPECT().SendMessage(gomock.Any()).AnyTimes()

	db := NewInMemoryDB(t)
	tries := newTriesEmpty()
	bs, err := NewBlockStateFromGenesis(db, tries, testGenesisHeader, telemetryMock)
	require.NoError(t, err)
	storage, err := NewStorageState(db, bs, tries)
	require.NoError(t, err)

	ts := rtstorage.NewTrieState(inmemory_trie.NewEmptyTrie())
	require.NoError(t, ts.SetChildStorage([]byte("child"), []byte("key"), []byte("value")))
	root := ts.Trie().MustHash()

	require.NoError(t, storage.StoreTrie(ts, nil))

	restartedStorage, err := NewStorageState(db, bs, newTriesEmpty())
	require.NoError(t, err)
	_, err = restartedStorage.LoadFromDB(root)
	require.NoError(t, err, "the stored state cannot be loaded from the database")
}
