package scale

import (
	"bytes"
	"math/big"
	"testing"
)

// D62: equal maps must have one encoding (entries in ascending key order).
func TestD62MapEncodingDeterministic(t *testing.T) {
	m := map[uint8]uint8{1: 1, 2: 2, 3: 3, 4: 4, 5: 5}
	want := []byte{0x14, 1, 1, 2, 2, 3, 3, 4, 4, 5, 5}
	for i := 0; i < 50; i++ {
		got, err := Marshal(m)
		if err != nil {
			t.Fatal(err)
		}
		if !bytes.Equal(got, want) {
			t.Fatalf("run %d: encoding %x, want %x", i, got, want)
		}
	}
}

// D63: decoding into a nil map must allocate it.
func TestD63DecodeIntoNilMap(t *testing.T) {
	enc, err := Marshal(map[uint8]uint8{1: 2})
	if err != nil {
		t.Fatal(err)
	}
	var m map[uint8]uint8
	if err := Unmarshal(enc, &m); err != nil {
		t.Fatal(err)
	}
	if len(m) != 1 || m[1] != 2 {
		t.Fatalf("got %v", m)
	}
}

// D64: values outside the compact range are refused.
func TestD64BigIntRange(t *testing.T) {
	if _, err := Marshal(big.NewInt(-1)); err == nil {
		t.Fatal("negative big integer was encoded")
	}
	tooBig := new(big.Int).Lsh(big.NewInt(1), 536)
	if _, err := Marshal(tooBig); err == nil {
		t.Fatal("2^536 was encoded")
	}
	max := new(big.Int).Sub(tooBig, big.NewInt(1))
	enc, err := Marshal(max)
	if err != nil {
		t.Fatal(err)
	}
	var back *big.Int
	if err := Unmarshal(enc, &back); err != nil || back.Cmp(max) != 0 {
		t.Fatalf("2^536-1 does not round trip: %v %v", err, back)
	}
}
