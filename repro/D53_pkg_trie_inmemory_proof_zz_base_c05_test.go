// Place this file in: pkg/trie/inmemory/proof/ (package proof)
// Reproduction of a defect of the UNCHANGED tree (not of the C05 seed).

package proof

import (
	"bytes"
	"testing"

	"github.com/ChainSafe/gossamer/internal/database"
	"github.com/ChainSafe/gossamer/lib/common"
	"github.com/ChainSafe/gossamer/pkg/trie"
	"github.com/ChainSafe/gossamer/pkg/trie/inmemory"
	"github.com/stretchr/testify/require"
)

// TestBaseC05V1HashedValue: a V1 state with a single key whose value is 33
// bytes long (the smallest value that state version 1 stores by hash).
// The proof generated for that key must verify; it does not, because the
// proof only holds the node with the value hash and not the value itself.
func TestBaseC05V1HashedValue(t *testing.T) {
	key := []byte{0x01}
	value := bytes.Repeat([]byte{0xab}, 33)

	tr := inmemory.NewEmptyTrie()
	tr.SetVersion(trie.V1)
	require.NoError(t, tr.Put(key, value))

	rootHash, err := trie.V1.Hash(tr)
	require.NoError(t, err)
	root := rootHash.ToBytes()

	db, err := database.NewPebble("", true)
	require.NoError(t, err)
	require.NoError(t, tr.WriteDirty(db))

	// the stored state does hold the value under that root
	stored, err := inmemory.GetFromDB(db, rootHash, key)
	require.NoError(t, err)
	require.Equal(t, value, stored)

	proofNodes, err := Generate(root, [][]byte{key}, db)
	require.NoError(t, err)

	valueHash, err := common.Blake2bHash(value)
	require.NoError(t, err)
	valueInProof := false
	for i, proofNode := range proofNodes {
		t.Logf("proof node %d (%d bytes): 0x%x", i, len(proofNode), proofNode)
		if bytes.Equal(proofNode, value) {
			valueInProof = true
		}
	}
	t.Logf("value hash 0x%x, value is one of the %d proof nodes: %t",
		valueHash[:], len(proofNodes), valueInProof)

	err = Verify(proofNodes, root, key, value)
	require.NoError(t, err, "generated proof for a present key with a 33 byte value under V1")
}
