// place in: pkg/scale
// Each test below FAILS on the unchanged tree: pre-existing violations of C11.
package scale

import (
	"bytes"
	"testing"
	"testing/iotest"
)

// A compact uint whose value needs 5, 6 or 7 bytes (2^32 <= v < 2^56) is
// encoded canonically by encodeUint (prefix 0x07, 0x0b, 0x0f) but decodeUint
// only accepts the byte lengths 4 and 8 and returns ErrCompactUintPrefixUnknown.
func TestBaseC11CompactUintFiveToSevenBytes(t *testing.T) {
	for _, v := range []uint{1 << 32, 1<<40 - 1, 1 << 40, 1<<48 - 1, 1 << 48, 1<<56 - 1} {
		enc, err := Marshal(v)
		if err != nil {
			t.Fatalf("%d: %v", v, err)
		}
		var out uint
		err = Unmarshal(enc, &out)
		if err != nil || out != v {
			t.Errorf("uint %d: encoding %x decodes to %d, err %v", v, enc, out, err)
		}
	}
	// the same through a slice length / struct field
	type s struct{ N uint }
	var out s
	err := Unmarshal(MustMarshal(s{N: 1 << 32}), &out)
	if err != nil || out.N != 1<<32 {
		t.Errorf("struct{uint}: %+v, err %v", out, err)
	}
}

// The field order cache is keyed by "PkgPath.Name". Two function-local types
// of the same name share a key, so the second type is encoded and decoded
// with the field order of the first.
func TestBaseC11LocalTypeNameCollision(t *testing.T) {
	first := func() []byte {
		type T struct {
			A uint8  `scale:"2"`
			B uint16 `scale:"1"`
		}
		return MustMarshal(T{A: 1, B: 2})
	}()
	if !bytes.Equal(first, []byte{2, 0, 1}) {
		t.Fatalf("first type: %x", first)
	}

	type T struct {
		A uint8
		B uint16
	}
	second := MustMarshal(T{A: 1, B: 2})
	if !bytes.Equal(second, []byte{1, 2, 0}) {
		t.Errorf("second local type T: encoding %x, canonical 010200", second)
	}
	var out T
	err := Unmarshal([]byte{1, 2, 0}, &out)
	if err != nil || out != (T{A: 1, B: 2}) {
		t.Errorf("second local type T: canonical bytes decode to %+v, err %v", out, err)
	}
}

// Decoding into a destination that already holds a value: an encoded None
// leaves the old pointer in place and a map keeps its old entries, so the
// decoded value is not equal to the encoded one.
func TestBaseC11ReusedDestination(t *testing.T) {
	type S struct {
		A *uint32
		M map[uint8]uint8
	}
	five := uint32(5)
	var dst S
	err := Unmarshal(MustMarshal(S{A: &five, M: map[uint8]uint8{1: 1}}), &dst)
	if err != nil {
		t.Fatal(err)
	}
	err = Unmarshal(MustMarshal(S{A: nil, M: map[uint8]uint8{2: 2}}), &dst)
	if err != nil {
		t.Fatal(err)
	}
	if dst.A != nil {
		t.Errorf("None decoded as Some(%d)", *dst.A)
	}
	if len(dst.M) != 1 || dst.M[2] != 2 {
		t.Errorf("map decoded as %v, want map[2:2]", dst.M)
	}

	var opt *uint32 = &five
	err = Unmarshal([]byte{0}, &opt)
	if err != nil {
		t.Fatal(err)
	}
	if opt != nil {
		t.Errorf("top level None decoded as Some(%d)", *opt)
	}
}

// decodeBytes uses a single Read instead of io.ReadFull: a reader that
// delivers the bytes in pieces gives a zero-filled value without an error,
// and truncated input is accepted.
func TestBaseC11BytesShortRead(t *testing.T) {
	in := []byte("hello world")
	enc := MustMarshal(in)

	var out []byte
	err := NewDecoder(iotest.OneByteReader(bytes.NewReader(enc))).Decode(&out)
	if err != nil || !bytes.Equal(in, out) {
		t.Errorf("byte string read in pieces: %q, err %v", out, err)
	}

	var str string
	err = NewDecoder(iotest.HalfReader(bytes.NewReader(enc))).Decode(&str)
	if err != nil || str != string(in) {
		t.Errorf("string read in pieces: %q, err %v", str, err)
	}

	var truncated []byte
	err = Unmarshal(enc[:5], &truncated)
	if err == nil {
		t.Errorf("truncated byte string accepted as %q", truncated)
	}
}
