// Place this file in: lib/runtime/storage/ (package storage)
// Reproductions of C08 violations that exist on the UNPATCHED tree.

package storage

import (
	"sort"
	"testing"

	inmemory_trie "github.com/ChainSafe/gossamer/pkg/trie/inmemory"
	"github.com/stretchr/testify/require"
)

var baseC08Child = []byte(":child_storage:default:a")

// Killing a child storage inside a transaction must hide all of its committed
// keys from later reads in that transaction, and writing to the child afterwards
// must produce a child that contains only the keys written after the kill.
func TestBaseC08DeleteChildInTx(t *testing.T) {
	t.Run("read_after_delete_child", func(t *testing.T) {
		ts := NewTrieState(inmemory_trie.NewEmptyTrie())
		require.NoError(t, ts.SetChildStorage(baseC08Child, []byte("x"), []byte("1")))

		ts.StartTransaction()
		require.NoError(t, ts.DeleteChild(baseC08Child))

		val, _ := ts.GetChildStorage(baseC08Child, []byte("x"))
		require.Nil(t, val, "x must not be readable after the child was deleted in the transaction")
	})

	t.Run("set_after_delete_child_resurrects_old_keys", func(t *testing.T) {
		ts := NewTrieState(inmemory_trie.NewEmptyTrie())
		require.NoError(t, ts.SetChildStorage(baseC08Child, []byte("x"), []byte("1")))

		ts.StartTransaction()
		require.NoError(t, ts.DeleteChild(baseC08Child))
		require.NoError(t, ts.SetChildStorage(baseC08Child, []byte("y"), []byte("2")))
		ts.CommitTransaction()

		// the same operations applied directly, without a transaction
		direct := NewTrieState(inmemory_trie.NewEmptyTrie())
		require.NoError(t, direct.SetChildStorage(baseC08Child, []byte("x"), []byte("1")))
		require.NoError(t, direct.DeleteChild(baseC08Child))
		require.NoError(t, direct.SetChildStorage(baseC08Child, []byte("y"), []byte("2")))

		directVal, err := direct.GetChildStorage(baseC08Child, []byte("x"))
		require.NoError(t, err)
		require.Nil(t, directVal)

		val, err := ts.GetChildStorage(baseC08Child, []byte("x"))
		require.NoError(t, err)
		require.Nil(t, val, "x was deleted together with the child before y was written")

		require.Equal(t, direct.Trie().MustHash(), ts.Trie().MustHash(),
			"committing the transaction must give the same root as applying the operations directly")
	})
}

// Listing the keys of a child storage inside a transaction must reflect the
// pending writes and deletions of that transaction.
func TestBaseC08ChildKeysWithPrefixInTx(t *testing.T) {
	asStrings := func(keys [][]byte) []string {
		out := make([]string, 0, len(keys))
		for _, k := range keys {
			out = append(out, string(k))
		}
		sort.Strings(out)
		return out
	}

	t.Run("pending_upsert_is_listed", func(t *testing.T) {
		ts := NewTrieState(inmemory_trie.NewEmptyTrie())
		require.NoError(t, ts.SetChildStorage(baseC08Child, []byte("x"), []byte("1")))

		ts.StartTransaction()
		require.NoError(t, ts.SetChildStorage(baseC08Child, []byte("y"), []byte("2")))

		keys, err := ts.GetKeysWithPrefixFromChild(baseC08Child, []byte{})
		require.NoError(t, err)
		require.Equal(t, []string{"x", "y"}, asStrings(keys))
	})

	t.Run("pending_delete_is_not_listed", func(t *testing.T) {
		ts := NewTrieState(inmemory_trie.NewEmptyTrie())
		require.NoError(t, ts.SetChildStorage(baseC08Child, []byte("x"), []byte("1")))
		require.NoError(t, ts.SetChildStorage(baseC08Child, []byte("y"), []byte("2")))

		ts.StartTransaction()
		require.NoError(t, ts.ClearChildStorage(baseC08Child, []byte("x")))

		keys, err := ts.GetKeysWithPrefixFromChild(baseC08Child, []byte{})
		require.NoError(t, err)
		require.Equal(t, []string{"y"}, asStrings(keys))

		// the same question answered after the commit
		ts.CommitTransaction()
		keys, err = ts.GetKeysWithPrefixFromChild(baseC08Child, []byte{})
		require.NoError(t, err)
		require.Equal(t, []string{"y"}, asStrings(keys))
	})
}
