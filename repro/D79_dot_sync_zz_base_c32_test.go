// place in: dot/sync   (package sync)

// Copyright 2024 ChainSafe Systems (ON)
// SPDX-License-Identifier: LGPL-3.0-only

package sync

import (
	"testing"

	"github.com/ChainSafe/gossamer/dot/network/messages"
	"github.com/ChainSafe/gossamer/dot/types"
	"github.com/ChainSafe/gossamer/lib/common"
	"github.com/libp2p/go-libp2p/core/peer"
	"github.com/stretchr/testify/require"
	"go.uber.org/mock/gomock"
)

func baseC32Strategy(t *testing.T, genesis *types.Header, known map[common.Hash]bool) *FullSyncStrategy {
	ctrl := gomock.NewController(t)
	mockBlockState := NewMockBlockState(ctrl)
	mockBlockState.EXPECT().GetHighestFinalisedHeader().Return(genesis, nil).AnyTimes()
	mockBlockState.EXPECT().BestBlockHeader().Return(genesis, nil).AnyTimes()
	mockBlockState.EXPECT().IsPaused().Return(false).AnyTimes()
	mockBlockState.EXPECT().HasHeader(gomock.Any()).
		DoAndReturn(func(h common.Hash) (bool, error) { return known[h], nil }).AnyTimes()

	mockImporter := NewMockimporter(ctrl)
	mockImporter.EXPECT().importBlock(gomock.Any(), networkInitialSync).
		DoAndReturn(func(bd *types.BlockData, _ BlockOrigin) (bool, error) {
			if known[bd.Hash] {
				return false, nil
			}
			known[bd.Hash] = true
			return true, nil
		}).AnyTimes()

	fs := NewFullSyncStrategy(&FullSyncConfig{BlockState: mockBlockState})
	fs.blockImporter = mockImporter
	return fs
}

// A duplicated body response for an announced block (two peers answering the same
// body request, or a late answer for a block that is not tracked anymore) produces an
// empty "completed blocks" fragment, and Process panics on fragment[0].
func TestBaseC32_DuplicatedBodyResponse(t *testing.T) {
	genesis := types.NewHeader(common.Hash{}, common.Hash{1}, common.Hash{}, 0, types.NewDigest())
	known := map[common.Hash]bool{genesis.Hash(): true}
	fs := baseC32Strategy(t, genesis, known)

	announced := types.NewHeader(genesis.Hash(), common.Hash{2}, common.Hash{}, 1, types.NewDigest())
	fs.unreadyBlocks.newIncompleteBlock(announced)

	bodyRequest := messages.NewBlockRequest(*messages.NewFromBlock(announced.Hash()),
		1, messages.RequestedDataBody+messages.RequestedDataJustification, messages.Ascending)

	bodyResponse := func() *messages.BlockResponseMessage {
		return &messages.BlockResponseMessage{BlockData: []*types.BlockData{
			{Hash: announced.Hash(), Body: &types.Body{}},
		}}
	}

	results := []*SyncTaskResult{
		{who: peer.ID("peerA"), request: bodyRequest, completed: true, response: bodyResponse()},
		{who: peer.ID("peerB"), request: bodyRequest, completed: true, response: bodyResponse()},
	}

	require.NotPanics(t, func() {
		_, _, _, err := fs.Process(results)
		require.NoError(t, err)
	})
	require.True(t, known[announced.Hash()])
}

// A single late body response for a block that is no longer tracked as incomplete.
func TestBaseC32_UntrackedBodyResponse(t *testing.T) {
	genesis := types.NewHeader(common.Hash{}, common.Hash{1}, common.Hash{}, 0, types.NewDigest())
	known := map[common.Hash]bool{genesis.Hash(): true}
	fs := baseC32Strategy(t, genesis, known)

	announced := types.NewHeader(genesis.Hash(), common.Hash{2}, common.Hash{}, 1, types.NewDigest())
	bodyRequest := messages.NewBlockRequest(*messages.NewFromBlock(announced.Hash()),
		1, messages.RequestedDataBody+messages.RequestedDataJustification, messages.Ascending)

	results := []*SyncTaskResult{
		{who: peer.ID("peerA"), request: bodyRequest, completed: true,
			response: &messages.BlockResponseMessage{BlockData: []*types.BlockData{
				{Hash: announced.Hash(), Body: &types.Body{}},
			}}},
	}

	require.NotPanics(t, func() {
		_, _, _, err := fs.Process(results)
		require.NoError(t, err)
	})
}

// A completed response that carries no block at all.
func TestBaseC32_EmptyResponse(t *testing.T) {
	genesis := types.NewHeader(common.Hash{}, common.Hash{1}, common.Hash{}, 0, types.NewDigest())
	known := map[common.Hash]bool{genesis.Hash(): true}
	fs := baseC32Strategy(t, genesis, known)

	results := []*SyncTaskResult{
		{who: peer.ID("peerA"),
			request: messages.NewBlockRequest(*messages.NewFromBlock(uint(1)), 127,
				messages.BootstrapRequestData, messages.Ascending),
			completed: true,
			response:  &messages.BlockResponseMessage{}},
	}

	require.NotPanics(t, func() {
		_, _, _, err := fs.Process(results)
		require.NoError(t, err)
	})
}
