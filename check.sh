#!/bin/bash
# usage: check.sh <property> [quick|thorough]   -- (re)builds the checker if needed, analyses /repo's working tree
set -u
cd "$(dirname "$0")"
export GOFLAGS=-mod=mod GOPROXY=off GOSUMDB=off GOTOOLCHAIN=local GOWORK=off
unset GOARCH GOOS
P="$1"; TIER="${2:-${VERIF_TIER:-quick}}"
if [ ! -x bin/verifcheck ] || [ -n "$(find checker -newer bin/verifcheck -name '*.go' 2>/dev/null | head -1)" ]; then
  (cd checker && go build -o ../bin/verifcheck .) || { echo "checker build failed"; exit 2; }
fi
exec ./bin/verifcheck -p "$P" -tier "$TIER" -repo "${VERIF_REPO:-/repo}"
