#!/bin/bash
# usage: check.sh <property> [quick|thorough]
#   quick    : the property's rule instances on its anchored packages of /repo's working tree
#   thorough : quick + (a) the same analysis with GOARCH=386 (integer-width dependent rules), (b) the mutation
#              self-test of the rules that decide this property: every seeded change kept under seeded/<property>
#              is applied virtually (overlay, nothing written to /repo) and must be reported. The self-test results
#              are merged into the evidence file; a self-test mismatch means the CHECKER regressed (exit 2).
#              (c) the negative self-test: every behaviour-preserving refactoring under refactors/ that touches an
#              analysed package is applied virtually and the check must stay silent (negtest.sh).
set -u
cd "$(dirname "$0")"
export GOFLAGS=-mod=mod GOPROXY=off GOSUMDB=off GOTOOLCHAIN=local GOWORK=off
unset GOARCH GOOS
P="$1"; TIER="${2:-${VERIF_TIER:-quick}}"
if [ ! -x bin/verifcheck ] || [ -n "$(find checker -newer bin/verifcheck -name '*.go' 2>/dev/null | head -1)" ]; then
  (cd checker && go build -o ../bin/verifcheck .) || { echo "checker build failed"; exit 2; }
fi
REPO="${VERIF_REPO:-/repo}"
if [ "$TIER" != "thorough" ]; then
  exec ./bin/verifcheck -p "$P" -tier "$TIER" -repo "$REPO"
fi
./bin/verifcheck -p "$P" -tier thorough -repo "$REPO"; rc=$?
[ $rc -ne 0 ] && exit $rc
# (a) 32-bit variant
T386=$(mktemp -d /tmp/verif-386.XXXXXX); cp known_findings.txt "$T386/"
out386=$(VERIF_DIR="$T386" VERIF_GOARCH=386 ./bin/verifcheck -p "$P" -tier thorough -repo "$REPO" 2>&1); rc386=$?
sum386=$(echo "$out386" | grep '^property=' | tail -1)
rm -rf "$T386"
if [ $rc386 -ne 0 ]; then
  echo "$out386" | grep -E '^  (violation|UNDECIDED|ANCHOR)' | sed 's/^/  [GOARCH=386]/'
  echo "$out386" | grep '^VIOLATION'
  exit $rc386
fi
# (b) mutation self-test
st=$(./selftest.sh "$P" 2>&1); strc=$?
echo "$st"
# (c) negative self-test
nt=$(./negtest.sh "$P" 2>&1); ntrc=$?
echo "$nt" | grep '^NEGTEST'
python3 - "$P" "$sum386" "$strc" "$ntrc" <<PY
import json,sys
p,sum386,strc,ntrc=sys.argv[1],sys.argv[2],int(sys.argv[3]),int(sys.argv[4])
path=f"evidence/{p}.json"
e=json.load(open(path))
lines=[l for l in """$st""".splitlines() if l.startswith("SELFTEST")]
e["coverage"]["goarch_386"]=sum386
e["coverage"]["selftest"]={"what":"each seeded change under seeded/%s applied as an overlay (virtual tree) and analysed by this property's rules; expectation in seeded/EXPECT"%p,"results":lines,"as_expected":strc==0}
nlines=[l for l in """$nt""".splitlines() if l.startswith("NEGTEST")]
e["coverage"]["negative_selftest"]={"what":"behaviour-preserving refactorings under refactors/ touching the analysed packages, applied as overlays; the check must stay silent (exceptions in refactors/EXPECT)","results":nlines,"as_expected":ntrc==0}
json.dump(e,open(path,"w"),indent=1)
PY
if [ $ntrc -ne 0 ]; then echo "checker negative self-test mismatch for $P (the rules raise an alarm on a behaviour-preserving refactoring)"; exit 2; fi
if [ $strc -ne 0 ]; then echo "checker self-test mismatch for $P (the rules no longer report a seeded change they used to report)"; exit 2; fi
exit 0
