#!/usr/bin/env python3
"""Generate /verif/MANIFEST.json from the table below + `verifcheck -list` (the set of built checks)."""
import json, subprocess, sys

props = [json.loads(l) for l in open('/verif/properties.jsonl')]
built = set(subprocess.run(['/verif/bin/verifcheck', '-list'], capture_output=True, text=True).stdout.split())

T = json.loads(subprocess.run(['/verif/bin/verifcheck', '-manifest'], capture_output=True, text=True).stdout)

PLANNED = {
 'C22': 'quantifies over all protocol executions (delays, reorderings, Byzantine behaviour): a model-checking question with no clause visible in the shape of the code beyond the threshold/verified-vote rules already claimed under C18/C21',
 'C25': 'numerical identity over big rationals / hash-mod arithmetic; no structural clause that is not a frozen source fragment',
 'C27': 'exactness of a stateful sliding window over runtime slot numbers; no table/ordering/lock clause separable from the behaviour itself',
}

checks, na = [], []
for p in props:
    pid = p['id']
    if pid in built and pid in T:
        tech, text, note, ref = T[pid]['technique'], T[pid]['text'], T[pid]['note'], T[pid]['ref']
        try:
            ev = json.load(open(f'/verif/evidence/{pid}.json'))
            names = sorted({r.split(':', 1)[0] for r in ev['coverage'].get('rules', [])})
            if names:
                note = (note + '; ' if note else '') + 'rules evaluated (each documented in the evidence file): ' + ', '.join(names)
        except Exception:
            pass
        checks.append({
            'property_id': pid,
            'quick_cmd': f'./check.sh {pid} quick',
            'thorough_cmd': f'./check.sh {pid} thorough',
            'evidence_file': f'/verif/evidence/{pid}.json',
            'replay_cmd_template': f'./check.sh {pid} quick  # replay file {{path}} names rule, construct key and file:line',
            'engine': 'verifcheck',
            'level_claimed': {'category': 'other', 'text': text, 'design_ref': ref},
            'level_note': note,
            'technique': 'static analysis: ' + tech,
        })
    else:
        reason = PLANNED.get(pid, 'static check not built yet in this round (design in DESIGN.md §4); not claimed until its rule runs clean on the unchanged tree')
        na.append({'property_id': pid, 'reason': reason})

m = {
 'version': 1,
 'setup_cmd': 'cd /verif/checker && GOFLAGS=-mod=mod GOPROXY=off GOSUMDB=off GOTOOLCHAIN=local GOWORK=off go build -o /verif/bin/verifcheck .',
 'hooks': {'guard': 'verif', 'enable': 'none needed: static analysis reads the sources, no instrumentation is compiled in',
           'baseline_off_cmd': 'cd /repo && go test -mod=mod -vet=off -count=1 -timeout 25m ./...',
           'source_commits': [], 'add_only': True},
 'engines': [{'name': 'verifcheck', 'path': '/verif/checker', 'serves_properties': sorted(c['property_id'] for c in checks),
              'kind_free_text': 'repository-specific static analyser (go/packages + go/types + go/ssa, x/tools v0.29.0): rule catalogue of DESIGN.md §3 applied to /repo working tree on every run'}],
 'checks': checks,
 'not_applicable': na,
 'notes': 'All claims are level "other": each check decides structural necessary conditions of the behavioural property for all inputs/paths, and states what it does not decide in evidence.coverage.not_decided. known_findings.txt lists genuine defects recorded or fixed.',
}
json.dump(m, open('/verif/MANIFEST.json', 'w'), indent=1)
print('checks', len(checks), 'not_applicable', len(na))
