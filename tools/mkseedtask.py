#!/usr/bin/env python3
"""Write /tmp/seed/<id>/TASK.md for a seeding sub-agent: property text + worktree only (nothing from /verif)."""
import json, sys
props = {json.loads(l)['id']: json.loads(l) for l in open('/verif/properties.jsonl')}
for pid in sys.argv[1:]:
    p = props[pid]
    t = f"""# Task: seed a realistic regression that breaks one property of ChainSafe/gossamer

You work ONLY inside the scratch git worktree `/tmp/wt/{pid}` (a checkout of the gossamer repository, a Go
implementation of the Polkadot Host) and write your results to `/tmp/seed/{pid}/`. Never touch `/repo` or `/verif`
(do not read /verif either).

## The property

**{p['id']} — {p['title']}**

{p['statement']}

Quantifier: {p['quantifier']['text']}

Code that is involved (starting points, not a limit): {', '.join(p['anchors']['files'])}

## What to produce

A *small, realistic* change to the gossamer source (non-test `.go` files only, the kind of thing a plausible
refactor / optimisation / "simplification" / merge slip could introduce) such that:

1. the repository still compiles (`go build ./...` in the worktree) and `go vet` of the touched packages is clean;
2. the EXISTING tests of every package you touched — and of the packages that directly depend on the changed
   behaviour — still pass, unedited: `go test -vet=off -count=1 ./path/to/pkg/...` (integration tests carry
   `//go:build integration` and are not part of the suite; do not use that tag);
3. the property above is now FALSE for some input / schedule / crash point / history;
4. the breakage needs something *specific* to manifest — a particular interleaving, a crash or fault at a
   particular point, a multi-step sequence of operations, an unusual input, or two cooperating sites that each
   look fine alone. NOT something that ordinary use or the existing tests would expose at once.
5. Do not add comments that advertise the bug; the code should look innocent. Keep the diff minimal (ideally
   1–15 changed lines, one or two sites).

And a demonstration: a new Go test file (in-package `_test.go`, name it `zz_seed_{pid.lower()}_test.go`, test name
`TestSeed{pid}`) that FAILS with your change applied and PASSES on the unchanged tree (verify both, e.g. with
`git diff > p.diff; git checkout -- .; …; git apply p.diff` — do NOT use `git stash`: the stash is shared by all worktrees of this repository and other people work in sibling worktrees). For
concurrency properties a demonstration that fails under `go test -race` (or deterministically forces the
interleaving) is fine.

## Environment

Every shell call must start with:
`export GOFLAGS=-mod=mod GOPROXY=off GOSUMDB=off GOTOOLCHAIN=local`
There is no network. First build of the repo takes ~1 minute, later ones seconds. Use at most ~4 parallel
test processes (`-p 4`) because other jobs share this machine. Do not create other worktrees or copies.

## Deliverables (write all three)

* `/tmp/seed/{pid}/patch.diff` — `git diff` of the source change ONLY (without the demo test), relative to the
  worktree root, applicable with `git apply`.
* `/tmp/seed/{pid}/zz_seed_{pid.lower()}_test.go` — the demonstration test, plus a first-line comment saying in
  which package directory it must be placed.
* `/tmp/seed/{pid}/meta.json` — {{"property": "{pid}", "summary": "<what you changed>", "needs_to_manifest":
  "<what specific input/schedule/sequence exposes it>", "demo_pkg_dir": "<dir of the test>", "commands_run":
  ["<the exact commands you ran and their outcome: demo fails with patch, passes without, existing tests pass>"]}}

When done, leave the worktree with your patch applied and the demo test in place. Your final message should be a
3–6 line summary (what changed, how it manifests, the test results).
"""
    import os, glob
    avoid = []
    for mp in sorted(glob.glob(f'/verif/seeded/{pid}*/meta.json')):
        try:
            avoid.append(json.load(open(mp)).get('summary', ''))
        except Exception:
            pass
    if avoid and os.environ.get('SEED_AVOID') == '1':  # off by default: sub-agents get the property text and a worktree only
        t += "\n## Already known — do something DIFFERENT\n\nOther people already produced the following changes for this property; yours must break the property through a different mechanism, at a different place:\n" + "".join(f"- {a}\n" for a in avoid if a)
    os.makedirs(f'/tmp/seed/{pid}', exist_ok=True)
    open(f'/tmp/seed/{pid}/TASK.md', 'w').write(t)
    print('wrote', pid)
