#!/bin/bash
# usage: tryrefactors.sh <name>   -- applies each /tmp/refac/<name>/r*.diff to /repo in turn and runs EVERY quick check;
# any VIOLATION here is a false alarm of the checker (the refactorings preserve behaviour).
set -u
N="$1"
cd /repo || exit 2
[ -z "$(git status --porcelain --untracked-files=no)" ] || { echo "repo not clean"; exit 2; }
mkdir -p /tmp/verif-mut; cp /verif/known_findings.txt /tmp/verif-mut/
for d in /tmp/refac/$N/r*.diff; do
  [ -s "$d" ] || continue
  if ! git apply --check "$d" 2>/dev/null; then echo "$(basename $d): does not apply"; continue; fi
  git apply "$d"
  bad=""
  for p in $(/verif/bin/verifcheck -list); do
    out=$(VERIF_DIR=/tmp/verif-mut /verif/bin/verifcheck -p $p -tier quick 2>&1)
    if echo "$out" | grep -q '^VIOLATION'; then bad="$bad $p"; echo "FALSE-ALARM? $(basename $d) $p:"; echo "$out" | grep -E '^  (violation|UNDECIDED|ANCHOR)' | cut -c1-260 | head -4; fi
  done
  [ -z "$bad" ] && echo "$(basename $d): silent on all checks"
  git checkout -- .
done
