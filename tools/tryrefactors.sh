#!/bin/bash
# usage: tryrefactors.sh <name>   -- applies each /verif/refactors/<name>/r*.diff VIRTUALLY (overlay, /repo untouched) and
# runs EVERY quick check; any VIOLATION here is a false alarm of the checker (the refactorings preserve behaviour).
set -u
N="$1"
export GOFLAGS=-mod=mod GOPROXY=off GOSUMDB=off GOTOOLCHAIN=local GOWORK=off
TMP=$(mktemp -d /tmp/verif-refac.XXXXXX); trap 'rm -rf "$TMP"' EXIT
for d in /verif/refactors/$N/r*.diff; do
  [ -s "$d" ] || continue
  b=$(basename $d .diff); ov="$TMP/ov-$b"; mkdir -p "$ov"
  for f in $(grep '^+++ b/' "$d" | sed 's|^+++ b/||'); do mkdir -p "$ov/$(dirname "$f")"; cp "/repo/$f" "$ov/$f" 2>/dev/null; done
  if ! patch -s -p1 -d "$ov" < "$d" >/dev/null 2>&1; then echo "$b: does not apply"; continue; fi
  /verif/bin/verifcheck -list | xargs -P 6 -I{} sh -c "mkdir -p $TMP/vd-$b-{}; cp /verif/known_findings.txt $TMP/vd-$b-{}/; VERIF_DIR=$TMP/vd-$b-{} /verif/bin/verifcheck -p {} -tier quick -overlay-dir $ov > $TMP/out-$b-{}.txt 2>&1"
  bad=""
  for o in $TMP/out-$b-*.txt; do
    if grep -q '^VIOLATION' $o; then p=$(basename $o .txt); bad="$bad $p"; echo "FALSE-ALARM? $p:"; grep -E '^  (violation|UNDECIDED|ANCHOR)' $o | cut -c1-260 | head -4; fi
  done
  [ -z "$bad" ] && echo "$b: silent on all $(ls $TMP/out-$b-*.txt | wc -l) checks"
done
