#!/usr/bin/env python3
"""Write /tmp/refac/<name>/TASK.md: ask a sub-agent for behaviour-preserving refactorings (negative tests for false alarms)."""
import sys, os
name, files = sys.argv[1], sys.argv[2:]
t = f"""# Task: behaviour-preserving refactorings of ChainSafe/gossamer (Go)

You work ONLY inside the scratch git worktree `/tmp/wt/refac-{name}` and write results to `/tmp/refac/{name}/`.
Never touch `/repo` or `/verif` (do not read /verif either).

Produce **8 independent, realistic, behaviour-preserving refactorings** of the non-test Go code in these files
(each refactoring touches one or two of them):

{chr(10).join('- ' + f for f in files)}

"Behaviour-preserving" means: for every input, schedule and history the observable behaviour of the package is exactly
the same as before (same results, same errors, same ordering of database writes, same locking, same panics).
Use the kinds of edits a maintainer makes in ordinary clean-up work, a different kind for each patch, for example:
renaming local variables / parameters / unexported helpers; extracting a block into an unexported helper function or
inlining one; turning an if/else-if chain into a switch (or back); inverting a condition with early return
(`if !ok {{ return }}` vs `if ok {{ ... }}`); replacing `x == false` style; hoisting a repeated expression into a local;
replacing a hand-written loop by an equivalent std helper (`slices.Contains`, `bytes.Equal`, `copy`) or vice versa;
reordering two independent statements that do not touch shared state; changing `var x T; x = f()` to `x := f()`;
splitting a long function; converting a method value receiver use, introducing a named constant for a literal;
using `defer` for an unlock that was explicit at every exit (keeping the critical section identical); changing error
message wording is NOT allowed, changing exported API is NOT allowed.

For each refactoring i = 1..8:
1. start from a clean tree (`git checkout -- .`), make the edit;
2. check `go build ./...`, `go vet` of the touched package(s) and the existing tests of the touched package(s) and their
   direct dependents pass (`go test -vet=off -count=1 -p 4 ./path/...`; never run pkg/finality-grandpa's suite without
   `-timeout 120s`; tests of lib/runtime/wazero and dot/rpc/modules::TestCall need network and fail anyway);
3. save `git diff > /tmp/refac/{name}/r<i>.diff`, and append one line to `/tmp/refac/{name}/README.txt`:
   `r<i>.diff: <file(s)> — <what kind of refactoring>, why it preserves behaviour`.

Environment: every shell call must start with
`export GOFLAGS=-mod=mod GOPROXY=off GOSUMDB=off GOTOOLCHAIN=local` (no network). Leave the worktree clean at the end.
Final message: the 8 README lines.
"""
os.makedirs(f'/tmp/refac/{name}', exist_ok=True)
open(f'/tmp/refac/{name}/TASK.md','w').write(t)
print('wrote', name)
