#!/bin/bash
# usage: tryoverlay.sh <patch.diff> <prop> [<prop>...] -- like trymutant.sh but /repo is not touched (overlay)
set -u
PATCH="$1"; shift
export GOFLAGS=-mod=mod GOPROXY=off GOSUMDB=off GOTOOLCHAIN=local GOWORK=off
TMP=$(mktemp -d /tmp/verif-ov.XXXXXX); trap 'rm -rf "$TMP"' EXIT
ov=$TMP/ov; mkdir -p $ov $TMP/vd; cp /verif/known_findings.txt $TMP/vd/
for f in $(grep '^+++ b/' "$PATCH" | sed 's|^+++ b/||'); do mkdir -p "$ov/$(dirname "$f")"; cp "/repo/$f" "$ov/$f" 2>/dev/null; done
patch -s -p1 -d "$ov" < "$PATCH" >/dev/null 2>&1 || { echo "PATCH-DOES-NOT-APPLY $PATCH"; exit 3; }
for p in "$@"; do
  out=$(VERIF_DIR=$TMP/vd /verif/bin/verifcheck -p $p -tier quick -overlay-dir $ov 2>&1)
  if echo "$out" | grep -q "^VIOLATION"; then echo "CAUGHT by $p:"; echo "$out" | grep -E "^  (violation|UNDECIDED|ANCHOR)" | cut -c1-300 | head -5; else echo "MISSED by $p"; fi
done
