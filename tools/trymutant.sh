#!/bin/bash
# usage: trymutant.sh <patch.diff> <prop> [<prop>...]  -- applies the patch to /repo, runs the quick checks, reverts
set -u
PATCH="$1"; shift
cd /repo || exit 2
if [ -n "$(git status --porcelain --untracked-files=no)" ]; then echo "repo not clean"; exit 2; fi
if ! git apply --check "$PATCH" 2>/dev/null; then
  if ! git apply --3way "$PATCH" 2>/dev/null; then echo "PATCH-DOES-NOT-APPLY $PATCH"; git reset -q; git checkout -- . ; exit 3; fi
  git reset -q
else
  git apply "$PATCH"
fi
git diff --stat | tail -1
for p in "$@"; do
  out=$(cd /verif && VERIF_DIR=/tmp/verif-mut ./check.sh "$p" quick 2>&1)
  if echo "$out" | grep -q "^VIOLATION"; then echo "CAUGHT by $p:"; echo "$out" | grep -E "^  (violation|UNDECIDED|ANCHOR)" | head -5; else echo "MISSED by $p"; fi
done
git checkout -- . 
