#!/bin/bash
# usage: triage.sh <Cxx>...  -- for each finished seed in /tmp/seed/<id>: duplicate of a stored one? caught or missed by its check?
for p in "$@"; do
  [ -f /tmp/seed/$p/patch.diff ] || { echo "$p: no patch yet"; continue; }
  a=$(grep '^[+-]' /tmp/seed/$p/patch.diff | grep -v '^+++\|^---' | md5sum | cut -c1-8); dup=""
  for old in /verif/seeded/$p/patch*.diff /verif/seeded/$p/r*/patch.diff; do [ -f "$old" ] && b=$(grep '^[+-]' $old | grep -v '^+++\|^---' | md5sum | cut -c1-8) && [ "$a" = "$b" ] && dup="$old"; done
  res=$(/verif/tools/tryoverlay.sh /tmp/seed/$p/patch.diff $p | head -2 | cut -c1-200 | tr '\n' ' ')
  echo "$p dup=${dup:-no} :: $res"
done
