#!/bin/bash
# usage: verifyseed.sh <Cxx> [extra go test flags for the demo, e.g. -race]
# Confirms a seeded change in its scratch worktree /tmp/wt/<id>: builds, demo passes without / fails with the patch,
# existing tests of the touched packages pass with it. Writes /tmp/seed/<id>/verify.log and prints a verdict line.
set -u
ID="$1"; shift; EXTRA="$*"
W=/tmp/wt/$ID; S=/tmp/seed/$ID
export GOFLAGS=-mod=mod GOPROXY=off GOSUMDB=off GOTOOLCHAIN=local
LOG=$S/verify.log; : > $LOG
PKG=$(python3 -c "import json;print(json.load(open('$S/meta.json'))['demo_pkg_dir'].strip('/').replace('/tmp/wt/$ID/',''))")
TEST=$(ls $S/zz_seed_*_test.go | head -1)
cd $W || exit 2
git checkout -q -- . ; cp $TEST $W/$PKG/
echo "== demo WITHOUT patch" >> $LOG
if go test -vet=off -count=1 $EXTRA -run "TestSeed$ID" ./$PKG/ >> $LOG 2>&1; then A=pass; else A=FAIL; fi
git apply $S/patch.diff || { echo "$ID: patch does not apply"; exit 3; }
echo "== build WITH patch" >> $LOG
if go build ./... >> $LOG 2>&1; then B=ok; else B=FAIL; fi
echo "== demo WITH patch" >> $LOG
if go test -vet=off -count=1 $EXTRA -run "TestSeed$ID" ./$PKG/ >> $LOG 2>&1; then C=pass; else C=fail; fi
TOUCHED=$(git diff --name-only | xargs -n1 dirname | sort -u | sed 's|^|./|' | tr '\n' ' ')
echo "== existing tests WITH patch: $TOUCHED" >> $LOG
if go test -vet=off -count=1 -p 4 -skip "TestSeed" $TOUCHED >> $LOG 2>&1; then D=pass; else D=FAIL; fi
echo "$ID: demo_without=$A build=$B demo_with=$C existing_with=$D touched=$TOUCHED"
