#!/bin/bash
# usage: baseline.sh <repo dir> <out prefix>  -- runs the pinned test suite (root module + devnet) and reports which
# of BASELINE.json's stable_pass tests did not pass.
set -u
R="$1"; OUT="$2"
export GOFLAGS=-mod=mod GOPROXY=off GOSUMDB=off GOTOOLCHAIN=local
: > $OUT.json
for m in . ./devnet; do (cd $R/$m && go test -mod=mod -json -vet=off -count=1 -timeout 25m ./... >> $OUT.json 2>$OUT.err); done
python3 - "$OUT.json" <<'PY'
import json,sys
passed=set(); failed=set()
for l in open(sys.argv[1], errors='replace'):
    try: e=json.loads(l)
    except Exception: continue
    if e.get('Test') and e.get('Action') in ('pass','fail'):
        (passed if e['Action']=='pass' else failed).add(e['Package']+'::'+e['Test'])
b=json.load(open('/root/.vp/BASELINE.json'))
missing=[t for t in b['stable_pass'] if t not in passed]
print('passed',len(passed),'failed',len(failed),'stable_pass missing',len(missing))
for t in missing[:60]: print('  MISSING',t, '(failed)' if t in failed else '(not run)')
PY
