#!/bin/bash
# usage: storeseed.sh <Cxx> <round dir, e.g. r3> <verify result file> [expected=caught]
# copies /tmp/seed/<id>/{patch.diff,meta.json,zz_seed_*_test.go} to /verif/seeded/<id>/<round>/, records my own
# confirmation line in meta.json, appends the EXPECT line and removes the scratch worktree.
set -u
ID="$1"; R="$2"; VF="$3"; EXP="${4:-caught}"
grep -q "^$ID:" "$VF" || { echo "$ID not verified in $VF"; exit 1; }
D=/verif/seeded/$ID/$R; mkdir -p $D
cp /tmp/seed/$ID/patch.diff /tmp/seed/$ID/meta.json /tmp/seed/$ID/zz_seed_*_test.go $D/
python3 - "$ID" "$R" "$VF" <<'PY'
import json,sys
p,r,vf=sys.argv[1:4]; f=f'/verif/seeded/{p}/{r}/meta.json'
m=json.load(open(f)); v=open(vf).read()
m['round']=int(r[1:]); m['confirmed_by_me']=[l for l in v.splitlines() if l.startswith(p+':')][-1]
json.dump(m,open(f,'w'),indent=1)
PY
grep -q "^$ID $R/patch.diff" /verif/seeded/EXPECT || echo "$ID $R/patch.diff $EXP" >> /verif/seeded/EXPECT
git -C /repo worktree remove --force /tmp/wt/$ID 2>/dev/null
echo "stored $ID/$R"
