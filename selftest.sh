#!/bin/bash
# selftest.sh [<property> ...] -- mutation self-test of the checker: every seeded change kept under /verif/seeded is
# applied VIRTUALLY (files copied outside /repo, patched, handed to the analyser as an overlay) and the property's
# check must report a violation. Nothing is written into /repo. Prints one line per seed; exit 0 iff the outcomes
# equal the expectations recorded in seeded/EXPECT.
set -u
cd "$(dirname "$0")"
export GOFLAGS=-mod=mod GOPROXY=off GOSUMDB=off GOTOOLCHAIN=local GOWORK=off
[ -x bin/verifcheck ] || (cd checker && go build -o ../bin/verifcheck .) || exit 2
ONLY="$*"
TMP=$(mktemp -d /tmp/verif-selftest.XXXXXX); trap 'rm -rf "$TMP"' EXIT
mkdir -p "$TMP/vd"; cp known_findings.txt "$TMP/vd/"
rc=0
while read -r id patch expect; do
  [ -z "$id" ] && continue
  case "$id" in \#*) continue;; esac
  if [ -n "$ONLY" ] && ! echo " $ONLY " | grep -q " $id "; then continue; fi
  ov="$TMP/ov-$id"; rm -rf "$ov"; mkdir -p "$ov"
  for f in $(grep '^+++ b/' "seeded/$id/$patch" | sed 's|^+++ b/||'); do mkdir -p "$ov/$(dirname "$f")"; cp "/repo/$f" "$ov/$f" 2>/dev/null; done
  if ! patch -s -p1 -d "$ov" < "seeded/$id/$patch" >/dev/null 2>&1; then echo "SELFTEST $id $patch: patch does not apply to the current tree (expect=$expect)"; [ "$expect" = "stale" ] || rc=1; continue; fi
  out=$(VERIF_DIR="$TMP/vd" ./bin/verifcheck -p "$id" -tier quick -overlay-dir "$ov" 2>&1)
  if echo "$out" | grep -q '^VIOLATION'; then got=caught; else got=missed; fi
  rule=$(echo "$out" | grep -m1 -E '^  (violation|UNDECIDED|ANCHOR)' | sed -E 's/^  violation rule=([^ ]+) key=([^ ]+).*/\1 \2/')
  echo "SELFTEST $id $patch: $got (expected $expect) $rule"
  [ "$got" = "$expect" ] || rc=1
done < seeded/EXPECT
exit $rc
