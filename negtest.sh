#!/bin/bash
# negtest.sh <property> -- the "no false alarm" side of the checker self-test: every behaviour-preserving refactoring
# kept under refactors/<group>/r*.diff that touches a package this property analyses is applied VIRTUALLY (overlay,
# nothing written to /repo) and the property's check must stay silent. Exceptions (a true report that moves with the
# code) are listed in refactors/EXPECT. Prints one line per refactoring; exit 0 iff all outcomes are as expected.
set -u
cd "$(dirname "$0")"
export GOFLAGS=-mod=mod GOPROXY=off GOSUMDB=off GOTOOLCHAIN=local GOWORK=off
P="$1"
[ -x bin/verifcheck ] || (cd checker && go build -o ../bin/verifcheck .) || exit 2
PKGS=$(python3 -c "
import json,sys
e=json.load(open('evidence/$P.json'))
print(' '.join(x for x in e['coverage'].get('packages_analysed',[]) if not x.startswith('./')))
" 2>/dev/null)
TMP=$(mktemp -d /tmp/verif-neg.XXXXXX); trap 'rm -rf "$TMP"' EXIT
mkdir -p "$TMP/vd"; cp known_findings.txt "$TMP/vd/"
rc=0; n=0
for d in refactors/*/r*.diff; do
  g=$(basename "$(dirname "$d")"); r=$(basename "$d" .diff)
  hit=0
  for f in $(grep '^+++ b/' "$d" | sed 's|^+++ b/||'); do
    for p in $PKGS; do [ "$(dirname "$f")" = "$p" ] && hit=1; done
  done
  [ $hit -eq 1 ] || continue
  n=$((n+1))
  ov="$TMP/ov"; rm -rf "$ov"; mkdir -p "$ov"
  for f in $(grep '^+++ b/' "$d" | sed 's|^+++ b/||'); do mkdir -p "$ov/$(dirname "$f")"; cp "/repo/$f" "$ov/$f" 2>/dev/null; done
  if ! patch -s -p1 -d "$ov" < "$d" >/dev/null 2>&1; then echo "NEGTEST $P $g/$r: does not apply to the current tree (skipped)"; continue; fi
  out=$(VERIF_DIR="$TMP/vd" ./bin/verifcheck -p "$P" -tier quick -overlay-dir "$ov" 2>&1)
  expect=silent
  grep -q "^$P $g/$r " refactors/EXPECT 2>/dev/null && expect=$(grep "^$P $g/$r " refactors/EXPECT | awk '{print $3}')
  if echo "$out" | grep -q '^VIOLATION'; then got=reports; else got=silent; fi
  echo "NEGTEST $P $g/$r: $got (expected $expect)"
  [ "$got" = "$expect" ] || { rc=1; echo "$out" | grep -E '^  (violation|UNDECIDED|ANCHOR)' | cut -c1-240 | head -3; }
done
echo "NEGTEST $P: $n refactorings touch the analysed packages"
exit $rc
