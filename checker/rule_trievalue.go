package main

import (
	"fmt"
	"go/token"
	"strings"

	"golang.org/x/tools/go/ssa"
)

// R-PREFIX: byte prefixes are converted to nibbles exactly (no trimming) before reaching the internal walkers.
func (c *Ctx) rulePrefix(only ...string) {
	c.doc("R-PREFIX", "in GetKeysWithPrefix/ClearPrefix/ClearPrefixLimit/PrefixedIter the nibble prefix handed to the walker is codec.KeyLEToNibbles(param) through identity flow only; a bytes.Trim*/re-slice in between changes which keys match byte-wise")
	walkers := map[string]int{"getKeysWithPrefix": 2, "clearPrefixLimitAtNode": 2, "clearPrefixAtNode": 2, "WithCursorAt": 0}
	names := []string{"(*InMemoryTrie).GetKeysWithPrefix", "(*InMemoryTrie).ClearPrefix", "(*InMemoryTrie).ClearPrefixLimit", "(*InMemoryTrie).PrefixedIter"}
	if len(only) > 0 {
		names = only
	}
	for _, name := range names {
		f := c.fn(inmemDir, name)
		if f == nil {
			continue
		}
		n := 0
		eachInstr(f, func(_ *ssa.BasicBlock, _ int, in ssa.Instruction) {
			call, ok := in.(*ssa.Call)
			if !ok {
				return
			}
			calName := ""
			if cal := call.Call.StaticCallee(); cal != nil {
				calName = cal.Name()
			} else if u, ok := call.Call.Value.(*ssa.UnOp); ok {
				if g, ok := u.X.(*ssa.Global); ok {
					calName = g.Name() // package-level func variable (option constructors)
				}
			}
			ai, ok := walkers[calName]
			if !ok || ai >= len(call.Call.Args) {
				return
			}
			n++
			good, why := true, ""
			for _, v := range phiInputs(call.Call.Args[ai]) {
				switch x := v.(type) {
				case *ssa.Const:
				case *ssa.Call:
					nm := relName(calleeName(&x.Call))
					if nm != "pkg/trie/codec.KeyLEToNibbles" {
						good, why = false, "prefix passes through "+nm
					} else if _, isParam := x.Call.Args[0].(*ssa.Parameter); !isParam {
						good, why = false, "KeyLEToNibbles is not applied to the prefix parameter itself"
					}
				default:
					good, why = false, "prefix is "+describeVal(v)
				}
			}
			c.ob("R-PREFIX", fmt.Sprintf("%s:%s#%d", relName(f.String()), calName, n), call.Pos(), good,
				shortFn(f)+": "+why+"; the nibble prefix no longer has exactly 2*len(prefix) nibbles, so keys that do not start with the byte prefix match (or matching keys are missed)")
		})
		if n == 0 {
			c.undecided("R-PREFIX", "no walker call found in "+name)
		}
	}
}

// R-PREORDER: recursive walkers that must consume keys in ascending order handle the node's own value before its
// children.
func (c *Ctx) rulePreorder(only ...string) {
	c.doc("R-PREORDER", "in addAllKeys and deleteNodesLimit a nil-test of the branch's own StorageValue dominates the recursive call on the children (a branch's key is the smallest key of its subtree)")
	pnames := []string{"addAllKeys", "(*InMemoryTrie).deleteNodesLimit"}
	if len(only) > 0 {
		pnames = only
	}
	for _, name := range pnames {
		f := c.fn(inmemDir, name)
		if f == nil {
			continue
		}
		var rec []*ssa.Call
		var tests []*ssa.BasicBlock
		eachInstr(f, func(b *ssa.BasicBlock, _ int, in ssa.Instruction) {
			if call, ok := in.(*ssa.Call); ok && call.Call.StaticCallee() == f {
				rec = append(rec, call)
			}
			if iff, ok := in.(*ssa.If); ok {
				for _, cv := range phiInputs(iff.Cond) {
					if e, _, ok := nilCmp(cv); ok {
						if _, ok := isFieldLoadNamed(e, "StorageValue"); ok {
							tests = append(tests, b)
						}
					}
				}
			}
		})
		for i, r := range rec {
			ok := false
			for _, t := range tests {
				if t != r.Block() && t.Dominates(r.Block()) {
					ok = true
				}
			}
			c.ob("R-PREORDER", fmt.Sprintf("%s:recursion#%d", relName(f.String()), i+1), r.Pos(), ok,
				shortFn(f)+" recurses into the children before handling the branch's own value: the branch key (the smallest of its subtree) is consumed last")
		}
		if len(rec) == 0 {
			c.undecided("R-PREORDER", "no recursion in "+name)
		}
	}
}

// R-NILVALUE: the presence of a value on a node is tested with nil, never with len()==0.
func (c *Ctx) ruleNilValue(dirs ...string) {
	c.doc("R-NILVALUE", "a node's StorageValue presence test compares with nil; comparing len(StorageValue) with 0 treats a stored empty value as absent, and comparing it with bytes.Equal treats `no value` and the empty value as the same value")
	for _, dir := range dirs {
		sp := c.ssaPkg(dir)
		if sp == nil {
			continue
		}
		for _, f := range allFuncs(c, sp) {
			ordN, ordL, ordE := 0, 0, 0
			eachInstr(f, func(_ *ssa.BasicBlock, _ int, in ssa.Instruction) {
				if call, ok := in.(*ssa.Call); ok && calleeName(&call.Call) == "bytes.Equal" {
					for _, a := range call.Call.Args {
						if b, ok := isFieldLoadNamed(a, "StorageValue"); ok && isNodePtr(b.Type()) {
							ordE++
							c.ob("R-NILVALUE", fmt.Sprintf("%s:bytes.Equal-on-value#%d", relName(f.String()), ordE), call.Pos(), false,
								shortFn(f)+" compares a node's StorageValue with bytes.Equal, which treats `no value` (nil) and the empty value as equal: writing an empty value over a value-less branch is taken for `unchanged` and dropped (Node.StorageValueEqual keeps the distinction)")
							break
						}
					}
					return
				}
				bo, ok := in.(*ssa.BinOp)
				if !ok || !isCmp(bo.Op) {
					return
				}
				if e, _, ok := nilCmp(bo); ok {
					if b, ok := isFieldLoadNamed(e, "StorageValue"); ok && isNodePtr(b.Type()) {
						ordN++
						c.ob("R-NILVALUE", fmt.Sprintf("%s:nil-test#%d", relName(f.String()), ordN), bo.Pos(), true, "presence tested with nil")
					}
					return
				}
				subj, _, k, ok := cmpWithConst(bo)
				if !ok || k != 0 {
					return
				}
				if l, ok := lenOf(subj); ok {
					if b, ok := isFieldLoadNamed(l, "StorageValue"); ok && isNodePtr(b.Type()) {
						ordL++
						c.ob("R-NILVALUE", fmt.Sprintf("%s:len-test#%d", relName(f.String()), ordL), bo.Pos(), false,
							shortFn(f)+" tests len(StorageValue) against 0: a key stored with an empty value is treated as having no value (it can be merged away or skipped)")
					}
				}
			})
		}
	}
}

// R-VALUECARRY: whenever a node's StorageValue is written, its MustBeHashed flag is written from the same source.
func (c *Ctx) ruleValueCarry(exempt map[string]string) {
	c.doc("R-VALUECARRY", "every write N.StorageValue = Y.StorageValue is accompanied by N.MustBeHashed = Y.MustBeHashed of the same Y; every write of a caller-supplied value is accompanied by N.MustBeHashed = mustBeHashed(version, thatValue)")
	sp := c.ssaPkg(inmemDir)
	if sp == nil {
		return
	}
	for _, f := range allFuncs(c, sp) {
		if _, ok := exempt[shortFn(f)]; ok {
			continue
		}
		type st struct {
			recv ssa.Value
			val  ssa.Value
			in   ssa.Instruction
		}
		var values, flags []st
		eachInstr(f, func(_ *ssa.BasicBlock, _ int, in ssa.Instruction) {
			s, ok := in.(*ssa.Store)
			if !ok {
				return
			}
			fa, ok := s.Addr.(*ssa.FieldAddr)
			if !ok || !isNodePtr(fa.X.Type()) || fieldVar(fa) == nil {
				return
			}
			switch fieldVar(fa).Name() {
			case "StorageValue":
				values = append(values, st{fa.X, s.Val, in})
			case "MustBeHashed":
				flags = append(flags, st{fa.X, s.Val, in})
			}
		})
		for i, v := range values {
			if isNilConst(v.val) {
				continue
			}
			key := fmt.Sprintf("%s:StorageValue-store#%d", relName(f.String()), i+1)
			ok, why := false, "no MustBeHashed write on the same node"
			for _, fl := range flags {
				if fl.recv != v.recv {
					continue
				}
				if src, isLoad := isFieldLoadNamed(v.val, "StorageValue"); isLoad {
					if fsrc, ok2 := isFieldLoadNamed(fl.val, "MustBeHashed"); ok2 && fsrc == src {
						ok = true
					} else {
						why = "StorageValue is taken from " + describeVal(src) + " but MustBeHashed from " + describeVal(fl.val)
						if ok2 {
							why = "StorageValue and MustBeHashed are taken from different nodes"
						}
					}
				} else {
					for _, fv := range phiInputs(fl.val) {
						if call, isCall := fv.(*ssa.Call); isCall {
							if cal := call.Call.StaticCallee(); cal != nil && cal.Name() == "mustBeHashed" && len(call.Call.Args) == 2 && call.Call.Args[1] == v.val {
								ok = true
							}
						}
					}
					if !ok {
						why = "MustBeHashed is not mustBeHashed(version, <the value written>)"
					}
				}
			}
			c.ob("R-VALUECARRY", key, v.in.Pos(), ok, shortFn(f)+": "+why+" — the node would be encoded with the wrong inline/hashed form and the state root differs from the specification's")
		}
	}
}

var _ = strings.TrimSpace
var _ = token.ADD

// R-NILVALUE/copy: a value copied into a node's StorageValue keeps the nil/empty distinction.
func (c *Ctx) ruleEmptyCopy(dirs ...string) {
	c.doc("R-NILVALUE/copy", "no store into Node.StorageValue is an append onto a nil slice: append(nil, v...) of an empty non-nil v is nil, so a stored empty value disappears from the copy (Copy, snapshots, merges)")
	n := 0
	for _, dir := range dirs {
		sp := c.ssaPkg(dir)
		if sp == nil {
			continue
		}
		for _, f := range allFuncs(c, sp) {
			ord := 0
			eachInstr(f, func(_ *ssa.BasicBlock, _ int, in ssa.Instruction) {
				st, ok := in.(*ssa.Store)
				if !ok {
					return
				}
				fa, ok := st.Addr.(*ssa.FieldAddr)
				if !ok || fieldVar(fa) == nil || fieldVar(fa).Name() != "StorageValue" || !isNodePtr(fa.X.Type()) {
					return
				}
				n++
				ord++
				bad := false
				if call, ok := st.Val.(*ssa.Call); ok && calleeName(&call.Call) == "builtin.append" && len(call.Call.Args) == 2 {
					base := call.Call.Args[0]
					if sl, ok := base.(*ssa.Slice); ok {
						base = sl.X
					}
					if k, ok := base.(*ssa.Const); ok && k.Value == nil {
						bad = true
					}
				}
				c.ob("R-NILVALUE/copy", fmt.Sprintf("%s:StorageValue-store#%d", relName(f.String()), ord), st.Pos(), !bad,
					shortFn(f)+" stores append(nil, v...) into a node's StorageValue: an empty non-nil v becomes nil and the stored empty value is lost")
			})
		}
	}
	if n == 0 {
		c.unresolved("stores into Node.StorageValue")
	}
}
