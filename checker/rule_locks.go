package main

import (
	"fmt"
	"go/token"
	"go/types"
	"sort"
	"strings"

	"golang.org/x/tools/go/ssa"
)

// R-LOCKS: guarded-by discipline, decided by a must-hold dataflow over each function's SSA CFG.

type lockSpec struct {
	dir      string   // package dir
	typ      string   // struct type name
	mutex    string   // name of the guarding mutex field ("" = the struct's only/last mutex)
	guarded  []string // guarded fields
	rule     string   // rule name prefix, e.g. "R-LOCKS"
	l4Exempt map[string]string // method -> reason (several critical sections are intended)
	// functions (relative names) in which unlocked access is accepted, with reason
	l1Exempt map[string]string
	xrefOnly map[string]bool // sub-rules reported as cross-reference only: "L1","L2","L3","L4"
	// mutating method names on objects reached through guarded fields
	noL4 bool
	l5   bool // also check dereferences of pointers obtained from guarded containers
}

const (
	lkNone = 0
	lkR    = 1
	lkW    = 2
)

var mutatingContainerMethods = map[string]bool{
	"MoveToFront": true, "MoveToBack": true, "PushFront": true, "PushBack": true, "Remove": true,
	"InsertBefore": true, "InsertAfter": true, "Init": true, "MoveBefore": true, "MoveAfter": true,
	"PushBackList": true, "PushFrontList": true,
	// sync.Map-like / custom maps
	"Store": true, "Delete": true,
}

var heapMutators = map[string]bool{
	"container/heap.Push": true, "container/heap.Pop": true, "container/heap.Remove": true,
	"container/heap.Fix": true, "container/heap.Init": true,
}

type lockAccess struct {
	in    ssa.Instruction
	field string
	write bool
	how   string
}

type lockFuncInfo struct {
	f          *ssa.Function
	acquires   int  // highest level it acquires itself on the struct's mutex (0 none)
	needs      int  // level required from callers (accesses done while not holding)
	needWhy    string
	accesses   int
	exported   bool
	isMethod   bool
	fresh      bool // operates on a freshly allocated object only (constructor)
}

func (c *Ctx) ruleLocks(sp lockSpec) {
	spkg := c.ssaPkg(sp.dir)
	if spkg == nil {
		return
	}
	obj := spkg.Pkg.Scope().Lookup(sp.typ)
	if obj == nil {
		c.unresolved("type " + sp.dir + "." + sp.typ)
		return
	}
	named, _ := obj.Type().(*types.Named)
	st, _ := obj.Type().Underlying().(*types.Struct)
	if st == nil || named == nil {
		c.unresolved("struct " + sp.dir + "." + sp.typ)
		return
	}
	origin := named.Origin()
	// find mutex field and guarded fields
	mutexIdx := -1
	guardedIdx := map[int]string{}
	for i := 0; i < st.NumFields(); i++ {
		f := st.Field(i)
		tn := namedType(f.Type())
		if (tn == "sync.Mutex" || tn == "sync.RWMutex") && (sp.mutex == "" || sp.mutex == f.Name()) {
			mutexIdx = i
		}
		for _, g := range sp.guarded {
			if f.Name() == g {
				guardedIdx[i] = g
			}
		}
	}
	if mutexIdx < 0 {
		c.unresolved("mutex field of " + sp.typ)
		return
	}
	if len(guardedIdx) != len(sp.guarded) {
		c.unresolved(fmt.Sprintf("guarded fields %v of %s", sp.guarded, sp.typ))
		return
	}
	isS := func(t types.Type) bool {
		p, ok := t.Underlying().(*types.Pointer)
		if !ok {
			return false
		}
		n, ok := p.Elem().(*types.Named)
		return ok && n.Origin() == origin
	}
	// collect candidate functions: every function/method/closure of the package (generic origins, not instances)
	var funcs []*ssa.Function
	seenF := map[*ssa.Function]bool{}
	add := func(f *ssa.Function) {
		if f == nil || seenF[f] || len(f.Blocks) == 0 {
			return
		}
		for _, g := range withAnon(f) {
			if !seenF[g] {
				seenF[g] = true
				funcs = append(funcs, g)
			}
		}
	}
	for _, m := range spkg.Members {
		switch m := m.(type) {
		case *ssa.Function:
			add(m)
		case *ssa.Type:
			for _, t := range []types.Type{m.Type(), types.NewPointer(m.Type())} {
				ms := c.prog.MethodSets.MethodSet(t)
				for i := 0; i < ms.Len(); i++ {
					if fn := c.prog.MethodValue(ms.At(i)); fn != nil && fn.Pkg == spkg && fn.Synthetic == "" {
						add(fn)
					}
				}
			}
		}
	}
	// generic methods: MethodValue returns nil for generic receivers; pick them through the declared objects
	if named.TypeParams().Len() > 0 {
		for i := 0; i < named.NumMethods(); i++ {
			if fn := c.prog.FuncValue(named.Method(i)); fn != nil {
				add(fn)
			}
		}
		for _, m := range spkg.Members {
			if fn, ok := m.(*ssa.Function); ok {
				add(fn)
			}
		}
	}
	sort.Slice(funcs, func(i, j int) bool { return funcs[i].String() < funcs[j].String() })

	isMutexAddr := func(v ssa.Value) bool {
		fa, ok := v.(*ssa.FieldAddr)
		return ok && fa.Field == mutexIdx && isS(fa.X.Type())
	}
	// lockOp: returns (level delta kind) for a call instruction: "+R","+W","-R","-W"
	lockOp := func(cc *ssa.CallCommon) string {
		f := calleeFunc(cc)
		if f == nil || f.Pkg() == nil || f.Pkg().Path() != "sync" {
			return ""
		}
		args := callArgs(cc)
		if len(args) == 0 || !isMutexAddr(args[0]) {
			return ""
		}
		switch f.Name() {
		case "Lock":
			return "+W"
		case "RLock":
			return "+R"
		case "Unlock":
			return "-W"
		case "RUnlock":
			return "-R"
		case "TryLock", "TryRLock":
			return "?"
		}
		return ""
	}

	infos := map[*ssa.Function]*lockFuncInfo{}
	type perFunc struct {
		stateAt map[ssa.Instruction]int
		acc     []lockAccess
		calls   []*ssa.Call
		lockIns []ssa.Instruction // acquisition instructions
		unlocks []ssa.Instruction // explicit (non-deferred) releases
	}
	pf := map[*ssa.Function]*perFunc{}

	for _, f := range funcs {
		info := &lockFuncInfo{f: f}
		infos[f] = info
		if f.Signature.Recv() != nil {
			info.isMethod = true
		}
		info.exported = f.Object() != nil && f.Object().Exported() && f.Parent() == nil
		p := &perFunc{stateAt: map[ssa.Instruction]int{}}
		pf[f] = p
		// forward must-hold dataflow
		in := make([]int, len(f.Blocks))
		for i := range in {
			in[i] = -1 // -1 = unvisited (top)
		}
		transfer := func(b *ssa.BasicBlock, s int, record bool) int {
			for _, ins := range b.Instrs {
				if record {
					p.stateAt[ins] = s
				}
				switch x := ins.(type) {
				case *ssa.Call:
					switch lockOp(&x.Call) {
					case "+W":
						if record {
							p.lockIns = append(p.lockIns, ins)
						}
						s = lkW
					case "+R":
						if record {
							p.lockIns = append(p.lockIns, ins)
						}
						if s < lkR {
							s = lkR
						}
					case "-W", "-R":
						if record {
							p.unlocks = append(p.unlocks, ins)
						}
						s = lkNone
					}
				}
			}
			return s
		}
		in[0] = lkNone
		work := []*ssa.BasicBlock{f.Blocks[0]}
		for len(work) > 0 {
			b := work[0]
			work = work[1:]
			o := transfer(b, in[b.Index], false)
			for _, s := range b.Succs {
				n := in[s.Index]
				if n == -1 || o < n {
					in[s.Index] = o
					work = append(work, s)
				}
			}
		}
		for _, b := range f.Blocks {
			if in[b.Index] >= 0 {
				transfer(b, in[b.Index], true)
			}
		}
		// accesses
		eachInstr(f, func(b *ssa.BasicBlock, _ int, ins ssa.Instruction) {
			if call, ok := ins.(*ssa.Call); ok {
				p.calls = append(p.calls, call)
			}
			fa, ok := ins.(*ssa.FieldAddr)
			if !ok || !isS(fa.X.Type()) {
				return
			}
			g, ok := guardedIdx[fa.Field]
			if !ok {
				return
			}
			if _, fresh := fa.X.(*ssa.Alloc); fresh {
				return // object under construction
			}
			acc := lockAccess{in: fa, field: g}
			acc.write, acc.how = classifyFieldUse(fa)
			p.acc = append(p.acc, acc)
		})
		info.accesses = len(p.acc)
		for _, li := range p.lockIns {
			op := lockOp(li.(*ssa.Call).Common())
			if op == "+W" {
				info.acquires = lkW
			} else if info.acquires < lkR {
				info.acquires = lkR
			}
		}
	}

	// closure parents: a closure inherits the lock state at its creation only if called synchronously; we treat
	// closures conservatively as separate functions whose requirement moves to the MakeClosure site.
	closureSite := map[*ssa.Function]ssa.Instruction{}
	for _, f := range funcs {
		eachInstr(f, func(_ *ssa.BasicBlock, _ int, ins ssa.Instruction) {
			if mc, ok := ins.(*ssa.MakeClosure); ok {
				if fn, ok := mc.Fn.(*ssa.Function); ok {
					closureSite[fn] = mc
				}
			}
		})
	}

	// fixpoint: needs
	changed := true
	for iter := 0; changed && iter < 20; iter++ {
		changed = false
		for _, f := range funcs {
			info, p := infos[f], pf[f]
			need, why := 0, ""
			for _, a := range p.acc {
				s := p.stateAt[a.in]
				want := lkR
				if a.write {
					want = lkW
				}
				if s < want && s == lkNone && want > need {
					need, why = want, fmt.Sprintf("%s of %s.%s", a.how, sp.typ, a.field)
				}
			}
			for _, call := range p.calls {
				callee := call.Call.StaticCallee()
				if callee == nil {
					continue
				}
				if callee.Origin() != nil {
					callee = callee.Origin()
				}
				ci := infos[callee]
				if ci == nil || ci.needs == 0 {
					continue
				}
				if p.stateAt[call] == lkNone && ci.needs > need {
					need, why = ci.needs, "call of "+callee.Name()+" ("+ci.needWhy+")"
				}
			}
			for fn, site := range closureSite {
				if site.Parent() == f && infos[fn] != nil && infos[fn].needs > 0 {
					if p.stateAt[site] == lkNone && infos[fn].needs > need {
						need, why = infos[fn].needs, "closure: "+infos[fn].needWhy
					}
				}
			}
			if need != info.needs {
				info.needs, info.needWhy = need, why
				changed = true
			}
		}
	}

	rep := func(sub, key string, p token.Pos, ok bool, msg string) {
		if sp.xrefOnly[sub] {
			c.xref(sp.rule+"/"+sub, key, p, ok, msg)
		} else {
			c.ob(sp.rule+"/"+sub, key, p, ok, msg)
		}
	}
	// roots: an unexported function that needs the lock from its callers must be reached by static calls only;
	// a `go f()`, a function value or a method that nobody calls statically (interface dispatch, callbacks) has no
	// caller whose lock state can discharge the requirement.
	{
		static := map[*ssa.Function]int{}
		async := map[*ssa.Function]string{}
		for _, f := range funcs {
			eachInstr(f, func(_ *ssa.BasicBlock, _ int, ins ssa.Instruction) {
				var inCall *ssa.Function
				if ci, ok := ins.(ssa.CallInstruction); ok {
					if cal := ci.Common().StaticCallee(); cal != nil {
						if cal.Origin() != nil {
							cal = cal.Origin()
						}
						if _, isCall := ins.(*ssa.Call); isCall {
							static[cal]++
							inCall = cal
						} else if _, isGo := ins.(*ssa.Go); isGo {
							async[cal] = "started with go in " + shortFn(f)
							inCall = cal
						} else {
							static[cal]++ // defer: runs in the deferring function; its state is checked at the defer site below
							inCall = cal
						}
					}
				}
				for _, op := range ins.Operands(nil) {
					if op == nil || *op == nil {
						continue
					}
					if g, ok := (*op).(*ssa.Function); ok && g != inCall && infos[g] != nil && g.Parent() == nil {
						async[g] = "used as a function value in " + shortFn(f)
					}
				}
			})
		}
		for _, f := range funcs {
			info := infos[f]
			if info.needs == 0 || info.exported || f.Parent() != nil {
				continue
			}
			if _, ok := sp.l1Exempt[shortFn(f)]; ok {
				continue
			}
			why := async[f]
			if why == "" && static[f] == 0 {
				why = "no static call site in the package (reached through an interface, a callback or from outside)"
			}
			if why == "" {
				continue
			}
			rep("L1", relName(f.String())+":root", f.Pos(), false, fmt.Sprintf("%s needs the lock from its caller (%s) but is %s: nobody holds the lock for it", shortFn(f), info.needWhy, why))
		}
	}
	// report L1/L2 per access; L3 per call; L4 per function
	for _, f := range funcs {
		info, p := infos[f], pf[f]
		fname := relName(f.String())
		c.funcsSeen[f.String()] = true
		ord := map[string]int{}
		for _, a := range p.acc {
			s := p.stateAt[a.in]
			k := fmt.Sprintf("%s:%s.%s:%s", fname, sp.typ, a.field, a.how)
			ord[k]++
			key := fmt.Sprintf("%s#%d", k, ord[k])
			if s == lkNone {
				// no lock held here: fine only if requirement is moved to all callers (unexported, non-closure-escaping)
				if reason, ok := sp.l1Exempt[shortFn(f)]; ok {
					rep("L1", key, a.in.Pos(), true, "exempt: "+reason)
					continue
				}
				if info.exported || (f.Parent() != nil && isGoOrDeferredElsewhere(f)) {
					rep("L1", key, a.in.Pos(), false, fmt.Sprintf("%s touches guarded field %s.%s with no lock held (%s)", shortFn(f), sp.typ, a.field, a.how))
				} else {
					// requirement propagated to callers; checked at call sites below
					rep("L1", key, a.in.Pos(), true, "requires-lock summary: obligation moved to call sites of "+shortFn(f))
				}
				continue
			}
			if a.write && s == lkR {
				rep("L2", key, a.in.Pos(), false, fmt.Sprintf("%s writes guarded %s.%s (%s) while holding only the read lock", shortFn(f), sp.typ, a.field, a.how))
				continue
			}
			sub := "L1"
			if a.write {
				sub = "L2"
			}
			rep(sub, key, a.in.Pos(), true, fmt.Sprintf("%s under %s lock", a.how, lvl(s)))
		}
		cord := map[string]int{}
		for _, call := range p.calls {
			callee := call.Call.StaticCallee()
			if callee == nil {
				continue
			}
			if callee.Origin() != nil {
				callee = callee.Origin()
			}
			ci := infos[callee]
			if ci == nil {
				continue
			}
			// only calls on an S receiver/argument matter
			onS := false
			for _, a := range call.Call.Args {
				if isS(a.Type()) {
					onS = true
				}
			}
			if !onS && callee.Parent() == nil {
				continue
			}
			s := p.stateAt[call]
			k := fmt.Sprintf("%s:call:%s", fname, callee.Name())
			cord[k]++
			key := fmt.Sprintf("%s#%d", k, cord[k])
			if ci.needs > 0 {
				if s == lkNone {
					if info.needs >= ci.needs && !(info.exported) {
						rep("L1", key, call.Pos(), true, "requirement forwarded to callers of "+shortFn(f))
					} else if reason, ok := sp.l1Exempt[shortFn(f)]; ok {
						rep("L1", key, call.Pos(), true, "exempt: "+reason)
					} else {
						rep("L1", key, call.Pos(), false, fmt.Sprintf("%s calls %s without the lock; %s needs it: %s", shortFn(f), callee.Name(), callee.Name(), ci.needWhy))
					}
				} else if s < ci.needs {
					rep("L2", key, call.Pos(), false, fmt.Sprintf("%s calls %s holding only the read lock; callee writes: %s", shortFn(f), callee.Name(), ci.needWhy))
				} else {
					rep("L1", key, call.Pos(), true, "callee requirement met: "+lvl(s)+" lock held")
				}
			}
			if ci.acquires > 0 && s != lkNone {
				rep("L3", key, call.Pos(), false, fmt.Sprintf("%s holds the %s lock of %s and calls %s, which acquires it again (Go mutexes are not re-entrant: self-deadlock)", shortFn(f), lvl(s), sp.typ, callee.Name()))
			} else if ci.acquires > 0 {
				rep("L3", key, call.Pos(), true, "lock not held when calling acquiring method "+callee.Name())
			}
		}
		if sp.l5 {
			derived := map[ssa.Value]bool{}
			for _, a := range p.acc {
				fa := a.in.(*ssa.FieldAddr)
				for _, r := range *fa.Referrers() {
					if u, ok := r.(*ssa.UnOp); ok && u.Op == token.MUL {
						derived[u] = true
					}
				}
				derived[fa] = true
			}
			hasPtr := func(t types.Type) bool {
				switch t.Underlying().(type) {
				case *types.Pointer, *types.Interface, *types.Tuple, *types.Map, *types.Slice:
					return true
				}
				return false
			}
			for changed := true; changed; {
				changed = false
				eachInstr(f, func(_ *ssa.BasicBlock, _ int, ins ssa.Instruction) {
					v, ok := ins.(ssa.Value)
					if !ok || derived[v] || !hasPtr(v.Type()) {
						return
					}
					from := false
					switch x := ins.(type) {
					case *ssa.Lookup:
						from = derived[x.X]
					case *ssa.Extract:
						from = derived[x.Tuple]
					case *ssa.TypeAssert:
						from = derived[x.X]
					case *ssa.Phi:
						for _, e := range x.Edges {
							from = from || derived[e]
						}
					case *ssa.UnOp:
						if x.Op == token.MUL {
							switch a := x.X.(type) {
							case *ssa.FieldAddr:
								from = derived[a.X]
							case *ssa.IndexAddr:
								from = derived[a.X]
							}
						}
					case *ssa.Call:
						args := callArgs(&x.Call)
						if len(args) > 0 && (derived[args[0]]) {
							from = true
						}
						if heapMutators[calleeName(&x.Call)] || calleeName(&x.Call) == "container/heap.Pop" {
							from = true
						}
					case *ssa.ChangeType:
						from = derived[x.X]
					case *ssa.Next:
						from = derived[x.Iter]
					case *ssa.Range:
						from = derived[x.X]
					}
					if from {
						derived[v] = true
						changed = true
					}
				})
			}
			dord := 0
			eachInstr(f, func(_ *ssa.BasicBlock, _ int, ins ssa.Instruction) {
				var addr ssa.Value
				kind := ""
				switch x := ins.(type) {
				case *ssa.UnOp:
					if x.Op == token.MUL {
						addr, kind = x.X, "read"
					}
				case *ssa.Store:
					addr, kind = x.Addr, "write"
				}
				if addr == nil {
					return
				}
				var base ssa.Value
				switch a := addr.(type) {
				case *ssa.FieldAddr:
					base = a.X
					if isS(a.X.Type()) {
						return // direct field access of S: handled by L1/L2
					}
				case *ssa.IndexAddr:
					base = a.X
				}
				if base == nil || !derived[base] {
					return
				}
				if _, isPtr := base.Type().Underlying().(*types.Pointer); !isPtr {
					if _, isSl := base.Type().Underlying().(*types.Slice); !isSl {
						return
					}
				}
				dord++
				key := fmt.Sprintf("%s:deref#%d", fname, dord)
				s := p.stateAt[ins]
				if s == lkNone && (info.exported || info.needs == 0) {
					rep("L5", key, ins.Pos(), false, fmt.Sprintf("%s %ss through a pointer obtained from guarded state of %s after/without the lock: the element can be modified concurrently", shortFn(f), kind, sp.typ))
				} else if s == lkR && kind == "write" {
					rep("L5", key, ins.Pos(), false, fmt.Sprintf("%s writes through a pointer obtained from guarded state of %s under the read lock only", shortFn(f), sp.typ))
				} else {
					rep("L5", key, ins.Pos(), true, "element of guarded container accessed under "+lvl(s)+" lock")
				}
			})
		}
		// L4: one critical section per function
		if !sp.noL4 && (len(p.lockIns) > 0 || info.accesses > 0) {
			var entries []ssa.Instruction
			entries = append(entries, p.lockIns...)
			for _, call := range p.calls {
				callee := call.Call.StaticCallee()
				if callee != nil && callee.Origin() != nil {
					callee = callee.Origin()
				}
				if ci := infos[callee]; ci != nil && ci.acquires > 0 && p.stateAt[call] == lkNone {
					onS := false
					for _, a := range call.Call.Args {
						if isS(a.Type()) {
							onS = true
						}
					}
					if onS {
						entries = append(entries, call)
					}
				}
			}
			if len(entries) > 0 {
				bad := ""
				var badPos token.Pos
				for _, a := range entries {
					for _, b := range entries {
						if instrReaches(a, b) {
							bad = fmt.Sprintf("a second critical section (%s) is reachable after the first one ends", describeInstr(b))
							badPos = b.Pos()
						}
					}
				}
				key := fname + ":critical-sections"
				if reason, ok := sp.l4Exempt[shortFn(f)]; ok {
					rep("L4", key, f.Pos(), true, "exempt: "+reason)
				} else if bad != "" {
					rep("L4", key, badPos, false, shortFn(f)+": "+bad+" — the operation is not atomic")
				} else {
					// released only at exit? explicit unlocks followed by guarded access were already L1 violations
					rep("L4", key, f.Pos(), true, fmt.Sprintf("single critical section (%d acquisition site(s), none reachable from another)", len(entries)))
				}
			}
		}
	}
}

func lvl(s int) string {
	switch s {
	case lkR:
		return "read"
	case lkW:
		return "write"
	}
	return "no"
}

func shortFn(f *ssa.Function) string {
	if f == nil {
		return "?"
	}
	if f.Parent() != nil {
		return shortFn(f.Parent()) + "$" + strings.TrimPrefix(f.Name(), f.Parent().Name()+"$")
	}
	if r := f.Signature.Recv(); r != nil {
		t := r.Type()
		star := ""
		if p, ok := t.(*types.Pointer); ok {
			t, star = p.Elem(), "*"
		}
		n := "?"
		if nt, ok := types.Unalias(t).(*types.Named); ok {
			n = nt.Obj().Name()
		}
		return "(" + star + n + ")." + f.Name()
	}
	return f.Name()
}

func describeInstr(in ssa.Instruction) string {
	if c, ok := in.(*ssa.Call); ok {
		return "call " + relName(calleeName(&c.Call))
	}
	return in.String()
}

// instrReaches: b can execute strictly after a (same block later, or via CFG edges, including loops back to itself).
func instrReaches(a, b ssa.Instruction) bool {
	ba, bb := a.Block(), b.Block()
	if ba == bb && a != b {
		ia, ib := -1, -1
		for i, in := range ba.Instrs {
			if in == a {
				ia = i
			}
			if in == b {
				ib = i
			}
		}
		if ib > ia {
			return true
		}
	}
	// via successors
	seen := map[int]bool{}
	stack := append([]*ssa.BasicBlock{}, ba.Succs...)
	for len(stack) > 0 {
		x := stack[len(stack)-1]
		stack = stack[:len(stack)-1]
		if seen[x.Index] {
			continue
		}
		seen[x.Index] = true
		if x == bb {
			return true
		}
		stack = append(stack, x.Succs...)
	}
	return false
}

// isGoOrDeferredElsewhere: closures are analysed as separate functions; their requirement is moved to the
// MakeClosure site unless they are started with `go` (then no lock can be assumed).
func isGoOrDeferredElsewhere(f *ssa.Function) bool {
	p := f.Parent()
	if p == nil {
		return false
	}
	isGo := false
	eachInstr(p, func(_ *ssa.BasicBlock, _ int, in ssa.Instruction) {
		if g, ok := in.(*ssa.Go); ok {
			if mc, ok := g.Call.Value.(*ssa.MakeClosure); ok && mc.Fn == f {
				isGo = true
			}
			if g.Call.Value == f {
				isGo = true
			}
		}
	})
	return isGo
}

// classifyFieldUse decides whether the uses of &x.f amount to a write of the guarded state.
func classifyFieldUse(fa *ssa.FieldAddr) (bool, string) {
	write, how := false, "read"
	refs := fa.Referrers()
	if refs == nil {
		return false, "read"
	}
	var visitVal func(v ssa.Value, depth int)
	visitVal = func(v ssa.Value, depth int) {
		if depth > 4 || v.Referrers() == nil {
			return
		}
		for _, r := range *v.Referrers() {
			switch x := r.(type) {
			case *ssa.MapUpdate:
				if x.Map == v {
					write, how = true, "map-store"
				}
			case *ssa.Call:
				if b, ok := x.Call.Value.(*ssa.Builtin); ok {
					if b.Name() == "delete" && x.Call.Args[0] == v {
						write, how = true, "map-delete"
					}
					if b.Name() == "clear" {
						write, how = true, "clear"
					}
					continue
				}
				if f := calleeFunc(&x.Call); f != nil {
					args := callArgs(&x.Call)
					if len(args) > 0 && args[0] == v && mutatingContainerMethods[f.Name()] && f.Pkg() != nil &&
						(f.Pkg().Path() == "container/list" || f.Pkg().Path() == "sync") {
						write, how = true, "call "+f.Name()
					}
				}
			case *ssa.IndexAddr:
				if x.X == v {
					// element address: a store through it writes the guarded slice
					for _, rr := range *x.Referrers() {
						if st, ok := rr.(*ssa.Store); ok && st.Addr == x {
							write, how = true, "element-store"
						}
					}
				}
			case *ssa.Slice, *ssa.ChangeType, *ssa.Phi:
				visitVal(x.(ssa.Value), depth+1)
			}
		}
	}
	for _, r := range *refs {
		switch x := r.(type) {
		case *ssa.Store:
			if x.Addr == fa {
				write, how = true, "field-store"
			}
		case *ssa.UnOp:
			if x.Op == token.MUL {
				visitVal(x, 0)
			}
		case *ssa.Call:
			n := calleeName(&x.Call)
			if heapMutators[n] {
				write, how = true, "call "+n
			} else if f := calleeFunc(&x.Call); f != nil {
				// pointer-receiver method on the field itself (e.g. sync.Map, embedded struct): mutating names
				args := callArgs(&x.Call)
				if len(args) > 0 && args[0] == fa && mutatingContainerMethods[f.Name()] {
					write, how = true, "call "+f.Name()
				}
			}
		case *ssa.MakeInterface:
			// &x.f boxed into an interface (heap.Interface) - look at calls using it
			for _, rr := range *x.Referrers() {
				if call, ok := rr.(*ssa.Call); ok && heapMutators[calleeName(&call.Call)] {
					write, how = true, "call "+calleeName(&call.Call)
				}
			}
		case *ssa.IndexAddr, *ssa.FieldAddr:
			v := x.(ssa.Value)
			for _, rr := range *v.Referrers() {
				if st, ok := rr.(*ssa.Store); ok && st.Addr == v {
					write, how = true, "element-store"
				}
			}
		}
	}
	return write, how
}
