package main

import (
	"fmt"
	"strings"

	"golang.org/x/tools/go/ssa"
)

const btDir = "lib/blocktree"

func init() {
	register("C15", "slice-mutation-while-ranging (R-ITERMOD), guarded-by lock dataflow on BlockTree (R-LOCKS), insertion preconditions of AddBlock by dominance (R-ADDBLOCK), prune/relink structure (R-PRUNE)",
		"Decides: no loop ranging over a node's children can reach a removal from that children slice (so pruning reports every abandoned block); every access to the tree's root/leaves happens under the tree lock, writes under the exclusive lock, one critical section per operation; AddBlock links a node only after the parent was found, the hash was searched in the whole tree and found absent, and the number equals parent+1, and it updates both the parent's children and the leaf set on that path; Prune re-roots the tree and rebuilds the leaf set from the new root. "+
			"Not decided: results of ancestry/LCA/range queries for particular trees.",
		"sync.Map of the leaf set is trusted", "DESIGN.md §3 R-ITERMOD, R-LOCKS; §4 C15",
		func(c *Ctx) {
			c.load(btDir)
			c.ruleIterMod("R-ITERMOD", btDir, "node", "children")
			c.min("R-ITERMOD", 8)
			c.ruleLocks(lockSpec{dir: btDir, typ: "BlockTree", guarded: []string{"root", "leaves"}, rule: "R-LOCKS",
				l1Exempt: map[string]string{}})
			c.min("R-LOCKS/L1", 20)
			c.min("R-LOCKS/L4", 15)
			c.ruleAddBlock()
			c.min("R-ADDBLOCK", 5)
			c.rulePruneStructure()
		})
}

func (c *Ctx) ruleAddBlock() {
	f := c.fn(btDir, "(*BlockTree).AddBlock")
	if f == nil {
		return
	}
	c.doc("R-ADDBLOCK", "AddBlock: parent.addChild(n) and leaves.replace(parent,n) are both dominated by: getNode(header.ParentHash) != nil, getNode(header.Hash()) == nil (search of the WHOLE tree), parent.number+1 == header.Number")
	var addChild, replace *ssa.Call
	var getNodes []*ssa.Call
	eachInstr(f, func(_ *ssa.BasicBlock, _ int, in ssa.Instruction) {
		call, ok := in.(*ssa.Call)
		if !ok || call.Call.StaticCallee() == nil {
			return
		}
		switch call.Call.StaticCallee().Name() {
		case "addChild":
			addChild = call
		case "replace":
			replace = call
		case "getNode":
			getNodes = append(getNodes, call)
		}
	})
	if addChild == nil || replace == nil {
		c.ob("R-ADDBLOCK", "AddBlock:links", f.Pos(), false, "AddBlock must call parent.addChild(n) and bt.leaves.replace(parent, n)")
		return
	}
	c.ob("R-ADDBLOCK", "AddBlock:links", addChild.Pos(), instrDominates(addChild, replace) || instrDominates(replace, addChild), "both the parent's children and the leaf set are updated on the success path")
	var parentCall, dupCall *ssa.Call
	for _, g := range getNodes {
		arg := g.Call.Args[1]
		if _, ok := isFieldLoadNamed(arg, "ParentHash"); ok {
			parentCall = g
		}
		if call, ok := arg.(*ssa.Call); ok && strings.HasSuffix(calleeName(&call.Call), "Header).Hash") {
			dupCall = g
		}
	}
	nilEdge := func(call *ssa.Call, wantNil bool) bool {
		if call == nil {
			return false
		}
		return guardedBy(addChild.Block(), func(cond ssa.Value, truth bool) bool {
			e, neq, ok := nilCmp(cond)
			return ok && e == ssa.Value(call) && (truth != neq) == wantNil
		})
	}
	c.ob("R-ADDBLOCK", "AddBlock:parent-found", addChild.Pos(), nilEdge(parentCall, false), "linking is dominated by `getNode(header.ParentHash) != nil`")
	c.ob("R-ADDBLOCK", "AddBlock:not-already-present-anywhere", addChild.Pos(), nilEdge(dupCall, true), "linking is dominated by `getNode(header.Hash()) == nil`, a search of the whole tree (a leaf-map lookup misses blocks that already have children, so a re-announced block would be linked twice)")
	numOK := guardedBy(addChild.Block(), func(cond ssa.Value, truth bool) bool {
		bo, ok := cond.(*ssa.BinOp)
		if !ok {
			return false
		}
		op := bo.Op.String()
		if !truth {
			if op == "!=" {
				op = "=="
			} else if op == "==" {
				op = "!="
			}
		}
		if op != "==" {
			return false
		}
		has := func(v ssa.Value, field string) bool {
			for x := range backwardSlice(v, nil) {
				if _, ok := isFieldLoadNamed(x, field); ok {
					return true
				}
			}
			return false
		}
		return (has(bo.X, "number") && has(bo.Y, "Number")) || (has(bo.Y, "number") && has(bo.X, "Number"))
	})
	c.ob("R-ADDBLOCK", "AddBlock:number-is-parent-plus-one", addChild.Pos(), numOK, "linking is dominated by `parent.number+1 == header.Number`")
	// node literal: parent field = found parent
	lit := false
	eachInstr(f, func(_ *ssa.BasicBlock, _ int, in ssa.Instruction) {
		if st, ok := in.(*ssa.Store); ok {
			if fa, ok := st.Addr.(*ssa.FieldAddr); ok && fieldVar(fa) != nil && fieldVar(fa).Name() == "parent" && parentCall != nil && st.Val == ssa.Value(parentCall) {
				lit = true
			}
		}
	})
	c.ob("R-ADDBLOCK", "AddBlock:node.parent", addChild.Pos(), lit, "the new node's parent link is the node found for header.ParentHash")
}

func (c *Ctx) rulePruneStructure() {
	f := c.fn(btDir, "(*BlockTree).Prune")
	if f == nil {
		return
	}
	c.doc("R-PRUNE", "BlockTree.Prune: pruned = root.prune(n) is computed before re-rooting; bt.root = n; the leaf set is rebuilt from n.getLeaves")
	c.ruleSeq("R-PRUNE", f, []seqMarker{
		{"find-finalised", callNamed("getNode")},
		{"collect-pruned", callNamed("prune")},
		{"re-root", func(in ssa.Instruction) bool {
			st, ok := in.(*ssa.Store)
			if !ok {
				return false
			}
			fa, ok := st.Addr.(*ssa.FieldAddr)
			return ok && fieldVar(fa) != nil && fieldVar(fa).Name() == "root"
		}},
		{"rebuild-leaves", callNamed("getLeaves")},
	})
	// every hash appended to pruned in node.prune: the append is on the "not ancestor and not descendant" edge
	pf := c.fn(btDir, "(*node).prune")
	if pf != nil {
		var del *ssa.Call
		eachInstr(pf, func(_ *ssa.BasicBlock, _ int, in ssa.Instruction) {
			if call, ok := in.(*ssa.Call); ok && call.Call.StaticCallee() != nil && call.Call.StaticCallee().Name() == "deleteChild" {
				del = call
			}
		})
		rec := 0
		eachInstr(pf, func(_ *ssa.BasicBlock, _ int, in ssa.Instruction) {
			if call, ok := in.(*ssa.Call); ok && call.Call.StaticCallee() == pf {
				rec++
				// the recursion into the children must not be guarded by anything but the descendant test
				early := false
				for _, g := range guardsOf(call.Block()) {
					if bo, ok := g.cond.(*ssa.BinOp); ok {
						for v := range backwardSlice(bo, nil) {
							if _, ok := isFieldLoadNamed(v, "number"); ok {
								early = true
							}
						}
					}
				}
				c.ob("R-PRUNE", fmt.Sprintf("(*node).prune:recursion#%d-not-cut-by-height", rec), call.Pos(), !early,
					"the recursion into the children is cut off by a block-number comparison: forks extending above the finalised height are never visited, so their blocks are not reported as pruned")
			}
		})
		c.ob("R-PRUNE", "(*node).prune:unlinks-pruned-node", pf.Pos(), del != nil && rec > 0, "a pruned node is unlinked from its parent and the children are visited recursively")
	}
}
