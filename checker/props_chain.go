package main

import (
	"fmt"
	"go/token"
	"go/types"
	"strings"

	"golang.org/x/tools/go/ssa"
)

const btDir = "lib/blocktree"

func init() {
	register("C15", "slice-mutation-while-ranging (R-ITERMOD), guarded-by lock dataflow on BlockTree (R-LOCKS), insertion preconditions of AddBlock by dominance (R-ADDBLOCK), prune/relink structure (R-PRUNE)",
		"Decides: no loop ranging over a node's children can reach a removal from that children slice (so pruning reports every abandoned block); every access to the tree's root/leaves happens under the tree lock, writes under the exclusive lock, one critical section per operation; AddBlock links a node only after the parent was found, the hash was searched in the whole tree and found absent, and the number equals parent+1, and it updates both the parent's children and the leaf set on that path; Prune re-roots the tree and rebuilds the leaf set from the new root. "+
			"Not decided: results of ancestry/LCA/range queries for particular trees.",
		"sync.Map of the leaf set is trusted", "DESIGN.md §3 R-ITERMOD, R-LOCKS; §4 C15",
		func(c *Ctx) {
			c.load(btDir)
			c.ruleIterMod("R-ITERMOD", btDir, "node", "children")
			c.min("R-ITERMOD", 8)
			c.ruleLocks(lockSpec{dir: btDir, typ: "BlockTree", guarded: []string{"root", "leaves"}, rule: "R-LOCKS",
				l1Exempt: map[string]string{}})
			c.min("R-LOCKS/L1", 20)
			c.min("R-LOCKS/L4", 15)
			c.ruleAddBlock()
			c.ruleAtomicAdd()
			c.min("R-ATOMICADD", 1)
			c.ruleRangeChain()
			c.ruleHashesAtNumberBound()
			c.min("R-ADDBLOCK", 5)
			c.rulePruneStructure()
		})
}

func (c *Ctx) ruleAddBlock() {
	f := c.fn(btDir, "(*BlockTree).AddBlock")
	if f == nil {
		return
	}
	c.doc("R-ADDBLOCK", "AddBlock: parent.addChild(n) and leaves.replace(parent,n) are both dominated by: getNode(header.ParentHash) != nil, getNode(header.Hash()) == nil (search of the WHOLE tree), parent.number+1 == header.Number")
	var addChild, replace *ssa.Call
	var getNodes []*ssa.Call
	eachInstr(f, func(_ *ssa.BasicBlock, _ int, in ssa.Instruction) {
		call, ok := in.(*ssa.Call)
		if !ok || call.Call.StaticCallee() == nil {
			return
		}
		switch call.Call.StaticCallee().Name() {
		case "addChild":
			addChild = call
		case "replace":
			replace = call
		case "getNode":
			getNodes = append(getNodes, call)
		}
	})
	if addChild == nil || replace == nil {
		c.ob("R-ADDBLOCK", "AddBlock:links", f.Pos(), false, "AddBlock must call parent.addChild(n) and bt.leaves.replace(parent, n)")
		return
	}
	c.ob("R-ADDBLOCK", "AddBlock:links", addChild.Pos(), instrDominates(addChild, replace) || instrDominates(replace, addChild), "both the parent's children and the leaf set are updated on the success path")
	var parentCall, dupCall *ssa.Call
	for _, g := range getNodes {
		arg := g.Call.Args[1]
		if _, ok := isFieldLoadNamed(arg, "ParentHash"); ok {
			parentCall = g
		}
		if call, ok := arg.(*ssa.Call); ok && strings.HasSuffix(calleeName(&call.Call), "Header).Hash") {
			dupCall = g
		}
	}
	nilEdge := func(call *ssa.Call, wantNil bool) bool {
		if call == nil {
			return false
		}
		return guardedBy(addChild.Block(), func(cond ssa.Value, truth bool) bool {
			e, neq, ok := nilCmp(cond)
			return ok && e == ssa.Value(call) && (truth != neq) == wantNil
		})
	}
	c.ob("R-ADDBLOCK", "AddBlock:parent-found", addChild.Pos(), nilEdge(parentCall, false), "linking is dominated by `getNode(header.ParentHash) != nil`")
	c.ob("R-ADDBLOCK", "AddBlock:not-already-present-anywhere", addChild.Pos(), nilEdge(dupCall, true), "linking is dominated by `getNode(header.Hash()) == nil`, a search of the whole tree (a leaf-map lookup misses blocks that already have children, so a re-announced block would be linked twice)")
	numOK := guardedBy(addChild.Block(), func(cond ssa.Value, truth bool) bool {
		bo, ok := cond.(*ssa.BinOp)
		if !ok {
			return false
		}
		op := bo.Op.String()
		if !truth {
			if op == "!=" {
				op = "=="
			} else if op == "==" {
				op = "!="
			}
		}
		if op != "==" {
			return false
		}
		has := func(v ssa.Value, field string) bool {
			for x := range backwardSlice(v, nil) {
				if _, ok := isFieldLoadNamed(x, field); ok {
					return true
				}
			}
			return false
		}
		return (has(bo.X, "number") && has(bo.Y, "Number")) || (has(bo.Y, "number") && has(bo.X, "Number"))
	})
	c.ob("R-ADDBLOCK", "AddBlock:number-is-parent-plus-one", addChild.Pos(), numOK, "linking is dominated by `parent.number+1 == header.Number`")
	// node literal: parent field = found parent
	lit := false
	eachInstr(f, func(_ *ssa.BasicBlock, _ int, in ssa.Instruction) {
		if st, ok := in.(*ssa.Store); ok {
			if fa, ok := st.Addr.(*ssa.FieldAddr); ok && fieldVar(fa) != nil && fieldVar(fa).Name() == "parent" && parentCall != nil && st.Val == ssa.Value(parentCall) {
				lit = true
			}
		}
	})
	c.ob("R-ADDBLOCK", "AddBlock:node.parent", addChild.Pos(), lit, "the new node's parent link is the node found for header.ParentHash")
}

func (c *Ctx) rulePruneStructure() {
	f := c.fn(btDir, "(*BlockTree).Prune")
	if f == nil {
		return
	}
	c.doc("R-PRUNE", "BlockTree.Prune: pruned = root.prune(n) is computed before re-rooting; bt.root = n; the leaf set is rebuilt from n.getLeaves")
	c.ruleSeq("R-PRUNE", f, []seqMarker{
		{"find-finalised", callNamed("getNode")},
		{"collect-pruned", callNamed("prune")},
		{"re-root", func(in ssa.Instruction) bool {
			st, ok := in.(*ssa.Store)
			if !ok {
				return false
			}
			fa, ok := st.Addr.(*ssa.FieldAddr)
			return ok && fieldVar(fa) != nil && fieldVar(fa).Name() == "root"
		}},
		{"rebuild-leaves", callNamed("getLeaves")},
	})
	// every hash appended to pruned in node.prune: the append is on the "not ancestor and not descendant" edge
	pf := c.fn(btDir, "(*node).prune")
	if pf != nil {
		var del *ssa.Call
		eachInstr(pf, func(_ *ssa.BasicBlock, _ int, in ssa.Instruction) {
			if call, ok := in.(*ssa.Call); ok && call.Call.StaticCallee() != nil && call.Call.StaticCallee().Name() == "deleteChild" {
				del = call
			}
		})
		rec := 0
		eachInstr(pf, func(_ *ssa.BasicBlock, _ int, in ssa.Instruction) {
			if call, ok := in.(*ssa.Call); ok && call.Call.StaticCallee() == pf {
				rec++
				// the recursion into the children must not be guarded by anything but the descendant test
				early := false
				for _, g := range guardsOf(call.Block()) {
					if bo, ok := g.cond.(*ssa.BinOp); ok {
						for v := range backwardSlice(bo, nil) {
							if _, ok := isFieldLoadNamed(v, "number"); ok {
								early = true
							}
						}
					}
				}
				c.ob("R-PRUNE", fmt.Sprintf("(*node).prune:recursion#%d-not-cut-by-height", rec), call.Pos(), !early,
					"the recursion into the children is cut off by a block-number comparison: forks extending above the finalised height are never visited, so their blocks are not reported as pruned")
			}
		})
		c.ob("R-PRUNE", "(*node).prune:unlinks-pruned-node", pf.Pos(), del != nil && rec > 0, "a pruned node is unlinked from its parent and the children are visited recursively")
	}
}

func init() {
	register("C16", "comparator decision-table exploration of the leaf fold (R-CMP/spec), primary-count and selection structure (R-BESTBLOCK)",
		"Decides: the fold step of highestLeaf replaces the current best leaf exactly when the candidate is (higher) or (equally high and earlier) or (equally high, same arrival and lower hash) — all 27 sign combinations of (number, arrival, hash) are explored on the closure's SSA — which is a strict total order, so the result of folding over the randomly ordered leaf map does not depend on the iteration order; the primary count of a leaf counts a node iff it is primary and not the root; bestBlock keeps the maximum count and returns either the single leaf with that count or the highestLeaf of the leaves with that count, all taken from the leaf map. "+
			"Not decided: the counts for particular trees; the initial nil best leaf when the only leaf has number 0 is short-circuited by bestBlock.",
		"time.Time.Before/Equal and bytes.Compare semantics", "DESIGN.md §3 R-CMP/spec; §4 C16",
		func(c *Ctx) {
			c.load(btDir, "dot/types")
			c.rulePrimaryOnly()
			c.min("R-PRIMARYONLY", 3)
			c.ruleHighestLeaf()
			c.ruleArrivalStored()
			c.min("R-CMP/spec", 27)
			c.ruleBestBlock()
			c.min("R-BESTBLOCK", 4)
		})
}

func (c *Ctx) ruleHighestLeaf() {
	f := c.fn(btDir, "(*leafMap).highestLeaf")
	if f == nil || len(f.AnonFuncs) == 0 {
		c.unresolved("highestLeaf closure")
		return
	}
	cl := f.AnonFuncs[0]
	c.doc("R-CMP/spec", "highestLeaf fold step: `deepest = candidate` executes iff number>max || (number==max && arrival earlier) || (number==max && arrival equal && hash lower); `max` is raised iff number>max")
	var maxFV, deepFV *ssa.FreeVar
	// the fold state is recognised by type, not by name: the captured unsigned counter and the captured *node
	nMax, nDeep := 0, 0
	for _, fv := range cl.FreeVars {
		pt, ok := fv.Type().Underlying().(*types.Pointer)
		if !ok {
			continue
		}
		if b, ok := pt.Elem().Underlying().(*types.Basic); ok && b.Info()&types.IsUnsigned != 0 {
			maxFV = fv
			nMax++
		}
		if pp, ok := pt.Elem().Underlying().(*types.Pointer); ok && strings.HasSuffix(pp.Elem().String(), "blocktree.node") {
			deepFV = fv
			nDeep++
		}
	}
	if nMax > 1 || nDeep > 1 {
		maxFV, deepFV = nil, nil
	}
	if maxFV == nil || deepFV == nil {
		c.ob("R-CMP/spec", "highestLeaf:state", cl.Pos(), false, "fold state (max, deepest) not found")
		return
	}
	isCand := func(v ssa.Value) bool { // value derived from the closure's second parameter (the candidate)
		for x := range backwardSlice(v, nil) {
			if x == ssa.Value(cl.Params[1]) {
				return true
			}
		}
		return false
	}
	var deepStores, maxStores []ssa.Instruction
	eachInstr(cl, func(_ *ssa.BasicBlock, _ int, in ssa.Instruction) {
		if st, ok := in.(*ssa.Store); ok {
			if st.Addr == ssa.Value(deepFV) {
				deepStores = append(deepStores, in)
			}
			if st.Addr == ssa.Value(maxFV) {
				maxStores = append(maxStores, in)
			}
		}
	})
	names := []string{"number", "arrival", "hash"}
	for i := 0; i < 27; i++ {
		sign := map[string]int{}
		k := i
		var desc []string
		for _, a := range names {
			sign[a] = k%3 - 1
			k /= 3
			desc = append(desc, fmt.Sprintf("%s%s", a, map[int]string{-1: "<", 0: "=", 1: ">"}[sign[a]]))
		}
		env := &cmpEnv{sign: sign,
			attr: func(v ssa.Value) (attrRef, bool) {
				v = stripConv(v)
				if u, ok := v.(*ssa.UnOp); ok && u.X == ssa.Value(maxFV) {
					return attrRef{"number", 1}, true
				}
				if _, fv, ok := fieldLoad(v); ok && fv != nil && fv.Name() == "number" && isCand(v) {
					return attrRef{"number", 0}, true
				}
				return attrRef{}, false
			},
			extern: func(v ssa.Value) (any, bool) {
				call, ok := v.(*ssa.Call)
				if !ok {
					return nil, false
				}
				n := calleeName(&call.Call)
				recvIsCand := len(call.Call.Args) > 0 && isCand(call.Call.Args[0])
				s := sign["arrival"]
				if !recvIsCand {
					s = -s
				}
				switch n {
				case "(time.Time).Before":
					return s < 0, true
				case "(time.Time).After":
					return s > 0, true
				case "(time.Time).Equal":
					return s == 0, true
				case "bytes.Compare":
					h := sign["hash"]
					if !recvIsCand {
						h = -h
					}
					return int64(h), true
				}
				return nil, false
			}}
		vis, forks := exploreForks(cl, env)
		replaced, raised := false, false
		for _, s := range deepStores {
			if vis[s] {
				replaced = true
			}
		}
		for _, s := range maxStores {
			if vis[s] {
				raised = true
			}
		}
		want := sign["number"] > 0 || (sign["number"] == 0 && sign["arrival"] < 0) || (sign["number"] == 0 && sign["arrival"] == 0 && sign["hash"] < 0)
		exact := true
		for _, iff := range forks {
			if _, _, isNil := nilCmp(iff.Cond); !isNil {
				exact = false // an unevaluated condition other than the nil-node guard
			}
		}
		c.ob("R-CMP/spec", "highestLeaf:"+strings.Join(desc, ","), cl.Pos(), exact && replaced == want && raised == (sign["number"] > 0),
			fmt.Sprintf("case %s: candidate replaces the best leaf=%v (specification %v), max raised=%v (specification %v), all conditions evaluated=%v", strings.Join(desc, ","), replaced, want, raised, sign["number"] > 0, exact))
	}
}

func (c *Ctx) ruleBestBlock() {
	c.doc("R-BESTBLOCK", "primaryAncestorCount adds 1 iff isPrimary && parent != nil and recurses to the parent; bestBlock raises `highest` on count > highest, returns counts[highest][0] when unique and otherwise highestLeaf over exactly counts[highest]")
	p := c.fn(btDir, "(*node).primaryAncestorCount")
	if p != nil {
		var inc *ssa.BinOp
		eachInstr(p, func(_ *ssa.BasicBlock, _ int, in ssa.Instruction) {
			if bo, ok := in.(*ssa.BinOp); ok && bo.Op == token.ADD {
				if k, ok := constInt(bo.Y); ok && k == 1 {
					inc = bo
				}
			}
		})
		okInc := false
		if inc != nil {
			prim, par := false, false
			for _, fc := range factsAt(inc.Block()) {
				if _, fv, ok := fieldLoad(fc.cond); ok && fv != nil && fv.Name() == "isPrimary" && fc.truth {
					prim = true
				}
				if e, neq, ok := nilCmp(fc.cond); ok {
					if _, fv, ok := fieldLoad(e); ok && fv != nil && fv.Name() == "parent" && fc.truth == neq {
						par = true
					}
				}
			}
			okInc = prim && par
		}
		c.ob("R-BESTBLOCK", "primaryAncestorCount:counts-primary-non-root", p.Pos(), okInc, "the count is incremented exactly for primary blocks other than the root (isPrimary && parent != nil)")
		rec := false
		eachInstr(p, func(_ *ssa.BasicBlock, _ int, in ssa.Instruction) {
			if call, ok := in.(*ssa.Call); ok && call.Call.StaticCallee() == p {
				if _, fv, ok := fieldLoad(call.Call.Args[0]); ok && fv != nil && fv.Name() == "parent" {
					rec = true
				}
			}
		})
		c.ob("R-BESTBLOCK", "primaryAncestorCount:walks-to-parent", p.Pos(), rec, "the count continues with the parent node")
	}
	b := c.fn(btDir, "(*leafMap).bestBlock")
	if b != nil && len(b.AnonFuncs) > 0 {
		cl := b.AnonFuncs[0]
		okMax := false
		eachInstr(cl, func(blk *ssa.BasicBlock, _ int, in ssa.Instruction) {
			st, ok := in.(*ssa.Store)
			if !ok {
				return
			}
			isIntCell := func(fv *ssa.FreeVar) bool { // the captured running maximum, recognised by type (not by name)
				pt, ok := fv.Type().Underlying().(*types.Pointer)
				if !ok {
					return false
				}
				b, ok := pt.Elem().Underlying().(*types.Basic)
				return ok && b.Info()&types.IsInteger != 0
			}
			if fv, ok := st.Addr.(*ssa.FreeVar); ok && isIntCell(fv) {
				okMax = guardedBy(blk, func(cond ssa.Value, truth bool) bool {
					bo, ok := cond.(*ssa.BinOp)
					if !ok {
						return false
					}
					op := bo.Op
					if !truth {
						op = negOp(op)
					}
					lhsIsCount := bo.X == st.Val
					rhsIsCount := bo.Y == st.Val
					return (op == token.GTR && lhsIsCount) || (op == token.LSS && rhsIsCount)
				})
			}
		})
		c.ob("R-BESTBLOCK", "bestBlock:highest-is-maximum", cl.Pos(), okMax, "`highest` is raised exactly when a leaf's primary count exceeds it")
		usesHL := false
		eachInstr(b, func(_ *ssa.BasicBlock, _ int, in ssa.Instruction) {
			if call, ok := in.(*ssa.Call); ok && call.Call.StaticCallee() != nil && call.Call.StaticCallee().Name() == "highestLeaf" {
				usesHL = true
			}
		})
		c.ob("R-BESTBLOCK", "bestBlock:ties-by-highestLeaf", b.Pos(), usesHL, "ties on the primary count are broken by highestLeaf (height, arrival, hash)")
	}
}
