package main

import (
	"fmt"
	"strings"

	"golang.org/x/tools/go/ssa"
)

const rtStorageDir = "lib/runtime/storage"

var trieMutators = map[string]bool{"Put": true, "Delete": true, "ClearPrefix": true, "ClearPrefixLimit": true, "PutIntoChild": true,
	"DeleteChild": true, "ClearFromChild": true, "SetChild": true}

func init() {
	register("C08", "overlay isolation rules on the SSA of lib/runtime/storage (R-OVERLAY O1-O4) + guarded-by lock dataflow on TrieState (R-LOCKS)",
		"Decides for every path: while a transaction is open no TrieState method mutates the base trie (every mutating trie call is dominated by the `no current transaction` edge; the only other writer is CommitTransaction applying the last transaction); a nested transaction starts from a snapshot in which every field of the change set is a fresh copy (maps.Clone/slices.Clone/recursively snapshotted children) and never an alias of the parent's field; rollback removes exactly the innermost change set; commit of a nested transaction replaces its parent with it; the runtime entry points start a transaction before executing. These are necessary for `rollback restores exactly the state at the matching start` and for nested isolation on all operation sequences. "+
			"Not decided: the overlay read semantics of each operation (NextKey merging, prefix clears with limits), which are value-level.",
		"container/list trusted; golang.org/x/exp maps.Clone/slices.Clone copy their argument", "DESIGN.md §3 R-OVERLAY; §4 C08",
		func(c *Ctx) {
			c.load(rtStorageDir, wazeroDir)
			c.ruleOverlay()
			c.rulePrefixKeys()
			c.ruleChildDeletedMarker()
			c.ruleChildKeysMerge()
			c.ruleChildRecreate()
			c.ruleSortedKeys()
			c.ruleChildInPlace()
			c.ruleOverlayBookkeeping()
			c.min("R-LIMITKEYS", 1)
			c.min("R-ALLDELETED", 1)
			c.min("R-OVERLAY/namespace", 1)
			c.min("R-CHILDINPLACE", 1)
			c.min("R-SORTEDKEYS", 2)
			c.min("R-OVERLAY/prefixkeys", 2)
			c.min("R-OVERLAY/O1", 9)
			c.min("R-OVERLAY/O2", 4)
			c.min("R-OVERLAY/O3", 4)
			c.ruleLocks(lockSpec{dir: rtStorageDir, typ: "TrieState", guarded: []string{"state", "transactions"}, rule: "R-LOCKS", noL4: true,
				xrefOnly: map[string]bool{"L1": true, "L2": true, "L3": true}})
		})
}

// noTxFact: the branch facts at b include `getCurrentTransaction() == nil`.
func noTxFact(b *ssa.BasicBlock) bool {
	for _, fc := range factsAt(b) {
		e, neq, ok := nilCmp(fc.cond)
		if !ok {
			continue
		}
		for _, v := range phiInputs(e) {
			if cl, ok := v.(*ssa.Call); ok && cl.Call.StaticCallee() != nil && cl.Call.StaticCallee().Name() == "getCurrentTransaction" && fc.truth != neq {
				return true
			}
		}
	}
	return false
}

// noTxAtEveryCallSite: f is unexported, is called at least once inside the package, and every call site is on the
// no-transaction edge of its caller (split-function refactorings move the base-trie tail of a method into a helper).
func noTxAtEveryCallSite(c *Ctx, sp *ssa.Package, f *ssa.Function) bool {
	if f.Object() == nil || f.Object().Exported() {
		return false
	}
	n, all := 0, true
	for _, g := range allFuncs(c, sp) {
		eachInstr(g, func(b *ssa.BasicBlock, _ int, in ssa.Instruction) {
			if call, ok := in.(ssa.CallInstruction); ok && call.Common().StaticCallee() == f {
				n++
				if _, isGo := in.(*ssa.Go); isGo || !noTxFact(b) {
					all = false
				}
			}
		})
	}
	return n > 0 && all
}

func (c *Ctx) ruleOverlay() {
	sp := c.ssaPkg(rtStorageDir)
	if sp == nil {
		return
	}
	c.doc("R-OVERLAY/O1", "every call of a mutating trie.Trie method in a TrieState method is dominated by the edge `getCurrentTransaction() == nil` (exempt: CommitTransaction->applyToTrie, which applies the outermost transaction)")
	for _, f := range allFuncs(c, sp) {
		if f.Signature.Recv() == nil || !strings.HasSuffix(f.Signature.Recv().Type().String(), "storage.TrieState") {
			continue
		}
		ord := 0
		eachInstr(f, func(b *ssa.BasicBlock, _ int, in ssa.Instruction) {
			call, ok := in.(*ssa.Call)
			if !ok || !call.Call.IsInvoke() || !trieMutators[call.Call.Method.Name()] {
				return
			}
			if !strings.HasSuffix(call.Call.Value.Type().String(), "pkg/trie.Trie") {
				return
			}
			ord++
			noTx := false
			for _, fc := range factsAt(b) {
				e, neq, ok := nilCmp(fc.cond)
				if !ok {
					continue
				}
				isCur := false
				for _, v := range phiInputs(e) {
					if cl, ok := v.(*ssa.Call); ok && cl.Call.StaticCallee() != nil && cl.Call.StaticCallee().Name() == "getCurrentTransaction" {
						isCur = true
					}
				}
				if isCur && fc.truth != neq {
					noTx = true
				}
			}
			if !noTx && noTxAtEveryCallSite(c, sp, f) {
				noTx = true // an unexported helper that is only entered from call sites where no transaction is open
			}
			c.ob("R-OVERLAY/O1", fmt.Sprintf("%s:%s#%d", relName(f.String()), call.Call.Method.Name(), ord), call.Pos(), noTx,
				fmt.Sprintf("%s calls %s on the base trie on a path where a transaction may be open: the change cannot be rolled back", shortFn(f), call.Call.Method.Name()))
		})
	}
	// applyToTrie is only called from CommitTransaction, on the last transaction
	apply := c.fn(rtStorageDir, "(*storageDiff).applyToTrie")
	if apply != nil {
		n, ok := 0, true
		for _, f := range allFuncs(c, sp) {
			eachInstr(f, func(b *ssa.BasicBlock, _ int, in ssa.Instruction) {
				if call, isCall := in.(*ssa.Call); isCall && call.Call.StaticCallee() == apply {
					n++
					if shortFn(f) != "(*TrieState).CommitTransaction" {
						ok = false
					}
					// on the edge where Len() > 1 is false
					last := false
					for _, fc := range factsAt(b) {
						subj, op, k, isCmp := cmpWithConst(fc.cond)
						if !isCmp {
							continue
						}
						if cl, isCl := subj.(*ssa.Call); isCl && strings.HasSuffix(calleeName(&cl.Call), "container/list.List).Len") {
							o := op
							if !fc.truth {
								o = negOp(o)
							}
							if (o.String() == "<=" && k == 1) || (o.String() == "<" && k == 2) || (o.String() == "==" && k == 1) {
								last = true
							}
						}
					}
					if !last {
						ok = false
					}
				}
			})
		}
		c.ob("R-OVERLAY/O1", "applyToTrie-only-from-outermost-commit", apply.Pos(), ok && n == 1, "the base trie is written only when the outermost transaction commits (transactions.Len() <= 1 edge of CommitTransaction)")
	}

	c.doc("R-OVERLAY/O2", "storageDiff.snapshot sets every field of the returned literal from a fresh copy: maps.Clone, slices.Clone, a new map filled with recursive snapshots — never the receiver's field itself")
	snap := c.fn(rtStorageDir, "(*storageDiff).snapshot")
	if snap != nil {
		recv := snap.Params[0]
		var lit *ssa.Alloc
		eachInstr(snap, func(_ *ssa.BasicBlock, _ int, in ssa.Instruction) {
			if al, ok := in.(*ssa.Alloc); ok && strings.HasSuffix(al.Type().String(), "storage.storageDiff") && al.Heap {
				lit = al
			}
		})
		if lit == nil {
			c.ob("R-OVERLAY/O2", "snapshot:literal", snap.Pos(), false, "snapshot must return a new storageDiff literal")
		} else {
			set := map[string]ssa.Value{}
			for _, r := range *lit.Referrers() {
				if fa, ok := r.(*ssa.FieldAddr); ok {
					for _, r2 := range *fa.Referrers() {
						if s, ok := r2.(*ssa.Store); ok && s.Addr == fa {
							set[fieldVar(fa).Name()] = s.Val
						}
					}
				}
			}
			for _, fld := range []string{"upserts", "deletes", "sortedKeys", "childChangeSet"} {
				v, ok := set[fld]
				good, why := false, "field not set (the nested transaction starts without it)"
				if ok {
					why = describeVal(v)
					switch x := v.(type) {
					case *ssa.Call:
						n := calleeName(&x.Call)
						if strings.HasSuffix(n, "maps.Clone") || strings.HasSuffix(n, "slices.Clone") {
							// cloning the receiver's own field
							if b, isLoad := isFieldLoadNamed(x.Call.Args[0], fld); isLoad && b == ssa.Value(recv) {
								good = true
							} else {
								why = "clone of something else than the receiver's " + fld
							}
						}
					case *ssa.MakeMap:
						// filled with recursive snapshots
						rec := false
						for _, r := range *x.Referrers() {
							if mu, ok := r.(*ssa.MapUpdate); ok {
								if cl, ok := mu.Value.(*ssa.Call); ok && cl.Call.StaticCallee() == snap {
									rec = true
								}
							}
						}
						good = rec
						if !rec {
							why = "fresh map not filled with snapshots of the children"
						}
					default:
						if b, isLoad := isFieldLoadNamed(v, fld); isLoad && b == ssa.Value(recv) {
							why = "the receiver's own " + fld + " (aliased: changes in the nested transaction write through to the parent)"
						}
					}
				}
				c.ob("R-OVERLAY/O2", "snapshot:"+fld, lit.Pos(), good, "snapshot."+fld+" must be a fresh copy; got "+why)
			}
		}
	}

	c.doc("R-OVERLAY/O3", "StartTransaction pushes snapshot() of the current change set (or a new one); RollbackTransaction removes exactly Back(); nested CommitTransaction stores the removed innermost set into Back().Prev()")
	start := c.fn(rtStorageDir, "(*TrieState).StartTransaction")
	if start != nil {
		ok := false
		eachInstr(start, func(_ *ssa.BasicBlock, _ int, in ssa.Instruction) {
			if call, isCall := in.(*ssa.Call); isCall && strings.HasSuffix(calleeName(&call.Call), "container/list.List).PushBack") {
				if mi, isMI := call.Call.Args[1].(*ssa.MakeInterface); isMI {
					if sc, isSC := mi.X.(*ssa.Call); isSC && sc.Call.StaticCallee() != nil && sc.Call.StaticCallee().Name() == "snapshot" {
						ok = true
					}
				}
			}
		})
		c.ob("R-OVERLAY/O3", "StartTransaction:pushes-snapshot", start.Pos(), ok, "the new transaction must be a snapshot() copy pushed at the back, never the current change set itself")
	}
	rb := c.fn(rtStorageDir, "(*TrieState).RollbackTransaction")
	if rb != nil {
		n, ok := 0, false
		eachInstr(rb, func(_ *ssa.BasicBlock, _ int, in ssa.Instruction) {
			if call, isCall := in.(*ssa.Call); isCall {
				nm := calleeName(&call.Call)
				if strings.HasSuffix(nm, "container/list.List).Remove") {
					n++
					if bc, isBC := call.Call.Args[1].(*ssa.Call); isBC && strings.HasSuffix(calleeName(&bc.Call), "container/list.List).Back") {
						ok = true
					}
				}
				if strings.Contains(nm, "container/list.List).Init") || strings.HasSuffix(nm, "applyToTrie") {
					n += 10
				}
			}
		})
		c.ob("R-OVERLAY/O3", "RollbackTransaction:removes-exactly-back", rb.Pos(), ok && n == 1, "rollback must remove exactly the innermost change set (Remove(Back())) and touch nothing else")
	}
	cm := c.fn(rtStorageDir, "(*TrieState).CommitTransaction")
	if cm != nil {
		merged := false
		eachInstr(cm, func(_ *ssa.BasicBlock, _ int, in ssa.Instruction) {
			st, ok := in.(*ssa.Store)
			if !ok {
				return
			}
			fa, ok := st.Addr.(*ssa.FieldAddr)
			if !ok || fieldVar(fa) == nil || fieldVar(fa).Name() != "Value" {
				return
			}
			// target element: Back().Prev(); value: Remove(Back())
			if pc, ok := fa.X.(*ssa.Call); ok && strings.HasSuffix(calleeName(&pc.Call), "container/list.Element).Prev") {
				if rc, ok := st.Val.(*ssa.Call); ok && strings.HasSuffix(calleeName(&rc.Call), "container/list.List).Remove") {
					merged = true
				}
			}
		})
		c.ob("R-OVERLAY/O3", "CommitTransaction:nested-commit-replaces-parent", cm.Pos(), merged, "committing a nested transaction must make its (snapshot-derived) change set the parent's change set")
		// both branches remove the back
		rem := 0
		eachInstr(cm, func(_ *ssa.BasicBlock, _ int, in ssa.Instruction) {
			if call, isCall := in.(*ssa.Call); isCall && strings.HasSuffix(calleeName(&call.Call), "container/list.List).Remove") {
				rem++
			}
		})
		c.ob("R-OVERLAY/O3", "CommitTransaction:pops-innermost", cm.Pos(), rem == 2, "both the nested and the outermost commit pop the innermost change set")
	}

	c.doc("R-OVERLAY/O4", "the runtime entry points that open a transaction call StartTransaction before executing the runtime function (Exec)")
	wsp := c.ssaPkg(wazeroDir)
	if wsp != nil {
		n := 0
		for _, f := range allFuncs(c, wsp) {
			var starts, execs []ssa.Instruction
			eachInstr(f, func(_ *ssa.BasicBlock, _ int, in ssa.Instruction) {
				call, ok := in.(*ssa.Call)
				if !ok {
					return
				}
				if call.Call.IsInvoke() && call.Call.Method.Name() == "StartTransaction" {
					starts = append(starts, in)
				}
				if cal := call.Call.StaticCallee(); cal != nil && (cal.Name() == "Exec" || cal.Name() == "exec") {
					execs = append(execs, in)
				}
			})
			if len(starts) == 0 || len(execs) == 0 {
				continue
			}
			n++
			ok := true
			for _, e := range execs {
				dom := false
				for _, s := range starts {
					if instrDominates(s, e) {
						dom = true
					}
				}
				if !dom {
					ok = false
				}
			}
			c.ob("R-OVERLAY/O4", relName(f.String())+":StartTransaction-before-Exec", starts[0].Pos(), ok, shortFn(f)+" must open the storage transaction before the runtime call")
		}
		if n == 0 {
			c.ob("R-OVERLAY/O4", "entry-points", wsp.Members["init"].Pos(), false, "no runtime entry point opening a transaction found (anchor changed)")
		}
	}
}
