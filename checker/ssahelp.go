package main

import (
	"go/constant"
	"go/token"
	"go/types"
	"strings"

	"golang.org/x/tools/go/ssa"
)

// ---------------------------------------------------------------- iteration

func eachInstr(f *ssa.Function, fn func(b *ssa.BasicBlock, i int, in ssa.Instruction)) {
	for _, b := range f.Blocks {
		for i, in := range b.Instrs {
			fn(b, i, in)
		}
	}
}

// withAnon returns f and all its (transitively) nested function literals.
func withAnon(f *ssa.Function) []*ssa.Function {
	out := []*ssa.Function{f}
	for _, a := range f.AnonFuncs {
		out = append(out, withAnon(a)...)
	}
	return out
}

// ---------------------------------------------------------------- callees

// calleeFunc returns the types.Func a call resolves to (static call, method value, or interface method).
func calleeFunc(cc *ssa.CallCommon) *types.Func {
	if cc.IsInvoke() {
		return cc.Method
	}
	if f := cc.StaticCallee(); f != nil {
		if o, ok := f.Object().(*types.Func); ok {
			return o
		}
		if f.Origin() != nil {
			if o, ok := f.Origin().Object().(*types.Func); ok {
				return o
			}
		}
	}
	return nil
}

// calleeName gives "pkg/path.Func" or "(pkg/path.T).Method" / "(*pkg/path.T).Method"; "" if dynamic.
func calleeName(cc *ssa.CallCommon) string {
	if b, ok := cc.Value.(*ssa.Builtin); ok {
		return "builtin." + b.Name()
	}
	if f := calleeFunc(cc); f != nil {
		return f.FullName()
	}
	return ""
}

func isCallTo(in ssa.Instruction, names ...string) (*ssa.CallCommon, bool) {
	ci, ok := in.(ssa.CallInstruction)
	if !ok {
		return nil, false
	}
	n := calleeName(ci.Common())
	for _, want := range names {
		if n == want || relName(n) == want {
			return ci.Common(), true
		}
	}
	return nil, false
}

// callArgs returns the arguments including the receiver (first) for both call forms.
func callArgs(cc *ssa.CallCommon) []ssa.Value {
	if cc.IsInvoke() {
		return append([]ssa.Value{cc.Value}, cc.Args...)
	}
	return cc.Args
}

// ---------------------------------------------------------------- dominance by an edge

func ifOf(b *ssa.BasicBlock) *ssa.If {
	if len(b.Instrs) == 0 {
		return nil
	}
	i, _ := b.Instrs[len(b.Instrs)-1].(*ssa.If)
	return i
}

// edgeDominates reports whether every path from entry to target uses edge d->d.Succs[si]. Exact (reachability
// with the edge removed).
func edgeDominates(d *ssa.BasicBlock, si int, target *ssa.BasicBlock) bool {
	f := d.Parent()
	if len(d.Succs) <= si {
		return false
	}
	if len(d.Succs) == 2 && d.Succs[0] == d.Succs[1] {
		return false
	}
	seen := make([]bool, len(f.Blocks))
	stack := []*ssa.BasicBlock{f.Blocks[0]}
	seen[0] = true
	if target == f.Blocks[0] {
		return false
	}
	for len(stack) > 0 {
		b := stack[len(stack)-1]
		stack = stack[:len(stack)-1]
		for j, s := range b.Succs {
			if b == d && j == si {
				continue
			}
			if !seen[s.Index] {
				if s == target {
					return false
				}
				seen[s.Index] = true
				stack = append(stack, s)
			}
		}
	}
	// target unreachable without the edge; make sure it is reachable at all
	return reachable(f.Blocks[0], target)
}

func reachable(from, to *ssa.BasicBlock) bool {
	if from == to {
		return true
	}
	seen := map[int]bool{from.Index: true}
	stack := []*ssa.BasicBlock{from}
	for len(stack) > 0 {
		b := stack[len(stack)-1]
		stack = stack[:len(stack)-1]
		for _, s := range b.Succs {
			if s == to {
				return true
			}
			if !seen[s.Index] {
				seen[s.Index] = true
				stack = append(stack, s)
			}
		}
	}
	return false
}

// stripNot peels boolean negations: returns the underlying condition and whether truth is flipped.
func stripNot(v ssa.Value) (ssa.Value, bool) {
	flip := false
	for {
		u, ok := v.(*ssa.UnOp)
		if !ok || u.Op != token.NOT {
			return v, flip
		}
		v = u.X
		flip = !flip
	}
}

// guards lists every (condition, truth) pair whose edge dominates block b: "on every path to b, cond == truth".
type guard struct {
	cond  ssa.Value
	truth bool
	at    *ssa.BasicBlock
}

func guardsOf(b *ssa.BasicBlock) []guard {
	var out []guard
	f := b.Parent()
	for _, d := range f.Blocks {
		iff := ifOf(d)
		if iff == nil {
			continue
		}
		if d != b && !d.Dominates(b) {
			continue
		}
		for si := 0; si < 2; si++ {
			if edgeDominates(d, si, b) {
				cond, flip := stripNot(iff.Cond)
				truth := si == 0
				if flip {
					truth = !truth
				}
				out = append(out, guard{cond, truth, d})
			}
		}
	}
	return out
}

// guardedBy: some dominating edge satisfies pred.
func guardedBy(b *ssa.BasicBlock, pred func(cond ssa.Value, truth bool) bool) bool {
	for _, g := range guardsOf(b) {
		if pred(g.cond, g.truth) {
			return true
		}
	}
	return false
}

// instrDominates: a executes before b on every path reaching b.
func instrDominates(a, b ssa.Instruction) bool {
	ba, bb := a.Block(), b.Block()
	if ba == bb {
		for _, in := range ba.Instrs {
			if in == a {
				return true
			}
			if in == b {
				return false
			}
		}
		return false
	}
	return ba.Dominates(bb)
}

// ---------------------------------------------------------------- value shapes

func constInt(v ssa.Value) (int64, bool) {
	c, ok := v.(*ssa.Const)
	if !ok || c.Value == nil {
		return 0, false
	}
	if c.Value.Kind() != constant.Int {
		return 0, false
	}
	i, ok := constant.Int64Val(c.Value)
	return i, ok
}

// stripConv peels conversions / type changes.
func stripConv(v ssa.Value) ssa.Value {
	for {
		switch x := v.(type) {
		case *ssa.Convert:
			v = x.X
		case *ssa.ChangeType:
			v = x.X
		case *ssa.MakeInterface:
			v = x.X
		case *ssa.ChangeInterface:
			v = x.X
		default:
			return v
		}
	}
}

// lenOf: v is len(x) (possibly converted) -> x.
func lenOf(v ssa.Value) (ssa.Value, bool) {
	v = stripConv(v)
	c, ok := v.(*ssa.Call)
	if !ok {
		return nil, false
	}
	if b, ok := c.Call.Value.(*ssa.Builtin); ok && b.Name() == "len" {
		return c.Call.Args[0], true
	}
	// bytes.Buffer.Len / Reader.Len
	if f := calleeFunc(&c.Call); f != nil && f.Name() == "Len" && len(callArgs(&c.Call)) == 1 {
		return callArgs(&c.Call)[0], true
	}
	return nil, false
}

func flipOp(op token.Token) token.Token {
	switch op {
	case token.LSS:
		return token.GTR
	case token.GTR:
		return token.LSS
	case token.LEQ:
		return token.GEQ
	case token.GEQ:
		return token.LEQ
	}
	return op
}

func negOp(op token.Token) token.Token {
	switch op {
	case token.LSS:
		return token.GEQ
	case token.GTR:
		return token.LEQ
	case token.LEQ:
		return token.GTR
	case token.GEQ:
		return token.LSS
	case token.EQL:
		return token.NEQ
	case token.NEQ:
		return token.EQL
	}
	return op
}

func isCmp(op token.Token) bool {
	switch op {
	case token.LSS, token.GTR, token.LEQ, token.GEQ, token.EQL, token.NEQ:
		return true
	}
	return false
}

// cmpWithConst: cond is "X op K" (either operand order); returns X, op normalised to X-on-the-left, K.
func cmpWithConst(cond ssa.Value) (ssa.Value, token.Token, int64, bool) {
	b, ok := cond.(*ssa.BinOp)
	if !ok || !isCmp(b.Op) {
		return nil, 0, 0, false
	}
	if k, ok := constInt(b.Y); ok {
		return b.X, b.Op, k, true
	}
	if k, ok := constInt(b.X); ok {
		return b.Y, flipOp(b.Op), k, true
	}
	return nil, 0, 0, false
}

func evalCmp(n int64, op token.Token, k int64) bool {
	switch op {
	case token.LSS:
		return n < k
	case token.GTR:
		return n > k
	case token.LEQ:
		return n <= k
	case token.GEQ:
		return n >= k
	case token.EQL:
		return n == k
	case token.NEQ:
		return n != k
	}
	return false
}

// fieldOf: v is a load of field "name" (x.name) or the address of it; returns the base x.
func fieldLoad(v ssa.Value) (base ssa.Value, field *types.Var, ok bool) {
	switch x := v.(type) {
	case *ssa.UnOp:
		if x.Op == token.MUL {
			if fa, ok := x.X.(*ssa.FieldAddr); ok {
				return fa.X, fieldVar(fa), true
			}
		}
	case *ssa.Field:
		st := x.X.Type().Underlying().(*types.Struct)
		return x.X, st.Field(x.Field), true
	}
	return nil, nil, false
}

func fieldVar(fa *ssa.FieldAddr) *types.Var {
	pt, ok := fa.X.Type().Underlying().(*types.Pointer)
	if !ok {
		return nil
	}
	st, ok := pt.Elem().Underlying().(*types.Struct)
	if !ok {
		return nil
	}
	return st.Field(fa.Field)
}

func isFieldLoadNamed(v ssa.Value, name string) (ssa.Value, bool) {
	b, f, ok := fieldLoad(v)
	if ok && f != nil && f.Name() == name {
		return b, true
	}
	return nil, false
}

// namedType returns "pkgpath.Name" of a (pointer to) named type.
func namedType(t types.Type) string {
	if p, ok := t.(*types.Pointer); ok {
		t = p.Elem()
	}
	if n, ok := t.(*types.Named); ok {
		if n.Obj().Pkg() == nil {
			return n.Obj().Name()
		}
		return n.Obj().Pkg().Path() + "." + n.Obj().Name()
	}
	if a, ok := t.(*types.Alias); ok {
		return namedType(types.Unalias(a))
	}
	return ""
}

func isNamed(t types.Type, suffix string) bool {
	n := namedType(t)
	return n == suffix || strings.HasSuffix(n, "/"+suffix) || relName(n) == suffix
}

// backwardSlice collects all values v transitively depends on (operands), stopping at calls' callee bodies.
func backwardSlice(v ssa.Value, stop func(ssa.Value) bool) map[ssa.Value]bool {
	seen := map[ssa.Value]bool{}
	var walk func(ssa.Value)
	walk = func(x ssa.Value) {
		if x == nil || seen[x] {
			return
		}
		seen[x] = true
		if stop != nil && stop(x) {
			return
		}
		in, ok := x.(ssa.Instruction)
		if !ok {
			return
		}
		var ops []*ssa.Value
		for _, o := range in.Operands(ops) {
			if *o != nil {
				walk(*o)
			}
		}
		if a, ok := x.(*ssa.Alloc); ok {
			for _, r := range *a.Referrers() {
				if st, ok := r.(*ssa.Store); ok && st.Addr == a {
					walk(st.Val)
				}
				// stores into elements/fields of the cell (array literals, varargs, struct literals)
				if ea, ok := r.(ssa.Value); ok {
					switch ea.(type) {
					case *ssa.IndexAddr, *ssa.FieldAddr:
						if ea.Referrers() != nil {
							for _, r2 := range *ea.Referrers() {
								if st, ok := r2.(*ssa.Store); ok && st.Addr == ea {
									walk(st.Val)
								}
							}
						}
					}
				}
			}
		}
		// a load from a local alloc depends on every store to it
		if u, ok := x.(*ssa.UnOp); ok && u.Op == token.MUL {
			if a, ok := u.X.(*ssa.Alloc); ok {
				for _, r := range *a.Referrers() {
					if st, ok := r.(*ssa.Store); ok && st.Addr == a {
						walk(st.Val)
					}
				}
			}
		}
	}
	walk(v)
	return seen
}

// isNilConst reports v is the nil constant.
func isNilConst(v ssa.Value) bool {
	c, ok := v.(*ssa.Const)
	return ok && c.Value == nil
}

// errCheck: cond is "e != nil" / "e == nil" for value e; returns e and whether true-edge means e != nil.
func nilCmp(cond ssa.Value) (ssa.Value, bool, bool) {
	b, ok := cond.(*ssa.BinOp)
	if !ok || (b.Op != token.EQL && b.Op != token.NEQ) {
		return nil, false, false
	}
	if isNilConst(b.Y) {
		return b.X, b.Op == token.NEQ, true
	}
	if isNilConst(b.X) {
		return b.Y, b.Op == token.NEQ, true
	}
	return nil, false, false
}

// returnsOf lists the Return instructions of f.
func returnsOf(f *ssa.Function) []*ssa.Return {
	var out []*ssa.Return
	for _, b := range f.Blocks {
		if len(b.Instrs) == 0 || b == f.Recover {
			continue // the recover block of a function with defers is not part of the normal control flow
		}
		if r, ok := b.Instrs[len(b.Instrs)-1].(*ssa.Return); ok {
			out = append(out, r)
		}
	}
	return out
}

// phiInputs flattens phi nodes: the set of non-phi values that may flow into v.
func phiInputs(v ssa.Value) []ssa.Value {
	seen := map[ssa.Value]bool{}
	var out []ssa.Value
	var walk func(ssa.Value)
	walk = func(x ssa.Value) {
		if seen[x] {
			return
		}
		seen[x] = true
		if p, ok := x.(*ssa.Phi); ok {
			for _, e := range p.Edges {
				walk(e)
			}
			return
		}
		out = append(out, x)
	}
	walk(v)
	return out
}

// sameValue: identical SSA values, or two loads of the same local variable cell (a parameter captured by a closure
// is spilled to an Alloc and re-loaded at every use).
func sameValue(a, b ssa.Value) bool {
	if a == b {
		return true
	}
	ua, ok1 := a.(*ssa.UnOp)
	ub, ok2 := b.(*ssa.UnOp)
	if ok1 && ok2 && ua.Op == token.MUL && ub.Op == token.MUL && ua.X == ub.X {
		if al, ok := ua.X.(*ssa.Alloc); ok {
			n := 0
			for _, r := range *al.Referrers() {
				if st, ok := r.(*ssa.Store); ok && st.Addr == al {
					n++
				}
			}
			return n <= 1
		}
	}
	return false
}

// resultOf returns the i-th returned value, looking through the result spilling go/ssa performs in functions with
// defers (`*res = v; rundefers; t = *res; return t`).
func resultOf(r *ssa.Return, i int) ssa.Value {
	v := r.Results[i]
	u, ok := v.(*ssa.UnOp)
	if !ok || u.Op != token.MUL {
		return v
	}
	al, ok := u.X.(*ssa.Alloc)
	if !ok {
		return v
	}
	// last store to the cell in the return block before the load
	var last ssa.Value
	for _, in := range r.Block().Instrs {
		if in == ssa.Instruction(u) {
			break
		}
		if st, ok := in.(*ssa.Store); ok && st.Addr == ssa.Value(al) {
			last = st.Val
		}
	}
	if last != nil {
		return last
	}
	return v
}

type cfgEdge struct {
	b  *ssa.BasicBlock
	si int
}

// reachesAvoiding: target is reachable from the entry block without using any of the given edges.
func reachesAvoiding(f *ssa.Function, target *ssa.BasicBlock, removed []cfgEdge) bool {
	if target == f.Blocks[0] {
		return true
	}
	seen := map[int]bool{0: true}
	stack := []*ssa.BasicBlock{f.Blocks[0]}
	for len(stack) > 0 {
		b := stack[len(stack)-1]
		stack = stack[:len(stack)-1]
	succ:
		for si, s := range b.Succs {
			for _, e := range removed {
				if e.b == b && e.si == si {
					continue succ
				}
			}
			if s == target {
				return true
			}
			if !seen[s.Index] {
				seen[s.Index] = true
				stack = append(stack, s)
			}
		}
	}
	return false
}

// edgesWhere lists the CFG edges (block, successor index) on which pred(cond, truth) holds.
func edgesWhere(f *ssa.Function, pred func(cond ssa.Value, truth bool) bool) []cfgEdge {
	var out []cfgEdge
	for _, b := range f.Blocks {
		iff := ifOf(b)
		if iff == nil {
			continue
		}
		cond, flip := stripNot(iff.Cond)
		for si := 0; si < 2; si++ {
			truth := (si == 0) != flip
			if pred(cond, truth) {
				out = append(out, cfgEdge{b, si})
			}
		}
	}
	return out
}

// sameFieldLoad: a and b are the same value, or two loads of the same field of the same object while the enclosing
// function never stores to that field (decoded message fields are read, not written, by the decoders).
func sameFieldLoad(a, b ssa.Value) bool {
	if sameValue(a, b) {
		return true
	}
	ua, ok1 := a.(*ssa.UnOp)
	ub, ok2 := b.(*ssa.UnOp)
	if !ok1 || !ok2 || ua.Op != token.MUL || ub.Op != token.MUL {
		return false
	}
	fa, ok1 := ua.X.(*ssa.FieldAddr)
	fb, ok2 := ub.X.(*ssa.FieldAddr)
	if !ok1 || !ok2 || fa.Field != fb.Field || !sameFieldLoad(fa.X, fb.X) || fa.X.Type() != fb.X.Type() {
		return false
	}
	written := false
	eachInstr(ua.Parent(), func(_ *ssa.BasicBlock, _ int, in ssa.Instruction) {
		if st, ok := in.(*ssa.Store); ok {
			if f, ok := st.Addr.(*ssa.FieldAddr); ok && f.Field == fa.Field && f.X.Type() == fa.X.Type() {
				written = true
			}
		}
	})
	return !written
}
