package main

import (
	"fmt"
	"go/token"
	"strings"

	"golang.org/x/tools/go/ssa"
)

const stateDir = "dot/state"

func isStoreToField(name string) func(in ssa.Instruction) bool {
	return func(in ssa.Instruction) bool {
		st, ok := in.(*ssa.Store)
		if !ok {
			return false
		}
		fa, ok := st.Addr.(*ssa.FieldAddr)
		return ok && fieldVar(fa) != nil && fieldVar(fa).Name() == name
	}
}

// dbPutWithKey: a Put (interface or batch) whose key argument is produced by the named key constructor.
func dbPutWithKey(keyFn string) func(in ssa.Instruction) bool {
	return func(in ssa.Instruction) bool {
		call, ok := in.(*ssa.Call)
		if !ok {
			return false
		}
		fn := calleeFunc(&call.Call)
		if fn == nil || fn.Name() != "Put" {
			return false
		}
		args := call.Call.Args
		if len(args) < 2 {
			return false
		}
		k := args[len(args)-2]
		for v := range backwardSlice(k, nil) {
			if kc, ok := v.(*ssa.Call); ok && kc.Call.StaticCallee() != nil && kc.Call.StaticCallee().Name() == keyFn {
				return true
			}
		}
		return false
	}
}

func init() {
	register("C36", "pointer-last write ordering on the SSA CFG of the finalisation and authority-set writers (R-ORDER), atomic batch discipline (R-ORDER/batch)",
		"Decides for every path: SetFinalisedHash writes the finalised sub-chain (headers, bodies, number index) before the finalised-hash entry for (round,set) and that entry before the highest-round-and-set pointer; handleFinalisedBlock writes header and body of each block before putting its number->hash index entry and flushes the index batch last; ApplyScheduledChanges/ApplyForcedChanges/SetNextChange write the authorities and the activation block of set s+1 before the current-set-id pointer is advanced; IncrementSetID is the only advance and is +1; WriteDirty writes a state into one batch flushed only on success. Under the property's assumption (the store preserves write order, batches are atomic) these are necessary for a restart after any prefix of the writes to find every pointer's referent. "+
			"Not decided: the restart path's reads; in-memory structures rebuilt on restart.",
		"the database keeps write order and applies batches atomically (stated by the property)", "DESIGN.md §3 R-ORDER; §4 C36",
		func(c *Ctx) {
			c.load(stateDir, "pkg/trie/inmemory", "pkg/trie/node")
			c.ruleFinalisationOrder()
			c.ruleSetChangeOrder()
			c.ruleWriteDirtyBatch()
			c.ruleChildPersist()
			c.min("R-CHILDPERSIST", 1)
			c.ruleFinaliseEachBlock()
			c.min("R-FINALISE/eachblock", 1)
			c.min("R-ORDER", 10)
			c.min("R-ORDER/batch", 3)
		})
	register("C17", "dominance of the ancestry check over every finalisation write, flow of the pruned list into the cleanup (R-FINALISE), pruning completeness in the block tree (R-ITERMOD, R-PRUNE)",
		"Decides: in SetFinalisedHash no database write and no in-memory cleanup happens before the block was found known and the in-memory range from the last finalised block to it was computed successfully (a non-descendant fails there and changes nothing); every hash the block tree reports as pruned is removed from the unfinalised-block map and its state trie from memory; every finalised sub-chain block gets its number->hash entry and is removed from the unfinalised map; the block tree's prune visits all children of every kept ancestor (no element skipped, no height cut-off). "+
			"Not decided: lookups by number after restart; RangeInMemory's own correctness.",
		"blocktree.RangeInMemory fails for a non-descendant", "DESIGN.md §3 R-ITERMOD; §4 C17",
		func(c *Ctx) {
			c.load(stateDir, btDir)
			c.ruleIterMod("R-ITERMOD", btDir, "node", "children")
			c.min("R-ITERMOD", 8)
			c.rulePruneStructure()
			c.ruleFinaliseGuards()
			c.min("R-FINALISE", 6)
			c.ruleFinaliseSetID()
			c.min("R-FINALISE/setid", 2)
			c.ruleFinaliseEachBlock()
			c.min("R-FINALISE/eachblock", 1)
			c.ruleStoreAfterAdd()
		})
}

func (c *Ctx) ruleFinalisationOrder() {
	c.doc("R-ORDER", "pointer-last: referent writes precede pointer writes on every path (no later-group instruction can execute before an earlier-group one)")
	f := c.fn(stateDir, "(*BlockState).SetFinalisedHash")
	c.ruleSeq("R-ORDER", f, []seqMarker{
		{"known-block-check", callNamed("HasHeader")},
		{"sub-chain(headers,bodies,index)", callNamed("handleFinalisedBlock")},
		{"finalised-hash(round,set)", dbPutWithKey("finalisedHashKey")},
		{"highest-round-and-set-pointer", callNamed("setHighestRoundAndSetID")},
		{"in-memory-prune", callNamed("Prune")},
	}, "a crash between the two writes must leave every pointer with its referent present")
	h := c.fn(stateDir, "(*BlockState).handleFinalisedBlock")
	c.ruleSeq("R-ORDER", h, []seqMarker{
		{"ancestry(RangeInMemory)", callNamed("RangeInMemory")},
		{"header", callNamed("SetHeader")},
		{"body", callNamed("SetBlockBody")},
		{"number-index-entry", dbPutWithKey("headerHashKey")},
	}, "a crash between the two writes must leave every pointer with its referent present")
	if h != nil {
		// Flush is the last write: nothing of the groups above is reachable after it
		var flush *ssa.Call
		eachInstr(h, func(_ *ssa.BasicBlock, _ int, in ssa.Instruction) {
			if call, ok := in.(*ssa.Call); ok && call.Call.IsInvoke() && call.Call.Method.Name() == "Flush" {
				flush = call
			}
		})
		okF := flush != nil
		if flush != nil {
			eachInstr(h, func(_ *ssa.BasicBlock, _ int, in ssa.Instruction) {
				if callNamed("SetHeader", "SetBlockBody")(in) && instrReaches(flush, in) {
					okF = false
				}
			})
			// the function's final result is the Flush error
			ret := false
			for _, r := range returnsOf(h) {
				for _, v := range phiInputs(resultOf(r, 0)) {
					if v == ssa.Value(flush) {
						ret = true
					}
				}
			}
			okF = okF && ret
		}
		c.ob("R-ORDER", "handleFinalisedBlock:index-batch-flushed-last", h.Pos(), okF, "the number->hash index batch is flushed after all headers and bodies were written and its error is returned")
	}
}

func (c *Ctx) ruleSetChangeOrder() {
	isActivationOfNew := func(in ssa.Instruction) bool {
		call, ok := in.(*ssa.Call)
		if !ok || call.Call.StaticCallee() == nil || call.Call.StaticCallee().Name() != "setChangeSetIDAtBlock" {
			return false
		}
		bo, ok := call.Call.Args[1].(*ssa.BinOp)
		return ok && bo.Op == token.ADD
	}
	isAuthOfNew := func(in ssa.Instruction) bool {
		call, ok := in.(*ssa.Call)
		if !ok || call.Call.StaticCallee() == nil || call.Call.StaticCallee().Name() != "setAuthorities" {
			return false
		}
		bo, ok := call.Call.Args[1].(*ssa.BinOp)
		return ok && bo.Op == token.ADD
	}
	for _, name := range []string{"(*GrandpaState).ApplyScheduledChanges", "(*GrandpaState).ApplyForcedChanges"} {
		f := c.fn(stateDir, name)
		c.ruleSeq("R-ORDER", f, []seqMarker{
			{"authorities(set+1)", isAuthOfNew},
			{"activation-block(set+1)", isActivationOfNew},
			{"current-set-id-pointer", callNamed("IncrementSetID", "setCurrentSetID")},
		}, "a crash after the pointer write must find the authority list and the activation block of the current set")
	}
	// IncrementSetID: stores current+1
	inc := c.fn(stateDir, "(*GrandpaState).IncrementSetID")
	if inc != nil {
		ok := false
		eachInstr(inc, func(_ *ssa.BasicBlock, _ int, in ssa.Instruction) {
			call, isCall := in.(*ssa.Call)
			if !isCall || call.Call.StaticCallee() == nil || call.Call.StaticCallee().Name() != "setCurrentSetID" {
				return
			}
			if bo, isBo := call.Call.Args[1].(*ssa.BinOp); isBo && bo.Op == token.ADD {
				if k, isK := constInt(bo.Y); isK && k == 1 {
					if ex, isEx := bo.X.(*ssa.Extract); isEx {
						if gc, isGC := ex.Tuple.(*ssa.Call); isGC && gc.Call.StaticCallee() != nil && gc.Call.StaticCallee().Name() == "GetCurrentSetID" {
							ok = true
						}
					}
				}
			}
		})
		c.ob("R-ORDER", "IncrementSetID:current+1", inc.Pos(), ok, "IncrementSetID must store GetCurrentSetID()+1")
	}
	// who may write the pointer
	sp := c.ssaPkg(stateDir)
	if sp != nil {
		allowed := map[string]bool{"(*GrandpaState).IncrementSetID": true, "NewGrandpaStateFromGenesis": true, "(*Service).Rewind": true}
		for _, f := range allFuncs(c, sp) {
			eachInstr(f, func(_ *ssa.BasicBlock, _ int, in ssa.Instruction) {
				call, ok := in.(*ssa.Call)
				if !ok || call.Call.StaticCallee() == nil || call.Call.StaticCallee().Name() != "setCurrentSetID" {
					return
				}
				c.ob("R-ORDER", "setCurrentSetID-caller:"+shortFn(f), call.Pos(), allowed[shortFn(f)], "the current-set-id pointer may only be written by IncrementSetID (and genesis initialisation); "+shortFn(f)+" writes it directly")
			})
		}
	}
}

func (c *Ctx) ruleFinaliseGuards() {
	c.doc("R-FINALISE", "SetFinalisedHash: every write/cleanup is dominated by the success edges of HasHeader (known block) and handleFinalisedBlock (ancestry via RangeInMemory); the pruned list drives unfinalisedBlocks.delete and tries.delete; handleFinalisedBlock: RangeInMemory's error edge returns before any write")
	f := c.fn(stateDir, "(*BlockState).SetFinalisedHash")
	h := c.fn(stateDir, "(*BlockState).handleFinalisedBlock")
	if f == nil || h == nil {
		return
	}
	var hasHeader, handle, prune *ssa.Call
	var writes []ssa.Instruction
	eachInstr(f, func(_ *ssa.BasicBlock, _ int, in ssa.Instruction) {
		call, ok := in.(*ssa.Call)
		if !ok {
			if isStoreToField("lastFinalised")(in) {
				writes = append(writes, in)
			}
			return
		}
		fn := calleeFunc(&call.Call)
		if fn == nil {
			return
		}
		switch fn.Name() {
		case "HasHeader":
			hasHeader = call
		case "handleFinalisedBlock":
			handle = call
		case "Prune":
			prune = call
			writes = append(writes, in)
		case "Put", "setHighestRoundAndSetID", "delete", "deleteFromTries":
			writes = append(writes, in)
		}
	})
	succ := func(call *ssa.Call, b *ssa.BasicBlock) bool {
		if call == nil {
			return false
		}
		return guardedBy(b, func(cond ssa.Value, truth bool) bool {
			e, neq, ok := nilCmp(cond)
			if !ok || truth == neq {
				return false
			}
			if ex, ok := e.(*ssa.Extract); ok {
				return ex.Tuple == ssa.Value(call)
			}
			return e == ssa.Value(call)
		})
	}
	okAll := len(writes) >= 4
	bad := ""
	for _, w := range writes {
		if !succ(hasHeader, w.Block()) || !succ(handle, w.Block()) {
			okAll = false
			bad = c.pos(w.Pos())
		}
	}
	c.ob("R-FINALISE", "SetFinalisedHash:writes-after-known-and-ancestry-checks", f.Pos(), okAll, fmt.Sprintf("all %d writes/cleanups must be dominated by the success of HasHeader and handleFinalisedBlock (offending: %s): otherwise a failed finalisation attempt changes state", len(writes), bad))
	// has == true
	okHas := false
	if handle != nil && hasHeader != nil {
		okHas = guardedBy(handle.Block(), func(cond ssa.Value, truth bool) bool {
			ex, ok := cond.(*ssa.Extract)
			return ok && ex.Tuple == ssa.Value(hasHeader) && ex.Index == 0 && truth
		})
	}
	c.ob("R-FINALISE", "SetFinalisedHash:unknown-block-rejected", f.Pos(), okHas, "finalising proceeds only on the `has` edge of HasHeader")
	// pruned list flow
	delUnf, delTrie := false, false
	if prune != nil {
		// the pruned list may be handed to a helper of the package: then the helper's parameter is the list
		scan, source := f, ssa.Value(prune)
		eachInstr(f, func(_ *ssa.BasicBlock, _ int, in ssa.Instruction) {
			call, ok := in.(*ssa.Call)
			if !ok || call.Call.StaticCallee() == nil || call.Call.StaticCallee().Pkg != f.Pkg || len(call.Call.StaticCallee().Blocks) == 0 {
				return
			}
			for i, a := range call.Call.Args {
				if a == ssa.Value(prune) && i < len(call.Call.StaticCallee().Params) {
					scan, source = call.Call.StaticCallee(), call.Call.StaticCallee().Params[i]
				}
			}
		})
		eachInstr(scan, func(_ *ssa.BasicBlock, _ int, in ssa.Instruction) {
			call, ok := in.(*ssa.Call)
			if !ok || call.Call.StaticCallee() == nil || call.Call.StaticCallee().Name() != "delete" {
				return
			}
			recvT := call.Call.StaticCallee().Signature.Recv().Type().String()
			fromPruned := false
			for v := range backwardSlice(call.Call.Args[1], nil) {
				if v == source {
					fromPruned = true
				}
			}
			if strings.Contains(recvT, "hashToBlockMap") && fromPruned {
				delUnf = true
			}
			if strings.Contains(recvT, "Tries") {
				for v := range backwardSlice(call.Call.Args[1], nil) {
					if d, ok := v.(*ssa.Call); ok && d.Call.StaticCallee() != nil && d.Call.StaticCallee().Name() == "delete" {
						delTrie = true
					}
				}
			}
		})
	}
	c.ob("R-FINALISE", "SetFinalisedHash:pruned->unfinalisedBlocks.delete", f.Pos(), delUnf, "every hash returned by bt.Prune must be deleted from the unfinalised-block map")
	c.ob("R-FINALISE", "SetFinalisedHash:pruned->tries.delete", f.Pos(), delTrie, "the state trie of every pruned block (the header returned by the deletion) must be dropped from memory")
	// handleFinalisedBlock: RangeInMemory error returns before any write
	var rng *ssa.Call
	var hw []ssa.Instruction
	eachInstr(h, func(_ *ssa.BasicBlock, _ int, in ssa.Instruction) {
		call, ok := in.(*ssa.Call)
		if !ok {
			return
		}
		fn := calleeFunc(&call.Call)
		if fn == nil {
			return
		}
		switch fn.Name() {
		case "RangeInMemory":
			rng = call
		case "SetHeader", "SetBlockBody", "setArrivalTime", "Put", "delete", "Flush", "setFirstNonOriginSlotNumber":
			hw = append(hw, in)
		}
	})
	okR := rng != nil && len(hw) >= 5
	for _, w := range hw {
		if !succ(rng, w.Block()) {
			okR = false
		}
	}
	c.ob("R-FINALISE", "handleFinalisedBlock:writes-after-ancestry-check", h.Pos(), okR, "every write in handleFinalisedBlock is dominated by the success edge of RangeInMemory(lastFinalised, new): a block that does not descend from the finalised head is rejected before anything is written")
	// range starts at lastFinalised
	okStart := false
	if rng != nil {
		if _, ok := isFieldLoadNamed(rng.Call.Args[1], "lastFinalised"); ok {
			okStart = true
		}
	}
	c.ob("R-FINALISE", "handleFinalisedBlock:range-from-last-finalised", h.Pos(), okStart, "the ancestry range must start at the previously finalised block")
	// every sub-chain block leaves the unfinalised map
	delInLoop := false
	eachInstr(h, func(_ *ssa.BasicBlock, _ int, in ssa.Instruction) {
		if call, ok := in.(*ssa.Call); ok && call.Call.StaticCallee() != nil && call.Call.StaticCallee().Name() == "delete" &&
			strings.Contains(call.Call.StaticCallee().Signature.Recv().Type().String(), "hashToBlockMap") {
			delInLoop = true
		}
	})
	c.ob("R-FINALISE", "handleFinalisedBlock:subchain->unfinalisedBlocks.delete", h.Pos(), delInLoop, "finalised sub-chain blocks are removed from the unfinalised-block map")
}
