package main

import (
	"fmt"
	"go/ast"
	"go/constant"
	"go/token"
	"go/types"
	"sort"
	"strings"

	"golang.org/x/tools/go/packages"
)

// R-VDT: VaryingDataType tables (IndexValue: type->index, ValueAt: index->type, SetValue: accepted types) agree with
// one another and, for the consensus-critical ones, with the embedded specification table.

type vdtTables struct {
	name     string
	pos      token.Pos
	index    map[string]int64 // type -> index (IndexValue)
	valueAt  map[int64]string // index -> type (ValueAt)
	setValue map[string]bool
	problems []string
}

func typeStr(t types.Type) string {
	return types.TypeString(t, func(p *types.Package) string { return "" })
}

func (c *Ctx) collectVDT(p *packages.Package) []*vdtTables {
	byType := map[string]*vdtTables{}
	get := func(n string, pos token.Pos) *vdtTables {
		if byType[n] == nil {
			byType[n] = &vdtTables{name: n, pos: pos}
		}
		return byType[n]
	}
	info := p.TypesInfo
	for _, file := range p.Syntax {
		for _, d := range file.Decls {
			fd, ok := d.(*ast.FuncDecl)
			if !ok || fd.Recv == nil || fd.Body == nil {
				continue
			}
			tn := recvTypeName(fd.Recv.List[0].Type)
			switch fd.Name.Name {
			case "IndexValue":
				if fd.Type.Results == nil || fd.Type.Results.NumFields() != 3 {
					continue
				}
				t := get(tn, fd.Pos())
				t.index = map[string]int64{}
				ast.Inspect(fd.Body, func(n ast.Node) bool {
					ts, ok := n.(*ast.TypeSwitchStmt)
					if !ok {
						return true
					}
					for _, cl := range ts.Body.List {
						cc := cl.(*ast.CaseClause)
						idx, found := int64(0), false
						for _, st := range cc.Body {
							if rs, ok := st.(*ast.ReturnStmt); ok && len(rs.Results) >= 1 {
								if tv, ok := info.Types[rs.Results[0]]; ok && tv.Value != nil {
									if v, ok := constant.Int64Val(tv.Value); ok {
										idx, found = v, true
									}
								}
							}
						}
						for _, te := range cc.List {
							ty := info.TypeOf(te)
							if ty == nil {
								continue
							}
							if !found {
								t.problems = append(t.problems, "IndexValue case "+typeStr(ty)+" does not return a constant index")
								continue
							}
							if _, dup := t.index[typeStr(ty)]; dup {
								t.problems = append(t.problems, "IndexValue lists "+typeStr(ty)+" twice")
							}
							t.index[typeStr(ty)] = idx
						}
					}
					return false
				})
			case "ValueAt":
				if fd.Type.Params.NumFields() != 1 {
					continue
				}
				t := get(tn, fd.Pos())
				t.valueAt = map[int64]string{}
				ast.Inspect(fd.Body, func(n ast.Node) bool {
					ss, ok := n.(*ast.SwitchStmt)
					if !ok {
						return true
					}
					for _, cl := range ss.Body.List {
						cc := cl.(*ast.CaseClause)
						var rt types.Type
						for _, st := range cc.Body {
							if rs, ok := st.(*ast.ReturnStmt); ok && len(rs.Results) >= 1 {
								rt = info.TypeOf(rs.Results[0])
							}
						}
						for _, ke := range cc.List {
							tv, ok := info.Types[ke]
							if !ok || tv.Value == nil {
								continue
							}
							k, _ := constant.Int64Val(tv.Value)
							if rt == nil {
								t.problems = append(t.problems, fmt.Sprintf("ValueAt case %d returns no typed value", k))
								continue
							}
							if _, dup := t.valueAt[k]; dup {
								t.problems = append(t.problems, fmt.Sprintf("ValueAt lists index %d twice", k))
							}
							t.valueAt[k] = typeStr(rt)
						}
					}
					return false
				})
			case "SetValue":
				t := get(tn, fd.Pos())
				t.setValue = map[string]bool{}
				ast.Inspect(fd.Body, func(n ast.Node) bool {
					ts, ok := n.(*ast.TypeSwitchStmt)
					if !ok {
						return true
					}
					for _, cl := range ts.Body.List {
						cc := cl.(*ast.CaseClause)
						for _, te := range cc.List {
							if ty := info.TypeOf(te); ty != nil {
								t.setValue[typeStr(ty)] = true
							}
						}
					}
					return false
				})
			}
		}
	}
	var out []*vdtTables
	for _, t := range byType {
		if t.index != nil && t.valueAt != nil {
			out = append(out, t)
		}
	}
	sort.Slice(out, func(i, j int) bool { return out[i].name < out[j].name })
	return out
}

// spec tables: type name suffix -> index (only the consensus-critical enums)
var vdtSpec = map[string]map[string]int64{
	"dot/types.DigestItem":             {"Other(opaque bytes)": 0, "PreRuntimeDigest": 6, "ConsensusDigest": 4, "SealDigest": 5, "RuntimeEnvironmentUpdated": 8},
	"dot/types.BabeDigest":             {"BabePrimaryPreDigest": 1, "BabeSecondaryPlainPreDigest": 2, "BabeSecondaryVRFPreDigest": 3},
	"dot/types.BabeConsensusDigest":    {"NextEpochData": 1, "BABEOnDisabled": 2, "VersionedNextConfigData": 3},
	"dot/types.GrandpaConsensusDigest": {"GrandpaScheduledChange": 1, "GrandpaForcedChange": 2, "GrandpaOnDisabled": 3, "GrandpaPause": 4, "GrandpaResume": 5},
	"dot/types.VersionedNextConfigData": {"NextConfigDataV1": 1},
	"lib/grandpa.grandpaMessage":       {"VoteMessage": 0, "CommitMessage": 1, "VersionedNeighbourPacket": 2, "CatchUpRequest": 3, "CatchUpResponse": 4},
	"pkg/finality-grandpa.Message":     {"Prevote[H, N]": 0, "Precommit[H, N]": 1, "PrimaryPropose[H, N]": 2},
}

func (c *Ctx) ruleVDT(rule string, withSpec bool, dirs ...string) {
	c.doc(rule, "for every VaryingDataType: IndexValue (type->index) and ValueAt (index->type) are mutually inverse, SetValue accepts exactly those types; consensus-critical enums equal the embedded spec table")
	for _, dir := range dirs {
		p := c.pkg(dir)
		if p == nil {
			continue
		}
		for _, t := range c.collectVDT(p) {
			key := dir + "." + t.name
			c.funcsSeen[key+".IndexValue/ValueAt/SetValue"] = true
			var probs []string
			probs = append(probs, t.problems...)
			for ty, idx := range t.index {
				if got, ok := t.valueAt[idx]; !ok {
					probs = append(probs, fmt.Sprintf("IndexValue encodes %s as %d but ValueAt has no case %d (cannot be decoded)", ty, idx, idx))
				} else if got != ty {
					probs = append(probs, fmt.Sprintf("index %d: IndexValue says %s, ValueAt says %s", idx, ty, got))
				}
			}
			for idx, ty := range t.valueAt {
				if got, ok := t.index[ty]; !ok {
					probs = append(probs, fmt.Sprintf("ValueAt decodes index %d as %s but IndexValue cannot encode it", idx, ty))
				} else if got != idx {
					probs = append(probs, fmt.Sprintf("type %s: ValueAt index %d, IndexValue index %d", ty, idx, got))
				}
			}
			if t.setValue != nil {
				for ty := range t.index {
					if !t.setValue[ty] {
						probs = append(probs, "SetValue does not accept "+ty+" (decoded value cannot be stored)")
					}
				}
				for ty := range t.setValue {
					if _, ok := t.index[ty]; !ok {
						probs = append(probs, "SetValue accepts "+ty+" which IndexValue cannot encode")
					}
				}
			}
			sort.Strings(probs)
			c.ob(rule, key+":tables-agree", t.pos, len(probs) == 0, fmt.Sprintf("%d variants; %s", len(t.index), strings.Join(probs, "; ")))
			if spec, ok := vdtSpec[key]; ok && withSpec {
				var names []string
				for ty := range spec {
					names = append(names, ty)
				}
				sort.Strings(names)
				for _, ty := range names {
					idx := spec[ty]
					got, present := t.index[ty]
					msg := fmt.Sprintf("spec variant %s has index %d", ty, idx)
					if !present {
						msg = fmt.Sprintf("spec variant %s (index %d) is missing: such a value cannot be encoded or decoded", ty, idx)
					} else if got != idx {
						msg = fmt.Sprintf("%s has index %d, specification %d", ty, got, idx)
					}
					c.ob(rule+"/spec", key+":"+strings.ReplaceAll(ty, " ", ""), t.pos, present && got == idx, msg)
				}
				var extra []string
				for ty, idx := range t.index {
					if _, ok := spec[ty]; !ok {
						extra = append(extra, fmt.Sprintf("%s=%d", ty, idx))
					}
				}
				sort.Strings(extra)
				c.ob(rule+"/spec", key+":no-extra-variants", t.pos, len(extra) == 0, "variants not in the specification table: "+strings.Join(extra, ", "))
			}
		}
	}
}

// ruleCodecSwitchAgree: the type switch / reflect.Kind switch of the encoder and of the decoder list the same cases.
func (c *Ctx) ruleCodecSwitchAgree(rule string) {
	c.doc(rule, "pkg/scale: every type and reflect.Kind handled by encodeState.marshal is handled by decodeState.unmarshal and vice versa (sibling tables agree)")
	collect := func(name string) (map[string]bool, map[string]bool, token.Pos) {
		fd, p := c.funcDecl("pkg/scale", name)
		tys, kinds := map[string]bool{}, map[string]bool{}
		if fd == nil {
			return tys, kinds, token.NoPos
		}
		ast.Inspect(fd.Body, func(n ast.Node) bool {
			switch s := n.(type) {
			case *ast.TypeSwitchStmt:
				for _, cl := range s.Body.List {
					for _, te := range cl.(*ast.CaseClause).List {
						if ty := p.TypesInfo.TypeOf(te); ty != nil {
							tys[typeStr(ty)] = true
						}
					}
				}
			case *ast.SwitchStmt:
				for _, cl := range s.Body.List {
					for _, ke := range cl.(*ast.CaseClause).List {
						if sel, ok := ke.(*ast.SelectorExpr); ok {
							if id, ok := sel.X.(*ast.Ident); ok && id.Name == "reflect" {
								kinds[sel.Sel.Name] = true
							}
						}
					}
				}
			}
			return true
		})
		return tys, kinds, fd.Pos()
	}
	et, ek, pos := collect("encodeState.marshal")
	dt, dk, _ := collect("decodeState.unmarshal")
	diff := func(a, b map[string]bool) []string {
		var out []string
		for k := range a {
			if !b[k] {
				out = append(out, k)
			}
		}
		sort.Strings(out)
		return out
	}
	c.ob(rule, "marshal-vs-unmarshal:types", pos, len(diff(et, dt)) == 0 && len(diff(dt, et)) == 0 && len(et) >= 10,
		fmt.Sprintf("%d types; only encoded: %v; only decoded: %v", len(et), diff(et, dt), diff(dt, et)))
	c.ob(rule, "marshal-vs-unmarshal:kinds", pos, len(diff(ek, dk)) == 0 && len(diff(dk, ek)) == 0 && len(ek) >= 15,
		fmt.Sprintf("%d kinds; only encoded: %v; only decoded: %v", len(ek), diff(ek, dk), diff(dk, ek)))
}
