package main

import (
	"encoding/json"
	"fmt"
	"go/ast"
	"go/token"
	"go/types"
	"os"
	"path/filepath"
	"sort"
	"strings"
	"time"

	"golang.org/x/tools/go/packages"
	"golang.org/x/tools/go/ssa"
	"golang.org/x/tools/go/ssa/ssautil"
)

const modPath = "github.com/ChainSafe/gossamer"

var repoDir = "/repo"

// Ob is one obligation: a rule applied at one construct.
type Ob struct {
	Rule string `json:"rule"`
	Key  string `json:"key"` // stable construct key (never a line number)
	Pos  string `json:"pos"` // file:line for diagnosis only
	OK   bool   `json:"ok"`
	Msg  string `json:"msg"`
	XRef bool   `json:"xref,omitempty"` // cross-reference only: never raises a violation
}

type Ctx struct {
	Prop  string
	Tier  string
	Start time.Time

	fset    *token.FileSet
	pkgs    map[string]*packages.Package // by import path
	loaded  map[string]bool
	prog    *ssa.Program
	ssaPkgs map[string]*ssa.Package
	overlay map[string][]byte

	obs         []Ob
	minima      map[string]int // rule -> minimum instance count
	counts      map[string]int
	assumptions []string
	notDecided  []string
	rulesDoc    []string
	funcsSeen   map[string]bool
	fatal       []string // UNDECIDED / ANCHOR-UNRESOLVED
	packagesExtra int    // packages parsed (syntax only) by a whole-module who-may-call rule
}

func newCtx(prop, tier string) *Ctx {
	return &Ctx{Prop: prop, Tier: tier, Start: time.Now(),
		pkgs: map[string]*packages.Package{}, loaded: map[string]bool{}, ssaPkgs: map[string]*ssa.Package{},
		minima: map[string]int{}, counts: map[string]int{}, funcsSeen: map[string]bool{}}
}

// ---------------------------------------------------------------- loading

// load type-checks the given repo-relative package dirs (e.g. "pkg/trie/inmemory") with syntax.
func (c *Ctx) load(dirs ...string) {
	var pats []string
	for _, d := range dirs {
		ip := modPath + "/" + d
		if d == "./..." {
			ip = "./..."
		}
		if !c.loaded[ip] {
			pats = append(pats, ip)
			c.loaded[ip] = true
		}
	}
	if len(pats) == 0 {
		return
	}
	if c.prog != nil {
		c.undecided("internal", "load after SSA build: "+strings.Join(pats, ","))
		return
	}
	env := append(os.Environ(), "GOFLAGS=-mod=mod", "GOPROXY=off", "GOSUMDB=off", "GOTOOLCHAIN=local", "GOWORK=off")
	if a := os.Getenv("VERIF_GOARCH"); a != "" {
		env = append(env, "GOARCH="+a)
	}
	cfg := &packages.Config{
		Mode: packages.NeedName | packages.NeedFiles | packages.NeedCompiledGoFiles | packages.NeedImports |
			packages.NeedTypes | packages.NeedTypesSizes | packages.NeedSyntax | packages.NeedTypesInfo,
		Dir: repoDir, Env: env, Fset: c.fsetOrNew(), Overlay: c.overlay,
	}
	pkgs, err := packages.Load(cfg, pats...)
	if err != nil {
		c.undecided("load", err.Error())
		return
	}
	if len(pkgs) == 0 {
		c.undecided("load", "no packages for "+strings.Join(pats, ","))
	}
	for _, p := range pkgs {
		for _, e := range p.Errors {
			c.undecided("load", p.PkgPath+": "+e.Error())
		}
		if len(p.Syntax) == 0 {
			c.undecided("load", "package without syntax: "+p.PkgPath)
		}
		c.pkgs[p.PkgPath] = p
	}
}

func (c *Ctx) fsetOrNew() *token.FileSet {
	if c.fset == nil {
		c.fset = token.NewFileSet()
	}
	return c.fset
}

// pkg returns a loaded package by repo-relative dir.
func (c *Ctx) pkg(dir string) *packages.Package {
	p := c.pkgs[modPath+"/"+dir]
	if p == nil {
		c.load(dir)
		p = c.pkgs[modPath+"/"+dir]
	}
	if p == nil {
		c.unresolved("package " + dir)
		return nil
	}
	return p
}

// buildSSA builds SSA for everything loaded so far (source packages only have bodies).
func (c *Ctx) buildSSA() {
	if c.prog != nil {
		return
	}
	var list []*packages.Package
	for _, p := range c.pkgs {
		list = append(list, p)
	}
	sort.Slice(list, func(i, j int) bool { return list[i].PkgPath < list[j].PkgPath })
	prog, sp := ssautil.Packages(list, ssa.InstantiateGenerics)
	prog.Build()
	c.prog = prog
	for i, p := range list {
		if sp[i] != nil {
			c.ssaPkgs[p.PkgPath] = sp[i]
		}
	}
}

func (c *Ctx) ssaPkg(dir string) *ssa.Package {
	c.pkg(dir)
	c.buildSSA()
	sp := c.ssaPkgs[modPath+"/"+dir]
	if sp == nil {
		c.unresolved("ssa package " + dir)
	}
	return sp
}

// fn resolves a function by "Name" or "(*T).Name" / "T.Name" in a package dir.
func (c *Ctx) fn(dir, name string) *ssa.Function {
	sp := c.ssaPkg(dir)
	if sp == nil {
		return nil
	}
	var f *ssa.Function
	if strings.HasPrefix(name, "(") || strings.Contains(name, ".") {
		ptr := strings.HasPrefix(name, "(*")
		s := strings.TrimPrefix(strings.TrimPrefix(name, "("), "*")
		i := strings.Index(s, ".")
		tn := strings.TrimSuffix(s[:i], ")")
		mn := s[i+1:]
		obj := sp.Pkg.Scope().Lookup(tn)
		if obj != nil {
			var t types.Type = obj.Type()
			if ptr {
				t = types.NewPointer(t)
			}
			sel := c.prog.MethodSets.MethodSet(t).Lookup(sp.Pkg, mn)
			if sel != nil {
				f = c.prog.MethodValue(sel)
			}
			if f == nil && !ptr {
				sel = c.prog.MethodSets.MethodSet(types.NewPointer(t)).Lookup(sp.Pkg, mn)
				if sel != nil {
					f = c.prog.MethodValue(sel)
				}
			}
		}
	} else {
		f = sp.Func(name)
	}
	if f == nil || len(f.Blocks) == 0 {
		c.unresolved("function " + dir + "." + name)
		return nil
	}
	c.funcsSeen[f.String()] = true
	return f
}

// optFn is fn without raising ANCHOR-UNRESOLVED.
func (c *Ctx) optFn(dir, name string) *ssa.Function {
	n := len(c.fatal)
	f := c.fn(dir, name)
	c.fatal = c.fatal[:n]
	return f
}

// funcDecl finds the AST declaration "Name" or "T.Name" in a package dir.
func (c *Ctx) funcDecl(dir, name string) (*ast.FuncDecl, *packages.Package) {
	p := c.pkg(dir)
	if p == nil {
		return nil, nil
	}
	name = strings.NewReplacer("(", "", ")", "", "*", "").Replace(name)
	for _, f := range p.Syntax {
		for _, d := range f.Decls {
			fd, ok := d.(*ast.FuncDecl)
			if !ok {
				continue
			}
			n := fd.Name.Name
			if fd.Recv != nil && len(fd.Recv.List) > 0 {
				n = recvTypeName(fd.Recv.List[0].Type) + "." + n
			}
			if n == name {
				c.funcsSeen[dir+"."+name] = true
				return fd, p
			}
		}
	}
	c.unresolved("declaration " + dir + "." + name)
	return nil, p
}

func recvTypeName(e ast.Expr) string {
	switch t := e.(type) {
	case *ast.StarExpr:
		return recvTypeName(t.X)
	case *ast.Ident:
		return t.Name
	case *ast.IndexExpr:
		return recvTypeName(t.X)
	case *ast.IndexListExpr:
		return recvTypeName(t.X)
	}
	return "?"
}

// ---------------------------------------------------------------- reporting

func (c *Ctx) pos(p token.Pos) string {
	if !p.IsValid() || c.fset == nil {
		return "-"
	}
	ps := c.fset.Position(p)
	f := ps.Filename
	if r, err := filepath.Rel(repoDir, f); err == nil && !strings.HasPrefix(r, "..") {
		f = r
	}
	return fmt.Sprintf("%s:%d", f, ps.Line)
}

func cleanKey(k string) string { return strings.ReplaceAll(relName(k), " ", "") }

func (c *Ctx) ob(rule, key string, p token.Pos, ok bool, msg string) {
	key = cleanKey(key)
	c.obs = append(c.obs, Ob{Rule: rule, Key: key, Pos: c.pos(p), OK: ok, Msg: msg})
	c.counts[rule]++
}

// obAt: obligation with an already formatted position (rules that parse with their own file set).
func (c *Ctx) obAt(rule, key, pos string, ok bool, msg string) {
	key = cleanKey(key)
	c.obs = append(c.obs, Ob{Rule: rule, Key: key, Pos: pos, OK: ok, Msg: msg})
	c.counts[rule]++
}

func (c *Ctx) xref(rule, key string, p token.Pos, ok bool, msg string) {
	key = cleanKey(key)
	c.obs = append(c.obs, Ob{Rule: rule, Key: key, Pos: c.pos(p), OK: ok, Msg: msg, XRef: true})
}

func (c *Ctx) undecided(rule, what string) {
	c.fatal = append(c.fatal, "UNDECIDED "+rule+": "+what)
}
func (c *Ctx) unresolved(what string) {
	c.fatal = append(c.fatal, "ANCHOR-UNRESOLVED: "+what)
}
func (c *Ctx) min(rule string, n int)       { c.minima[rule] = n }
func (c *Ctx) assume(s string)              { c.assumptions = append(c.assumptions, s) }
func (c *Ctx) notDecides(s string)          { c.notDecided = append(c.notDecided, s) }
func (c *Ctx) doc(rule, text string)        { c.rulesDoc = append(c.rulesDoc, rule+": "+text) }
func relFuncName(f *ssa.Function) string    { return strings.TrimPrefix(f.String(), modPath+"/") }
func relName(s string) string               { return strings.ReplaceAll(s, modPath+"/", "") }
func (c *Ctx) keyf(f *ssa.Function, format string, a ...any) string {
	return relName(f.String()) + ":" + fmt.Sprintf(format, a...)
}

// ---------------------------------------------------------------- known findings

type known struct {
	prop, rule, key, what string
}

func readKnown(path string) (ks []known, fixed []string) {
	b, err := os.ReadFile(path)
	if err != nil {
		return nil, nil
	}
	for _, l := range strings.Split(string(b), "\n") {
		l = strings.TrimSpace(l)
		if strings.HasPrefix(l, "fixed:") {
			fixed = append(fixed, l)
			continue
		}
		if !strings.HasPrefix(l, "known:") {
			continue
		}
		rest := strings.TrimSpace(strings.TrimPrefix(l, "known:"))
		what := ""
		if i := strings.Index(rest, " :: "); i >= 0 {
			what = rest[i+4:]
			rest = rest[:i]
		}
		k := known{what: what}
		for _, f := range strings.Fields(rest) {
			switch {
			case strings.HasPrefix(f, "property="):
				k.prop = f[len("property="):]
			case strings.HasPrefix(f, "rule="):
				k.rule = f[len("rule="):]
			case strings.HasPrefix(f, "key="):
				k.key = f[len("key="):]
			}
		}
		ks = append(ks, k)
	}
	return
}

// ---------------------------------------------------------------- finish: evidence + exit status

func verifDir() string {
	if d := os.Getenv("VERIF_DIR"); d != "" {
		return d
	}
	return "/verif"
}

func (c *Ctx) finish(level, explanation string) int {
	vd := verifDir()
	ks, _ := readKnown(filepath.Join(vd, "known_findings.txt"))
	// Vacuity guard. c.min records the hand-confirmed instance count on the pinned tree; the alarm threshold is 60 % of
	// it (at least 1), so that a refactor which legitimately merges or removes a few instances does not raise a false
	// alarm while a rule that stops matching altogether (renamed anchor, unrecognised idiom) still fails the check.
	for rule, m := range c.minima {
		floor := m * 6 / 10
		if floor < 1 {
			floor = 1
		}
		if c.counts[rule] < floor {
			c.fatal = append(c.fatal, fmt.Sprintf("UNDECIDED %s: only %d rule instances found, hand-confirmed count is %d, alarm threshold %d (anchor moved or idiom not recognised)", rule, c.counts[rule], m, floor))
		}
	}
	sort.SliceStable(c.obs, func(i, j int) bool {
		if c.obs[i].Rule != c.obs[j].Rule {
			return c.obs[i].Rule < c.obs[j].Rule
		}
		return c.obs[i].Key < c.obs[j].Key
	})
	if pat := os.Getenv("VERIF_DUMP"); pat != "" {
		for _, o := range c.obs {
			if strings.Contains(o.Rule, pat) {
				fmt.Printf("  dump rule=%s key=%s ok=%v xref=%v at %s: %s\n", o.Rule, o.Key, o.OK, o.XRef, o.Pos, o.Msg)
			}
		}
	}
	var viol, knownHit, xrefs []Ob
	discharged, total := 0, 0
	distinct := map[string]bool{}
	for _, o := range c.obs {
		if o.XRef {
			if !o.OK {
				xrefs = append(xrefs, o)
			}
			continue
		}
		total++
		distinct[o.Rule+"|"+o.Key] = true
		if o.OK {
			discharged++
			continue
		}
		matched := false
		for _, k := range ks {
			if k.prop == c.Prop && k.rule == o.Rule && k.key == o.Key {
				matched = true
				fmt.Printf("KNOWN-FINDING: property=%s rule=%s key=%s at %s: %s\n", c.Prop, o.Rule, o.Key, o.Pos, k.what)
				break
			}
		}
		if matched {
			knownHit = append(knownHit, o)
		} else {
			viol = append(viol, o)
		}
	}
	replay := ""
	if len(viol) > 0 || len(c.fatal) > 0 {
		os.MkdirAll(filepath.Join(vd, "replay"), 0o755)
		replay = filepath.Join(vd, "replay", c.Prop+".json")
		b, _ := json.MarshalIndent(map[string]any{"property": c.Prop, "tier": c.Tier, "violations": viol, "undecided": c.fatal}, "", " ")
		os.WriteFile(replay, b, 0o644)
	}
	for _, o := range viol {
		fmt.Printf("  violation rule=%s key=%s at %s: %s\n", o.Rule, o.Key, o.Pos, o.Msg)
	}
	for _, f := range c.fatal {
		fmt.Printf("  %s\n", f)
	}
	for _, o := range xrefs {
		fmt.Printf("  cross-reference (not armed) rule=%s key=%s at %s: %s\n", o.Rule, o.Key, o.Pos, o.Msg)
	}
	// evidence
	var samples []any
	perRule := map[string]int{}
	for _, o := range c.obs {
		if o.XRef {
			continue
		}
		if perRule[o.Rule] < 4 || !o.OK {
			samples = append(samples, o)
		}
		perRule[o.Rule]++
	}
	var pkgsAnalysed []string
	for p := range c.pkgs {
		pkgsAnalysed = append(pkgsAnalysed, relName(p))
	}
	sort.Strings(pkgsAnalysed)
	if c.packagesExtra > 0 {
		pkgsAnalysed = append(pkgsAnalysed, fmt.Sprintf("./... (%d packages, syntax only, for the who-may-call rule)", c.packagesExtra))
	}
	var funcs []string
	for f := range c.funcsSeen {
		funcs = append(funcs, relName(f))
	}
	sort.Strings(funcs)
	sort.Strings(c.rulesDoc)
	minima := map[string]string{}
	for r, m := range c.minima {
		minima[r] = fmt.Sprintf("%d found, hand-confirmed %d, alarm below %d", c.counts[r], m, maxInt(1, m*6/10))
	}
	seed := 0
	fmt.Sscan(os.Getenv("VERIF_SEED"), &seed)
	ev := map[string]any{
		"property_id": c.Prop, "tier": c.Tier, "seed": seed, "level": level,
		"coverage": map[string]any{
			"explanation":            explanation,
			"obligations":            total,
			"discharged":             discharged,
			"evaluations":            total,
			"distinct_nontrivial":    len(distinct),
			"rule":                   "one obligation per (rule, construct); distinct = distinct (rule,key) pairs; every obligation is a rule instance decided on the type-checked/SSA form of /repo's current source",
			"samples":                samples,
			"rules":                  c.rulesDoc,
			"rule_instances":         minima,
			"packages_analysed":      pkgsAnalysed,
			"functions_anchored":     funcs,
			"known_findings_matched": knownHit,
			"cross_reference":        xrefs,
			"not_decided":            nonNil(c.notDecided),
			"undecided":              nonNil(c.fatal),
			"exhaustive":             false,
			"checker_cmd":            strings.Join(os.Args, " "),
		},
		"assumptions": nonNil(c.assumptions),
		"wall_s":      time.Since(c.Start).Seconds(),
		"violations":  len(viol) + len(c.fatal),
	}
	os.MkdirAll(filepath.Join(vd, "evidence"), 0o755)
	b, _ := json.MarshalIndent(ev, "", " ")
	if err := os.WriteFile(filepath.Join(vd, "evidence", c.Prop+".json"), b, 0o644); err != nil {
		fmt.Println("cannot write evidence:", err)
		return 2
	}
	fmt.Printf("property=%s tier=%s packages=%d obligations=%d discharged=%d known=%d violations=%d undecided=%d wall=%.1fs\n",
		c.Prop, c.Tier, len(c.pkgs), total, discharged, len(knownHit), len(viol), len(c.fatal), time.Since(c.Start).Seconds())
	if len(viol) > 0 || len(c.fatal) > 0 {
		fmt.Printf("VIOLATION property=%s replay=%s\n", c.Prop, replay)
		return 1
	}
	return 0
}

func nonNil(s []string) []string {
	if s == nil {
		return []string{}
	}
	return s
}

func maxInt(a, b int) int {
	if a > b {
		return a
	}
	return b
}
