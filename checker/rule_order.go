package main

import (
	"fmt"
	"strings"

	"golang.org/x/tools/go/ssa"
)

// ruleSeq: in function f the marker groups occur in the given order on every path: no instruction of a later group
// can execute before one of an earlier group (CFG reachability), and every group is present.
type seqMarker struct {
	name  string
	match func(in ssa.Instruction) bool
}

func (c *Ctx) ruleSeq(rule string, f *ssa.Function, markers []seqMarker, why ...string) {
	reason := "the later step depends on the earlier one"
	if len(why) > 0 {
		reason = why[0]
	}
	if f == nil {
		return
	}
	groups := make([][]ssa.Instruction, len(markers))
	eachInstr(f, func(_ *ssa.BasicBlock, _ int, in ssa.Instruction) {
		for i, m := range markers {
			if m.match(in) {
				groups[i] = append(groups[i], in)
			}
		}
	})
	var names []string
	for _, m := range markers {
		names = append(names, m.name)
	}
	for i, g := range groups {
		if len(g) == 0 {
			c.ob(rule, fmt.Sprintf("%s:present:%s", relName(f.String()), markers[i].name), f.Pos(), false, "step `"+markers[i].name+"` not found in "+shortFn(f)+" (expected sequence: "+strings.Join(names, " < ")+")")
			return
		}
	}
	for i := 0; i+1 < len(groups); i++ {
		ok := true
		var at ssa.Instruction = groups[i+1][0]
		for _, a := range groups[i] {
			for _, b := range groups[i+1] {
				if instrReaches(b, a) && !instrReaches(a, b) {
					ok, at = false, b
				}
				if a.Block() == b.Block() && !instrReaches(a, b) {
					ok, at = false, b
				}
			}
		}
		c.ob(rule, fmt.Sprintf("%s:%s<%s", relName(f.String()), markers[i].name, markers[i+1].name), at.Pos(), ok,
			fmt.Sprintf("%s must perform `%s` before `%s`: %s", shortFn(f), markers[i].name, markers[i+1].name, reason))
	}
}

func callNamed(names ...string) func(in ssa.Instruction) bool {
	return func(in ssa.Instruction) bool {
		call, ok := in.(*ssa.Call)
		if !ok {
			return false
		}
		n := relName(calleeName(&call.Call))
		short := n
		if i := strings.LastIndex(n, "."); i >= 0 {
			short = n[i+1:]
		}
		for _, w := range names {
			if n == w || short == w {
				return true
			}
		}
		return false
	}
}
