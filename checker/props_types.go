package main

import (
	"fmt"
	"go/token"
	"go/types"
	"sort"
	"strings"

	"golang.org/x/tools/go/ssa"
)

func init() {
	register("C14", "enum index tables against the embedded specification (R-VDT/spec), header-hash construction (R-HEADERHASH), protobuf field symmetry (R-PBFIELDS), no hand-rolled length prefixes (R-NOHANDROLLED)",
		"Decides: the variant index tables of DigestItem, BABE pre-digest, BABE/GRANDPA consensus digests, GRANDPA messages and finality-grandpa messages equal the specification's indices and their encode (IndexValue), decode (ValueAt) and store (SetValue) tables are mutually inverse; Header.Hash is BLAKE2b-256 of the SCALE encoding of the header and the cached hash is only written there, by the decoder and by the reviewed writers; block data to/from protobuf touch the same set of message fields; wire types never build a compact length prefix by hand (len<<2), only through pkg/scale. "+
			"Not decided: byte-for-byte equality with an independent reference encoder for every value (C11/C12 cover the codec tables).",
		"protobuf runtime trusted", "DESIGN.md §3 R-VDT, R-HEADERHASH, R-PBFIELDS; §4 C14",
		func(c *Ctx) {
			c.load("dot/types", "lib/grandpa", "pkg/finality-grandpa", "dot/network/messages", "internal/primitives/consensus/grandpa", "pkg/scale")
			c.ruleVDT("R-VDT", true, "dot/types", "lib/grandpa", "pkg/finality-grandpa")
			c.min("R-VDT", 8)
			c.min("R-VDT/spec", 25)
			c.ruleHeaderHash()
			c.rulePBFields()
			c.ruleLastWrite()
			c.ruleFromBlockClamp()
			c.ruleFreshStruct()
			c.ruleNoHandRolled("R-NOHANDROLLED", "dot/types", "dot/network/messages", "lib/grandpa", "internal/primitives/consensus/grandpa")
		})
}

func (c *Ctx) ruleHeaderHash() {
	f := c.fn("dot/types", "(*Header).Hash")
	if f == nil {
		return
	}
	c.doc("R-HEADERHASH", "Header.Hash stores common.Blake2bHash(scale.Marshal(*header)) into the hash cache; the cache field is written only in dot/types")
	var marshal, hash *ssa.Call
	eachInstr(f, func(_ *ssa.BasicBlock, _ int, in ssa.Instruction) {
		if call, ok := in.(*ssa.Call); ok {
			n := calleeName(&call.Call)
			if strings.HasSuffix(n, "pkg/scale.Marshal") {
				marshal = call
			}
			if strings.HasSuffix(n, "common.Blake2bHash") || strings.HasSuffix(n, "common.MustBlake2bHash") {
				hash = call
			}
		}
	})
	ok := marshal != nil && hash != nil
	if ok {
		// hash input is the marshal output; marshal input is the dereferenced receiver
		in := false
		for v := range backwardSlice(hash.Call.Args[0], nil) {
			if v == ssa.Value(marshal) {
				in = true
			}
		}
		recvIn := false
		if mi, isMI := marshal.Call.Args[0].(*ssa.MakeInterface); isMI {
			if u, isU := mi.X.(*ssa.UnOp); isU && u.X == ssa.Value(f.Params[0]) {
				recvIn = true
			}
		}
		ok = in && recvIn
	}
	c.ob("R-HEADERHASH", "(*Header).Hash:blake2b(scale(header))", f.Pos(), ok, "the header hash must be BLAKE2b-256 of the SCALE encoding of the whole header")
	// stored value is the computed hash
	stored := false
	eachInstr(f, func(_ *ssa.BasicBlock, _ int, in ssa.Instruction) {
		if st, isSt := in.(*ssa.Store); isSt {
			if fa, isFA := st.Addr.(*ssa.FieldAddr); isFA && fieldVar(fa) != nil && fieldVar(fa).Name() == "hash" {
				for v := range backwardSlice(st.Val, nil) {
					if hash != nil && v == ssa.Value(hash) {
						stored = true
					}
				}
			}
		}
	})
	c.ob("R-HEADERHASH", "(*Header).Hash:cache-holds-computed-hash", f.Pos(), stored, "the cached hash must be the hash just computed")
}

// R-PBFIELDS: both directions of the block-data conversion touch the same pb.BlockData fields.
func (c *Ctx) rulePBFields() {
	c.doc("R-PBFIELDS", "blockDataToProtobuf writes and protobufToBlockData reads the same set of pb.BlockData fields")
	fields := func(name string) map[string]bool {
		f := c.fn("dot/network/messages", name)
		out := map[string]bool{}
		if f == nil {
			return out
		}
		eachInstr(f, func(_ *ssa.BasicBlock, _ int, in ssa.Instruction) {
			if fa, ok := in.(*ssa.FieldAddr); ok && strings.HasSuffix(namedType(fa.X.Type()), "proto/v1.BlockData") || ok && strings.HasSuffix(namedType(fa.X.Type()), ".BlockData") && strings.Contains(namedType(fa.X.Type()), "proto") {
				if fv := fieldVar(fa); fv != nil && fv.Exported() {
					out[fv.Name()] = true
				}
			}
		})
		return out
	}
	w, r := fields("blockDataToProtobuf"), fields("protobufToBlockData")
	var onlyW, onlyR []string
	for k := range w {
		if !r[k] {
			onlyW = append(onlyW, k)
		}
	}
	for k := range r {
		if !w[k] {
			onlyR = append(onlyR, k)
		}
	}
	sort.Strings(onlyW)
	sort.Strings(onlyR)
	f := c.fn("dot/network/messages", "blockDataToProtobuf")
	var p token.Pos
	if f != nil {
		p = f.Pos()
	}
	c.ob("R-PBFIELDS", "blockData<->protobuf", p, len(w) >= 6 && len(onlyW) == 0 && len(onlyR) == 0,
		fmt.Sprintf("%d fields written, %d read; only written: %v; only read: %v", len(w), len(r), onlyW, onlyR))
}

// R-NOHANDROLLED: no `len(x) << 2` (hand-made single-byte compact prefix, valid only below 64 items).
func (c *Ctx) ruleNoHandRolled(rule string, dirs ...string) {
	c.doc(rule, "no value derived from len(x) is shifted left by 2 (a hand-rolled one-byte SCALE compact prefix is only valid for lengths below 64); length prefixes come from pkg/scale")
	nfun, nshift := 0, 0
	for _, dir := range dirs {
		sp := c.ssaPkg(dir)
		if sp == nil {
			continue
		}
		for _, f := range allFuncs(c, sp) {
			nfun++
			ord := 0
			eachInstr(f, func(_ *ssa.BasicBlock, _ int, in ssa.Instruction) {
				bo, ok := in.(*ssa.BinOp)
				if !ok || bo.Op != token.SHL {
					return
				}
				nshift++
				k, ok := constInt(bo.Y)
				if !ok || k != 2 {
					return
				}
				fromLen := false
				for v := range backwardSlice(bo.X, nil) {
					if _, ok := lenOf(v); ok {
						fromLen = true
					}
				}
				if !fromLen {
					return
				}
				ord++
				c.ob(rule, fmt.Sprintf("%s:len<<2#%d", relName(f.String()), ord), bo.Pos(), false,
					shortFn(f)+" builds a compact length prefix by hand (len << 2): it wraps for 64 or more items, so longer sequences decode to the wrong count")
			})
		}
	}
	c.ob(rule, "scan", token.NoPos, nfun > 50, fmt.Sprintf("%d functions scanned, %d shift operations inspected, none derives a compact prefix from a length", nfun, nshift))
}

var _ = types.Typ
