package main

import (
	"fmt"
	"go/token"
	"go/types"
	"sort"

	"golang.org/x/tools/go/ssa"
)

// R-OWN: copy-on-write ownership typestate for *node.Node in pkg/trie/inmemory.

const nodePkg = modPath + "/pkg/trie/node"
const inmemDir = "pkg/trie/inmemory"

var nodeContentFields = map[string]bool{"PartialKey": true, "StorageValue": true, "MustBeHashed": true,
	"IsHashedValue": true, "Children": true, "Descendants": true, "Generation": true, "Dirty": true}

func isNodePtr(t types.Type) bool {
	p, ok := t.Underlying().(*types.Pointer)
	if !ok {
		return false
	}
	return namedType(p.Elem()) == nodePkg+".Node"
}

type ownWrite struct {
	f     *ssa.Function
	in    ssa.Instruction
	recv  ssa.Value
	what  string
	param int // >=0: written through parameter #param (not locally owned)
}

// nodeMutatingMethods derives from package node's SSA: pointer-receiver methods storing to a receiver field other
// than the cache field MerkleValue (transitively through calls on the same receiver).
func (c *Ctx) nodeMutatingMethods() map[string]bool {
	sp := c.ssaPkg("pkg/trie/node")
	out := map[string]bool{}
	if sp == nil {
		return out
	}
	obj := sp.Pkg.Scope().Lookup("Node")
	if obj == nil {
		c.unresolved("node.Node")
		return out
	}
	ms := c.prog.MethodSets.MethodSet(types.NewPointer(obj.Type()))
	direct := map[*ssa.Function]bool{}
	var all []*ssa.Function
	for i := 0; i < ms.Len(); i++ {
		f := c.prog.MethodValue(ms.At(i))
		if f == nil || len(f.Blocks) == 0 || len(f.Params) == 0 {
			continue
		}
		all = append(all, f)
		recv := f.Params[0]
		eachInstr(f, func(_ *ssa.BasicBlock, _ int, in ssa.Instruction) {
			st, ok := in.(*ssa.Store)
			if !ok {
				return
			}
			if fa, ok := st.Addr.(*ssa.FieldAddr); ok && fa.X == recv {
				if fv := fieldVar(fa); fv != nil && fv.Name() != "MerkleValue" {
					direct[f] = true
				}
			}
		})
	}
	changed := true
	for changed {
		changed = false
		for _, f := range all {
			if direct[f] {
				continue
			}
			recv := f.Params[0]
			eachInstr(f, func(_ *ssa.BasicBlock, _ int, in ssa.Instruction) {
				if call, ok := in.(*ssa.Call); ok {
					if cal := call.Call.StaticCallee(); cal != nil && direct[cal] && len(call.Call.Args) > 0 && call.Call.Args[0] == recv {
						direct[f] = true
						changed = true
					}
				}
			})
		}
	}
	for f := range direct {
		out[f.Name()] = true
	}
	return out
}

func (c *Ctx) ruleOwn(exempt map[string]string) {
	sp := c.ssaPkg(inmemDir)
	if sp == nil {
		return
	}
	mut := c.nodeMutatingMethods()
	if !mut["SetDirty"] {
		c.undecided("R-OWN", "node.(*Node).SetDirty not classified as mutating: method table derivation broke")
	}
	var mutNames []string
	for m := range mut {
		mutNames = append(mutNames, m)
	}
	sort.Strings(mutNames)
	c.doc("R-OWN", fmt.Sprintf("every write through a *node.Node (content-field store, Children element store, mutating method %v) must be through an owned node: fresh literal, result of prepForMutation, result of Copy, or phi of those; writes through a parameter move the obligation to every call site", mutNames))

	var funcs []*ssa.Function
	for _, m := range sp.Members {
		switch m := m.(type) {
		case *ssa.Function:
			funcs = append(funcs, withAnon(m)...)
		case *ssa.Type:
			for _, t := range []types.Type{m.Type(), types.NewPointer(m.Type())} {
				ms := c.prog.MethodSets.MethodSet(t)
				for i := 0; i < ms.Len(); i++ {
					if fn := c.prog.MethodValue(ms.At(i)); fn != nil && fn.Pkg == sp && fn.Synthetic == "" && len(fn.Blocks) > 0 {
						funcs = append(funcs, withAnon(fn)...)
					}
				}
			}
		}
	}
	seen := map[*ssa.Function]bool{}
	var fl []*ssa.Function
	for _, f := range funcs {
		if !seen[f] && len(f.Blocks) > 0 {
			seen[f] = true
			fl = append(fl, f)
		}
	}
	funcs = fl
	sort.Slice(funcs, func(i, j int) bool { return funcs[i].String() < funcs[j].String() })

	// ownership of a value inside a function: 1 owned, 0 not owned, 2+i = parameter i
	var owned func(v ssa.Value, seen map[ssa.Value]bool) (bool, int)
	owned = func(v ssa.Value, seenV map[ssa.Value]bool) (bool, int) {
		if seenV[v] {
			return true, -1 // cycle through phi: neutral
		}
		seenV[v] = true
		switch x := v.(type) {
		case *ssa.Alloc:
			return namedType(x.Type()) == nodePkg+".Node", -1
		case *ssa.Extract:
			if call, ok := x.Tuple.(*ssa.Call); ok && x.Index == 0 {
				if cal := call.Call.StaticCallee(); cal != nil && cal.Name() == "prepForMutation" {
					return true, -1
				}
			}
		case *ssa.Call:
			if cal := x.Call.StaticCallee(); cal != nil {
				if cal.Name() == "Copy" && cal.Signature.Recv() != nil && isNodePtr(cal.Signature.Recv().Type()) {
					return true, -1
				}
			}
		case *ssa.Phi:
			param := -1
			for _, e := range x.Edges {
				ok, p := owned(e, seenV)
				if !ok {
					if p >= 0 {
						param = p
						continue
					}
					return false, -1
				}
			}
			if param >= 0 {
				return false, param
			}
			return true, -1
		case *ssa.Parameter:
			for i, p := range x.Parent().Params {
				if p == x {
					return false, i
				}
			}
		case *ssa.Const:
			return x.Value == nil, -1 // nil node: nothing to write through
		}
		return false, -1
	}

	var writes []ownWrite
	calls := map[*ssa.Function][]*ssa.Call{}
	for _, f := range funcs {
		c.funcsSeen[f.String()] = true
		eachInstr(f, func(_ *ssa.BasicBlock, _ int, in ssa.Instruction) {
			switch x := in.(type) {
			case *ssa.Store:
				switch a := x.Addr.(type) {
				case *ssa.FieldAddr:
					if isNodePtr(a.X.Type()) {
						if fv := fieldVar(a); fv != nil && nodeContentFields[fv.Name()] {
							writes = append(writes, ownWrite{f: f, in: in, recv: a.X, what: "store:" + fv.Name()})
						}
					}
				case *ssa.IndexAddr:
					// x.Children[i] = ...
					if base, ok := isFieldLoadNamed(a.X, "Children"); ok && isNodePtr(base.Type()) {
						writes = append(writes, ownWrite{f: f, in: in, recv: base, what: "store:Children[]"})
					}
				}
			case *ssa.Call:
				if cal := x.Call.StaticCallee(); cal != nil {
					calls[f] = append(calls[f], x)
					if cal.Signature.Recv() != nil && isNodePtr(cal.Signature.Recv().Type()) && mut[cal.Name()] && cal.Pkg != nil && cal.Pkg.Pkg.Path() == nodePkg {
						writes = append(writes, ownWrite{f: f, in: in, recv: x.Call.Args[0], what: "call:" + cal.Name()})
					}
				}
			}
		})
	}
	// requirement propagation: requires[f][i] = set of originating write indices
	requires := map[*ssa.Function]map[int]map[int]bool{}
	addReq := func(f *ssa.Function, i int, w int) bool {
		if requires[f] == nil {
			requires[f] = map[int]map[int]bool{}
		}
		if requires[f][i] == nil {
			requires[f][i] = map[int]bool{}
		}
		if requires[f][i][w] {
			return false
		}
		requires[f][i][w] = true
		return true
	}
	status := make([]string, len(writes)) // "" ok, else violation message
	for wi := range writes {
		w := &writes[wi]
		ok, p := owned(w.recv, map[ssa.Value]bool{})
		w.param = -1
		if ok {
			continue
		}
		if p >= 0 {
			w.param = p
			addReq(w.f, p, wi)
			continue
		}
		status[wi] = fmt.Sprintf("%s writes %s through a node it does not own (%s): a node shared with another snapshot can be modified", shortFn(w.f), w.what, describeVal(w.recv))
	}
	changed := true
	for iter := 0; changed && iter < 50; iter++ {
		changed = false
		for _, f := range funcs {
			for _, call := range calls[f] {
				cal := call.Call.StaticCallee()
				req := requires[cal]
				if req == nil {
					continue
				}
				for pi, ws := range req {
					if pi >= len(call.Call.Args) {
						continue
					}
					arg := call.Call.Args[pi]
					ok, p := owned(arg, map[ssa.Value]bool{})
					if ok {
						continue
					}
					for wi := range ws {
						if p >= 0 {
							if addReq(f, p, wi) {
								changed = true
							}
						} else if status[wi] == "" {
							w := writes[wi]
							status[wi] = fmt.Sprintf("%s writes %s through its parameter before owning it, and %s passes a node it does not own (%s) at %s", shortFn(w.f), w.what, shortFn(f), describeVal(arg), c.pos(call.Pos()))
							changed = true
						}
					}
				}
			}
		}
	}
	ord := map[string]int{}
	for wi, w := range writes {
		k := fmt.Sprintf("%s:%s", relName(w.f.String()), w.what)
		ord[k]++
		key := fmt.Sprintf("%s#%d", k, ord[k])
		if reason, ok := exempt[shortFn(w.f)]; ok {
			c.ob("R-OWN", key, w.in.Pos(), true, "exempt: "+reason)
			continue
		}
		if status[wi] != "" {
			c.ob("R-OWN", key, w.in.Pos(), false, status[wi])
		} else if w.param >= 0 {
			c.ob("R-OWN", key, w.in.Pos(), true, "written through a parameter; every call site passes an owned node")
		} else {
			c.ob("R-OWN", key, w.in.Pos(), true, "receiver is owned: "+describeVal(w.recv))
		}
	}
}

func describeVal(v ssa.Value) string {
	switch x := v.(type) {
	case *ssa.Parameter:
		return "parameter " + x.Name()
	case *ssa.Alloc:
		return "fresh node literal"
	case *ssa.Extract:
		return "result of " + describeVal(x.Tuple)
	case *ssa.Call:
		return "call " + relName(calleeName(&x.Call))
	case *ssa.Phi:
		return "phi(" + x.Comment + ")"
	case *ssa.UnOp:
		if x.Op == token.MUL {
			if fa, ok := x.X.(*ssa.FieldAddr); ok {
				if fv := fieldVar(fa); fv != nil {
					return "load of field " + fv.Name()
				}
			}
			if _, ok := x.X.(*ssa.IndexAddr); ok {
				return "load of a slice element"
			}
		}
	}
	return v.String()
}

// R-OWN/prep: prepForMutation returns the same node only on the generation-equal edge, otherwise a Copy stamped with
// the trie generation; the result is marked dirty.
func (c *Ctx) ruleOwnPrep() {
	f := c.fn(inmemDir, "(*InMemoryTrie).prepForMutation")
	if f == nil {
		return
	}
	c.doc("R-OWN/prep", "prepForMutation: `same node` only under Generation == t.generation; otherwise Copy() with Generation := t.generation; SetDirty on the result")
	if len(f.Params) < 2 {
		c.undecided("R-OWN/prep", "unexpected signature")
		return
	}
	recvT, node := f.Params[0], f.Params[1]
	isTrieGen := func(v ssa.Value) bool {
		b, ok := isFieldLoadNamed(v, "generation")
		return ok && b == recvT
	}
	isNodeGen := func(v ssa.Value) bool {
		b, ok := isFieldLoadNamed(v, "Generation")
		return ok && b == node
	}
	genEq := func(cond ssa.Value, truth bool) bool {
		b, ok := cond.(*ssa.BinOp)
		if !ok {
			return false
		}
		match := (isTrieGen(b.X) && isNodeGen(b.Y)) || (isTrieGen(b.Y) && isNodeGen(b.X))
		return match && ((b.Op == token.EQL && truth) || (b.Op == token.NEQ && !truth))
	}
	n := 0
	for _, r := range returnsOf(f) {
		if len(r.Results) < 1 {
			continue
		}
		if isNilConst(resultOf(r, 0)) {
			continue
		}
		n++
		var check func(v ssa.Value, from *ssa.BasicBlock, seen map[ssa.Value]bool)
		ord := 0
		check = func(v ssa.Value, from *ssa.BasicBlock, seen map[ssa.Value]bool) {
			if seen[v] {
				return
			}
			seen[v] = true
			switch x := v.(type) {
			case *ssa.Phi:
				for i, e := range x.Edges {
					check(e, x.Block().Preds[i], seen)
				}
			case *ssa.Parameter:
				ord++
				ok := x == node && guardedBy(from, genEq)
				// the edge block itself may be the If block
				c.ob("R-OWN/prep", fmt.Sprintf("prepForMutation:return-same-node#%d", ord), r.Pos(), ok, "returning the node itself is allowed only on the Generation == t.generation edge")
			case *ssa.Call:
				ord++
				cal := x.Call.StaticCallee()
				ok := cal != nil && cal.Name() == "Copy" && x.Call.Args[0] == node
				stamped := false
				if ok {
					for _, ref := range *x.Referrers() {
						if fa, ok := ref.(*ssa.FieldAddr); ok {
							if fv := fieldVar(fa); fv != nil && fv.Name() == "Generation" {
								for _, r2 := range *fa.Referrers() {
									if st, ok := r2.(*ssa.Store); ok && st.Addr == fa && isTrieGen(st.Val) {
										stamped = true
									}
								}
							}
						}
					}
				}
				c.ob("R-OWN/prep", fmt.Sprintf("prepForMutation:return-copy#%d", ord), x.Pos(), ok && stamped, "the other path must return currentNode.Copy(...) with Generation set to t.generation")
			default:
				ord++
				c.ob("R-OWN/prep", fmt.Sprintf("prepForMutation:return-other#%d", ord), r.Pos(), false, "unrecognised returned node: "+describeVal(v))
			}
		}
		check(resultOf(r, 0), r.Block(), map[ssa.Value]bool{})
		// SetDirty dominates the return
		dirty := false
		eachInstr(f, func(_ *ssa.BasicBlock, _ int, in ssa.Instruction) {
			if call, ok := in.(*ssa.Call); ok {
				if cal := call.Call.StaticCallee(); cal != nil && cal.Name() == "SetDirty" && call.Call.Args[0] == resultOf(r, 0) && instrDominates(call, r) {
					dirty = true
				}
			}
		})
		c.ob("R-OWN/prep", "prepForMutation:SetDirty", r.Pos(), dirty, "the returned node is marked dirty (cached Merkle value dropped) on every success path")
	}
	if n == 0 {
		c.undecided("R-OWN/prep", "no success return found")
	}
}

// R-OWN/snap: Snapshot literals bump the generation by a positive constant and start fresh deltas.
func (c *Ctx) ruleOwnSnap() {
	f := c.fn(inmemDir, "(*InMemoryTrie).Snapshot")
	if f == nil {
		return
	}
	c.doc("R-OWN/snap", "every InMemoryTrie literal built by Snapshot has generation = <source>.generation + k (k>=1) and deltas from tracking.New()")
	n := 0
	eachInstr(f, func(_ *ssa.BasicBlock, _ int, in ssa.Instruction) {
		al, ok := in.(*ssa.Alloc)
		if !ok || namedType(al.Type()) != modPath+"/"+inmemDir+".InMemoryTrie" {
			return
		}
		n++
		genOK, deltasOK := false, false
		for _, ref := range *al.Referrers() {
			fa, ok := ref.(*ssa.FieldAddr)
			if !ok {
				continue
			}
			fv := fieldVar(fa)
			for _, r2 := range *fa.Referrers() {
				st, ok := r2.(*ssa.Store)
				if !ok || st.Addr != fa {
					continue
				}
				switch fv.Name() {
				case "generation":
					if b, ok := st.Val.(*ssa.BinOp); ok && b.Op == token.ADD {
						x, y := b.X, b.Y
						if _, isC := constInt(x); isC {
							x, y = y, x
						}
						if k, isC := constInt(y); isC && k >= 1 {
							if _, ok := isFieldLoadNamed(x, "generation"); ok {
								genOK = true
							}
						}
					}
				case "deltas":
					for _, v := range phiInputs(stripConv(st.Val)) {
						if call, ok := stripConv(v).(*ssa.Call); ok && relName(calleeName(&call.Call)) == "pkg/trie/tracking.New" {
							deltasOK = true
						}
					}
				}
			}
		}
		c.ob("R-OWN/snap", fmt.Sprintf("Snapshot:literal#%d:generation", n), al.Pos(), genOK, "snapshot generation must be source generation + positive constant (otherwise nodes of the parent look owned)")
		c.ob("R-OWN/snap", fmt.Sprintf("Snapshot:literal#%d:deltas", n), al.Pos(), deltasOK, "snapshot starts with fresh deltas (tracking.New())")
	})
}

// R-OWN/fresh: node literals created in the package are Dirty with a Generation taken from the trie or the replaced node.
func (c *Ctx) ruleOwnFresh(exempt map[string]string) {
	sp := c.ssaPkg(inmemDir)
	if sp == nil {
		return
	}
	c.doc("R-OWN/fresh", "every node.Node literal in a mutator sets Dirty: true and Generation from t.generation or the replaced node's Generation")
	var funcs []*ssa.Function
	for _, m := range sp.Members {
		if t, ok := m.(*ssa.Type); ok {
			ms := c.prog.MethodSets.MethodSet(types.NewPointer(t.Type()))
			for i := 0; i < ms.Len(); i++ {
				if fn := c.prog.MethodValue(ms.At(i)); fn != nil && fn.Pkg == sp && fn.Synthetic == "" && len(fn.Blocks) > 0 {
					funcs = append(funcs, fn)
				}
			}
		}
		if fn, ok := m.(*ssa.Function); ok && len(fn.Blocks) > 0 {
			funcs = append(funcs, fn)
		}
	}
	sort.Slice(funcs, func(i, j int) bool { return funcs[i].String() < funcs[j].String() })
	for _, f := range funcs {
		if _, ok := exempt[shortFn(f)]; ok {
			continue
		}
		n := 0
		eachInstr(f, func(_ *ssa.BasicBlock, _ int, in ssa.Instruction) {
			al, ok := in.(*ssa.Alloc)
			if !ok || namedType(al.Type()) != nodePkg+".Node" || !al.Heap {
				return
			}
			n++
			dirty, gen := false, false
			for _, ref := range *al.Referrers() {
				fa, ok := ref.(*ssa.FieldAddr)
				if !ok {
					continue
				}
				fv := fieldVar(fa)
				for _, r2 := range *fa.Referrers() {
					st, ok := r2.(*ssa.Store)
					if !ok || st.Addr != fa {
						continue
					}
					switch fv.Name() {
					case "Dirty":
						if k, ok := st.Val.(*ssa.Const); ok && k.Value != nil && k.Value.String() == "true" {
							dirty = true
						}
					case "Generation":
						if _, ok := isFieldLoadNamed(st.Val, "generation"); ok {
							gen = true
						}
						if _, ok := isFieldLoadNamed(st.Val, "Generation"); ok {
							gen = true
						}
					}
				}
			}
			c.ob("R-OWN/fresh", fmt.Sprintf("%s:literal#%d", relName(f.String()), n), al.Pos(), dirty && gen,
				fmt.Sprintf("node literal must be Dirty:true (got %v) with Generation from the trie/replaced node (got %v), else it is never written to the DB or is mistaken as owned", dirty, gen))
		})
	}
}

// R-OWN/alias: the Children slice stored into any node is freshly allocated (or nil), never another node's slice;
// sharing the backing array lets in-place child updates of one snapshot show through another.
func (c *Ctx) ruleOwnAlias(dirs ...string) {
	c.doc("R-OWN/alias", "every store to a node's Children field is a fresh make([]*Node, ...) or nil, never a load of another node's Children (no shared backing array between nodes)")
	for _, dir := range dirs {
		sp := c.ssaPkg(dir)
		if sp == nil {
			continue
		}
		for _, f := range allFuncs(c, sp) {
			ord := 0
			eachInstr(f, func(_ *ssa.BasicBlock, _ int, in ssa.Instruction) {
				st, ok := in.(*ssa.Store)
				if !ok {
					return
				}
				fa, ok := st.Addr.(*ssa.FieldAddr)
				if !ok || !isNodePtr(fa.X.Type()) {
					return
				}
				fv := fieldVar(fa)
				if fv == nil || fv.Name() != "Children" {
					return
				}
				ord++
				good, why := true, ""
				for _, v := range phiInputs(st.Val) {
					switch x := v.(type) {
					case *ssa.MakeSlice:
					case *ssa.Const:
						if x.Value != nil {
							good, why = false, "non-nil constant"
						}
					case *ssa.Slice:
						if _, ok := x.X.(*ssa.Alloc); !ok {
							good, why = false, "re-slice of an existing slice"
						}
					default:
						good, why = false, describeVal(v)
					}
				}
				c.ob("R-OWN/alias", fmt.Sprintf("%s:store:Children#%d", relName(f.String()), ord), st.Pos(), good,
					"Children must be a freshly allocated slice; got "+why)
			})
		}
	}
}

// allFuncs lists every source function, method and closure of an SSA package, sorted.
func allFuncs(c *Ctx, sp *ssa.Package) []*ssa.Function {
	seen := map[*ssa.Function]bool{}
	var out []*ssa.Function
	add := func(f *ssa.Function) {
		if f == nil || len(f.Blocks) == 0 {
			return
		}
		for _, g := range withAnon(f) {
			if !seen[g] && len(g.Blocks) > 0 {
				seen[g] = true
				out = append(out, g)
			}
		}
	}
	for _, m := range sp.Members {
		switch m := m.(type) {
		case *ssa.Function:
			if m.Synthetic == "" || m.Name() == "init" {
				add(m)
			}
		case *ssa.Type:
			nt, _ := m.Type().(*types.Named)
			if nt != nil && nt.TypeParams().Len() > 0 {
				for i := 0; i < nt.NumMethods(); i++ {
					add(c.prog.FuncValue(nt.Method(i)))
				}
				continue
			}
			for _, t := range []types.Type{m.Type(), types.NewPointer(m.Type())} {
				ms := c.prog.MethodSets.MethodSet(t)
				for i := 0; i < ms.Len(); i++ {
					if fn := c.prog.MethodValue(ms.At(i)); fn != nil && fn.Pkg == sp && fn.Synthetic == "" {
						add(fn)
					}
				}
			}
		}
	}
	sort.Slice(out, func(i, j int) bool { return out[i].String() < out[j].String() })
	return out
}
