package main

import (
	"fmt"
	"go/token"

	"golang.org/x/tools/go/ssa"
)

// C34-specific structural rules on (*PriorityQueue).Push / Pop / RemoveExtrinsic.
func (c *Ctx) ruleQueue() {
	dir := "lib/transaction"
	push := c.fn(dir, "(*PriorityQueue).Push")
	if push == nil {
		return
	}
	c.doc("R-FIFO", "Push stamps Item.order from the monotonic counter currOrder (never from the queue length), increments it by a positive constant in the same critical section, nothing else writes currOrder; Item.priority comes from Validity.Priority")
	c.doc("R-DUP", "heap.Push in Push is dominated by the not-already-present edge of a txs lookup, and txs[hash] is set on that path; Pop/RemoveExtrinsic delete from txs what they remove from the heap")
	recv := push.Params[0]
	// Item literal
	var item *ssa.Alloc
	eachInstr(push, func(_ *ssa.BasicBlock, _ int, in ssa.Instruction) {
		if al, ok := in.(*ssa.Alloc); ok && isNamed(al.Type(), "lib/transaction.Item") {
			item = al
		}
	})
	if item == nil {
		c.unresolved("Item literal in Push")
		return
	}
	stores := map[string]ssa.Value{}
	for _, r := range *item.Referrers() {
		if fa, ok := r.(*ssa.FieldAddr); ok {
			for _, r2 := range *fa.Referrers() {
				if st, ok := r2.(*ssa.Store); ok && st.Addr == fa {
					stores[fieldVar(fa).Name()] = st.Val
				}
			}
		}
	}
	ordOK := false
	if v, ok := stores["order"]; ok {
		if b, ok := isFieldLoadNamed(v, "currOrder"); ok && b == recv {
			ordOK = true
		}
	}
	c.ob("R-FIFO", "Push:Item.order", item.Pos(), ordOK, "Item.order must be the current value of the monotonic counter spq.currOrder (anything derived from the queue length repeats after a pop and breaks FIFO among equal priorities)")
	prOK := false
	if v, ok := stores["priority"]; ok {
		if _, fv, ok := fieldLoad(stripConv(v)); ok && fv != nil && fv.Name() == "Priority" {
			prOK = true
		}
	}
	c.ob("R-FIFO", "Push:Item.priority", item.Pos(), prOK, "Item.priority must be txn.Validity.Priority")
	// currOrder writers in the whole package
	sp := c.ssaPkg(dir)
	n := 0
	var heapPush *ssa.Call
	eachInstr(push, func(_ *ssa.BasicBlock, _ int, in ssa.Instruction) {
		if call, ok := in.(*ssa.Call); ok && calleeName(&call.Call) == "container/heap.Push" {
			heapPush = call
		}
	})
	for _, f := range allFuncs(c, sp) {
		eachInstr(f, func(_ *ssa.BasicBlock, _ int, in ssa.Instruction) {
			st, ok := in.(*ssa.Store)
			if !ok {
				return
			}
			fa, ok := st.Addr.(*ssa.FieldAddr)
			if !ok || fieldVar(fa) == nil || fieldVar(fa).Name() != "currOrder" || !isNamed(fa.X.Type(), "lib/transaction.PriorityQueue") {
				return
			}
			n++
			good := false
			if b, ok := st.Val.(*ssa.BinOp); ok && b.Op == token.ADD {
				if k, ok := constInt(b.Y); ok && k > 0 {
					if base, ok := isFieldLoadNamed(b.X, "currOrder"); ok && base == fa.X {
						good = true
					}
				}
			}
			inPush := f == push && heapPush != nil && (st.Block().Dominates(heapPush.Block()) || heapPush.Block().Dominates(st.Block()))
			c.ob("R-FIFO", fmt.Sprintf("%s:currOrder-store#%d", relName(f.String()), n), st.Pos(), good && inPush,
				"currOrder may only be incremented by a positive constant, in Push, on the path that pushes the item")
		})
	}
	if n == 0 {
		c.ob("R-FIFO", "currOrder-increment", push.Pos(), false, "the insertion counter is never incremented")
	}
	// duplicates
	if heapPush == nil {
		c.unresolved("heap.Push call in (*PriorityQueue).Push")
		return
	}
	dupGuard := guardedBy(heapPush.Block(), func(cond ssa.Value, truth bool) bool {
		// txs[hash] != nil  (false edge)   or  _, ok := txs[hash]; ok (false edge)
		isTxsLookup := func(v ssa.Value) bool {
			if ex, ok := v.(*ssa.Extract); ok {
				v = ex.Tuple
			}
			lk, ok := v.(*ssa.Lookup)
			if !ok {
				return false
			}
			b, ok := isFieldLoadNamed(lk.X, "txs")
			return ok && b == recv
		}
		if e, neqTrue, ok := nilCmp(cond); ok && isTxsLookup(e) {
			return truth != neqTrue // we need "== nil"
		}
		if isTxsLookup(cond) {
			return !truth
		}
		return false
	})
	c.ob("R-DUP", "Push:duplicate-test-dominates-heap.Push", heapPush.Pos(), dupGuard, "heap.Push must only run when txs has no entry for the hash (duplicates are refused)")
	// txs[hash] = item on the push path
	setOK := false
	eachInstr(push, func(_ *ssa.BasicBlock, _ int, in ssa.Instruction) {
		if mu, ok := in.(*ssa.MapUpdate); ok {
			if b, ok := isFieldLoadNamed(mu.Map, "txs"); ok && b == recv && mu.Value == ssa.Value(item) &&
				(heapPush.Block().Dominates(mu.Block())) {
				setOK = true
			}
		}
	})
	c.ob("R-DUP", "Push:txs-set", heapPush.Pos(), setOK, "the pushed item is recorded in txs on the same path")
	for _, name := range []string{"(*PriorityQueue).Pop", "(*PriorityQueue).RemoveExtrinsic"} {
		f := c.fn(dir, name)
		if f == nil {
			continue
		}
		var rm *ssa.Call
		var del *ssa.Call
		eachInstr(f, func(_ *ssa.BasicBlock, _ int, in ssa.Instruction) {
			if call, ok := in.(*ssa.Call); ok {
				switch calleeName(&call.Call) {
				case "container/heap.Pop", "container/heap.Remove":
					rm = call
				case "builtin.delete":
					if _, ok := isFieldLoadNamed(call.Call.Args[0], "txs"); ok {
						del = call
					}
				}
			}
		})
		ok := rm != nil && del != nil && rm.Block().Dominates(del.Block())
		c.ob("R-DUP", name+":heap-removal-then-txs-delete", f.Pos(), ok, "an item removed from the heap is deleted from txs on every path (else it is refused as duplicate forever / yielded twice)")
	}
}
