package main

import (
	"fmt"
	"go/token"
	"go/types"
	"strings"

	"golang.org/x/tools/go/ssa"
)

// C34-specific structural rules on (*PriorityQueue).Push / Pop / RemoveExtrinsic.
func (c *Ctx) ruleQueue() {
	dir := "lib/transaction"
	push := c.fn(dir, "(*PriorityQueue).Push")
	if push == nil {
		return
	}
	c.doc("R-FIFO", "Push stamps Item.order from the monotonic counter currOrder (never from the queue length), increments it by a positive constant in the same critical section, nothing else writes currOrder; Item.priority comes from Validity.Priority")
	c.doc("R-DUP", "heap.Push in Push is dominated by the not-already-present edge of a txs lookup, and txs[hash] is set on that path; Pop/RemoveExtrinsic delete from txs what they remove from the heap")
	recv := push.Params[0]
	// Item literal
	var item *ssa.Alloc
	eachInstr(push, func(_ *ssa.BasicBlock, _ int, in ssa.Instruction) {
		if al, ok := in.(*ssa.Alloc); ok && isNamed(al.Type(), "lib/transaction.Item") {
			item = al
		}
	})
	if item == nil {
		c.unresolved("Item literal in Push")
		return
	}
	stores := map[string]ssa.Value{}
	for _, r := range *item.Referrers() {
		if fa, ok := r.(*ssa.FieldAddr); ok {
			for _, r2 := range *fa.Referrers() {
				if st, ok := r2.(*ssa.Store); ok && st.Addr == fa {
					stores[fieldVar(fa).Name()] = st.Val
				}
			}
		}
	}
	ordOK := false
	if v, ok := stores["order"]; ok {
		if b, ok := isFieldLoadNamed(v, "currOrder"); ok && b == recv {
			ordOK = true
		}
	}
	c.ob("R-FIFO", "Push:Item.order", item.Pos(), ordOK, "Item.order must be the current value of the monotonic counter spq.currOrder (anything derived from the queue length repeats after a pop and breaks FIFO among equal priorities)")
	prOK := false
	if v, ok := stores["priority"]; ok {
		if _, fv, ok := fieldLoad(stripConv(v)); ok && fv != nil && fv.Name() == "Priority" {
			prOK = true
		}
	}
	c.ob("R-FIFO", "Push:Item.priority", item.Pos(), prOK, "Item.priority must be txn.Validity.Priority")
	// currOrder writers in the whole package
	sp := c.ssaPkg(dir)
	n := 0
	var heapPush *ssa.Call
	eachInstr(push, func(_ *ssa.BasicBlock, _ int, in ssa.Instruction) {
		if call, ok := in.(*ssa.Call); ok && calleeName(&call.Call) == "container/heap.Push" {
			heapPush = call
		}
	})
	for _, f := range allFuncs(c, sp) {
		eachInstr(f, func(_ *ssa.BasicBlock, _ int, in ssa.Instruction) {
			st, ok := in.(*ssa.Store)
			if !ok {
				return
			}
			fa, ok := st.Addr.(*ssa.FieldAddr)
			if !ok || fieldVar(fa) == nil || fieldVar(fa).Name() != "currOrder" || !isNamed(fa.X.Type(), "lib/transaction.PriorityQueue") {
				return
			}
			n++
			good := false
			if b, ok := st.Val.(*ssa.BinOp); ok && b.Op == token.ADD {
				if k, ok := constInt(b.Y); ok && k > 0 {
					if base, ok := isFieldLoadNamed(b.X, "currOrder"); ok && base == fa.X {
						good = true
					}
				}
			}
			inPush := f == push && heapPush != nil && (st.Block().Dominates(heapPush.Block()) || heapPush.Block().Dominates(st.Block()))
			c.ob("R-FIFO", fmt.Sprintf("%s:currOrder-store#%d", relName(f.String()), n), st.Pos(), good && inPush,
				"currOrder may only be incremented by a positive constant, in Push, on the path that pushes the item")
		})
	}
	if n == 0 {
		c.ob("R-FIFO", "currOrder-increment", push.Pos(), false, "the insertion counter is never incremented")
	}
	// duplicates
	if heapPush == nil {
		c.unresolved("heap.Push call in (*PriorityQueue).Push")
		return
	}
	dupGuard := guardedBy(heapPush.Block(), func(cond ssa.Value, truth bool) bool {
		// txs[hash] != nil  (false edge)   or  _, ok := txs[hash]; ok (false edge)
		isTxsLookup := func(v ssa.Value) bool {
			if ex, ok := v.(*ssa.Extract); ok {
				v = ex.Tuple
			}
			lk, ok := v.(*ssa.Lookup)
			if !ok {
				return false
			}
			b, ok := isFieldLoadNamed(lk.X, "txs")
			return ok && b == recv
		}
		if e, neqTrue, ok := nilCmp(cond); ok && isTxsLookup(e) {
			return truth != neqTrue // we need "== nil"
		}
		if isTxsLookup(cond) {
			return !truth
		}
		return false
	})
	c.ob("R-DUP", "Push:duplicate-test-dominates-heap.Push", heapPush.Pos(), dupGuard, "heap.Push must only run when txs has no entry for the hash (duplicates are refused)")
	// txs[hash] = item on the push path
	setOK := false
	eachInstr(push, func(_ *ssa.BasicBlock, _ int, in ssa.Instruction) {
		if mu, ok := in.(*ssa.MapUpdate); ok {
			if b, ok := isFieldLoadNamed(mu.Map, "txs"); ok && b == recv && mu.Value == ssa.Value(item) &&
				(heapPush.Block().Dominates(mu.Block())) {
				setOK = true
			}
		}
	})
	c.ob("R-DUP", "Push:txs-set", heapPush.Pos(), setOK, "the pushed item is recorded in txs on the same path")
	for _, name := range []string{"(*PriorityQueue).Pop", "(*PriorityQueue).RemoveExtrinsic"} {
		f := c.fn(dir, name)
		if f == nil {
			continue
		}
		var rm *ssa.Call
		var del *ssa.Call
		eachInstr(f, func(_ *ssa.BasicBlock, _ int, in ssa.Instruction) {
			if call, ok := in.(*ssa.Call); ok {
				switch calleeName(&call.Call) {
				case "container/heap.Pop", "container/heap.Remove":
					rm = call
				case "builtin.delete":
					if _, ok := isFieldLoadNamed(call.Call.Args[0], "txs"); ok {
						del = call
					}
				}
			}
		})
		ok := rm != nil && del != nil && rm.Block().Dominates(del.Block())
		c.ob("R-DUP", name+":heap-removal-then-txs-delete", f.Pos(), ok, "an item removed from the heap is deleted from txs on every path (else it is refused as duplicate forever / yielded twice)")
	}
}

// R-HEAPINDEX: the position an element records about itself is the position it has in the heap's slice.
// The field is found by role: it is what the package hands to heap.Remove / heap.Fix as the position.
func (c *Ctx) ruleHeapIndex(dir string) {
	sp := c.ssaPkg(dir)
	if sp == nil {
		return
	}
	c.doc("R-HEAPINDEX", "the element field handed to heap.Remove/heap.Fix as position is maintained by the heap.Interface methods: Push records len(slice) taken before the append (or len-1 after it) on every path, Swap records for each of the two slots the index of the slot the element now occupies, and nothing else stores a non-negative value into it")
	var idx *types.Var
	var heapT types.Type
	var user ssa.Instruction
	for _, f := range allFuncs(c, sp) {
		eachInstr(f, func(_ *ssa.BasicBlock, _ int, in ssa.Instruction) {
			call, ok := in.(*ssa.Call)
			if !ok {
				return
			}
			switch calleeName(&call.Call) {
			case "container/heap.Remove", "container/heap.Fix":
			default:
				return
			}
			if _, fv, ok := fieldLoad(stripConv(call.Call.Args[1])); ok && fv != nil {
				idx, user = fv, call
				if mi, ok := call.Call.Args[0].(*ssa.MakeInterface); ok {
					heapT = mi.X.Type()
				}
			}
		})
	}
	if idx == nil || heapT == nil {
		c.unresolved("a heap.Remove/heap.Fix call whose position argument is a field of the element (" + dir + ")")
		return
	}
	c.ob("R-HEAPINDEX", "position-field:"+idx.Name(), user.Pos(), true, "heap.Remove/heap.Fix is positioned by the element's field "+idx.Name()+"; heap type "+relName(heapT.String()))
	isIdx := func(fa *ssa.FieldAddr) bool { v := fieldVar(fa); return v != nil && v == idx }
	method := func(name string) *ssa.Function {
		ms := c.prog.MethodSets.MethodSet(heapT)
		for i := 0; i < ms.Len(); i++ {
			if ms.At(i).Obj().Name() == name {
				if fn, ok := ms.At(i).Obj().(*types.Func); ok {
					return c.prog.FuncValue(fn) // the declared method, not the pointer-receiver wrapper
				}
			}
		}
		return nil
	}
	// --- Push
	if push := method("Push"); push == nil || len(push.Blocks) == 0 {
		c.unresolved("Push method of " + heapT.String())
	} else {
		recv := push.Params[0]
		var recvStores []ssa.Instruction
		var idxStores []*ssa.Store
		eachInstr(push, func(_ *ssa.BasicBlock, _ int, in ssa.Instruction) {
			st, ok := in.(*ssa.Store)
			if !ok {
				return
			}
			if st.Addr == ssa.Value(recv) {
				recvStores = append(recvStores, st)
			}
			if fa, ok := st.Addr.(*ssa.FieldAddr); ok && isIdx(fa) {
				idxStores = append(idxStores, st)
			}
		})
		ok, why := len(idxStores) > 0, "Push never records the new element's position: it keeps a stale (zero) position and heap.Remove/heap.Fix act on another element"
		for _, st := range idxStores {
			v := stripConv(st.Val)
			off := int64(0)
			if b, isB := v.(*ssa.BinOp); isB && b.Op == token.SUB {
				if k, isC := constInt(b.Y); isC {
					off, v = -k, stripConv(b.X)
				}
			}
			call, isCall := v.(*ssa.Call)
			good := false
			if isCall && calleeName(&call.Call) == "builtin.len" {
				if ld, isLd := call.Call.Args[0].(*ssa.UnOp); isLd && ld.Op == token.MUL && ld.X == ssa.Value(recv) {
					before := true // the length was read before the slice grew
					for _, rs := range recvStores {
						if instrReaches(rs, ld) && !instrReaches(ld, rs) {
							before = false
						}
					}
					good = (before && off == 0) || (!before && off == -1)
					if !good {
						why = fmt.Sprintf("Push records len(slice)%+d read %s the append", off, map[bool]string{true: "before", false: "after"}[before])
					}
				}
			}
			if !good {
				ok = false
				if why == "" || strings.HasPrefix(why, "Push never") {
					why = "Push records a position that is not the length of the slice"
				}
				continue
			}
			for _, b := range push.Blocks {
				if len(b.Instrs) == 0 {
					continue
				}
				if _, isRet := b.Instrs[len(b.Instrs)-1].(*ssa.Return); isRet && !st.Block().Dominates(b) {
					ok, why = false, "a path through Push returns without recording the position"
				}
			}
		}
		if ok {
			why = "Push records len(slice) as the new element's position on every path"
		}
		c.ob("R-HEAPINDEX", "Push:position=len", push.Pos(), ok, why)
	}
	// --- Swap
	if swap := method("Swap"); swap == nil || len(swap.Blocks) == 0 {
		c.unresolved("Swap method of " + heapT.String())
	} else if len(swap.Params) == 3 {
		pi, pj := ssa.Value(swap.Params[1]), ssa.Value(swap.Params[2])
		var elemStores []ssa.Instruction
		eachInstr(swap, func(_ *ssa.BasicBlock, _ int, in ssa.Instruction) {
			if st, ok := in.(*ssa.Store); ok {
				if _, ok := st.Addr.(*ssa.IndexAddr); ok {
					elemStores = append(elemStores, st)
				}
			}
		})
		covered := map[ssa.Value]bool{}
		ok, why := true, ""
		eachInstr(swap, func(_ *ssa.BasicBlock, _ int, in ssa.Instruction) {
			st, isSt := in.(*ssa.Store)
			if !isSt {
				return
			}
			fa, isFA := st.Addr.(*ssa.FieldAddr)
			if !isFA || !isIdx(fa) {
				return
			}
			ld, isLd := fa.X.(*ssa.UnOp)
			var slot ssa.Value
			if isLd && ld.Op == token.MUL {
				if ia, isIA := ld.X.(*ssa.IndexAddr); isIA {
					slot = ia.Index
				}
			}
			if slot != pi && slot != pj {
				ok, why = false, "Swap stores a position into an element it did not take from slot i or j"
				return
			}
			after := true // the element was read from its slot after the slots were exchanged
			for _, es := range elemStores {
				if !instrReaches(es, ld) || instrReaches(ld, es) {
					after = false
				}
			}
			want := slot
			if !after {
				want = pj
				if slot == pj {
					want = pi
				}
			}
			if stripConv(st.Val) != want {
				ok, why = false, "Swap records the wrong slot for an element (the element now in slot k must record k)"
				return
			}
			covered[want] = true
		})
		if ok && !(covered[pi] && covered[pj]) {
			ok, why = false, "Swap does not record the new position of both exchanged elements"
		}
		if len(elemStores) < 2 {
			ok, why = false, "Swap does not exchange two slots"
		}
		if ok {
			why = "both exchanged elements record the slot they now occupy"
		}
		c.ob("R-HEAPINDEX", "Swap:positions-follow-elements", swap.Pos(), ok, why)
	}
	// --- nobody else
	n := 0
	for _, f := range allFuncs(c, sp) {
		if f.Name() == "Push" || f.Name() == "Swap" {
			if rt := f.Signature.Recv(); rt != nil && types.Identical(rt.Type(), heapT) || (rt != nil && types.Identical(types.NewPointer(rt.Type()), heapT)) {
				continue
			}
		}
		eachInstr(f, func(_ *ssa.BasicBlock, _ int, in ssa.Instruction) {
			st, isSt := in.(*ssa.Store)
			if !isSt {
				return
			}
			fa, isFA := st.Addr.(*ssa.FieldAddr)
			if !isFA || !isIdx(fa) {
				return
			}
			n++
			k, isC := constInt(st.Val)
			_, fresh := fa.X.(*ssa.Alloc)
			c.ob("R-HEAPINDEX", fmt.Sprintf("%s:other-store#%d", relName(f.String()), n), st.Pos(), fresh || (isC && k < 0),
				"outside Push/Swap the position field may only be set on a fresh element or to a negative 'not in the heap' mark")
		})
	}
}
