package main

import (
	"fmt"
	"go/ast"
	"go/token"
	"go/types"
	"sort"
	"strings"

	"golang.org/x/tools/go/ssa"
)

const babeDir = "lib/babe"

func init() {
	register("C24", "producer/verifier permission-table agreement (R-KINDGUARD), type-switch membership against the pre-digest enum (R-TYPESWITCH), bound-check and seal-verification dominance (R-AUTHIDX, R-SEAL)",
		"Decides: every type switch over a decoded BABE pre-digest in lib/babe lists exactly the value types the pre-digest enum can hold (a case on a pointer or a missing case silently skips a claim kind); every index into the authority list taken from a pre-digest is dominated by the bound check; verifyAuthorshipRight returns success only on the true edge of the seal signature verification, computed over the header with the seal removed, with the authority selected by the pre-digest's authority index, after the pre-runtime digest was verified; the verifier's per-kind permission for secondary claims is compared with the producer's per-kind table (the verifier collapses the allowed-slots value to a boolean: recorded finding). "+
			"Not decided: VRF mathematics and threshold arithmetic (C25).",
		"sr25519 verification trusted", "DESIGN.md §3 R-KINDGUARD; §4 C24",
		func(c *Ctx) {
			c.load(babeDir, "dot/types")
			c.ruleTypeSwitchVDT("R-TYPESWITCH", babeDir, "dot/types", "BabeDigest")
			c.min("R-TYPESWITCH", 3)
			c.ruleBabeVerify()
			c.ruleEpochArg()
			c.min("R-EPOCHARG", 3)
			c.min("R-AUTHIDX", 3)
			c.min("R-SEAL", 4)
			c.min("R-KINDGUARD", 3)
		})
	register("C26", "loop-progress analysis of the ancestry walk (R-LOOPPROG) and fork-membership dominance of the returned epoch data (R-FORKDATA)",
		"Decides: the unbounded loop of findAncestor advances its cursor from the cursor itself (the parent fetched in each iteration is the parent of the current header, not of a loop-invariant one), so a lookup whose ancestry announces nothing reaches the genesis exit and fails instead of spinning; the data it returns is selected only by equality with, or ancestry of, the current cursor (never an arbitrary map element); the callers return the value found for the block's own fork or an error. "+
			"Not decided: which concrete fork's data a given tree yields.",
		"BlockState.IsDescendantOf trusted", "DESIGN.md §3 R-LOOPPROG; §4 C26",
		func(c *Ctx) {
			c.load("dot/state")
			c.ruleLoopProg()
			c.ruleErrWrap("dot/state")
			c.min("R-ERRWRAP", 1)
			c.ruleEpochKeyPrefix()
			c.min("R-KEYPREFIX", 1)
			c.ruleLockPairing("R-LOCKPAIR", "dot/state")
			c.ruleEpochKeyRoles()
			c.ruleConfigFallback()
			c.min("R-LOOPPROG", 2)
			c.min("R-FORKDATA", 2)
		})
	register("C23", "who-may-write and +1 discipline of the set id (R-SETID), comparator table evaluation of the ordered pending-change insertion (R-CMP/search), pruning of both pending structures after a forced change (R-FORCEDPRUNE), pointer-last order (R-ORDER)",
		"Decides: the current set id is only written by IncrementSetID (+1), genesis initialisation and Rewind; the binary-search predicate that orders forced changes equals the lexicographic order (effective number, announcing number) on all nine sign combinations, hence is monotone over the ordered slice; applying a forced change empties both the forced and the scheduled pending-change structures on its success path and refuses to run while a dependent scheduled change is pending; scheduled changes are applied from finalisation and forced changes from import; the new set's authorities and activation block are written before the set id advances. "+
			"Not decided: the fork-tree search results for particular block trees.",
		"BlockState.IsDescendantOf trusted", "DESIGN.md §3 R-SETID, R-CMP/search; §4 C23",
		func(c *Ctx) {
			c.load("dot/state", "dot/digest", "dot/core")
			c.ruleSetChangeOrder()
			c.ruleNoInPlaceFilter()
			c.min("R-NOINPLACEFILTER", 1)
			c.rulePrunedAncestry()
			c.min("R-PRUNEDANCESTRY", 5)
			c.ruleChangeSearch()
			c.min("R-CMP/search", 9)
			c.ruleForcedPrune()
			c.ruleChangePrune()
			c.ruleUnfinalizedAncestor()
			c.ruleForcedFilter()
			c.ruleSetStart()
			c.min("R-FORCEDPRUNE", 4)
		})
}

// R-TYPESWITCH: type switches over a VDT's value list exactly the VDT's value types.
func (c *Ctx) ruleTypeSwitchVDT(rule, dir, vdtDir, vdtName string) {
	vp := c.pkg(vdtDir)
	p := c.pkg(dir)
	if vp == nil || p == nil {
		return
	}
	var set map[string]bool
	for _, t := range c.collectVDT(vp) {
		if t.name == vdtName {
			set = map[string]bool{}
			for ty := range t.index {
				set[ty] = true
			}
		}
	}
	if len(set) == 0 {
		c.unresolved("VDT " + vdtDir + "." + vdtName)
		return
	}
	var members []string
	for m := range set {
		members = append(members, m)
	}
	sort.Strings(members)
	c.doc(rule, fmt.Sprintf("every type switch in %s that mentions a member of %s.%s %v (or a pointer to one) lists each member as a value type exactly once and no pointer-to-member case", dir, vdtDir, vdtName, members))
	for _, file := range p.Syntax {
		for _, d := range file.Decls {
			fd, ok := d.(*ast.FuncDecl)
			if !ok || fd.Body == nil {
				continue
			}
			ord := 0
			ast.Inspect(fd.Body, func(n ast.Node) bool {
				ts, ok := n.(*ast.TypeSwitchStmt)
				if !ok {
					return true
				}
				seen := map[string]bool{}
				var ptrs []string
				relevant := false
				for _, cl := range ts.Body.List {
					for _, te := range cl.(*ast.CaseClause).List {
						ty := p.TypesInfo.TypeOf(te)
						if ty == nil {
							continue
						}
						if pt, ok := ty.(*types.Pointer); ok && set[typeStr(pt.Elem())] {
							ptrs = append(ptrs, typeStr(ty))
							relevant = true
						}
						if set[typeStr(ty)] {
							seen[typeStr(ty)] = true
							relevant = true
						}
					}
				}
				if !relevant {
					return true
				}
				ord++
				var missing []string
				for _, m := range members {
					if !seen[m] {
						missing = append(missing, m)
					}
				}
				recv := ""
				if fd.Recv != nil {
					recv = recvTypeName(fd.Recv.List[0].Type) + "."
				}
				c.ob(rule, fmt.Sprintf("%s.%s%s:type-switch#%d", dir, recv, fd.Name.Name, ord), ts.Pos(), len(missing) == 0 && len(ptrs) == 0,
					fmt.Sprintf("%s%s: type switch over a %s value misses %v and has pointer cases %v that can never match (the decoder yields values): that claim kind falls through with default data", recv, fd.Name.Name, vdtName, missing, ptrs))
				return true
			})
		}
	}
}

func (c *Ctx) ruleBabeVerify() {
	c.doc("R-AUTHIDX", "every b.authorities[i] with i taken from a pre-digest is dominated by the bound check len(b.authorities) > i (in verifyPreRuntimeDigest) or by the success of verifyPreRuntimeDigest (in verifyAuthorshipRight)")
	c.doc("R-SEAL", "verifyAuthorshipRight: success is dominated by the true edge of Key.Verify(hash, seal.Data); hash = Blake2b(scale(header)) computed after the seal was removed from the digest; the verifying authority is authorities[pre-digest authority index]")
	c.doc("R-KINDGUARD", "the verifier admits a secondary claim of kind K only when the epoch configuration allows kind K (plain=1, VRF=2), as the producer's switch on allowedSlots does")
	vp := c.fn(babeDir, "(*verifier).verifyPreRuntimeDigest")
	va := c.fn(babeDir, "(*verifier).verifyAuthorshipRight")
	if vp == nil || va == nil {
		return
	}
	// bound check in verifyPreRuntimeDigest
	n := 0
	eachInstr(vp, func(b *ssa.BasicBlock, _ int, in ssa.Instruction) {
		ia, ok := in.(*ssa.IndexAddr)
		if !ok {
			return
		}
		if _, ok := isFieldLoadNamed(ia.X, "authorities"); !ok {
			return
		}
		n++
		bound := false
		for _, fc := range factsAt(b) {
			bo, ok := fc.cond.(*ssa.BinOp)
			if !ok || !isCmp(bo.Op) {
				continue
			}
			hasLen := false
			for v := range backwardSlice(bo, nil) {
				if l, ok := lenOf(v); ok {
					if _, ok := isFieldLoadNamed(l, "authorities"); ok {
						hasLen = true
					}
				}
			}
			if hasLen {
				bound = true
			}
		}
		c.ob("R-AUTHIDX", fmt.Sprintf("verifyPreRuntimeDigest:authorities[i]#%d", n), ia.Pos(), bound, "indexing the authority list with an index from the block's pre-digest must be dominated by the comparison with len(authorities): otherwise a crafted authority index panics the verifier")
	})
	// bound check shape: len(authorities) <= idx -> error
	okShape := false
	for _, b := range vp.Blocks {
		iff := ifOf(b)
		if iff == nil {
			continue
		}
		bo, ok := iff.Cond.(*ssa.BinOp)
		if !ok {
			continue
		}
		l, isLen := lenOf(stripConv(bo.X))
		if isLen {
			if _, ok := isFieldLoadNamed(l, "authorities"); ok && bo.Op == token.LEQ && blockRejects(b.Succs[0]) {
				okShape = true
			}
		}
		l2, isLen2 := lenOf(stripConv(bo.Y))
		if isLen2 {
			if _, ok := isFieldLoadNamed(l2, "authorities"); ok && bo.Op == token.GEQ && blockRejects(b.Succs[0]) {
				okShape = true
			}
		}
	}
	c.ob("R-AUTHIDX", "verifyPreRuntimeDigest:bound-check-rejects-idx>=len", vp.Pos(), okShape, "the bound check must reject every index >= len(authorities) (len <= idx)")
	// in verifyAuthorshipRight the index use is after verifyPreRuntimeDigest success
	var vpCall, verify, marshal *ssa.Call
	var digestStore ssa.Instruction
	eachInstr(va, func(_ *ssa.BasicBlock, _ int, in ssa.Instruction) {
		switch x := in.(type) {
		case *ssa.Call:
			if x.Call.StaticCallee() == vp {
				vpCall = x
			}
			if x.Call.IsInvoke() && x.Call.Method.Name() == "Verify" {
				verify = x
			}
			if strings.HasSuffix(calleeName(&x.Call), "pkg/scale.Marshal") {
				marshal = x
			}
		case *ssa.Store:
			if fa, ok := x.Addr.(*ssa.FieldAddr); ok && fieldVar(fa) != nil && fieldVar(fa).Name() == "Digest" {
				digestStore = in
			}
		}
	})
	eachInstr(va, func(b *ssa.BasicBlock, _ int, in ssa.Instruction) {
		ia, ok := in.(*ssa.IndexAddr)
		if !ok {
			return
		}
		if _, ok := isFieldLoadNamed(ia.X, "authorities"); !ok {
			return
		}
		okG := vpCall != nil && guardedBy(b, errSuccessGuard(vpCall))
		// index derives from the verified digest's AuthorityIndex
		fromIdx := false
		fromIdx = valueFromField(ia.Index, "AuthorityIndex", va.Pkg, 0)
		c.ob("R-AUTHIDX", "verifyAuthorshipRight:authorities[authIdx]", ia.Pos(), okG && fromIdx, "the sealing authority is authorities[pre-digest AuthorityIndex], used only after verifyPreRuntimeDigest (which bounds the index) succeeded")
	})
	// seal
	okV := false
	var succ *ssa.Return
	for _, r := range returnsOf(va) {
		if isNilConst(resultOf(r, 0)) {
			succ = r
		}
	}
	if verify != nil && succ != nil {
		okV = guardedBy(succ.Block(), func(cond ssa.Value, truth bool) bool {
			for _, v := range phiInputs(cond) {
				if ex, ok := v.(*ssa.Extract); ok && ex.Tuple == ssa.Value(verify) && ex.Index == 0 && truth {
					return true
				}
			}
			return false
		})
	}
	c.ob("R-SEAL", "verifyAuthorshipRight:success-needs-valid-seal", va.Pos(), okV, "the success return must be dominated by the true edge of the seal signature verification")
	okOrder := verify != nil && marshal != nil && digestStore != nil && instrDominates(digestStore, marshal) && instrDominates(marshal, verify)
	c.ob("R-SEAL", "verifyAuthorshipRight:hash-of-header-without-seal", va.Pos(), okOrder, "the signed message is the hash of the header encoded after the seal item was stripped from its digest")
	sealArg := false
	if verify != nil {
		for v := range backwardSlice(verify.Call.Args[len(verify.Call.Args)-1], nil) {
			if _, fv, ok := fieldLoad(v); ok && fv != nil && fv.Name() == "Data" {
				sealArg = true
			}
		}
	}
	c.ob("R-SEAL", "verifyAuthorshipRight:signature-is-seal-data", va.Pos(), sealArg, "the verified signature is the seal digest's data")
	c.ob("R-SEAL", "verifyAuthorshipRight:pre-digest-verified-first", va.Pos(), vpCall != nil && verify != nil && instrDominates(vpCall, verify), "the pre-runtime digest is verified before the seal")
	// kind guard: constants used to admit secondary kinds
	pl := c.fn(babeDir, "claimSlot")
	prodKinds := map[int64]bool{}
	if pl != nil {
		for _, b := range pl.Blocks {
			if iff := ifOf(b); iff != nil {
				if subj, op, k, ok := cmpWithConst(iff.Cond); ok && op == token.EQL {
					if _, fv, ok := fieldLoad(stripConv(subj)); ok && fv != nil && fv.Name() == "allowedSlots" {
						prodKinds[k] = true
					}
				}
			}
		}
	}
	c.ob("R-KINDGUARD", "claimSlot:per-kind-table", token.NoPos, prodKinds[1] && prodKinds[2], fmt.Sprintf("producer dispatches on allowedSlots values %v (plain=1, VRF=2)", prodKinds))
	for _, kind := range []struct {
		name string
		val  int64
		fn   string
	}{{"SecondaryPlain", 1, "verifySecondarySlotPlain"}, {"SecondaryVRF", 2, "verifySecondarySlotVRF"}} {
		var call *ssa.Call
		eachInstr(vp, func(_ *ssa.BasicBlock, _ int, in ssa.Instruction) {
			if cl, ok := in.(*ssa.Call); ok && cl.Call.StaticCallee() != nil && cl.Call.StaticCallee().Name() == kind.fn {
				call = cl
			}
		})
		if call == nil {
			c.ob("R-KINDGUARD", "verifyPreRuntimeDigest:"+kind.name, vp.Pos(), false, "no call of "+kind.fn+" found")
			continue
		}
		perKind := false
		for _, fc := range factsAt(call.Block()) {
			if _, op, k, ok := cmpWithConst(fc.cond); ok && k == kind.val && ((op == token.EQL) == fc.truth) {
				perKind = true
			}
		}
		c.ob("R-KINDGUARD", "verifyPreRuntimeDigest:"+kind.name+"-allowed-only-by-its-own-setting", call.Pos(), perKind,
			fmt.Sprintf("a %s claim is admitted whenever any secondary kind is enabled (the configuration's allowed-slots value is collapsed to a boolean); under a configuration that allows only the other kind the verifier accepts a block the producer side would never author", kind.name))
	}
}

// R-LOOPPROG
func (c *Ctx) ruleLoopProg() {
	sp := c.ssaPkg("dot/state")
	if sp == nil {
		return
	}
	c.doc("R-LOOPPROG", "findAncestor: the GetHeader call that advances the cursor takes the parent hash of the loop-carried cursor (a phi), not of a loop-invariant value; the loop has an exit on an empty parent hash")
	c.doc("R-FORKDATA", "findAncestor returns a map element only on the edge `hash == cursor.Hash()` or `IsDescendantOf(hash, cursor) == true`")
	n := 0
	for _, f := range allFuncs(c, sp) {
		if f.Name() != "findAncestor" && !strings.HasPrefix(f.Name(), "findAncestor[") {
			continue
		}
		if f.Origin() != nil && f.Origin() != f {
			continue // analyse the generic origin once
		}
		n++
		var get *ssa.Call
		eachInstr(f, func(_ *ssa.BasicBlock, _ int, in ssa.Instruction) {
			if call, ok := in.(*ssa.Call); ok && call.Call.StaticCallee() != nil && call.Call.StaticCallee().Name() == "GetHeader" {
				get = call
			}
		})
		if get == nil {
			c.ob("R-LOOPPROG", relName(f.String())+":advance", f.Pos(), false, "no GetHeader call advancing the cursor")
			continue
		}
		fromPhi, fromParamOnly := false, true
		for v := range backwardSlice(get.Call.Args[1], nil) {
			if ph, ok := v.(*ssa.Phi); ok && reachable(get.Block(), ph.Block()) {
				fromPhi = true
			}
		}
		if fromPhi {
			fromParamOnly = false
		}
		c.ob("R-LOOPPROG", relName(f.String())+":cursor-advances-from-itself", get.Pos(), fromPhi && !fromParamOnly,
			"the header fetched in each iteration is the parent of a loop-invariant header: the cursor reaches a fixed point after one step and the loop never terminates when the ancestry announces nothing")
		// exit on empty parent hash: a return inside the loop guarded by bytes.Equal(ParentHash, EmptyHash)
		exit := false
		for _, r := range returnsOf(f) {
			for _, fc := range factsAt(r.Block()) {
				if hashEqualFact(fc) {
					exit = true
				}
			}
		}
		c.ob("R-LOOPPROG", relName(f.String())+":genesis-exit", f.Pos(), exit, "the loop must fail once the cursor has no parent (empty parent hash)")
		// argument roles of the ancestry query: IsDescendantOf(ancestor = the announcing hash from the map, descendant = cursor)
		eachInstr(f, func(_ *ssa.BasicBlock, _ int, in ssa.Instruction) {
			call, ok := in.(*ssa.Call)
			if !ok || call.Call.StaticCallee() == nil || call.Call.StaticCallee().Name() != "IsDescendantOf" || len(call.Call.Args) < 3 {
				return
			}
			role := func(v ssa.Value) (fromMapKey, fromCursorHash bool) {
				for x := range backwardSlice(v, nil) {
					if _, ok := x.(*ssa.Next); ok {
						fromMapKey = true
					}
					if cl, ok := x.(*ssa.Call); ok && cl.Call.StaticCallee() != nil && cl.Call.StaticCallee().Name() == "Hash" {
						fromCursorHash = true
					}
				}
				return
			}
			aKey, aCur := role(call.Call.Args[1])
			dKey, dCur := role(call.Call.Args[2])
			c.ob("R-FORKDATA", relName(f.String())+":IsDescendantOf-argument-roles", call.Pos(), aKey && !aCur && dCur && !dKey,
				"IsDescendantOf(ancestor, descendant) must ask whether the ANNOUNCING block (map key) is an ancestor of the cursor; with the roles swapped, data announced on a descendant of — i.e. on another fork than — the queried block's ancestry is returned")
		})
		// returned data
		for i, r := range returnsOf(f) {
			if len(r.Results) < 3 || !isNilConst(resultOf(r, 2)) {
				continue
			}
			okSel := false
			for _, fc := range factsAt(r.Block()) {
				if hashEqualFact(fc) {
					okSel = true
				}
				for _, v := range phiInputs(fc.cond) {
					if ex, ok := v.(*ssa.Extract); ok && fc.truth {
						if cl, ok := ex.Tuple.(*ssa.Call); ok && cl.Call.StaticCallee() != nil && cl.Call.StaticCallee().Name() == "IsDescendantOf" {
							okSel = true
						}
					}
				}
			}
			c.ob("R-FORKDATA", fmt.Sprintf("%s:success-return#%d", relName(f.String()), i+1), r.Pos(), okSel, "epoch data is returned for a hash that is neither the cursor nor an ancestor of it: another fork's data could be used")
		}
	}
	if n == 0 {
		c.unresolved("dot/state.findAncestor")
	}
}

func (c *Ctx) ruleChangeSearch() {
	f := c.fn("dot/state", "(*orderedPendingChanges).importChange")
	if f == nil {
		return
	}
	var pred *ssa.Function
	for _, a := range f.AnonFuncs {
		pred = a
	}
	if pred == nil {
		c.ob("R-CMP/search", "importChange:predicate", f.Pos(), false, "no sort.Search predicate found")
		return
	}
	// attributes: effectiveNumber() calls and announcingHeader.Number loads; side 0 = element i, side 1 = the new change
	idx := pred.Params[0]
	attr := func(v ssa.Value) (attrRef, bool) {
		v = stripConv(v)
		side := func(base ssa.Value) int {
			// element side: address derived from an IndexAddr with the index parameter; new change: free variable
			for x := range backwardSlice(base, nil) {
				if ia, ok := x.(*ssa.IndexAddr); ok && ia.Index == ssa.Value(idx) {
					return 0
				}
			}
			return 1
		}
		if call, ok := v.(*ssa.Call); ok && call.Call.StaticCallee() != nil && call.Call.StaticCallee().Name() == "effectiveNumber" {
			return attrRef{"effective", side(call.Call.Args[0])}, true
		}
		if base, fv, ok := fieldLoad(v); ok && fv != nil && fv.Name() == "Number" {
			return attrRef{"announcing", side(base)}, true
		}
		// a value hoisted out of the predicate: a captured local of the enclosing function, assigned once there
		if u, ok := v.(*ssa.UnOp); ok && u.Op == token.MUL {
			if fvar, ok := u.X.(*ssa.FreeVar); ok {
				if src := capturedSource(pred, fvar); src != nil {
					src = stripConv(src)
					if call, ok := src.(*ssa.Call); ok && call.Call.StaticCallee() != nil && call.Call.StaticCallee().Name() == "effectiveNumber" {
						return attrRef{"effective", 1}, true
					}
					if _, fv, ok := fieldLoad(src); ok && fv != nil && fv.Name() == "Number" {
						return attrRef{"announcing", 1}, true
					}
				}
			}
		}
		return attrRef{}, false
	}
	c.ruleCmpTable("R-CMP/search", "importChange:predicate", pred, []string{"effective", "announcing"}, attr,
		func(s map[string]int) any { return s["effective"] > 0 || (s["effective"] == 0 && s["announcing"] >= 0) },
		"pred(i) <=> (eff_i, ann_i) >= (eff_new, ann_new) lexicographically — monotone over a slice ordered by (effective, announcing)")
}

func (c *Ctx) ruleForcedPrune() {
	f := c.fn("dot/state", "(*GrandpaState).ApplyForcedChanges")
	if f == nil {
		return
	}
	c.doc("R-FORCEDPRUNE", "ApplyForcedChanges: on its success path both forcedChanges.pruneAll() and scheduledChangeRoots.pruneAll() run (the new set starts with no pending changes); it fails while a dependent scheduled change is pending; ApplyScheduledChanges is driven by finalisation and ApplyForcedChanges by block import")
	var pruned []string
	var succ *ssa.Return
	for _, r := range returnsOf(f) {
		if isNilConst(resultOf(r, 0)) && !guardedReturnEarly(r) {
			succ = r
		}
	}
	eachInstr(f, func(b *ssa.BasicBlock, _ int, in ssa.Instruction) {
		if call, ok := in.(*ssa.Call); ok && call.Call.StaticCallee() != nil && call.Call.StaticCallee().Name() == "pruneAll" {
			if succ != nil && (b == succ.Block() || b.Dominates(succ.Block())) {
				pruned = append(pruned, call.Call.StaticCallee().Signature.Recv().Type().String())
			}
		}
	})
	hasForced, hasSched := false, false
	for _, p := range pruned {
		if strings.Contains(p, "orderedPendingChanges") {
			hasForced = true
		}
		if strings.Contains(p, "changeTree") {
			hasSched = true
		}
	}
	c.ob("R-FORCEDPRUNE", "ApplyForcedChanges:prunes-forced-changes", f.Pos(), hasForced, "after a forced change is applied every pending forced change is dropped")
	c.ob("R-FORCEDPRUNE", "ApplyForcedChanges:prunes-scheduled-changes", f.Pos(), hasSched, "after a forced change is applied every pending scheduled change is dropped (pruneAll): a scheduled change announced on the same fork must not be enacted in the new set")
	dep := false
	eachInstr(f, func(b *ssa.BasicBlock, _ int, in ssa.Instruction) {
		if r, ok := in.(*ssa.Return); ok && !isNilConst(resultOf(r, 0)) {
			for v := range backwardSlice(resultOf(r, 0), nil) {
				if u, ok := v.(*ssa.UnOp); ok {
					if g, ok := u.X.(*ssa.Global); ok && g.Name() == "errPendingScheduledChanges" {
						dep = true
					}
				}
			}
		}
	})
	c.ob("R-FORCEDPRUNE", "ApplyForcedChanges:refuses-with-dependent-scheduled-change", f.Pos(), dep, "a forced change must not be applied while a scheduled change it depends on is pending")
	// drivers
	{
		callers := map[string][]string{}
		var all []*ssa.Function
		for _, d := range []string{"dot/digest", "dot/core"} {
			if dsp := c.ssaPkg(d); dsp != nil {
				all = append(all, allFuncs(c, dsp)...)
			}
		}
		for _, g := range all {
			eachInstr(g, func(_ *ssa.BasicBlock, _ int, in ssa.Instruction) {
				if call, ok := in.(*ssa.Call); ok {
					if fn := calleeFunc(&call.Call); fn != nil && (fn.Name() == "ApplyForcedChanges" || fn.Name() == "ApplyScheduledChanges") {
						callers[fn.Name()] = append(callers[fn.Name()], shortFn(g))
					}
				}
			})
		}
		okF := len(callers["ApplyForcedChanges"]) > 0
		for _, g := range callers["ApplyForcedChanges"] {
			if !strings.Contains(strings.ToLower(g), "import") && !strings.Contains(strings.ToLower(g), "handleblock") {
				okF = false
			}
		}
		okS := len(callers["ApplyScheduledChanges"]) > 0
		for _, g := range callers["ApplyScheduledChanges"] {
			if !strings.Contains(strings.ToLower(g), "finali") {
				okS = false
			}
		}
		c.ob("R-FORCEDPRUNE", "drivers:forced-on-import", token.NoPos, okF, fmt.Sprintf("ApplyForcedChanges is called from %v (must be the block-import handler)", callers["ApplyForcedChanges"]))
		c.ob("R-FORCEDPRUNE", "drivers:scheduled-on-finalisation", token.NoPos, okS, fmt.Sprintf("ApplyScheduledChanges is called from %v (must be the finalisation handler)", callers["ApplyScheduledChanges"]))
	}
}

// guardedReturnEarly: a `return nil` that is an early exit (e.g. nothing to apply) rather than the final success.
func guardedReturnEarly(r *ssa.Return) bool {
	f := r.Parent()
	// the final success return is the one not dominated... approximate: early returns are those whose block does not
	// post-date the last call instruction of the function
	last := -1
	for _, b := range f.Blocks {
		for _, in := range b.Instrs {
			if call, ok := in.(*ssa.Call); ok && call.Call.StaticCallee() != nil && call.Call.StaticCallee().Name() == "IncrementSetID" {
				last = b.Index
				_ = call
			}
		}
	}
	if last < 0 {
		return false
	}
	return !f.Blocks[last].Dominates(r.Block())
}

func init() {
	register("C27", "dominance rules on the SSA of SlotState.CheckEquivocation (R-EQUIVOC)",
		"Decides the structural clauses of exact equivocation detection: a proof is returned only on the edge where a stored record has the same signer AND a different header hash, and it carries the stored header as first and the checked header as second, the signer and the slot; a stored record with the same signer and the same hash returns no proof and stores nothing again; otherwise the checked (header, signer) is appended to the slot's record list and written, together with the window start, in one batch whose flush error is returned; headers older than the 1000-slot capacity are ignored and pruning removes only slots below now-1000 once the window reached twice the capacity. "+
			"Not decided: the exact contents of the window over whole histories of slot numbers.",
		"database batch semantics trusted", "added in the build round (DESIGN.md §8.2): the window itself stays value-level",
		func(c *Ctx) {
			c.load("dot/state", "lib/babe")
			c.ruleStaleHash("lib/babe")
			c.min("R-STALEHASH", 3)
			c.ruleEquivocation()
			c.ruleEquivocationEarlyOut()
			c.min("R-EARLYOUT", 2)
			c.ruleSlotWindow()
			c.ruleFreshDecodeDest("R-FRESHDEST", "dot/state", "(*SlotState).CheckEquivocation")
			c.min("R-EQUIVOC", 8)
		})
	register("C25", "resolved-callee/ordering rule for the secondary-slot author (R-SECONDARY) and guard/constant rules (R-THRESHOLDGUARDS) and operation-tree equality (R-FORMULA) of the threshold computation",
		"Decides only the structural part of this numerical property: the secondary author index is big.Int(SetBytes = big-endian)(BLAKE2b-256(randomness || slot as 8 little-endian bytes)) mod the number of authorities, in that order and with those primitives, and both verifiers compare the claimed authority index with exactly that value; CalculateThreshold rejects c1=0, c2=0 and c>1, scales by exactly 2^128, saturates to the maximum when the result equals 2^128 and refuses results longer than 16 bytes; the float64 it converts to a rational is, on every path, the operation tree 1 - pow(1 - f64(c1)/f64(c2), 1/f64(n)) that Substrate evaluates (no path-dependent shortcut, no re-association). "+
			"Not decided (and not decidable statically here): that math.Pow and Rust's powf round identically, that the rational arithmetic equals floor(2^128*p), monotonicity.",
		"math, math/big trusted", "partial claim; numerics are out of reach (DESIGN.md §5)",
		func(c *Ctx) {
			c.load(babeDir)
			c.ruleBabeLottery()
			c.ruleThresholdExpr()
			c.min("R-SECONDARY", 5)
			c.min("R-THRESHOLDGUARDS", 4)
		})
}

func (c *Ctx) ruleEquivocation() {
	f := c.fn("dot/state", "(*SlotState).CheckEquivocation")
	if f == nil {
		return
	}
	c.doc("R-EQUIVOC", "CheckEquivocation: proof only under (stored.Signer == signer) && (stored.Header.Hash() != header.Hash()); same signer & same hash -> (nil,nil) without a write; otherwise append + one batch (record list, window start, pruned keys) + Flush; constants 1000 / 2000")
	sp := c.ssaPkg("dot/state")
	mx, _ := constOf(sp, "maxSlotCapacity")
	pb, _ := constOf(sp, "pruningBound")
	c.ob("R-EQUIVOC", "constants", token.NoPos, mx == 1000 && pb == 2*mx, fmt.Sprintf("maxSlotCapacity=%d pruningBound=%d (window 1000 slots, pruned at twice the capacity)", mx, pb))
	isSignerEq := func(fc fact) bool {
		bo, ok := fc.cond.(*ssa.BinOp)
		if !ok || (bo.Op != token.EQL && bo.Op != token.NEQ) || (bo.Op == token.EQL) != fc.truth {
			return false
		}
		has := false
		for v := range backwardSlice(bo, nil) {
			if _, fv, ok := fieldLoad(v); ok && fv != nil && fv.Name() == "Signer" {
				has = true
			}
			if fa, ok := v.(*ssa.FieldAddr); ok && fieldVar(fa) != nil && fieldVar(fa).Name() == "Signer" {
				has = true
			}
		}
		return has
	}
	hashCmp := func(fc fact) (isCmp bool, differ bool) {
		bo, ok := fc.cond.(*ssa.BinOp)
		if !ok || (bo.Op != token.EQL && bo.Op != token.NEQ) {
			return false, false
		}
		n := 0
		for _, side := range []ssa.Value{bo.X, bo.Y} {
			if call, ok := side.(*ssa.Call); ok && strings.HasSuffix(calleeName(&call.Call), "types.Header).Hash") {
				n++
			}
		}
		if n != 2 {
			return false, false
		}
		return true, (bo.Op == token.NEQ) == fc.truth
	}
	var flush *ssa.Call
	var puts []*ssa.Call
	eachInstr(f, func(_ *ssa.BasicBlock, _ int, in ssa.Instruction) {
		if call, ok := in.(*ssa.Call); ok && call.Call.IsInvoke() {
			switch call.Call.Method.Name() {
			case "Flush":
				flush = call
			case "Put":
				puts = append(puts, call)
			}
		}
	})
	nproof, nsame := 0, 0
	for _, r := range returnsOf(f) {
		res := resultOf(r, 0)
		facts := factsAt(r.Block())
		signer, cmp, differ := false, false, false
		for _, fc := range facts {
			if isSignerEq(fc) {
				signer = true
			}
			if ic, d := hashCmp(fc); ic {
				cmp, differ = true, d
			}
		}
		if !isNilConst(res) {
			nproof++
			c.ob("R-EQUIVOC", fmt.Sprintf("proof-return#%d:same-signer-different-hash", nproof), r.Pos(), signer && cmp && differ,
				"an equivocation proof is returned on a path that is not guarded by `same signer` and `different header hash`")
			// proof contents
			okFields := false
			if al, ok := res.(*ssa.Alloc); ok {
				set := map[string]ssa.Value{}
				for _, rf := range *al.Referrers() {
					if fa, ok := rf.(*ssa.FieldAddr); ok {
						for _, r2 := range *fa.Referrers() {
							if st, ok := r2.(*ssa.Store); ok && st.Addr == fa {
								set[fieldVar(fa).Name()] = st.Val
							}
						}
					}
				}
				second := false
				if v, ok := set["SecondHeader"]; ok {
					if u, ok := v.(*ssa.UnOp); ok && u.X == ssa.Value(f.Params[3]) {
						second = true
					}
				}
				first := false
				if v, ok := set["FirstHeader"]; ok {
					for x := range backwardSlice(v, nil) {
						if _, fv, ok := fieldLoad(x); ok && fv != nil && fv.Name() == "Header" {
							first = true
						}
						if fa, ok := x.(*ssa.FieldAddr); ok && fieldVar(fa) != nil && fieldVar(fa).Name() == "Header" {
							first = true
						}
					}
				}
				okFields = first && second && set["Offender"] == ssa.Value(f.Params[4]) && set["Slot"] == ssa.Value(f.Params[2])
			}
			c.ob("R-EQUIVOC", fmt.Sprintf("proof-return#%d:carries-both-headers", nproof), r.Pos(), okFields, "the proof must carry the stored header first, the checked header second, the signer and the slot")
			continue
		}
		if signer && cmp && !differ {
			nsame++
			// no write on this path: the return is not reachable from a Put/Flush
			wrote := false
			for _, p := range puts {
				if instrReaches(p, r) {
					wrote = true
				}
			}
			c.ob("R-EQUIVOC", "identical-header:no-proof-no-write", r.Pos(), !wrote, "re-checking an identical header returns no proof and stores nothing")
		}
	}
	if nproof == 0 {
		c.ob("R-EQUIVOC", "proof-return", f.Pos(), false, "no proof-returning path found")
	}
	if nsame == 0 {
		c.ob("R-EQUIVOC", "identical-header:no-proof-no-write", f.Pos(), false, "no `same signer, same hash -> nil` path found: an identical header would be stored again or reported")
	}
	// append of the new record, then batch writes, then flush, final return after flush success
	appended := false
	eachInstr(f, func(_ *ssa.BasicBlock, _ int, in ssa.Instruction) {
		call, ok := in.(*ssa.Call)
		if !ok {
			return
		}
		if b, ok := call.Call.Value.(*ssa.Builtin); ok && b.Name() == "append" && strings.Contains(call.Type().String(), "headerAndSigner") {
			for v := range backwardSlice(call.Call.Args[1], nil) {
				if v == ssa.Value(f.Params[3]) {
					appended = true
				}
			}
		}
	})
	c.ob("R-EQUIVOC", "record-appended", f.Pos(), appended, "the checked header and signer are appended to the slot's record list")
	okBatch := flush != nil && len(puts) >= 2
	if okBatch {
		for _, p := range puts {
			if !instrReaches(p, flush) {
				okBatch = false
			}
		}
	}
	c.ob("R-EQUIVOC", "one-batch-flushed-last", f.Pos(), okBatch, "record list and window start are put into one batch that is flushed afterwards")
	fin := false
	if flush != nil {
		for _, r := range returnsOf(f) {
			if isNilConst(resultOf(r, 0)) && isNilConst(resultOf(r, 1)) && guardedBy(r.Block(), errSuccessGuard(flush)) {
				fin = true
			}
		}
	}
	c.ob("R-EQUIVOC", "success-after-flush", f.Pos(), fin, "the storing path returns success only after the batch was flushed successfully")
	// capacity guard
	capG := false
	for _, b := range f.Blocks {
		if iff := ifOf(b); iff != nil {
			if subj, op, k, ok := cmpWithConst(iff.Cond); ok && k == mx && op == token.GTR {
				if call, ok := subj.(*ssa.Call); ok && strings.HasSuffix(calleeName(&call.Call), "SaturatingSub") {
					capG = true
				}
			}
		}
	}
	c.ob("R-EQUIVOC", "older-than-capacity-ignored", f.Pos(), capG, "headers more than maxSlotCapacity slots old are not checked (saturating subtraction, strict comparison)")
}

func (c *Ctx) ruleBabeLottery() {
	c.doc("R-SECONDARY", "getSecondarySlotAuthor: Blake2bHash(append(randomness, LittleEndian.PutUint64(slot))) -> big.Int.SetBytes -> Mod(numAuths); verifySecondarySlotPlain/VRF compare the claimed index with it")
	f := c.fn(babeDir, "getSecondarySlotAuthor")
	if f != nil {
		var put, hash, setb, mod *ssa.Call
		var app ssa.Value
		eachInstr(f, func(_ *ssa.BasicBlock, _ int, in ssa.Instruction) {
			call, ok := in.(*ssa.Call)
			if !ok {
				return
			}
			n := calleeName(&call.Call)
			switch {
			case strings.Contains(n, "littleEndian).PutUint64"):
				put = call
			case strings.Contains(n, "bigEndian).PutUint64"):
				put = nil
			case strings.HasSuffix(n, "common.Blake2bHash"):
				hash = call
			case n == "(*math/big.Int).SetBytes":
				setb = call
			case n == "(*math/big.Int).Mod":
				mod = call
			}
			if b, ok := call.Call.Value.(*ssa.Builtin); ok && b.Name() == "append" {
				app = call
			}
		})
		c.ob("R-SECONDARY", "slot-little-endian-u64", f.Pos(), put != nil && put.Call.Args[len(put.Call.Args)-1] == ssa.Value(f.Params[0]), "the slot is serialised as 8 little-endian bytes")
		okOrder := false
		if app != nil && hash != nil {
			ac := app.(*ssa.Call)
			// first operand derives from randomness, second from the slot buffer
			r1 := false
			for v := range backwardSlice(ac.Call.Args[0], nil) {
				if v == ssa.Value(f.Params[2]) {
					r1 = true
				}
				if al, ok := v.(*ssa.Alloc); ok {
					for _, rf := range *al.Referrers() {
						if st, ok := rf.(*ssa.Store); ok && st.Val == ssa.Value(f.Params[2]) {
							r1 = true
						}
					}
				}
			}
			s2 := put != nil && ac.Call.Args[1] == put.Call.Args[len(put.Call.Args)-2]
			okOrder = r1 && s2 && hash.Call.Args[0] == app
		}
		c.ob("R-SECONDARY", "hash-of-randomness-then-slot", f.Pos(), okOrder, "the hashed message is randomness followed by the slot bytes, hashed with BLAKE2b-256")
		okBE := setb != nil && hash != nil
		if okBE {
			from := false
			for v := range backwardSlice(setb.Call.Args[1], nil) {
				if ex, ok := v.(*ssa.Extract); ok && ex.Tuple == ssa.Value(hash) {
					from = true
				}
			}
			okBE = from
		}
		c.ob("R-SECONDARY", "digest-read-big-endian", f.Pos(), okBE, "the digest is interpreted as a big-endian integer (big.Int.SetBytes)")
		okMod := false
		if mod != nil {
			for v := range backwardSlice(mod.Call.Args[2], nil) {
				if v == ssa.Value(f.Params[1]) {
					okMod = true
				}
			}
		}
		c.ob("R-SECONDARY", "mod-number-of-authorities", f.Pos(), okMod, "the author index is the integer modulo the number of authorities")
	}
	for _, name := range []string{"verifySecondarySlotPlain", "verifySecondarySlotVRF"} {
		g := c.fn(babeDir, name)
		if g == nil {
			continue
		}
		ok := false
		eachInstr(g, func(_ *ssa.BasicBlock, _ int, in ssa.Instruction) {
			bo, isBo := in.(*ssa.BinOp)
			if !isBo || (bo.Op != token.NEQ && bo.Op != token.EQL) {
				return
			}
			exp := false
			for _, side := range []ssa.Value{bo.X, bo.Y} {
				if ex, isEx := side.(*ssa.Extract); isEx {
					if cl, isCl := ex.Tuple.(*ssa.Call); isCl && cl.Call.StaticCallee() != nil && cl.Call.StaticCallee().Name() == "getSecondarySlotAuthor" {
						exp = true
					}
				}
			}
			if exp {
				ok = true
			}
		})
		c.ob("R-SECONDARY", name+":index-compared-with-expected-author", g.Pos(), ok, "the claimed authority index must be compared with getSecondarySlotAuthor's result")
	}
	c.doc("R-THRESHOLDGUARDS", "CalculateThreshold: c1==0||c2==0 -> error; c>1 -> error; scale = 1<<128; result == 1<<128 -> MaxUint128; more than 16 bytes -> error")
	t := c.fn(babeDir, "CalculateThreshold")
	if t == nil {
		return
	}
	zero, gt1, shift, sat, len16 := false, false, false, false, false
	eachInstr(t, func(b *ssa.BasicBlock, _ int, in ssa.Instruction) {
		switch x := in.(type) {
		case *ssa.BinOp:
			if x.Op == token.EQL {
				if k, ok := constInt(x.Y); ok && k == 0 && (x.X == ssa.Value(t.Params[0]) || x.X == ssa.Value(t.Params[1])) {
					zero = true
				}
			}
			if x.Op == token.GTR {
				if k, ok := x.Y.(*ssa.Const); ok && k.Value != nil && k.Value.String() == "1" {
					gt1 = true
				}
				if k, ok := constInt(x.Y); ok && k == 16 {
					len16 = true
				}
			}
		case *ssa.Call:
			n := calleeName(&x.Call)
			if n == "(*math/big.Int).Lsh" {
				if k, ok := constInt(x.Call.Args[2]); ok && k == 128 {
					shift = true
				}
			}
			if n == "(*math/big.Int).Cmp" {
				sat = true
			}
		}
	})
	c.ob("R-THRESHOLDGUARDS", "rejects-zero-c1-or-c2", t.Pos(), zero, "c1 == 0 or c2 == 0 must be rejected")
	c.ob("R-THRESHOLDGUARDS", "rejects-c>1", t.Pos(), gt1, "a ratio above 1 must be rejected")
	c.ob("R-THRESHOLDGUARDS", "scale-2^128", t.Pos(), shift, "the probability is scaled by exactly 2^128")
	c.ob("R-THRESHOLDGUARDS", "saturates-at-max", t.Pos(), sat, "a result equal to 2^128 (c = 1) saturates to the maximum 128-bit value")
	c.ob("R-THRESHOLDGUARDS", "at-most-16-bytes", t.Pos(), len16, "results longer than 16 bytes are refused")
}

// capturedSource: the single value the enclosing function stores into the local variable that closure cl captures as fv.
func capturedSource(cl *ssa.Function, fv *ssa.FreeVar) ssa.Value {
	parent := cl.Parent()
	if parent == nil {
		return nil
	}
	idx := -1
	for i, x := range cl.FreeVars {
		if x == fv {
			idx = i
		}
	}
	var src ssa.Value
	n := 0
	eachInstr(parent, func(_ *ssa.BasicBlock, _ int, in ssa.Instruction) {
		mc, ok := in.(*ssa.MakeClosure)
		if !ok || mc.Fn != ssa.Value(cl) || idx < 0 || idx >= len(mc.Bindings) {
			return
		}
		al, ok := mc.Bindings[idx].(*ssa.Alloc)
		if !ok {
			return
		}
		for _, r := range *al.Referrers() {
			if st, ok := r.(*ssa.Store); ok && st.Addr == ssa.Value(al) {
				src = st.Val
				n++
			}
		}
	})
	if n != 1 {
		return nil
	}
	return src
}

// valueFromField: v depends on a load of the named field, possibly through the result of a helper of the same
// package (extract-function refactorings).
func valueFromField(v ssa.Value, field string, pkg *ssa.Package, depth int) bool {
	if depth > 3 {
		return false
	}
	for x := range backwardSlice(v, nil) {
		if _, fv, ok := fieldLoad(x); ok && fv != nil && fv.Name() == field {
			return true
		}
		if call, ok := x.(*ssa.Call); ok {
			if g := call.Call.StaticCallee(); g != nil && g.Pkg == pkg && len(g.Blocks) > 0 {
				for _, r := range returnsOf(g) {
					if len(r.Results) > 0 && valueFromField(resultOf(r, 0), field, pkg, depth+1) {
						return true
					}
				}
			}
		}
	}
	return false
}

// hashEqualFact: the fact establishes that two hashes are equal — bytes.Equal(a, b) true, or a == b on array values.
func hashEqualFact(fc fact) bool {
	if call := callTo(fc.cond, "bytes.Equal"); call != nil && fc.truth {
		return true
	}
	if bo, ok := fc.cond.(*ssa.BinOp); ok && (bo.Op == token.EQL || bo.Op == token.NEQ) {
		if _, isArr := bo.X.Type().Underlying().(*types.Array); isArr && fc.truth == (bo.Op == token.EQL) {
			return true
		}
	}
	return false
}
