package main

import (
	"fmt"
	"go/ast"
	"go/constant"
	"go/token"
	"go/types"
	"math/big"
	"sort"
	"strings"

	"golang.org/x/tools/go/ssa"
)

// Rules added after the second seeding round (DESIGN.md §10).

// R-NEXTKEY: the next-key walker compares the FULL, unmodified search key at every node it may return.
func (c *Ctx) ruleNextKey() {
	c.doc("R-NEXTKEY", "findNextNode returns an entry only on the edge bytes.Compare(searchKey, currentFullKey) == -1 with searchKey the unmodified parameter; findNextNode and findNextKeyOnChildren hand the search key down unchanged; children are visited in ascending index order from the starting index and the first hit is returned")
	fn := c.fn(inmemDir, "findNextNode")
	if fn == nil {
		return
	}
	// the children scanner is found by its role, not its name: the callee of findNextNode that calls findNextNode back
	var fc *ssa.Function
	eachInstr(fn, func(_ *ssa.BasicBlock, _ int, in ssa.Instruction) {
		call, ok := in.(*ssa.Call)
		if !ok {
			return
		}
		g := call.Call.StaticCallee()
		if g == nil || g == fn || g.Pkg != fn.Pkg || len(g.Blocks) == 0 {
			return
		}
		eachInstr(g, func(_ *ssa.BasicBlock, _ int, in2 ssa.Instruction) {
			if c2, ok := in2.(*ssa.Call); ok && c2.Call.StaticCallee() == fn {
				fc = g
			}
		})
	})
	if fc == nil {
		c.unresolved("the children scanner mutually recursive with pkg/trie/inmemory.findNextNode")
		return
	}
	key := fn.Params[2]
	n := 0
	for _, r := range returnsOf(fn) {
		res := resultOf(r, 0)
		if _, isAlloc := res.(*ssa.Alloc); !isAlloc {
			continue
		}
		n++
		ok := false
		for _, f := range factsAt(r.Block()) {
			subj, op, k, isCmp := cmpWithConst(f.cond)
			if !isCmp {
				continue
			}
			call, isCall := subj.(*ssa.Call)
			if !isCall || calleeName(&call.Call) != "bytes.Compare" || call.Call.Args[0] != ssa.Value(key) {
				continue
			}
			o := op
			if !f.truth {
				o = negOp(o)
			}
			if (o == token.EQL && k == -1) || (o == token.LSS && k == 0) {
				ok = true
			}
		}
		c.ob("R-NEXTKEY", fmt.Sprintf("findNextNode:entry-return#%d", n), r.Pos(), ok, "an entry is returned without the node's full key having been compared strictly greater than the (unmodified) search key: NextKey can return a key that is not greater than the search key")
	}
	if n == 0 {
		c.ob("R-NEXTKEY", "findNextNode:entry-return", fn.Pos(), false, "no entry-returning path found (anchor changed)")
	}
	pass := func(f *ssa.Function, keyParam *ssa.Parameter, calleeName2 string, argIdx int, role string) {
		m := 0
		eachInstr(f, func(_ *ssa.BasicBlock, _ int, in ssa.Instruction) {
			call, ok := in.(*ssa.Call)
			if !ok || call.Call.StaticCallee() == nil || call.Call.StaticCallee().Name() != calleeName2 {
				return
			}
			m++
			c.ob("R-NEXTKEY", fmt.Sprintf("%s:search-key-unchanged#%d", role, m), call.Pos(), call.Call.Args[argIdx] == ssa.Value(keyParam),
				f.Name()+" must hand its search key parameter down unchanged (a truncated or cleared search key lets smaller keys be returned)")
		})
	}
	pass(fn, fn.Params[2], fc.Name(), 2, "findNextNode->children-scanner")
	pass(fc, fc.Params[2], "findNextNode", 2, "children-scanner->findNextNode")
	// ascending scan from startingAt
	asc := false
	eachInstr(fc, func(_ *ssa.BasicBlock, _ int, in ssa.Instruction) {
		if ph, ok := in.(*ssa.Phi); ok {
			hasStart, hasInc := false, false
			for _, e := range ph.Edges {
				if stripConv(e) == ssa.Value(fc.Params[3]) {
					hasStart = true
				}
				if bo, ok := e.(*ssa.BinOp); ok && bo.Op == token.ADD && bo.X == ssa.Value(ph) {
					if k, ok := constInt(bo.Y); ok && k == 1 {
						hasInc = true
					}
				}
			}
			if hasStart && hasInc {
				asc = true
			}
		}
	})
	c.ob("R-NEXTKEY", "children-scanner:ascending-from-start", fc.Pos(), asc, "children are scanned in ascending index order starting at the given index")
}

// R-COMMITORDER: triedb.commit deletes the replaced nodes before it writes the new ones (same batch).
func (c *Ctx) ruleCommitOrder() {
	sp := c.ssaPkg(triedbDir)
	if sp == nil {
		return
	}
	c.doc("R-COMMITORDER", "TrieDB.commit: every batch.Del of a replaced node executes before any batch.Put of the new nodes (no Del reachable after the encoding starts, none inside a deferred/late closure): a node deleted and re-created with the same hash in one commit must survive")
	for _, f := range allFuncs(c, sp) {
		if f.Name() != "commit" || f.Parent() != nil {
			continue
		}
		var dels, puts []ssa.Instruction
		eachInstr(f, func(_ *ssa.BasicBlock, _ int, in ssa.Instruction) {
			call, ok := in.(*ssa.Call)
			if !ok {
				return
			}
			if call.Call.IsInvoke() && call.Call.Method.Name() == "Del" {
				dels = append(dels, in)
			}
			if call.Call.IsInvoke() && call.Call.Method.Name() == "Put" {
				puts = append(puts, in)
			}
			if cal := call.Call.StaticCallee(); cal != nil && (strings.HasPrefix(cal.Name(), "newEncodedNode") || cal.Name() == "commitChild") {
				puts = append(puts, in)
			}
		})
		inClosure := false
		for _, a := range f.AnonFuncs {
			for _, g := range withAnon(a) {
				eachInstr(g, func(_ *ssa.BasicBlock, _ int, in ssa.Instruction) {
					if call, ok := in.(*ssa.Call); ok && call.Call.IsInvoke() && call.Call.Method.Name() == "Del" {
						inClosure = true
					}
				})
			}
		}
		ok := len(dels) > 0 && len(puts) > 0 && !inClosure
		for _, d := range dels {
			for _, p := range puts {
				if instrReaches(p, d) {
					ok = false
				}
			}
		}
		c.ob("R-COMMITORDER", relName(f.String())+":deletes-before-puts", f.Pos(), ok,
			"commit removes replaced nodes after (or interleaved with) writing the new ones: when a node is removed and an identical node is written in the same commit the deletion wins and the committed trie misses it")
	}
}

// R-BIGTRUNC: (*big.Int).Int64/Uint64 only on values whose magnitude was bounded on the path.
func (c *Ctx) ruleBigTrunc(rule, dir string, funcs ...string) {
	c.doc(rule, "every (*big.Int).Int64()/Uint64() is dominated by a bound on that big.Int (Cmp(..) < 0 true, IsInt64/IsUint64 true, or a BitLen comparison): the truncating accessors return only the low 64 bits")
	for _, name := range funcs {
		f := c.fn(dir, name)
		if f == nil {
			continue
		}
		n := 0
		eachInstr(f, func(b *ssa.BasicBlock, _ int, in ssa.Instruction) {
			call, ok := in.(*ssa.Call)
			if !ok {
				return
			}
			nm := calleeName(&call.Call)
			if nm != "(*math/big.Int).Int64" && nm != "(*math/big.Int).Uint64" {
				return
			}
			n++
			recv := call.Call.Args[0]
			bounded := false
			for _, fc := range factsAt(b) {
				for v := range backwardSlice(fc.cond, nil) {
					if bc, ok := v.(*ssa.Call); ok && len(bc.Call.Args) > 0 && sameValue(bc.Call.Args[0], recv) {
						switch calleeName(&bc.Call) {
						case "(*math/big.Int).Cmp", "(*math/big.Int).CmpAbs", "(*math/big.Int).BitLen", "(*math/big.Int).IsInt64", "(*math/big.Int).IsUint64":
							bounded = true
						}
					}
				}
			}
			c.ob(rule, fmt.Sprintf("%s:%s#%d", relName(f.String()), strings.TrimPrefix(nm, "(*math/big.Int)."), n), call.Pos(), bounded,
				shortFn(f)+" takes the low 64 bits of a big integer on a path where its magnitude is not bounded: values of 2^64 and above are silently truncated (wrong compact mode / wrong value)")
		})
	}
	// mode thresholds of encodeBigInt: Cmp against 1<<6, 1<<14, 1<<30, strict
	if f := c.fn(dir, "(*encodeState).encodeBigInt"); f != nil && dir == "pkg/scale" {
		shifts := map[int64]bool{}
		eachInstr(f, func(_ *ssa.BasicBlock, _ int, in ssa.Instruction) {
			bo, ok := in.(*ssa.BinOp)
			if !ok || bo.Op != token.LSS {
				return
			}
			if k, ok := constInt(bo.Y); !ok || k != 0 {
				return
			}
			cmp, ok := bo.X.(*ssa.Call)
			if !ok || calleeName(&cmp.Call) != "(*math/big.Int).Cmp" {
				return
			}
			for v := range backwardSlice(cmp.Call.Args[1], nil) {
				if l, ok := v.(*ssa.Call); ok && calleeName(&l.Call) == "(*math/big.Int).Lsh" {
					if k, ok := constInt(l.Call.Args[2]); ok {
						shifts[k] = true
					}
				}
			}
		})
		c.ob(rule, "encodeBigInt:mode-thresholds", f.Pos(), shifts[6] && shifts[14] && shifts[30] && len(shifts) == 3, fmt.Sprintf("big-integer compact modes are selected by i < 2^6, 2^14, 2^30 compared on the big integer itself (found shifts %v)", shifts))
	}
}

// R-JSONERR: Uint128.UnmarshalJSON fails only when the general decimal parser fails.
func (c *Ctx) ruleUint128JSONErrors() {
	f := c.fn("pkg/scale", "(*Uint128).UnmarshalJSON")
	if f == nil {
		return
	}
	c.doc("R-JSONERR", "every error return of Uint128.UnmarshalJSON is dominated by the failure edge of big.Int.SetString(…, 10) or of NewUint128: no other path may reject a decimal string (every 128-bit value's decimal form must decode)")
	n := 0
	for _, r := range returnsOf(f) {
		if isNilConst(resultOf(r, 0)) {
			continue
		}
		n++
		ok := false
		for _, fc := range factsAt(r.Block()) {
			for _, v := range phiInputs(fc.cond) {
				if ex, isEx := v.(*ssa.Extract); isEx {
					if call, isCall := ex.Tuple.(*ssa.Call); isCall {
						nm := calleeName(&call.Call)
						if nm == "(*math/big.Int).SetString" && ex.Index == 1 && !fc.truth {
							ok = true
						}
					}
				}
			}
			if e, neq, isN := nilCmp(fc.cond); isN && fc.truth == neq {
				for _, v := range phiInputs(e) {
					if ex, isEx := v.(*ssa.Extract); isEx {
						if call, isCall := ex.Tuple.(*ssa.Call); isCall && call.Call.StaticCallee() != nil && call.Call.StaticCallee().Name() == "NewUint128" {
							ok = true
						}
					}
				}
			}
		}
		c.ob("R-JSONERR", fmt.Sprintf("UnmarshalJSON:error-return#%d", n), r.Pos(), ok, "UnmarshalJSON rejects its input on a path where the general decimal parser (big.Int.SetString base 10 / NewUint128) did not fail: some valid 128-bit decimal strings no longer decode")
	}
}

// R-LASTWRITE: in protobufToBlockData the empty-justification override is the last write of bd.Justification.
func (c *Ctx) ruleLastWrite() {
	f := c.fn(msgDir, "protobufToBlockData")
	if f == nil {
		return
	}
	c.doc("R-LASTWRITE", "protobufToBlockData: the store of an empty (non-nil) justification under IsEmptyJustification is not followed by another store to bd.Justification (it must win over the nil default)")
	var override ssa.Instruction
	var others []ssa.Instruction
	eachInstr(f, func(b *ssa.BasicBlock, _ int, in ssa.Instruction) {
		st, ok := in.(*ssa.Store)
		if !ok {
			return
		}
		fa, ok := st.Addr.(*ssa.FieldAddr)
		if !ok || fieldVar(fa) == nil || fieldVar(fa).Name() != "Justification" || !strings.HasSuffix(namedType(fa.X.Type()), "types.BlockData") {
			return
		}
		guarded := false
		for _, fc := range factsAt(b) {
			for v := range backwardSlice(fc.cond, nil) {
				if _, fv, ok := fieldLoad(v); ok && fv != nil && fv.Name() == "IsEmptyJustification" && fc.truth {
					guarded = true
				}
			}
		}
		if guarded {
			override = in
		} else {
			others = append(others, in)
		}
	})
	ok := override != nil
	if ok {
		for _, o := range others {
			if instrReaches(override, o) {
				ok = false
			}
		}
	}
	c.ob("R-LASTWRITE", "protobufToBlockData:empty-justification-wins", f.Pos(), ok, "an empty but present justification (IsEmptyJustification) must survive decoding: its store is overwritten by a later default store, so `&[]byte{}` decodes as nil")
}

// aliasing range operands for R-ITERMOD: `xs := x.f` / `xs := x.f[a:b:c]` then `for range xs`
func aliasOfField(fd *ast.FuncDecl, id *ast.Ident, isFieldSel func(ast.Expr) bool) bool {
	alias := false
	ast.Inspect(fd.Body, func(n ast.Node) bool {
		as, ok := n.(*ast.AssignStmt)
		if !ok {
			return true
		}
		for i, l := range as.Lhs {
			li, ok := l.(*ast.Ident)
			if !ok || li.Name != id.Name || i >= len(as.Rhs) {
				continue
			}
			switch r := as.Rhs[i].(type) {
			case *ast.SliceExpr:
				if isFieldSel(r.X) {
					alias = true
				}
			default:
				if isFieldSel(as.Rhs[i]) {
					alias = true
				}
			}
		}
		return true
	})
	return alias
}

// R-VARIANT/select: the encoder's choice of header variant is a function of (kind, value presence, hashed flag).
// Decided by executing encodeHeader abstractly for the 8 combinations (if/else, switch and boolean temporaries are all
// the same to the exploration); the variant chosen is the variant global loaded on the executed path.
func (c *Ctx) ruleVariantSelect() {
	f := c.fn("pkg/trie/node", "encodeHeader")
	if f == nil {
		return
	}
	c.doc("R-VARIANT/select", "encodeHeader, executed abstractly for every combination of (leaf?, StorageValue nil?, hashed flag): leaf -> leaf / leafWithHashedValue by the flag; branch with nil value -> branchVariant whatever the flag (a stale hashed flag on a value-less branch must not change the encoding); branch with a value -> branchWithValue / branchWithHashedValue by the flag")
	hashed := ssa.Value(f.Params[1])
	for _, leaf := range []bool{true, false} {
		for _, valNil := range []bool{true, false} {
			for _, h := range []bool{true, false} {
				want := ""
				switch {
				case leaf && h:
					want = "leafWithHashedValueVariant"
				case leaf:
					want = "leafVariant"
				case valNil:
					want = "branchVariant"
				case h:
					want = "branchWithHashedValueVariant"
				default:
					want = "branchWithValueVariant"
				}
				if leaf && valNil {
					continue // a leaf always carries a value
				}
				env := &cmpEnv{extern: func(v ssa.Value) (any, bool) {
					if v == hashed {
						return h, true
					}
					if bo, ok := v.(*ssa.BinOp); ok && (bo.Op == token.EQL || bo.Op == token.NEQ) {
						if e, neq, isN := nilCmp(v); isN {
							if _, fv, ok := fieldLoad(e); ok && fv != nil && fv.Name() == "StorageValue" {
								return valNil != neq, true
							}
						}
						isKind := func(x ssa.Value) bool {
							cl, ok := x.(*ssa.Call)
							return ok && cl.Call.StaticCallee() != nil && cl.Call.StaticCallee().Name() == "Kind"
						}
						kindConst := func(x ssa.Value) (bool, bool) { // is the constant `Leaf`?
							k, ok := x.(*ssa.Const)
							if !ok || !strings.HasSuffix(k.Type().String(), "node.Kind") {
								return false, false
							}
							n, _ := constInt(k)
							return n == leafKindValue(f), true
						}
						for _, pr := range [][2]ssa.Value{{bo.X, bo.Y}, {bo.Y, bo.X}} {
							if isKind(pr[0]) {
								if isLeafConst, ok := kindConst(pr[1]); ok {
									eq := leaf == isLeafConst
									return eq == (bo.Op == token.EQL), true
								}
							}
						}
					}
					return nil, false
				}}
				vis := explore(f, env)
				chosen := map[string]bool{}
				for in := range vis {
					if u, ok := in.(*ssa.UnOp); ok && u.Op == token.MUL {
						if g, ok := u.X.(*ssa.Global); ok {
							if _, isVar := variantSpec[g.Name()]; isVar {
								chosen[g.Name()] = true
							}
						}
					}
				}
				var list []string
				for k := range chosen {
					list = append(list, k)
				}
				sort.Strings(list)
				c.ob("R-VARIANT/select", fmt.Sprintf("encodeHeader:leaf=%v,valueNil=%v,hashed=%v", leaf, valNil, h), f.Pos(), len(list) == 1 && list[0] == want,
					fmt.Sprintf("variant selected %v, specification %s", list, want))
			}
		}
	}
}

// leafKindValue: the constant value of node.Leaf in the package of f.
func leafKindValue(f *ssa.Function) int64 {
	if m, ok := f.Pkg.Members["Leaf"].(*ssa.NamedConst); ok {
		if k, ok := constInt(m.Value); ok {
			return k
		}
	}
	return 0
}

// R-EPOCHARG: the verifier checks VRF proofs for the block's OWN epoch.
func (c *Ctx) ruleEpochArg() {
	const dir = "lib/babe"
	c.doc("R-EPOCHARG", "VerificationManager.VerifyBlock hands newVerifier the unmodified result of GetEpochForBlock(header) (the block's own epoch, which the producer signs into the VRF transcript) — not the epoch whose descriptor is used after skipped epochs; newVerifier stores it in verifier.epoch; inside the verifier every callee parameter named epoch/randomness receives verifier.epoch/verifier.randomness")
	f := c.fn(dir, "(*VerificationManager).VerifyBlock")
	if f != nil {
		n := 0
		eachInstr(f, func(_ *ssa.BasicBlock, _ int, in ssa.Instruction) {
			call, ok := in.(*ssa.Call)
			if !ok || call.Call.StaticCallee() == nil || call.Call.StaticCallee().Name() != "newVerifier" {
				return
			}
			n++
			ok2 := false
			if ex, isEx := stripConv(call.Call.Args[2]).(*ssa.Extract); isEx && ex.Index == 0 {
				if src, isCall := ex.Tuple.(*ssa.Call); isCall && src.Call.IsInvoke() && src.Call.Method.Name() == "GetEpochForBlock" && len(src.Call.Args) == 1 && src.Call.Args[0] == ssa.Value(f.Params[1]) {
					ok2 = true
				}
			}
			// the verifier info (authorities, randomness, threshold) is the one resolved for THIS block's fork
			okInfo := len(call.Call.Args) > 3
			if okInfo {
				ins := phiInputs(call.Call.Args[3])
				if len(ins) == 0 {
					okInfo = false
				}
				for _, v := range ins {
					ex, isEx := v.(*ssa.Extract)
					if !isEx || ex.Index != 0 {
						okInfo = false
						continue
					}
					src, isCall := ex.Tuple.(*ssa.Call)
					if !isCall || src.Call.StaticCallee() == nil || src.Call.StaticCallee().Name() != "getVerifierInfo" {
						okInfo = false
						continue
					}
					hasHeader := false
					for _, a := range src.Call.Args {
						if a == ssa.Value(f.Params[1]) {
							hasHeader = true
						}
					}
					if !hasHeader {
						okInfo = false
					}
				}
			}
			c.ob("R-EPOCHARG", fmt.Sprintf("VerifyBlock:newVerifier-info#%d", n), call.Pos(), okInfo,
				"the epoch data handed to the verifier must, on every path, be getVerifierInfo(epoch, header) resolved for this block's own fork; a value cached per epoch number belongs to whichever fork was verified first, so honest blocks of another fork with different randomness/authorities are rejected and forged ones accepted")
			c.ob("R-EPOCHARG", fmt.Sprintf("VerifyBlock:newVerifier-epoch#%d", n), call.Pos(), ok2,
				"the verifier must be built with GetEpochForBlock(header) itself: with any other epoch (e.g. parent epoch + 1 after skipped epochs) honest VRF claims of the block's epoch are rejected and claims signed for another epoch accepted")
		})
		if n == 0 {
			c.ob("R-EPOCHARG", "VerifyBlock:newVerifier-epoch", f.Pos(), false, "newVerifier is not called (anchor changed)")
		}
	}
	if nv := c.fn(dir, "newVerifier"); nv != nil {
		ok := false
		eachInstr(nv, func(_ *ssa.BasicBlock, _ int, in ssa.Instruction) {
			if st, isSt := in.(*ssa.Store); isSt {
				if fa, isFA := st.Addr.(*ssa.FieldAddr); isFA && fieldVar(fa) != nil && fieldVar(fa).Name() == "epoch" && st.Val == ssa.Value(nv.Params[2]) {
					ok = true
				}
			}
		})
		c.ob("R-EPOCHARG", "newVerifier:epoch-field", nv.Pos(), ok, "newVerifier stores its epoch parameter in verifier.epoch")
	}
	sp := c.ssaPkg(dir)
	if sp == nil {
		return
	}
	n := 0
	for _, g := range allFuncs(c, sp) {
		if g.Signature.Recv() == nil || !strings.HasSuffix(g.Signature.Recv().Type().String(), "babe.verifier") || len(g.Params) == 0 {
			continue
		}
		eachInstr(g, func(_ *ssa.BasicBlock, _ int, in ssa.Instruction) {
			call, ok := in.(*ssa.Call)
			if !ok || call.Call.StaticCallee() == nil || call.Call.StaticCallee().Pkg != sp {
				return
			}
			cal := call.Call.StaticCallee()
			for i, p := range cal.Params {
				if i >= len(call.Call.Args) || (p.Name() != "epoch" && p.Name() != "randomness") {
					continue
				}
				n++
				base, fv, isField := fieldLoad(stripConv(call.Call.Args[i]))
				ok2 := isField && fv != nil && fv.Name() == p.Name() && base == ssa.Value(g.Params[0])
				c.ob("R-EPOCHARG", fmt.Sprintf("%s->%s:%s#%d", shortFn(g), cal.Name(), p.Name(), n), call.Pos(), ok2,
					"inside the verifier the "+p.Name()+" handed to "+cal.Name()+" must be verifier."+p.Name())
			}
		})
	}
}

// R-FULLSCAN: every loop that walks a list of the given element type visits ALL its elements.
// Affine reasoning in the coordinates of the underlying list B: an access X[ind+k] with X = B[aX:], ind ranging over
// [s, len(S)) with S = B[aS:], touches B[aX+s+k .. len(B)-aS+aX+k-1]; it is complete iff aX+k-aS == 0 and the indices
// below aX+s+k are read through constant indices.
func (c *Ctx) ruleFullScan(rule string, f *ssa.Function, elemSubstr, why string) {
	if f == nil {
		return
	}
	type norm struct {
		base ssa.Value
		off  int64
		ok   bool
	}
	normalise := func(v ssa.Value) norm {
		off := int64(0)
		for {
			sl, isSl := v.(*ssa.Slice)
			if !isSl {
				return norm{v, off, true}
			}
			if sl.High != nil || sl.Max != nil {
				return norm{v, off, false}
			}
			if sl.Low != nil {
				k, isC := constInt(sl.Low)
				if !isC {
					return norm{v, off, false}
				}
				off += k
			}
			v = sl.X
		}
	}
	isElem := func(v ssa.Value) bool {
		s, ok := v.Type().Underlying().(*types.Slice)
		return ok && strings.Contains(s.Elem().String(), elemSubstr)
	}
	n := 0
	for _, g := range withAnon(f) {
		constReads := map[ssa.Value]map[int64]bool{}
		type scan struct {
			ia         *ssa.IndexAddr
			base       ssa.Value
			lo, slack  int64
			decided    bool
			undecidedW string
		}
		var scans []scan
		seenLoop := map[ssa.Value]bool{}
		eachInstr(g, func(_ *ssa.BasicBlock, _ int, in ssa.Instruction) {
			ia, ok := in.(*ssa.IndexAddr)
			if !ok || !isElem(ia.X) {
				return
			}
			x := normalise(ia.X)
			if cidx, isC := constInt(ia.Index); isC {
				if x.ok {
					if constReads[x.base] == nil {
						constReads[x.base] = map[int64]bool{}
					}
					constReads[x.base][x.off+cidx] = true
				}
				return
			}
			ind, k := ia.Index, int64(0)
			var phi *ssa.Phi
			start := int64(0)
			classify := func(v ssa.Value) bool {
				// range style: v = phi + 1, phi = [-1, v, v...]
				if bo, isBin := v.(*ssa.BinOp); isBin && bo.Op == token.ADD {
					if p, isPhi := bo.X.(*ssa.Phi); isPhi {
						if one, isC := constInt(bo.Y); isC && one == 1 {
							init, rest := false, true
							for _, e := range p.Edges {
								if cst, isC := constInt(e); isC && cst == -1 {
									init = true
								} else if e != ssa.Value(bo) {
									rest = false
								}
							}
							if init && rest {
								phi, start = p, 0
								return true
							}
						}
					}
				}
				// classic: v = phi [c0, phi+1]
				if p, isPhi := v.(*ssa.Phi); isPhi {
					c0, hasInit, rest := int64(0), false, true
					for _, e := range p.Edges {
						if cst, isC := constInt(e); isC {
							c0, hasInit = cst, true
							continue
						}
						bo, isBin := e.(*ssa.BinOp)
						one, isC := int64(0), false
						if isBin {
							one, isC = constInt(bo.Y)
						}
						if !isBin || bo.Op != token.ADD || bo.X != ssa.Value(p) || !isC || one != 1 {
							rest = false
						}
					}
					if hasInit && rest {
						phi, start = p, c0
						return true
					}
				}
				return false
			}
			if !classify(ind) {
				if bo, isBin := ind.(*ssa.BinOp); isBin && bo.Op == token.ADD {
					if kk, isC := constInt(bo.Y); isC && classify(bo.X) {
						ind, k = bo.X, kk
					}
				}
			}
			if phi == nil {
				return // not an induction-variable access: nothing claimed about it
			}
			if seenLoop[ind] {
				return
			}
			seenLoop[ind] = true
			// bound: ind < len(S)
			var bound ssa.Value
			for _, ref := range *ind.(ssa.Value).Referrers() {
				if bo, isBin := ref.(*ssa.BinOp); isBin && bo.Op == token.LSS && bo.X == ind {
					if l, isLen := lenOf(bo.Y); isLen {
						bound = l
					}
				}
			}
			sc := scan{ia: ia}
			if bound == nil || !x.ok {
				sc.undecidedW = "loop bound is not `index < len(list)` or the list is re-sliced with an upper bound"
				scans = append(scans, sc)
				return
			}
			s := normalise(bound)
			if !s.ok || !sameValue(s.base, x.base) {
				sc.undecidedW = "the loop is bounded by the length of a different list than the one it indexes"
				scans = append(scans, sc)
				return
			}
			sc.base, sc.decided = x.base, true
			sc.lo = x.off + start + k
			sc.slack = x.off + k - s.off // 0 == reaches the last element exactly
			scans = append(scans, sc)
		})
		for _, sc := range scans {
			n++
			ok, msg := false, sc.undecidedW
			if sc.decided {
				ok = sc.slack == 0
				for i := int64(0); i < sc.lo; i++ {
					if !constReads[sc.base][i] {
						ok = false
					}
				}
				msg = fmt.Sprintf("first visited index %d (lower ones must be read explicitly), distance of the last visited index from the end %d", sc.lo, -sc.slack)
			}
			c.ob(rule, fmt.Sprintf("%s:scan#%d", relName(g.String()), n), sc.ia.Pos(), ok, why+" — "+msg)
		}
	}
	if n == 0 {
		c.ob(rule, relName(f.String())+":scan", f.Pos(), false, "no loop over a list of "+elemSubstr+" found (anchor changed)")
	}
}

// R-CHANGEPRUNE: which pending scheduled changes survive a finalisation that applies none of them.
func (c *Ctx) ruleChangePrune() {
	c.ruleChangePruneOf("(*changeTree).pruneChanges", "pruneChanges")
	c.ruleChangePruneOf("(*orderedPendingChanges).pruneChanges", "forced.pruneChanges")
}

func (c *Ctx) ruleChangePruneOf(fn, label string) {
	const dir = "dot/state"
	f := c.fn(dir, fn)
	if f == nil {
		return
	}
	c.doc("R-CHANGEPRUNE", "changeTree.pruneChanges keeps a root exactly when its announcing block is on the finalised block's chain — a descendant of it (isDescendantOf(finalised, root)) OR an ancestor of it whose change is not yet effective (isDescendantOf(root, finalised)); decided by executing the loop body abstractly for the four outcomes of the two ancestry queries (Substrate: ForkTree::finalize_with_descendent_if retains both kinds)")
	hash, pred := ssa.Value(f.Params[1]), ssa.Value(f.Params[2])
	fromRoot := func(v ssa.Value) bool {
		for x := range backwardSlice(v, nil) {
			if call, ok := x.(*ssa.Call); ok && call.Call.StaticCallee() != nil && call.Call.StaticCallee().Name() == "Hash" {
				return true
			}
		}
		return false
	}
	var desc, anc []*ssa.Call // isDescendantOf(finalised, root) / isDescendantOf(root, finalised)
	var keep []ssa.Instruction
	eachInstr(f, func(_ *ssa.BasicBlock, _ int, in ssa.Instruction) {
		call, ok := in.(*ssa.Call)
		if !ok {
			return
		}
		if call.Call.Value == pred && len(call.Call.Args) == 2 {
			switch {
			case call.Call.Args[0] == hash && fromRoot(call.Call.Args[1]):
				desc = append(desc, call)
			case call.Call.Args[1] == hash && fromRoot(call.Call.Args[0]):
				anc = append(anc, call)
			}
		}
		if b, ok := call.Call.Value.(*ssa.Builtin); ok && b.Name() == "append" && (strings.Contains(call.Type().String(), "pendingChangeNode") || strings.Contains(call.Type().String(), "pendingChange")) {
			keep = append(keep, in)
		}
	})
	c.ob("R-CHANGEPRUNE", label+":asks-descendant-of-finalised", f.Pos(), len(desc) > 0, "roots announced after the finalised block on its chain are recognised by isDescendantOf(finalised, root)")
	c.ob("R-CHANGEPRUNE", label+":asks-ancestor-of-finalised", f.Pos(), len(anc) > 0,
		"a root announced by an ANCESTOR of the finalised block whose effective number is still ahead is never tested for (no isDescendantOf(root, finalised)): it is dropped and the change never takes effect (e.g. announced at #6 with delay 3, finalise #7, then #9)")
	if len(keep) == 0 {
		c.ob("R-CHANGEPRUNE", label+":keep", f.Pos(), false, "no append of a kept root found (anchor changed)")
		return
	}
	if len(desc) == 0 || len(anc) == 0 {
		return
	}
	in := func(list []*ssa.Call, v ssa.Value) bool {
		for _, x := range list {
			if ssa.Value(x) == v {
				return true
			}
		}
		return false
	}
	for _, tc := range []struct{ d, a bool }{{true, true}, {true, false}, {false, true}, {false, false}} {
		env := &cmpEnv{extern: func(v ssa.Value) (any, bool) {
			if ex, ok := v.(*ssa.Extract); ok && ex.Index == 0 {
				if in(desc, ex.Tuple) {
					return tc.d, true
				}
				if in(anc, ex.Tuple) {
					return tc.a, true
				}
			}
			if e, neq, ok := nilCmp(v); ok {
				for _, pi := range phiInputs(e) {
					if ex, ok := pi.(*ssa.Extract); ok && ex.Index == 1 && (in(desc, ex.Tuple) || in(anc, ex.Tuple)) {
						return !neq, true // err == nil is true, err != nil is false
					}
				}
			}
			return nil, false
		}}
		vis := explore(f, env)
		kept := false
		for _, k := range keep {
			if vis[k] {
				kept = true
			}
		}
		want := tc.d || tc.a
		c.ob("R-CHANGEPRUNE", fmt.Sprintf(label+":descendant=%v,ancestor=%v", tc.d, tc.a), keep[0].Pos(), kept == want,
			fmt.Sprintf("root kept=%v, expected %v (a root is kept iff it is on the finalised block's chain)", kept, want))
	}
}

// R-UNFINALIZED: the "an earlier change was skipped" refusal compares the child's ANNOUNCING number.
func (c *Ctx) ruleUnfinalizedAncestor() {
	const dir = "dot/state"
	f := c.fn(dir, "(*changeTree).findApplicableChange")
	if f == nil {
		return
	}
	c.doc("R-UNFINALIZED", "findApplicableChange: errUnfinalizedAncestor is returned exactly under `child.announcingHeader.Number <= finalised number && child announced by an ancestor-or-self of the finalised block` (Substrate compares the node's own number, not its effective number): the compared value is the announcingHeader.Number field of a child node, the other operand the finalised-number parameter")
	n := 0
	for _, g := range withAnon(f) {
		for _, r := range returnsOf(g) {
			if len(r.Results) < 2 {
				continue
			}
			isSentinel := false
			for v := range backwardSlice(resultOf(r, 1), nil) {
				if u, ok := v.(*ssa.UnOp); ok {
					if gl, ok := u.X.(*ssa.Global); ok && gl.Name() == "errUnfinalizedAncestor" {
						isSentinel = true
					}
				}
			}
			if !isSentinel {
				continue
			}
			n++
			okNum := false
			for _, fc := range factsAt(r.Block()) {
				bo, isBin := fc.cond.(*ssa.BinOp)
				if !isBin || !isCmp(bo.Op) || bo.Op == token.EQL || bo.Op == token.NEQ {
					continue
				}
				op := bo.Op
				if !fc.truth {
					op = negOp(op)
				}
				isAnnNum := func(v ssa.Value) bool {
					_, fv, ok := fieldLoad(stripConv(v))
					if !ok || fv == nil || fv.Name() != "Number" {
						return false
					}
					for x := range backwardSlice(v, nil) {
						if _, fv2, ok := fieldLoad(x); ok && fv2 != nil && fv2.Name() == "announcingHeader" {
							return true
						}
						if fa, ok := x.(*ssa.FieldAddr); ok && fieldVar(fa) != nil && fieldVar(fa).Name() == "announcingHeader" {
							return true
						}
					}
					return false
				}
				isParam := func(v ssa.Value) bool {
					for _, pi := range phiInputs(stripConv(v)) {
						if fvv, ok := pi.(*ssa.FreeVar); ok && fvv.Type().String() == "uint" {
							return true
						}
						if u, ok := pi.(*ssa.UnOp); ok {
							if _, ok := u.X.(*ssa.FreeVar); ok && u.Type().String() == "uint" {
								return true
							}
						}
						if p, ok := pi.(*ssa.Parameter); ok && p.Type().String() == "uint" {
							return true
						}
					}
					return false
				}
				if isAnnNum(bo.X) && isParam(bo.Y) && op == token.LEQ {
					okNum = true
				}
				if isParam(bo.X) && isAnnNum(bo.Y) && op == token.GEQ {
					okNum = true
				}
			}
			c.ob("R-UNFINALIZED", fmt.Sprintf("findApplicableChange:refusal#%d", n), r.Pos(), okNum,
				"the refusal must be taken when the child's announcing block number is <= the finalised number; comparing another quantity (e.g. the effective number) lets a later finalisation silently apply the parent change and re-root the tree while a skipped child announcement is pending")
		}
	}
	if n == 0 {
		c.ob("R-UNFINALIZED", "findApplicableChange:refusal", f.Pos(), false, "no return of errUnfinalizedAncestor found (anchor changed)")
	}
}

// R-VERIFIED/distinct: an authority is an equivocator only through two DIFFERENT verified precommits.
func (c *Ctx) ruleDistinctVotes() {
	f := c.fn(gDir, "verifyCommitMessageJustification")
	if f == nil {
		return
	}
	c.doc("R-VERIFIED/distinct", "verifyCommitMessageJustification: every `> 1` / `>= 2` test on a per-authority tally is on the size of a set keyed by the vote (len of a map[Vote]…): the same precommit listed twice is not an equivocation")
	n := 0
	eachInstr(f, func(_ *ssa.BasicBlock, _ int, in ssa.Instruction) {
		bo, ok := in.(*ssa.BinOp)
		if !ok || !isCmp(bo.Op) {
			return
		}
		k, isC := constInt(bo.Y)
		if !isC || !((bo.Op == token.GTR && k == 1) || (bo.Op == token.GEQ && k == 2)) {
			return
		}
		fromTally := false
		for v := range backwardSlice(bo.X, nil) {
			if fa, ok := v.(*ssa.FieldAddr); ok && strings.Contains(fa.X.Type().String(), "authorityTally") {
				fromTally = true
			}
		}
		if !fromTally {
			return
		}
		n++
		ok2 := false
		if l, isLen := lenOf(stripConv(bo.X)); isLen {
			if m, isMap := l.Type().Underlying().(*types.Map); isMap && strings.HasSuffix(m.Key().String(), "Vote") {
				ok2 = true
			}
		}
		c.ob("R-VERIFIED/distinct", fmt.Sprintf("verifyCommitMessageJustification:equivocator-test#%d", n), bo.Pos(), ok2,
			"the equivocator test counts entries instead of distinct votes: a commit listing one valid precommit twice turns its signer into an equivocator who supports every block")
	})
	if n == 0 {
		c.ob("R-VERIFIED/distinct", "verifyCommitMessageJustification:equivocator-test", f.Pos(), false, "no `> 1` test on the per-authority tally found (anchor changed)")
	}
}

// reachesAvoidingInstr: some path leads from instruction a to instruction b without executing `avoid`.
func reachesAvoidingInstr(a, b, avoid ssa.Instruction) bool {
	idx := func(in ssa.Instruction) int {
		for i, x := range in.Block().Instrs {
			if x == in {
				return i
			}
		}
		return -1
	}
	ba, bb, bv := a.Block(), b.Block(), avoid.Block()
	ia, ib, iv := idx(a), idx(b), idx(avoid)
	if ba == bb && ib > ia && !(bv == ba && iv > ia && iv < ib) {
		return true
	}
	if bv == ba && iv > ia {
		return false // avoid follows a in its own block
	}
	seen := map[int]bool{}
	stack := append([]*ssa.BasicBlock{}, ba.Succs...)
	for len(stack) > 0 {
		x := stack[len(stack)-1]
		stack = stack[:len(stack)-1]
		if seen[x.Index] {
			continue
		}
		seen[x.Index] = true
		if x == bb {
			if !(bv == bb && iv < ib) {
				return true
			}
			continue
		}
		if x == bv {
			continue
		}
		stack = append(stack, x.Succs...)
	}
	return false
}

// R-RECOMPUTE: every change of a round's vote state is followed by the recomputation of the derived state.
func (c *Ctx) ruleRoundRecompute() {
	sp := c.ssaPkg(fgDir)
	if sp == nil {
		return
	}
	c.doc("R-RECOMPUTE", "Round.importPrevote / importPrecommit: after every change of the vote state (VoteGraph.Insert of a new vote, context.Equivocated marking an equivocator — whose weight then counts for every block) every path to the successful return passes the prevote-GHOST recomputation (importPrevote) and Round.update(): the memoised GHOST / estimate / finalized / completable must be recomputed for equivocations as well as for new votes")
	for _, f := range allFuncs(c, sp) {
		if f.Parent() != nil || (f.Name() != "importPrevote" && f.Name() != "importPrecommit") || f.Signature.Recv() == nil || !strings.Contains(f.Signature.Recv().Type().String(), "Round[") {
			continue
		}
		var triggers, updates, ghosts []ssa.Instruction
		trigName := map[ssa.Instruction]string{}
		eachInstr(f, func(_ *ssa.BasicBlock, _ int, in ssa.Instruction) {
			call, ok := in.(*ssa.Call)
			if !ok {
				return
			}
			nm := ""
			if cal := call.Call.StaticCallee(); cal != nil {
				nm = cal.Name()
			} else if call.Call.IsInvoke() {
				nm = call.Call.Method.Name()
			}
			if i := strings.Index(nm, "["); i > 0 {
				nm = nm[:i] // instantiations of generic methods carry their type arguments in the name
			}
			switch nm {
			case "Insert", "Equivocated":
				triggers = append(triggers, in)
				trigName[in] = nm
			case "update":
				updates = append(updates, in)
			case "FindGHOST":
				ghosts = append(ghosts, in)
			}
		})
		// the weight test guarding FindGHOST stands for the recomputation (it is skipped below the threshold by design)
		var ghostGate []ssa.Instruction
		for _, g := range ghosts {
			for _, gd := range guardsOf(g.Block()) {
				if in, ok := gd.cond.(ssa.Instruction); ok {
					for v := range backwardSlice(gd.cond, nil) {
						if _, fv, ok := fieldLoad(v); ok && fv != nil && fv.Name() == "currentWeight" {
							ghostGate = append(ghostGate, in)
						}
					}
				}
			}
		}
		n := 0
		for _, tr := range triggers {
			for _, r := range returnsOf(f) {
				if len(r.Results) < 2 || !isNilConst(resultOf(r, 1)) {
					continue
				}
				if !instrReaches(tr, r) {
					continue
				}
				n++
				what := trigName[tr]
				okU := len(updates) > 0
				for _, u := range updates {
					if reachesAvoidingInstr(tr, r, u) {
						okU = false
					}
				}
				c.ob("R-RECOMPUTE", fmt.Sprintf("%s:%s->update#%d", f.Name(), what, n), tr.Pos(), okU, "a path from this state change to the successful return skips Round.update(): estimate/finalized/completable stay stale")
				if f.Name() == "importPrevote" {
					okG := len(ghostGate) > 0
					for _, g := range ghostGate {
						if reachesAvoidingInstr(tr, r, g) {
							okG = false
						}
					}
					c.ob("R-RECOMPUTE", fmt.Sprintf("%s:%s->prevote-ghost#%d", f.Name(), what, n), tr.Pos(), okG, "a path from this state change to the successful return skips the prevote-GHOST recomputation: after an equivocation (the equivocator now counts for every block) or a new vote the memoised GHOST is stale and update() derives the estimate from it")
				}
			}
		}
		if n == 0 {
			c.ob("R-RECOMPUTE", f.Name()+":triggers", f.Pos(), false, "no state change reaching a successful return found (anchor changed)")
		}
	}
}

// R-LOSTUPDATE: a struct copied out of shared storage and modified through the copy must be written back.
func (c *Ctx) ruleLostUpdate(rule, dir string) {
	sp := c.ssaPkg(dir)
	if sp == nil {
		return
	}
	c.doc(rule, "for every local struct variable initialised by copying an element of shared storage (a slice/array element, a map value, a field reached through a pointer): a store to one of the copy's fields is followed by a write-back of the copy (a store of its value to non-local storage, a call or return taking it, or its address escaping) or by a later read of that field — otherwise the update (e.g. a slot counter decrement) is silently lost")
	n := 0
	for _, f := range allFuncs(c, sp) {
		eachInstr(f, func(_ *ssa.BasicBlock, _ int, in ssa.Instruction) {
			al, ok := in.(*ssa.Alloc)
			if !ok {
				return
			}
			if _, isStruct := al.Type().Underlying().(*types.Pointer).Elem().Underlying().(*types.Struct); !isStruct {
				return
			}
			fromShared := false
			var fieldStores []*ssa.Store
			escaped := false
			var laterReads []ssa.Instruction
			var walkRefs func(v ssa.Value, isField bool)
			walkRefs = func(v ssa.Value, isField bool) {
				for _, r := range *v.Referrers() {
					switch x := r.(type) {
					case *ssa.Store:
						if x.Addr == v {
							if isField {
								fieldStores = append(fieldStores, x)
							} else if u, ok := x.Val.(*ssa.UnOp); ok && u.Op == token.MUL {
								switch u.X.(type) {
								case *ssa.IndexAddr, *ssa.FieldAddr:
									fromShared = true
								}
							} else if _, ok := x.Val.(*ssa.Lookup); ok {
								fromShared = true
							} else if ex, ok := x.Val.(*ssa.Extract); ok {
								if _, ok := ex.Tuple.(*ssa.Lookup); ok {
									fromShared = true
								}
							}
						} else {
							escaped = true // the address itself is stored somewhere
						}
					case *ssa.FieldAddr:
						walkRefs(x, true)
					case *ssa.IndexAddr:
						walkRefs(x, true)
					case *ssa.UnOp:
						if x.Op == token.MUL {
							if isField {
								laterReads = append(laterReads, x)
							} else {
								// whole-value load: written back / passed on if it has any use
								if len(*x.Referrers()) > 0 {
									escaped = true
								}
							}
						}
					case *ssa.DebugRef:
					default:
						escaped = true // call argument, closure binding, return, phi, ...
					}
				}
			}
			walkRefs(al, false)
			if !fromShared || len(fieldStores) == 0 {
				return
			}
			for _, st := range fieldStores {
				n++
				ok := escaped
				if !ok {
					for _, rd := range laterReads {
						if instrReaches(st, rd) {
							ok = true
						}
					}
				}
				name := al.Comment
				c.ob(rule, fmt.Sprintf("%s:copy-of-shared-struct:field-store#%d", relName(f.String()), n), st.Pos(), ok,
					fmt.Sprintf("%s modifies a field of `%s`, a local COPY of an element of shared storage, and never writes the copy back or reads the field again: the update is lost", shortFn(f), name))
			}
		})
	}
	c.ob(rule, "scan", token.NoPos, true, fmt.Sprintf("%d field stores through local copies of shared structs examined", n))
}

// R-DIRPRUNE: a by-hash response keeps the end of the chain the request starts at, in the requested direction.
func (c *Ctx) ruleDirPrune() {
	f := c.fn(syncDir, "(*SyncService).handleChainByHash")
	msp := c.ssaPkg(msgDir)
	if f == nil || msp == nil {
		return
	}
	c.doc("R-DIRPRUNE", "handleChainByHash, executed abstractly for both directions: BlockState.Range yields the chain oldest-first; every slices.Reverse flips the orientation; a pruning re-slice must drop the end AWAY from the requested start block (ascending request: start = oldest; descending request: start = newest) given the orientation at that point; the final orientation is oldest-first for ascending and newest-first for descending")
	asc, ok1 := constOf(msp, "Ascending")
	desc, ok2 := constOf(msp, "Descending")
	if !ok1 || !ok2 {
		c.unresolved("messages.Ascending/Descending")
		return
	}
	var dirParam ssa.Value
	for _, p := range f.Params {
		if strings.HasSuffix(p.Type().String(), "SyncDirection") {
			dirParam = p
		}
	}
	if dirParam == nil {
		c.unresolved("direction parameter of handleChainByHash")
		return
	}
	for _, tc := range []struct {
		name string
		val  int64
	}{{"ascending", asc}, {"descending", desc}} {
		env := &cmpEnv{extern: func(v ssa.Value) (any, bool) {
			if stripConv(v) == dirParam {
				return tc.val, true
			}
			return nil, false
		}}
		vis := explore(f, env)
		var revs, cuts []ssa.Instruction
		for in := range vis {
			switch x := in.(type) {
			case *ssa.Call:
				if strings.Contains(calleeName(&x.Call), "slices.Reverse") {
					revs = append(revs, in)
				}
			case *ssa.Slice:
				if strings.HasSuffix(x.X.Type().String(), "common.Hash") && (x.Low != nil || x.High != nil) {
					cuts = append(cuts, in)
				}
			}
		}
		wantFlips := 0
		if tc.name == "descending" {
			wantFlips = 1
		}
		c.ob("R-DIRPRUNE", "handleChainByHash:"+tc.name+":final-orientation", f.Pos(), len(revs)%2 == wantFlips,
			fmt.Sprintf("%d reversal(s) execute for a %s request; the response must be oldest-first for ascending and newest-first for descending", len(revs), tc.name))
		for i, cut := range cuts {
			sl := cut.(*ssa.Slice)
			flips := 0
			for _, r := range revs {
				if instrReaches(r, cut) {
					flips++
				}
			}
			startAtFront := (tc.name == "ascending") == (flips%2 == 0) // is the requested start block at index 0 here?
			dropsFront, dropsBack := sl.Low != nil, sl.High != nil
			ok := dropsFront != dropsBack && dropsBack == startAtFront
			c.ob("R-DIRPRUNE", fmt.Sprintf("handleChainByHash:%s:prune#%d", tc.name, i+1), cut.Pos(), ok,
				fmt.Sprintf("for a %s request the list is %s at this point, so the requested start block is at the %s; the re-slice drops the %s: the response would not start at the requested block",
					tc.name, map[bool]string{true: "oldest-first", false: "newest-first"}[flips%2 == 0], map[bool]string{true: "front", false: "back"}[startAtFront],
					map[bool]string{true: "front", false: "back"}[dropsFront]))
		}
		if len(cuts) == 0 {
			c.ob("R-DIRPRUNE", "handleChainByHash:"+tc.name+":prune", f.Pos(), false, "no pruning re-slice executes for this direction: the response can exceed the requested maximum (or the anchor changed)")
		}
	}
}

// R-WINDOW: the pruning loop of the equivocation store never deletes a slot the early-out still accepts.
func (c *Ctx) ruleSlotWindow() {
	f := c.fn("dot/state", "(*SlotState).CheckEquivocation")
	if f == nil {
		return
	}
	c.doc("R-WINDOW", "CheckEquivocation: the early-out rejects a slot when SaturatingSub(slotNow, slot) OP1 maxSlotCapacity; the pruning loop deletes slot s while s OP2 SaturatingSub(slotNow, maxSlotCapacity). The two must be complementary: (OP1, OP2) is (>, <) or (>=, <=), so that every slot still accepted for checking keeps its record")
	isCap := func(v ssa.Value) bool {
		for x := range backwardSlice(v, nil) {
			if u, ok := x.(*ssa.UnOp); ok {
				if g, ok := u.X.(*ssa.Global); ok && g.Name() == "maxSlotCapacity" {
					return true
				}
			}
			if k, ok := constInt(x); ok && k == 1000 {
				return true
			}
		}
		return false
	}
	satSub := func(v ssa.Value) *ssa.Call {
		cl, ok := stripConv(v).(*ssa.Call)
		if ok && strings.Contains(calleeName(&cl.Call), "SaturatingSub") {
			return cl
		}
		return nil
	}
	var op1, op2 token.Token
	eachInstr(f, func(b *ssa.BasicBlock, _ int, in ssa.Instruction) {
		bo, ok := in.(*ssa.BinOp)
		if !ok || !isCmp(bo.Op) {
			return
		}
		// early-out: SaturatingSub(slotNow, slot) OP cap
		if cl := satSub(bo.X); cl != nil && cl.Call.Args[0] == ssa.Value(f.Params[1]) && cl.Call.Args[1] == ssa.Value(f.Params[2]) && isCap(bo.Y) {
			op1 = bo.Op
		}
		// loop: s OP newFirst where newFirst = SaturatingSub(slotNow, cap) and s is a loop phi
		if _, isPhi := bo.X.(*ssa.Phi); isPhi {
			for _, y := range phiInputs(bo.Y) {
				if cl := satSub(y); cl != nil && cl.Call.Args[0] == ssa.Value(f.Params[1]) && isCap(cl.Call.Args[1]) {
					if iff := ifOf(b); iff != nil && iff.Cond == ssa.Value(bo) {
						op2 = bo.Op
					}
				}
			}
		}
	})
	ok := (op1 == token.GTR && op2 == token.LSS) || (op1 == token.GEQ && op2 == token.LEQ)
	c.ob("R-WINDOW", "CheckEquivocation:prune-bound-complements-early-out", f.Pos(), ok,
		fmt.Sprintf("early-out: age %s capacity; deletion loop: s %s slotNow-capacity — a slot that is still accepted for checking (age == capacity) must not lose its record, otherwise a conflicting header at that slot yields no proof", op1, op2))
}

// R-OVERLAY/prefixkeys: inside a transaction, a prefix clear collects EVERY base-state key starting with the prefix.
func (c *Ctx) rulePrefixKeys() {
	sp := c.ssaPkg(rtStorageDir)
	if sp == nil {
		return
	}
	c.doc("R-OVERLAY/prefixkeys", "lib/runtime/storage: every loop that collects the base-state keys of a prefix from PrefixedIter(prefix).NextKey() (a) continues only while the key is non-nil (bytes.HasPrefix(nil, prefix) is true for the empty prefix: the loop would never end) and (b) is accompanied, in the same function, by a lookup of the key EQUAL to the prefix on the same trie (the iterator is positioned at the prefix and yields only the keys after it)")
	n := 0
	for _, f := range allFuncs(c, sp) {
		eachInstr(f, func(_ *ssa.BasicBlock, _ int, in ssa.Instruction) {
			pc, ok := in.(*ssa.Call)
			if !ok || !pc.Call.IsInvoke() || pc.Call.Method.Name() != "PrefixedIter" || len(pc.Call.Args) != 1 {
				return
			}
			prefix := pc.Call.Args[0]
			// NextKey calls on this iterator whose result is tested with HasPrefix(key, prefix)
			var keyVals []ssa.Value
			collect := false
			for _, r := range *pc.Referrers() {
				nk, ok := r.(*ssa.Call)
				if !ok || !nk.Call.IsInvoke() || nk.Call.Method.Name() != "NextKey" {
					continue
				}
				keyVals = append(keyVals, nk)
			}
			if len(keyVals) == 0 {
				return // NextKeyFunc idiom (next key on state), not a prefix collection
			}
			var hp *ssa.Call
			eachInstr(f, func(_ *ssa.BasicBlock, _ int, in2 ssa.Instruction) {
				if cl, ok := in2.(*ssa.Call); ok && calleeName(&cl.Call) == "bytes.HasPrefix" && sameValue(cl.Call.Args[1], prefix) {
					for _, kv := range phiInputs(cl.Call.Args[0]) {
						for _, k := range keyVals {
							if kv == k {
								hp, collect = cl, true
							}
						}
					}
				}
			})
			if !collect {
				return
			}
			n++
			// (a) the loop body is guarded by key != nil
			nilGuard := false
			for _, ref := range *hp.Referrers() {
				_ = ref
			}
			eachInstr(f, func(b *ssa.BasicBlock, _ int, in2 ssa.Instruction) {
				cl, ok := in2.(*ssa.Call)
				if !ok {
					return
				}
				if bi, ok := cl.Call.Value.(*ssa.Builtin); !ok || bi.Name() != "append" {
					return
				}
				uses := false
				for v := range backwardSlice(cl, func(v ssa.Value) bool { _, isPhi := v.(*ssa.Phi); return isPhi && v.Type().String() != "[]byte" }) {
					for _, k := range keyVals {
						if v == k {
							uses = true
						}
					}
				}
				if !uses {
					return
				}
				for _, fc := range factsAt(b) {
					if e, neq, isN := nilCmp(fc.cond); isN && fc.truth == neq {
						for _, kv := range phiInputs(e) {
							for _, k := range keyVals {
								if kv == k {
									nilGuard = true
								}
							}
						}
					}
				}
			})
			c.ob("R-OVERLAY/prefixkeys", fmt.Sprintf("%s:collect#%d:stops-at-exhausted-iterator", relName(f.String()), n), pc.Pos(), nilGuard,
				shortFn(f)+" keeps iterating while bytes.HasPrefix(key, prefix) only: once the iterator is exhausted NextKey returns nil and HasPrefix(nil, empty prefix) is true — clearing the empty prefix inside a transaction never terminates")
			// (b) the key equal to the prefix is looked up on the same trie
			exact := false
			eachInstr(f, func(_ *ssa.BasicBlock, _ int, in2 ssa.Instruction) {
				if cl, ok := in2.(*ssa.Call); ok && cl.Call.IsInvoke() && cl.Call.Method.Name() == "Get" && len(cl.Call.Args) == 1 &&
					sameValue(cl.Call.Args[0], prefix) && sameValue(cl.Call.Value, pc.Call.Value) {
					exact = true
				}
			})
			c.ob("R-OVERLAY/prefixkeys", fmt.Sprintf("%s:collect#%d:includes-key-equal-to-prefix", relName(f.String()), n), pc.Pos(), exact,
				shortFn(f)+" collects the keys to clear from an iterator positioned AT the prefix, which yields only the keys after it: a base-state key equal to the prefix survives the prefix clear of a transaction")
		})
	}
	if n == 0 {
		c.ob("R-OVERLAY/prefixkeys", "collect", token.NoPos, false, "no prefix-collection loop found in lib/runtime/storage (anchor changed)")
	}
}

// R-FORMULA: the floating-point expression of the BABE threshold is Substrate's, operation for operation.
func (c *Ctx) ruleThresholdExpr() {
	f := c.fn("lib/babe", "CalculateThreshold")
	if f == nil {
		return
	}
	c.doc("R-FORMULA", "CalculateThreshold: the float64 handed to big.Rat.SetFloat64 is, on every path, the operation tree 1 - pow(1 - f64(C1)/f64(C2), 1/f64(numAuths)) (Substrate: 1 - (1 - c).powf(1/n)); a path-dependent or re-associated expression rounds differently for some (c, n) and moves the threshold; the scaling constant is 1 << 128")
	var show func(v ssa.Value, d int) string
	show = func(v ssa.Value, d int) string {
		if d > 12 {
			return "…"
		}
		switch x := v.(type) {
		case *ssa.Const:
			if x.Value != nil {
				return x.Value.ExactString()
			}
			return "nil"
		case *ssa.Parameter:
			return x.Name()
		case *ssa.Convert:
			return "f64(" + show(x.X, d+1) + ")"
		case *ssa.ChangeType:
			return show(x.X, d+1)
		case *ssa.BinOp:
			return "(" + show(x.X, d+1) + " " + x.Op.String() + " " + show(x.Y, d+1) + ")"
		case *ssa.Call:
			nm := calleeName(&x.Call)
			var args []string
			for _, a := range x.Call.Args {
				args = append(args, show(a, d+1))
			}
			return nm + "(" + strings.Join(args, ", ") + ")"
		case *ssa.Phi:
			var e []string
			for _, a := range x.Edges {
				e = append(e, show(a, d+1))
			}
			return "PATH-DEPENDENT{" + strings.Join(e, " | ") + "}"
		}
		return fmt.Sprintf("?%T", v)
	}
	found := false
	eachInstr(f, func(_ *ssa.BasicBlock, _ int, in ssa.Instruction) {
		call, ok := in.(*ssa.Call)
		if !ok || calleeName(&call.Call) != "(*math/big.Rat).SetFloat64" {
			return
		}
		found = true
		got := show(call.Call.Args[1], 0)
		// parameter names are positional
		p0, p1, p2 := f.Params[0].Name(), f.Params[1].Name(), f.Params[2].Name()
		want := fmt.Sprintf("(1 - math.Pow((1 - (f64(%s) / f64(%s))), (1 / f64(%s))))", p0, p1, p2)
		c.ob("R-FORMULA", "CalculateThreshold:p=1-(1-c)^(1/n)", call.Pos(), got == want, "probability expression is "+got+", specification "+want)
	})
	if !found {
		c.ob("R-FORMULA", "CalculateThreshold:p", f.Pos(), false, "big.Rat.SetFloat64 is not called (anchor changed)")
	}
	shifts := map[int64]bool{}
	eachInstr(f, func(_ *ssa.BasicBlock, _ int, in ssa.Instruction) {
		if call, ok := in.(*ssa.Call); ok && calleeName(&call.Call) == "(*math/big.Int).Lsh" {
			if k, ok := constInt(call.Call.Args[2]); ok {
				shifts[k] = true
			}
		}
	})
	c.ob("R-FORMULA", "CalculateThreshold:scale=2^128", f.Pos(), shifts[128] && len(shifts) == 1, fmt.Sprintf("the probability is scaled by 1 << 128 (shifts found: %v)", shifts))
}

// R-STAGEMAPS: code selected by the vote stage touches that stage's containers only.
func (c *Ctx) ruleStageMaps() {
	sp := c.ssaPkg(gDir)
	if sp == nil {
		return
	}
	c.doc("R-STAGEMAPS", "lib/grandpa: in every branch selected by comparing a Subround with prevote/precommit, the Service containers touched belong to that stage (prevote, primaryProposal: prevotes, pvEquivocations; precommit: precommits, pcEquivocations). A vote removed from, stored into or counted from the other stage's container makes a voter count twice or not at all in the tally the finalisation gate compares with the threshold")
	family := map[string]string{"prevotes": "prevote", "pvEquivocations": "prevote", "precommits": "precommit", "pcEquivocations": "precommit"}
	stageOf := func(v ssa.Value) string {
		if u, ok := v.(*ssa.UnOp); ok && u.Op == token.MUL {
			if g, ok := u.X.(*ssa.Global); ok {
				switch g.Name() {
				case "prevote", "primaryProposal":
					return "prevote"
				case "precommit":
					return "precommit"
				}
			}
		}
		return ""
	}
	n := 0
	perFn := map[*ssa.Function]int{}
	for _, f := range allFuncs(c, sp) {
		for _, b := range f.Blocks {
			iff := ifOf(b)
			if iff == nil {
				continue
			}
			bo, ok := iff.Cond.(*ssa.BinOp)
			if !ok || (bo.Op != token.EQL && bo.Op != token.NEQ) || !strings.HasSuffix(bo.X.Type().String(), "Subround") {
				continue
			}
			st := stageOf(bo.Y)
			if st == "" {
				st = stageOf(bo.X)
			}
			if st == "" {
				continue
			}
			si := 0
			if bo.Op == token.NEQ {
				si = 1
			}
			// blocks reachable only through the "is this stage" edge, up to the next stage test or the join
			var wrong []string
			touched := 0
			for _, tb := range f.Blocks {
				if tb == b || !edgeDominates(b, si, tb) {
					continue
				}
				for _, in := range tb.Instrs {
					fa, ok := in.(*ssa.FieldAddr)
					if !ok || fieldVar(fa) == nil {
						continue
					}
					fam, known := family[fieldVar(fa).Name()]
					if !known || !strings.HasSuffix(namedType(fa.X.Type()), "grandpa.Service") {
						continue
					}
					touched++
					if fam != st {
						wrong = append(wrong, fieldVar(fa).Name()+" at "+c.pos(fa.Pos()))
					}
				}
			}
			if touched == 0 {
				continue
			}
			n++
			perFn[f]++
			c.ob("R-STAGEMAPS", fmt.Sprintf("%s:%s-branch#%d", relName(f.String()), st, perFn[f]), iff.Pos(), len(wrong) == 0,
				fmt.Sprintf("the %s branch of %s touches the other stage's container: %s", st, shortFn(f), strings.Join(wrong, ", ")))
		}
	}
	if n == 0 {
		c.ob("R-STAGEMAPS", "branches", token.NoPos, false, "no stage-selected branch touching a vote container found (anchor changed)")
	}
}

// loopsOf lists the natural loops of f as block sets (one per back edge).
func loopsOf(f *ssa.Function) []map[*ssa.BasicBlock]bool {
	var out []map[*ssa.BasicBlock]bool
	for _, d := range f.Blocks {
		for _, p := range d.Preds {
			if !d.Dominates(p) {
				continue
			}
			body := map[*ssa.BasicBlock]bool{d: true}
			stack := []*ssa.BasicBlock{p}
			for len(stack) > 0 {
				x := stack[len(stack)-1]
				stack = stack[:len(stack)-1]
				if body[x] {
					continue
				}
				body[x] = true
				stack = append(stack, x.Preds...)
			}
			out = append(out, body)
		}
	}
	return out
}

// R-BIGSIGN: an unsigned machine word never reaches big.NewInt through a conversion to int64 that can wrap.
func (c *Ctx) ruleBigSign(rule, dir string) {
	sp := c.ssaPkg(dir)
	if sp == nil {
		return
	}
	c.doc(rule, dir+": every conversion to a signed integer type that feeds big.NewInt (or big.Int.SetInt64) has an operand whose range — by its type or by interval analysis — fits the signed type: int64(uint64 value) turns 2^63..2^64-1 into negative numbers, so a compact big integer of that size would decode to a different value")
	n := 0
	for _, f := range allFuncs(c, sp) {
		eachInstr(f, func(_ *ssa.BasicBlock, _ int, in ssa.Instruction) {
			call, ok := in.(*ssa.Call)
			if !ok {
				return
			}
			nm := calleeName(&call.Call)
			var arg ssa.Value
			switch nm {
			case "math/big.NewInt":
				arg = call.Call.Args[0]
			case "(*math/big.Int).SetInt64":
				arg = call.Call.Args[1]
			default:
				return
			}
			for _, v := range phiInputs(arg) {
				cv, ok := v.(*ssa.Convert)
				if !ok {
					continue
				}
				dst, okD := typeRange(cv.Type())
				if !okD {
					continue
				}
				n++
				src := newIvlEval().of(cv.X)
				c.ob(rule, fmt.Sprintf("%s:%s<-convert#%d", relName(f.String()), strings.TrimPrefix(nm, "math/"), n), cv.Pos(), src.within(dst),
					fmt.Sprintf("%s converts a value of range [%s, %s] (%s) to %s before handing it to %s: values above the signed maximum become negative", shortFn(f), src.lo, src.hi, cv.X.Type(), cv.Type(), nm))
			}
		})
	}
	c.ob(rule, "scan", token.NoPos, true, fmt.Sprintf("%d signed conversions feeding big.NewInt/SetInt64 examined", n))
}

// R-FRESHELEM: each element of a decoded sequence is decoded into its own fresh destination.
func (c *Ctx) ruleFreshElem(rule, dir string) {
	sp := c.ssaPkg(dir)
	if sp == nil {
		return
	}
	c.doc(rule, dir+": inside a decoding loop the destination handed to decodeState.unmarshal is created in that loop iteration (reflect.New(...).Elem(), or the i-th element of the result) — a destination allocated once outside the loop still holds the previous element: optional fields left untouched by a None inherit the previous Some and all pointers alias one pointee")
	n := 0
	perFn := map[*ssa.Function]int{}
	for _, f := range allFuncs(c, sp) {
		loops := loopsOf(f)
		if len(loops) == 0 {
			continue
		}
		eachInstr(f, func(b *ssa.BasicBlock, _ int, in ssa.Instruction) {
			call, ok := in.(*ssa.Call)
			if !ok || call.Call.StaticCallee() == nil || call.Call.StaticCallee().Name() != "unmarshal" || len(call.Call.Args) < 2 {
				return
			}
			var loop map[*ssa.BasicBlock]bool
			for _, l := range loops {
				if l[b] && (loop == nil || len(l) < len(loop)) {
					loop = l // innermost
				}
			}
			if loop == nil {
				return
			}
			n++
			perFn[f]++
			// the reflect.Value argument must be produced inside the loop
			dst := call.Call.Args[1]
			inside := false
			for _, v := range phiInputs(dst) {
				if vi, ok := v.(ssa.Instruction); ok && loop[vi.Block()] {
					inside = true
				}
			}
			c.ob(rule, fmt.Sprintf("%s:element-destination#%d", relName(f.String()), perFn[f]), call.Pos(), inside,
				shortFn(f)+" decodes every element of the sequence into ONE destination created before the loop: whatever an element's decoder leaves untouched (a None option, unset struct fields) keeps the previous element's content, and pointer-typed elements alias each other")
		})
	}
	if n == 0 {
		c.ob(rule, "loops", token.NoPos, false, "no decoding loop calling unmarshal found (anchor changed)")
	}
}

// R-TRIMZERO: Uint128.Bytes drops a byte of the 16-byte image only after testing that this byte is zero.
func (c *Ctx) ruleTrimZero() {
	root := c.fn("pkg/scale", "(*Uint128).Bytes")
	if root == nil {
		return
	}
	c.doc("R-TRIMZERO", "Uint128.Bytes and the package helpers it calls: every re-slice that shortens a byte slice is control-dependent on a comparison of a byte of that slice with zero (the byte being dropped): a length computed any other way can cut non-zero bytes (e.g. the low half's leading zeros while the high half is non-zero)")
	seen := map[*ssa.Function]bool{}
	var order []*ssa.Function
	var visit func(f *ssa.Function)
	visit = func(f *ssa.Function) {
		if f == nil || seen[f] || len(f.Blocks) == 0 || f.Pkg != root.Pkg {
			return
		}
		seen[f] = true
		order = append(order, f)
		eachInstr(f, func(_ *ssa.BasicBlock, _ int, in ssa.Instruction) {
			if call, ok := in.(*ssa.Call); ok {
				visit(call.Call.StaticCallee())
			}
		})
	}
	visit(root)
	n := 0
	for _, f := range order {
		per := 0
		eachInstr(f, func(b *ssa.BasicBlock, _ int, in ssa.Instruction) {
			sl, ok := in.(*ssa.Slice)
			if !ok || (sl.Low == nil && sl.High == nil) || sl.X.Type().String() != "[]byte" {
				return
			}
			constBound := func(v ssa.Value) bool {
				if v == nil {
					return true
				}
				_, isC := constInt(v)
				return isC
			}
			if constBound(sl.Low) && constBound(sl.High) {
				return // fixed windows of the 16-byte image (the two halves), not a trim
			}
			n++
			per++
			guarded := false
			for _, fc := range factsAt(b) {
				subj, op, k, isCmp := cmpWithConst(fc.cond)
				if !isCmp || k != 0 {
					continue
				}
				o := op
				if !fc.truth {
					o = negOp(o)
				}
				if o != token.EQL {
					continue
				}
				if u, ok := stripConv(subj).(*ssa.UnOp); ok && u.Op == token.MUL {
					if _, ok := u.X.(*ssa.IndexAddr); ok {
						guarded = true
					}
				}
			}
			c.ob("R-TRIMZERO", fmt.Sprintf("%s:drop#%d", shortFn(f), per), sl.Pos(), guarded, shortFn(f)+" shortens the byte image on a path where the dropped byte was not compared with zero: significant bytes can be cut, Bytes()/String()/SCALE encoding then denote a smaller number")
		})
	}
	if n == 0 {
		c.ob("R-TRIMZERO", "Uint128.Bytes:drop", root.Pos(), false, "no trimming re-slice reachable from Uint128.Bytes (anchor changed)")
	}
}

// R-CLAMP32: a block number is narrowed to 32 bits only by saturating at exactly 2^32-1.
func (c *Ctx) ruleFromBlockClamp() {
	f := c.fn(msgDir, "(*FromBlock).Encode")
	if f == nil {
		return
	}
	c.doc("R-CLAMP32", "FromBlock.Encode: the value converted to uint32 has the interval [0, 2^32-1] exactly — every number below 2^32 is encoded as itself and larger ones saturate at 2^32-1 (a smaller bound rewrites valid block numbers, no bound wraps)")
	n := 0
	eachInstr(f, func(_ *ssa.BasicBlock, _ int, in ssa.Instruction) {
		cv, ok := in.(*ssa.Convert)
		if !ok || cv.Type().String() != "uint32" {
			return
		}
		n++
		maxU32 := new(big.Int).SetUint64(1<<32 - 1)
		// shapes: phi{raw | const K} with the raw edge guarded by raw <= K, or min(raw, K)
		bound := new(big.Int).SetInt64(-1)
		identity := false
		for _, v := range phiInputs(cv.X) {
			v = stripConv(v)
			if k, ok := v.(*ssa.Const); ok && k.Value != nil {
				if kv, ok := constant.Uint64Val(constant.ToInt(k.Value)); ok {
					if b := new(big.Int).SetUint64(kv); b.Cmp(bound) > 0 {
						bound = b
					}
				}
				continue
			}
			if call, ok := v.(*ssa.Call); ok {
				if bi, ok := call.Call.Value.(*ssa.Builtin); ok && bi.Name() == "min" {
					for _, a := range call.Call.Args {
						if k, ok := stripConv(a).(*ssa.Const); ok && k.Value != nil {
							if kv, ok := constant.Uint64Val(constant.ToInt(k.Value)); ok {
								bound = new(big.Int).SetUint64(kv)
							}
						} else {
							identity = true
						}
					}
					continue
				}
			}
			identity = true // the raw value itself
		}
		r := newIvlEval().of(cv.X)
		ok2 := identity && bound.Cmp(maxU32) == 0
		c.ob("R-CLAMP32", fmt.Sprintf("FromBlock.Encode:to-uint32#%d", n), cv.Pos(), ok2,
			fmt.Sprintf("the block number is narrowed to uint32 with saturation bound %s (must be %s) and interval [%s, %s]", bound, maxU32, r.lo, r.hi))
	})
	if n == 0 {
		c.ob("R-CLAMP32", "FromBlock.Encode:to-uint32", f.Pos(), false, "no conversion to uint32 found (anchor changed)")
	}
}

// R-STOREAFTERADD: a block becomes retrievable only after the block tree accepted it.
func (c *Ctx) ruleStoreAfterAdd() {
	f := c.fn("dot/state", "(*BlockState).AddBlockWithArrivalTime")
	if f == nil {
		return
	}
	c.doc("R-STOREAFTERADD", "BlockState.AddBlockWithArrivalTime: the block is put into the unfinalised-block map only on the success edge of BlockTree.AddBlock — a block the tree rejects (unknown or pruned parent, duplicate) must not stay retrievable, and pruning only removes what the tree reports")
	var add *ssa.Call
	eachInstr(f, func(_ *ssa.BasicBlock, _ int, in ssa.Instruction) {
		if cl, ok := in.(*ssa.Call); ok {
			nm := ""
			if cl.Call.IsInvoke() {
				nm = cl.Call.Method.Name()
			} else if cal := cl.Call.StaticCallee(); cal != nil {
				nm = cal.Name()
			}
			if nm == "AddBlock" {
				add = cl
			}
		}
	})
	n := 0
	eachInstr(f, func(b *ssa.BasicBlock, _ int, in ssa.Instruction) {
		cl, ok := in.(*ssa.Call)
		if !ok || cl.Call.StaticCallee() == nil || cl.Call.StaticCallee().Name() != "store" || len(cl.Call.Args) == 0 {
			return
		}
		if _, fv, ok := fieldLoad(cl.Call.Args[0]); !ok || fv == nil || fv.Name() != "unfinalisedBlocks" {
			return
		}
		n++
		c.ob("R-STOREAFTERADD", fmt.Sprintf("AddBlockWithArrivalTime:store#%d", n), cl.Pos(), add != nil && guardedBy(b, errSuccessGuard(add)),
			"the block is stored in the unfinalised-block map before (or regardless of whether) the block tree accepted it: a rejected block — e.g. one whose parent is on a pruned fork — stays retrievable by hash and is never removed by finalisation")
	})
	if n == 0 {
		c.ob("R-STOREAFTERADD", "AddBlockWithArrivalTime:store", f.Pos(), false, "unfinalisedBlocks.store is not called (anchor changed)")
	}
}

// R-EQVREMOVE: marking a voter as equivocator always removes its direct vote.
func (c *Ctx) ruleEquivocatorRemoved() {
	f := c.fn(gDir, "(*Service).checkAndReportEquivocation")
	if f == nil {
		return
	}
	c.doc("R-EQVREMOVE", "checkAndReportEquivocation: every path from the insertion of a voter into the equivocation map to any return passes deleteVote(voter, stage): a voter that is both in the equivocation map and still holds a direct vote is counted twice by getTotalVotesForBlock")
	var del []ssa.Instruction
	var marks []ssa.Instruction
	eachInstr(f, func(_ *ssa.BasicBlock, _ int, in ssa.Instruction) {
		if cl, ok := in.(*ssa.Call); ok && cl.Call.StaticCallee() != nil && cl.Call.StaticCallee().Name() == "deleteVote" {
			del = append(del, in)
		}
		if mu, ok := in.(*ssa.MapUpdate); ok && strings.Contains(mu.Map.Type().String(), "SignedVote") {
			// only the insertion of a NEW equivocator (two votes), not the append to an existing voter's list
			extend := false
			for v := range backwardSlice(mu.Value, nil) {
				if lk, ok := v.(*ssa.Lookup); ok && lk.X == mu.Map {
					extend = true
				}
			}
			if !extend {
				marks = append(marks, in)
			}
		}
	})
	n := 0
	for _, m := range marks {
		n++
		ok := len(del) > 0
		for _, r := range returnsOf(f) {
			if !instrReaches(m, r) {
				continue
			}
			escapes := true
			for _, d := range del {
				if !reachesAvoidingInstr(m, r, d) {
					escapes = false
				}
				// a deleteVote that already happened before the mark on every path also counts
				if instrDominates(d, m) {
					escapes = false
				}
			}
			if escapes {
				ok = false
			}
		}
		c.ob("R-EQVREMOVE", fmt.Sprintf("checkAndReportEquivocation:mark#%d", n), m.Pos(), ok,
			"a path from recording the voter as equivocator to a return skips deleteVote (e.g. the early return when reporting to the runtime fails): the voter then counts as a direct vote AND as an equivocator")
	}
	if n == 0 {
		c.ob("R-EQVREMOVE", "checkAndReportEquivocation:mark", f.Pos(), false, "no insertion into the equivocation map found (anchor changed)")
	}
}

// R-FORCEDFILTER: a block's scheduled change is dropped whenever the block also carries a forced change.
func (c *Ctx) ruleForcedFilter() {
	f := c.fn("dot/digest", "checkForGRANDPAForcedChanges")
	if f == nil {
		return
	}
	c.doc("R-FORCEDFILTER", "checkForGRANDPAForcedChanges: the slice returned when a forced change is present never receives a GrandpaScheduledChange digest — no append in the GrandpaScheduledChange case flows to a returned slice — whatever the order of the two items in the header")
	n := 0
	eachInstr(f, func(b *ssa.BasicBlock, _ int, in ssa.Instruction) {
		ta, ok := in.(*ssa.TypeAssert)
		if !ok || !strings.HasSuffix(ta.AssertedType.String(), "GrandpaScheduledChange") {
			return
		}
		n++
		// the case body: blocks dominated by the ok-edge of this assertion
		var okIf *ssa.If
		var okIdx int
		for _, r := range *ta.Referrers() {
			if ex, isEx := r.(*ssa.Extract); isEx && ex.Index == 1 {
				for _, r2 := range *ex.Referrers() {
					if iff, isIf := r2.(*ssa.If); isIf {
						okIf, okIdx = iff, 0
					}
				}
			}
		}
		bad := ""
		if okIf != nil {
			for _, tb := range f.Blocks {
				if !edgeDominates(okIf.Block(), okIdx, tb) {
					continue
				}
				for _, in2 := range tb.Instrs {
					cl, isCall := in2.(*ssa.Call)
					if !isCall {
						continue
					}
					if bi, isB := cl.Call.Value.(*ssa.Builtin); !isB || bi.Name() != "append" {
						continue
					}
					// does this append reach a returned value?
					for _, r := range returnsOf(f) {
						for v := range backwardSlice(resultOf(r, 0), nil) {
							if v == ssa.Value(cl) {
								bad = c.pos(cl.Pos())
							}
						}
					}
				}
			}
		}
		c.ob("R-FORCEDFILTER", fmt.Sprintf("checkForGRANDPAForcedChanges:scheduled-case#%d", n), ta.Pos(), okIf != nil && bad == "",
			"the GrandpaScheduledChange case appends the digest (at "+bad+") to a slice that is returned: a scheduled change listed before a forced change in the same header survives, and both changes are imported")
	})
	if n == 0 {
		c.ob("R-FORCEDFILTER", "checkForGRANDPAForcedChanges:scheduled-case", f.Pos(), false, "no GrandpaScheduledChange case found (anchor changed)")
	}
}

// R-RECID: the secp256k1 recovery byte is normalised exactly as the reference does (v >= 27 -> v - 27, nothing else).
func (c *Ctx) ruleRecoveryID() {
	const dir = "lib/crypto/secp256k1"
	c.doc("R-RECID", "RecoverPublicKey / RecoverPublicKeyCompressed: the only write to the recovery byte sig[64] stores sig[64] - 27 and is taken exactly on the edge sig[64] >= 27 (Substrate: `if v > 26 { v - 27 } else { v }`); any other folding (e.g. v % 27) maps invalid recovery ids onto valid ones and recovers a key where the reference rejects the signature")
	for _, name := range []string{"RecoverPublicKey", "RecoverPublicKeyCompressed"} {
		f := c.fn(dir, name)
		if f == nil {
			continue
		}
		sig := ssa.Value(f.Params[1])
		n := 0
		eachInstr(f, func(b *ssa.BasicBlock, _ int, in ssa.Instruction) {
			st, ok := in.(*ssa.Store)
			if !ok {
				return
			}
			ia, ok := st.Addr.(*ssa.IndexAddr)
			if !ok || ia.X != sig {
				return
			}
			n++
			idx, isC := constInt(ia.Index)
			isRecByte := func(v ssa.Value) bool {
				u, ok := stripConv(v).(*ssa.UnOp)
				if !ok || u.Op != token.MUL {
					return false
				}
				ia2, ok := u.X.(*ssa.IndexAddr)
				if !ok || ia2.X != sig {
					return false
				}
				k, ok := constInt(ia2.Index)
				return ok && k == 64
			}
			okVal := false
			if bo, ok := st.Val.(*ssa.BinOp); ok && bo.Op == token.SUB && isRecByte(bo.X) {
				if k, ok := constInt(bo.Y); ok && k == 27 {
					okVal = true
				}
			}
			okGuard := false
			for _, fc := range factsAt(b) {
				subj, op, k, isCmp := cmpWithConst(fc.cond)
				if !isCmp || !isRecByte(subj) {
					continue
				}
				if !fc.truth {
					op = negOp(op)
				}
				if (op == token.GEQ && k == 27) || (op == token.GTR && k == 26) {
					okGuard = true
				}
			}
			c.ob("R-RECID", fmt.Sprintf("%s:write-to-signature#%d", name, n), st.Pos(), isC && idx == 64 && okVal && okGuard,
				name+" rewrites the signature's recovery byte other than by `if v >= 27 { v -= 27 }`: recovery ids the reference rejects (BadV) are folded onto valid ones")
		})
		c.ob("R-RECID", name+":normalises-recovery-byte", f.Pos(), n == 1, fmt.Sprintf("%d writes to the signature buffer (exactly one expected: the recovery byte)", n))
	}
}

// R-PAGECURSOR: the paging cursor of state_getKeysPaged is the client's after-key and nothing else.
func (c *Ctx) rulePageCursor() {
	f := c.fn("dot/rpc/modules", "(*StateModule).GetKeysPaged")
	if f == nil {
		return
	}
	c.doc("R-PAGECURSOR", "StateModule.GetKeysPaged: a listed key is skipped only by the strict comparison `key > cursor`, the cursor derives from the request's AfterKey alone (never from the prefix), and the function does not rewrite AfterKey: with no after-key every key with the prefix — including the key EQUAL to the prefix — is on the first page")
	stores := 0
	eachInstr(f, func(_ *ssa.BasicBlock, _ int, in ssa.Instruction) {
		if st, ok := in.(*ssa.Store); ok {
			if fa, ok := st.Addr.(*ssa.FieldAddr); ok && fieldVar(fa) != nil && fieldVar(fa).Name() == "AfterKey" {
				stores++
			}
		}
	})
	c.ob("R-PAGECURSOR", "GetKeysPaged:after-key-not-rewritten", f.Pos(), stores == 0, fmt.Sprintf("GetKeysPaged assigns the request's AfterKey (%d stores): defaulting it to the prefix makes the strict cursor comparison drop the key equal to the prefix", stores))
	// no page is answered before the state was asked for its keys
	var listing *ssa.Call
	eachInstr(f, func(_ *ssa.BasicBlock, _ int, in ssa.Instruction) {
		if call, ok := in.(*ssa.Call); ok && call.Call.IsInvoke() && call.Call.Method.Name() == "GetKeysWithPrefix" {
			listing = call
		}
	})
	early := ""
	if listing != nil {
		for _, r := range returnsOf(f) {
			if len(r.Results) == 1 && isNilConst(resultOf(r, 0)) && !instrDominates(listing, r) {
				early = c.pos(r.Pos())
			}
		}
	}
	c.ob("R-PAGECURSOR", "GetKeysPaged:no-page-before-the-listing", f.Pos(), listing != nil && early == "", "a successful (empty) page is returned at "+early+" without the keys of the state having been listed: every later page of the enumeration is lost")
	n := 0
	eachInstr(f, func(_ *ssa.BasicBlock, _ int, in ssa.Instruction) {
		call, ok := in.(*ssa.Call)
		if !ok {
			return
		}
		nm := calleeName(&call.Call)
		if nm != "strings.Compare" && nm != "bytes.Compare" {
			return
		}
		n++
		fromAfter, fromPrefix := false, false
		for _, a := range call.Call.Args {
			aAfter, aPrefix := false, false
			for v := range backwardSlice(a, nil) {
				if _, fv, ok := fieldLoad(v); ok && fv != nil {
					switch fv.Name() {
					case "AfterKey":
						aAfter = true
					case "Prefix":
						aPrefix = true
					}
				}
			}
			if aAfter { // this operand is the cursor (the other one is the listed key, which of course depends on the prefix)
				fromAfter = true
				fromPrefix = fromPrefix || aPrefix
			}
		}
		strict := false
		for _, r := range *call.Referrers() {
			if bo, ok := r.(*ssa.BinOp); ok {
				k, isC := constInt(bo.Y)
				if isC && ((bo.Op == token.EQL && k == 1) || (bo.Op == token.GTR && k == 0)) {
					strict = true
				}
			}
		}
		c.ob("R-PAGECURSOR", fmt.Sprintf("GetKeysPaged:cursor-comparison#%d", n), call.Pos(), fromAfter && !fromPrefix && strict,
			fmt.Sprintf("the cursor comparison must be `key > AfterKey` (derived from AfterKey=%v, from Prefix=%v, strict=%v)", fromAfter, fromPrefix, strict))
	})
	// operator form: fKey > req.AfterKey on strings
	eachInstr(f, func(_ *ssa.BasicBlock, _ int, in ssa.Instruction) {
		bo, ok := in.(*ssa.BinOp)
		if !ok || !isCmp(bo.Op) {
			return
		}
		if bt, isB := bo.X.Type().Underlying().(*types.Basic); !isB || bt.Info()&types.IsString == 0 {
			return
		}
		derives := func(v ssa.Value) (after, prefix bool) {
			for w := range backwardSlice(v, nil) {
				if _, fv, ok := fieldLoad(w); ok && fv != nil {
					switch fv.Name() {
					case "AfterKey":
						after = true
					case "Prefix":
						prefix = true
					}
				}
			}
			return
		}
		xa, xp := derives(bo.X)
		ya, yp := derives(bo.Y)
		if !xa && !ya {
			return
		}
		n++
		// key > cursor  or  cursor < key, strictly, the cursor operand free of the prefix
		okCmp := (bo.Op == token.GTR && ya && !yp && !xa) || (bo.Op == token.LSS && xa && !xp && !ya)
		c.ob("R-PAGECURSOR", fmt.Sprintf("GetKeysPaged:cursor-comparison#%d", n), bo.Pos(), okCmp,
			"the cursor comparison must be the strict `key > AfterKey`, the cursor derived from AfterKey alone")
	})
	if n == 0 {
		c.ob("R-PAGECURSOR", "GetKeysPaged:cursor-comparison", f.Pos(), false, "no comparison of a listed key with the cursor found (anchor changed)")
	}
}

// R-PROOFCHILD: the proof loader drops a child slot only when it is the bare placeholder of a hashed child.
func (c *Ctx) ruleProofChild() {
	f := c.fn("pkg/trie/inmemory/proof", "loadProof")
	if f == nil {
		return
	}
	c.doc("R-PROOFCHILD", "loadProof: a child whose Merkle value is not in the proof is removed from its branch only on the path where it has neither a storage value (StorageValue == nil) nor children (HasChild() false), i.e. it is the placeholder of a hashed child; an inlined child — a leaf with a possibly empty value, or a value-less inlined branch — was decoded with its parent and must stay")
	n := 0
	eachInstr(f, func(b *ssa.BasicBlock, _ int, in ssa.Instruction) {
		st, ok := in.(*ssa.Store)
		if !ok || !isNilConst(st.Val) {
			return
		}
		ia, ok := st.Addr.(*ssa.IndexAddr)
		if !ok {
			return
		}
		if _, isChildren := isFieldLoadNamed(ia.X, "Children"); !isChildren {
			return
		}
		n++
		noValue, noChildren := false, false
		for _, fc := range factsAt(b) {
			if e, neq, isN := nilCmp(fc.cond); isN {
				if _, fv, ok := fieldLoad(e); ok && fv != nil && fv.Name() == "StorageValue" && fc.truth != neq {
					noValue = true
				}
			}
			if call, ok := fc.cond.(*ssa.Call); ok && call.Call.StaticCallee() != nil && call.Call.StaticCallee().Name() == "HasChild" && !fc.truth {
				noChildren = true
			}
		}
		c.ob("R-PROOFCHILD", fmt.Sprintf("loadProof:drop-child#%d", n), st.Pos(), noValue && noChildren,
			fmt.Sprintf("a child is removed from the proof trie on a path where `no value` = %v and `no children` = %v are established: an inlined child (e.g. a value-less inlined branch) is mistaken for a hashed child missing from the proof and every key below it fails to verify", noValue, noChildren))
	})
	if n == 0 {
		c.ob("R-PROOFCHILD", "loadProof:drop-child", f.Pos(), false, "no removal of a child slot found (anchor changed)")
	}
}

// R-OVERLAY/childdel: inside a transaction a deleted child trie is not read through to the base state.
func (c *Ctx) ruleChildDeletedMarker() {
	sp := c.ssaPkg(rtStorageDir)
	if sp == nil {
		return
	}
	c.doc("R-OVERLAY/childdel", "lib/runtime/storage: every TrieState method that, with a transaction possibly open, reads a child trie of the base state (state.GetChild / state.GetFromChild not on the no-transaction edge) consults the transaction's child-deleted marker (deletes[keyToChild]) first: after DeleteChild inside a transaction the child's old content must not be visible")
	n := 0
	for _, f := range allFuncs(c, sp) {
		if f.Parent() != nil || f.Signature.Recv() == nil || !strings.HasSuffix(f.Signature.Recv().Type().String(), "storage.TrieState") {
			continue
		}
		hasTx := false
		var reads []*ssa.Call
		marker := false
		eachInstr(f, func(b *ssa.BasicBlock, _ int, in ssa.Instruction) {
			switch x := in.(type) {
			case *ssa.Call:
				if cal := x.Call.StaticCallee(); cal != nil && cal.Name() == "getCurrentTransaction" {
					hasTx = true
				}
				if x.Call.IsInvoke() && (x.Call.Method.Name() == "GetChild" || x.Call.Method.Name() == "GetFromChild") && !noTxFact(b) {
					reads = append(reads, x)
				}
			case *ssa.Lookup:
				if _, fv, ok := fieldLoad(x.X); ok && fv != nil && fv.Name() == "deletes" {
					marker = true
				}
			}
		})
		if !hasTx || len(reads) == 0 {
			continue
		}
		readOnly := false
		eachInstr(f, func(_ *ssa.BasicBlock, _ int, in ssa.Instruction) {
			if cl, ok := in.(*ssa.Call); ok && calleeName(&cl.Call) == "(*sync.RWMutex).RLock" {
				readOnly = true
			}
		})
		if !readOnly {
			// mutators (prefix clears, limited child deletion) also read the old child for their key lists and counters;
			// not confirmed by a failing input, so reported as a cross-reference only
			c.xref("R-OVERLAY/childdel", relName(f.String())+":consults-child-deleted-marker", reads[0].Pos(), marker,
				shortFn(f)+" computes its key list / counters from the base state's child trie without looking at the transaction's deleted-children marker")
			continue
		}
		n++
		c.ob("R-OVERLAY/childdel", relName(f.String())+":consults-child-deleted-marker", reads[0].Pos(), marker,
			shortFn(f)+" falls through to the base state's child trie while a transaction may be open without looking at the transaction's deleted-children marker: after DeleteChild in the transaction the child's old content is still returned")
	}
	if n == 0 {
		c.ob("R-OVERLAY/childdel", "readers", token.NoPos, false, "no transactional child reader found (anchor changed)")
	}
}

// R-OVERLAY/childkeys: the child key listing of a transaction is base entries + pending upserts - pending deletes.
func (c *Ctx) ruleChildKeysMerge() {
	f := c.fn(rtStorageDir, "(*TrieState).GetKeysWithPrefixFromChild")
	if f == nil {
		return
	}
	c.doc("R-OVERLAY/childkeys", "TrieState.GetKeysWithPrefixFromChild with a transaction open: once the base state's child entries were fetched (Entries()/GetKeysWithPrefix()), the transaction's pending upserts of that child are still applied (a read of childChanges.upserts is reachable after the fetch) and its pending deletes are consulted (childChanges.deletes is read): the listing must equal what the same call returns after commit")
	var fetch []ssa.Instruction
	var upReads, delReads []ssa.Instruction
	eachInstr(f, func(b *ssa.BasicBlock, _ int, in ssa.Instruction) {
		switch x := in.(type) {
		case *ssa.Call:
			if x.Call.IsInvoke() && (x.Call.Method.Name() == "Entries" || x.Call.Method.Name() == "GetKeysWithPrefix") && !noTxFact(b) {
				fetch = append(fetch, in)
			}
		case *ssa.FieldAddr:
			if fieldVar(x) == nil || !strings.HasSuffix(namedType(x.X.Type()), "storage.storageDiff") {
				return
			}
			// only the per-child change set (loaded from childChangeSet), not the transaction's own maps
			isChild := false
			for v := range backwardSlice(x.X, nil) {
				if lk, ok := v.(*ssa.Lookup); ok {
					if _, fv, ok := fieldLoad(lk.X); ok && fv != nil && fv.Name() == "childChangeSet" {
						isChild = true
					}
				}
			}
			if !isChild {
				return
			}
			switch fieldVar(x).Name() {
			case "upserts":
				upReads = append(upReads, in)
			case "deletes":
				delReads = append(delReads, in)
			}
		}
	})
	if len(fetch) == 0 {
		c.ob("R-OVERLAY/childkeys", "GetKeysWithPrefixFromChild:base-fetch", f.Pos(), false, "no fetch of the base child's entries on the transaction path (anchor changed)")
		return
	}
	upAfter := false
	for _, u := range upReads {
		for _, ft := range fetch {
			if instrReaches(ft, u) {
				upAfter = true
			}
		}
	}
	c.ob("R-OVERLAY/childkeys", "GetKeysWithPrefixFromChild:upserts-applied-over-base", fetch[0].Pos(), upAfter,
		"the pending upserts are read only BEFORE the base child's entries replace them: a key set in the transaction is missing from the listing when the child already exists in the state")
	c.ob("R-OVERLAY/childkeys", "GetKeysWithPrefixFromChild:deletes-consulted", fetch[0].Pos(), len(delReads) > 0,
		"the child's pending deletes are never read: a key cleared in the transaction is still listed")
}

// R-OVERLAY/childrecreate: writing into a child trie deleted earlier in the same transaction must not revive its old content.
func (c *Ctx) ruleChildRecreate() {
	f := c.fn(rtStorageDir, "(*storageDiff).upsertChild")
	if f == nil {
		return
	}
	c.doc("R-OVERLAY/childrecreate", "storageDiff.upsertChild: the transaction's child-deleted marker is not simply erased when a key is written into that child afterwards (the old content of the child would come back on commit): no delete(cs.deletes, keyToChild) without a replacement that still removes the old entries")
	erased := false
	eachInstr(f, func(_ *ssa.BasicBlock, _ int, in ssa.Instruction) {
		call, ok := in.(*ssa.Call)
		if !ok {
			return
		}
		if b, ok := call.Call.Value.(*ssa.Builtin); ok && b.Name() == "delete" {
			if _, fv, ok := fieldLoad(call.Call.Args[0]); ok && fv != nil && fv.Name() == "deletes" {
				erased = true
			}
		}
	})
	c.ob("R-OVERLAY/childrecreate", "upsertChild:child-deleted-marker-kept", f.Pos(), !erased,
		"upsertChild undoes the deletion of the child trie: Start; DeleteChild(c); SetChildStorage(c,y,2); Commit leaves the child's OLD keys in place next to y, whereas the same operations applied directly leave only y")
}

// R-PROOFVALUE: a generated proof carries the value of the proven key when the node only holds its hash (V1).
func (c *Ctx) ruleProofValue() {
	const dir = "pkg/trie/inmemory/proof"
	sp := c.ssaPkg(dir)
	if sp == nil {
		return
	}
	c.doc("R-PROOFVALUE", "proof generation: on the path where a walker has found the node of the requested key, the returned proof-node list depends on that node's MustBeHashed flag and StorageValue (directly or through a helper of the package that appends the value): under state version 1 the node encoding holds only the hash of a value longer than 32 bytes and the verifier looks the value up by that hash, so the value must be a proof item of its own")
	reads := func(g *ssa.Function) (flag, val, app bool) {
		if g == nil {
			return
		}
		eachInstr(g, func(_ *ssa.BasicBlock, _ int, in ssa.Instruction) {
			if fa, ok := in.(*ssa.FieldAddr); ok && fieldVar(fa) != nil {
				switch fieldVar(fa).Name() {
				case "MustBeHashed":
					flag = true
				case "StorageValue":
					val = true
				}
			}
			if cl, ok := in.(*ssa.Call); ok {
				if b, ok := cl.Call.Value.(*ssa.Builtin); ok && b.Name() == "append" {
					app = true
				}
			}
		})
		return
	}
	n := 0
	perFn := map[*ssa.Function]int{}
	for _, f := range allFuncs(c, sp) {
		if f.Parent() != nil {
			continue
		}
		// walkers: return ([][]byte, error) and take a *node.Node
		sig := f.Signature
		if sig.Results().Len() != 2 || sig.Results().At(0).Type().String() != "[][]byte" {
			continue
		}
		hasNode := false
		for _, p := range f.Params {
			if isNodePtr(p.Type()) {
				hasNode = true
			}
		}
		if !hasNode {
			continue
		}
		// found-returns: success returns whose list is not the result of a recursive descent
		for _, r := range returnsOf(f) {
			if !isNilConst(resultOf(r, 1)) || isNilConst(resultOf(r, 0)) {
				continue
			}
			rec := false
			var helper *ssa.Function
			for v := range backwardSlice(resultOf(r, 0), nil) {
				if cl, ok := v.(*ssa.Call); ok {
					if g := cl.Call.StaticCallee(); g != nil && g.Pkg == sp {
						gs := g.Signature
						if gs.Results().Len() == 2 && gs.Results().At(0).Type().String() == "[][]byte" {
							rec = true // descends further (walk / a delegating walker)
						} else {
							helper = g
						}
					}
				}
			}
			if rec {
				continue
			}
			n++
			perFn[f]++
			flag, val, app := reads(helper)
			if helper == nil {
				// inline form: the found-return block itself (or a block dominating it after the key test) appends the value
				flag, val, app = false, false, false
				for _, fc := range factsAt(r.Block()) {
					if _, fv, ok := fieldLoad(fc.cond); ok && fv != nil && fv.Name() == "MustBeHashed" && fc.truth {
						flag = true
					}
				}
				for v := range backwardSlice(resultOf(r, 0), nil) {
					if _, fv, ok := fieldLoad(v); ok && fv != nil && fv.Name() == "StorageValue" {
						val = true
					}
					if cl, ok := v.(*ssa.Call); ok {
						if b, ok := cl.Call.Value.(*ssa.Builtin); ok && b.Name() == "append" {
							app = true
						}
					}
				}
				// an unconditional append of the value guarded inside a φ also counts when the flag is read in the function
				if !flag {
					fl, _, _ := reads(f)
					flag = fl && val
				}
			}
			c.ob("R-PROOFVALUE", fmt.Sprintf("%s:found-return#%d", relName(f.String()), perFn[f]), r.Pos(), flag && val && app,
				shortFn(f)+" returns the proof nodes for a found key without adding the key's value when the node stores only its hash (MustBeHashed): for state version 1 a proof of a present key with a value longer than 32 bytes cannot be verified (key not found)")
		}
	}
	if n == 0 {
		c.ob("R-PROOFVALUE", "walkers", token.NoPos, false, "no found-return in a proof walker (anchor changed)")
	}
}

// R-RANGECHAIN: a range is returned only when walking up from the end block actually reaches the start block.
func (c *Ctx) ruleRangeChain() {
	f := c.fn(btDir, "accumulateHashesInDescedingOrder")
	if f == nil {
		return
	}
	c.doc("R-RANGECHAIN", "blocktree range queries: accumulateHashesInDescedingOrder returns a hash list only on a path where the node reached by walking the parent links up from the end node was compared with the start node (same node / same hash): two blocks on different forks are not a range, whatever their heights")
	start := ssa.Value(f.Params[1])
	n := 0
	for _, r := range returnsOf(f) {
		if len(r.Results) < 2 || !isNilConst(resultOf(r, 1)) || isNilConst(resultOf(r, 0)) {
			continue
		}
		n++
		ok := false
		for _, fc := range factsAt(r.Block()) {
			bo, isBin := fc.cond.(*ssa.BinOp)
			if !isBin || (bo.Op != token.EQL && bo.Op != token.NEQ) {
				continue
			}
			if fc.truth != (bo.Op == token.EQL) {
				continue // need equality established
			}
			fromStart := func(v ssa.Value) bool {
				for x := range backwardSlice(v, nil) {
					if x == start {
						return true
					}
				}
				return false
			}
			if (fromStart(bo.X) && !fromStart(bo.Y)) || (fromStart(bo.Y) && !fromStart(bo.X)) {
				ok = true
			}
		}
		c.ob("R-RANGECHAIN", fmt.Sprintf("accumulateHashesInDescedingOrder:success-return#%d", n), r.Pos(), ok,
			"the hash list is returned without checking that the walk up from the end node arrived at the start node: Range(a, b) for two siblings returns [a] and no error")
	}
	if n == 0 {
		c.ob("R-RANGECHAIN", "accumulateHashesInDescedingOrder:success-return", f.Pos(), false, "no success return found (anchor changed)")
	}
}

// R-BYNUMBER: the by-number query is bounded by the highest leaf, not by the fork-choice head.
func (c *Ctx) ruleHashesAtNumberBound() {
	f := c.fn(btDir, "(*BlockTree).GetHashesAtNumber")
	if f == nil {
		return
	}
	c.doc("R-BYNUMBER", "BlockTree.GetHashesAtNumber: the early `nothing at that height` return compares the requested number with the number of the HIGHEST leaf (leafMap.highestLeaf), not of the fork-choice best block (bestBlock prefers primary-slot chains and can be lower than another fork's head): blocks above the best block's height on other forks must be listed")
	n := 0
	eachInstr(f, func(b *ssa.BasicBlock, _ int, in ssa.Instruction) {
		bo, ok := in.(*ssa.BinOp)
		if !ok || !isCmp(bo.Op) || bo.Op == token.EQL || bo.Op == token.NEQ {
			return
		}
		var other ssa.Value
		if stripConv(bo.X) == ssa.Value(f.Params[1]) {
			other = bo.Y
		} else if stripConv(bo.Y) == ssa.Value(f.Params[1]) {
			other = bo.X
		} else {
			return
		}
		// upper bound: derives from a leaf-map query
		var src string
		for v := range backwardSlice(other, nil) {
			if cl, ok := v.(*ssa.Call); ok && cl.Call.StaticCallee() != nil {
				switch cl.Call.StaticCallee().Name() {
				case "bestBlock":
					src = "bestBlock"
				case "highestLeaf", "nodes":
					if src != "bestBlock" {
						src = "highestLeaf" // the highest leaf, or a maximum over all leaves
					}
				}
			}
		}
		if src == "" {
			return
		}
		n++
		c.ob("R-BYNUMBER", fmt.Sprintf("GetHashesAtNumber:upper-bound#%d", n), bo.Pos(), src == "highestLeaf",
			"the height bound comes from "+src+"(): with root->A(primary) and root->B->C(secondary) the best block is A (height 1) and GetHashesAtNumber(2) returns nothing instead of [C]")
	})
	if n == 0 {
		// no early return on the height: the recursive collection alone is correct
		c.ob("R-BYNUMBER", "GetHashesAtNumber:upper-bound", f.Pos(), true, "no upper-bound shortcut")
	}
}

// R-ARRIVAL: the block tree records the arrival time it is given.
func (c *Ctx) ruleArrivalStored() {
	f := c.fn(btDir, "(*BlockTree).AddBlock")
	if f == nil {
		return
	}
	c.doc("R-ARRIVAL", "BlockTree.AddBlock stores its arrivalTime parameter unmodified in the new node: the fork-choice tie-break `earlier arrival wins` must run on the arrival times the caller reported, not on values adjusted to the parent's")
	var param ssa.Value
	for _, p := range f.Params {
		if p.Type().String() == "time.Time" {
			param = p
		}
	}
	n := 0
	eachInstr(f, func(_ *ssa.BasicBlock, _ int, in ssa.Instruction) {
		st, ok := in.(*ssa.Store)
		if !ok {
			return
		}
		fa, ok := st.Addr.(*ssa.FieldAddr)
		if !ok || fieldVar(fa) == nil || fieldVar(fa).Name() != "arrivalTime" {
			return
		}
		n++
		direct := param != nil && sameValue(st.Val, param)
		if !direct && param != nil {
			// a parameter whose address is taken (method calls on it) is spilled: the stored value must be a load of a cell
			// that is only ever written with the parameter itself
			if u, ok := st.Val.(*ssa.UnOp); ok && u.Op == token.MUL {
				if al, ok := u.X.(*ssa.Alloc); ok {
					all, cnt := true, 0
					for _, r := range *al.Referrers() {
						if s2, ok := r.(*ssa.Store); ok && s2.Addr == ssa.Value(al) {
							cnt++
							if s2.Val != param {
								all = false
							}
						}
					}
					direct = all && cnt > 0
				}
			}
		}
		c.ob("R-ARRIVAL", fmt.Sprintf("AddBlock:arrivalTime-store#%d", n), st.Pos(), direct,
			"the node's arrival time is not the value passed to AddBlock (it is adjusted on some path): two heads tied on primary count and height are then ordered by altered arrival times")
	})
	if n == 0 {
		c.ob("R-ARRIVAL", "AddBlock:arrivalTime-store", f.Pos(), false, "the new node's arrivalTime is never stored (anchor changed)")
	}
}

// R-SATSUB: vote-weight subtractions cannot wrap (the reference's VoteWeight subtraction saturates at zero).
func (c *Ctx) ruleWeightSub(xrefOnly map[string]bool) {
	sp := c.ssaPkg(fgDir)
	if sp == nil {
		return
	}
	c.doc("R-SATSUB", "pkg/finality-grandpa Round.update and its closures: every subtraction x - y of two vote weights (unsigned) is control-dependent on x >= y / x > y (or is the else-branch of x <= y), because the reference implementation's VoteWeight subtraction saturates at zero: an unguarded subtraction wraps to ~2^64 when more weight than tolerated equivocates and every block then looks `possible to precommit`")
	for _, f := range allFuncs(c, sp) {
		top := f
		for top.Parent() != nil {
			top = top.Parent()
		}
		if !strings.HasPrefix(top.Name(), "update") || top.Signature.Recv() == nil || !strings.Contains(top.Signature.Recv().Type().String(), "Round[") {
			continue
		}
		n := 0
		eachInstr(f, func(b *ssa.BasicBlock, _ int, in ssa.Instruction) {
			bo, ok := in.(*ssa.BinOp)
			if !ok || bo.Op != token.SUB {
				return
			}
			if bt, ok := bo.Type().Underlying().(*types.Basic); !ok || bt.Info()&types.IsUnsigned == 0 {
				return
			}
			if _, isC := constInt(bo.Y); isC {
				return
			}
			n++
			guarded := false
			for _, fc := range factsAt(b) {
				cmp, ok := fc.cond.(*ssa.BinOp)
				if !ok || !isCmp(cmp.Op) {
					continue
				}
				op := cmp.Op
				if !fc.truth {
					op = negOp(op)
				}
				x, y := cmp.X, cmp.Y
				if sameValue(x, bo.Y) && sameValue(y, bo.X) {
					x, y, op = y, x, flipOp(op)
				}
				if sameValue(x, bo.X) && sameValue(y, bo.Y) && (op == token.GEQ || op == token.GTR) {
					guarded = true
				}
			}
			key := fmt.Sprintf("%s:sub#%d", shortFn(f), n)
			msg := fmt.Sprintf("%s computes %s - %s on unsigned vote weights with no dominating `>=` test: it wraps when the subtrahend is larger (e.g. equivocating weight above the tolerated f)", shortFn(f), describeVal(bo.X), describeVal(bo.Y))
			if xrefOnly[key] {
				c.xref("R-SATSUB", key, bo.Pos(), guarded, msg)
				return
			}
			c.ob("R-SATSUB", key, bo.Pos(), guarded, msg)
		})
	}
}

// R-MAPORDER / R-NILMAP / R-BIGRANGE: three SCALE clauses found by a seeding agent on the unchanged tree (D62-D64).
func (c *Ctx) ruleScaleMapAndBigRange() {
	if f := c.fn("pkg/scale", "(*encodeState).encodeMap"); f != nil {
		c.doc("R-MAPORDER", "encodeState.encodeMap does not encode the entries in Go's map iteration order (no reflect.MapIter.Next / MapRange drives the marshal calls) and sorts the keys first: equal maps must have one, canonical encoding")
		iter, sorted := false, false
		eachInstr(f, func(_ *ssa.BasicBlock, _ int, in ssa.Instruction) {
			if call, ok := in.(*ssa.Call); ok {
				nm := calleeName(&call.Call)
				if nm == "(*reflect.MapIter).Next" || nm == "(reflect.Value).MapRange" {
					iter = true
				}
				if strings.HasPrefix(nm, "sort.") || strings.Contains(nm, "slices.Sort") {
					sorted = true
				}
			}
		})
		c.ob("R-MAPORDER", "encodeMap:sorted-keys", f.Pos(), sorted && !iter, "the map entries are marshalled in Go's (randomised) iteration order: the same map has different encodings from one call to the next")
	}
	if f := c.fn("pkg/scale", "(*decodeState).decodeMap"); f != nil {
		c.doc("R-NILMAP", "decodeState.decodeMap allocates the destination (reflect.MakeMap) when it is nil before the first SetMapIndex: decoding into a declared-but-nil map must not panic")
		var mk, set ssa.Instruction
		eachInstr(f, func(_ *ssa.BasicBlock, _ int, in ssa.Instruction) {
			if call, ok := in.(*ssa.Call); ok {
				switch calleeName(&call.Call) {
				case "reflect.MakeMap", "reflect.MakeMapWithSize":
					mk = in
				case "(reflect.Value).SetMapIndex":
					set = in
				}
			}
		})
		c.ob("R-NILMAP", "decodeMap:allocates-nil-destination", f.Pos(), mk != nil && set != nil && instrReaches(mk, set), "decodeMap assigns into the destination map without ever allocating it: `var m map[K]V; Unmarshal(enc, &m)` panics (assignment to entry in nil map)")
	}
	if f := c.fn("pkg/scale", "(*encodeState).encodeBigInt"); f != nil {
		c.doc("R-BIGRANGE", "encodeState.encodeBigInt refuses what a compact integer cannot hold: a negative value (a Sign() test on a rejecting edge) and a magnitude of more than 67 bytes (the conversion uint8(numBytes-4) is dominated by a bound on numBytes), instead of emitting a wrapped length prefix")
		neg := false
		for _, b := range f.Blocks {
			iff := ifOf(b)
			if iff == nil {
				continue
			}
			subj, op, k, ok := cmpWithConst(iff.Cond)
			if !ok || k != 0 {
				continue
			}
			if cl, ok := subj.(*ssa.Call); ok && calleeName(&cl.Call) == "(*math/big.Int).Sign" && op == token.LSS && blockRejects(b.Succs[0]) {
				neg = true
			}
		}
		c.ob("R-BIGRANGE", "encodeBigInt:rejects-negative", f.Pos(), neg, "a negative big integer is encoded silently (as the low bits of its two's complement): -1 becomes the single byte 0xfc")
		n := 0
		eachInstr(f, func(b *ssa.BasicBlock, _ int, in ssa.Instruction) {
			cv, ok := in.(*ssa.Convert)
			if !ok || cv.Type().String() != "uint8" {
				return
			}
			bo, ok := cv.X.(*ssa.BinOp)
			if !ok || bo.Op != token.SUB {
				return
			}
			if _, isLen := lenOf(bo.X); !isLen {
				return
			}
			n++
			bounded := false
			for _, fc := range factsAt(b) {
				subj, op, k, ok := cmpWithConst(fc.cond)
				if !ok || !sameValue(subj, bo.X) {
					continue
				}
				if !fc.truth {
					op = negOp(op)
				}
				if (op == token.LEQ && k <= 67) || (op == token.LSS && k <= 68) {
					bounded = true
				}
			}
			c.ob("R-BIGRANGE", fmt.Sprintf("encodeBigInt:length-prefix-bounded#%d", n), cv.Pos(), bounded, "the byte count of the magnitude is narrowed to the six length bits without a bound: 2^536 (68 bytes) gets the prefix of a 4-byte number")
		})
		if n == 0 {
			c.ob("R-BIGRANGE", "encodeBigInt:length-prefix-bounded", f.Pos(), false, "no length-prefix conversion found (anchor changed)")
		}
	}
}

// R-BRANCHACCUM: a vote-graph node introduced on a shared edge accumulates the votes of every descendant.
func (c *Ctx) ruleBranchAccum() {
	sp := c.ssaPkg(fgDir)
	if sp == nil {
		return
	}
	c.doc("R-BRANCHACCUM", "VoteGraph.introduceBranch: inside the loop over the descendants that contain the new ancestor, the new node's cumulative vote receives each descendant's cumulative vote (an Add call per iteration), and for every descendant that is appended to the new node's descendants list: a node on an edge shared by several forks must carry the votes of all of them, whatever the order of insertion")
	n := 0
	for _, f := range allFuncs(c, sp) {
		if f.Parent() != nil || !strings.HasPrefix(f.Name(), "introduceBranch") {
			continue
		}
		n++
		loops := loopsOf(f)
		var adds, appends []ssa.Instruction
		eachInstr(f, func(b *ssa.BasicBlock, _ int, in ssa.Instruction) {
			inLoop := false
			for _, l := range loops {
				if l[b] {
					inLoop = true
				}
			}
			if !inLoop {
				return
			}
			call, ok := in.(*ssa.Call)
			if !ok {
				return
			}
			if call.Call.IsInvoke() && call.Call.Method.Name() == "Add" {
				adds = append(adds, in)
			}
			if bi, ok := call.Call.Value.(*ssa.Builtin); ok && bi.Name() == "append" && strings.Contains(call.Type().String(), "[]Hash") {
				// newEntry.descendants = append(newEntry.descendants, descendant): the result is stored into the
				// descendants field of the entry under construction (the `entry` field of the local holder)
				for _, r := range *call.Referrers() {
					st, ok := r.(*ssa.Store)
					if !ok {
						continue
					}
					fa, ok := st.Addr.(*ssa.FieldAddr)
					if !ok || fieldVar(fa) == nil || fieldVar(fa).Name() != "descendants" {
						continue
					}
					if fa2, ok := fa.X.(*ssa.FieldAddr); ok && fieldVar(fa2) != nil && fieldVar(fa2).Name() == "entry" {
						appends = append(appends, in)
					}
				}
			}
		})
		ok := len(adds) > 0 && len(appends) > 0
		// every registration of a descendant is followed (or preceded in the same iteration) by an accumulation:
		// the Add is in the same block as the append, or post-dominates it within the loop body
		for _, ap := range appends {
			paired := false
			for _, ad := range adds {
				if ad.Block() == ap.Block() || instrDominates(ap, ad) || instrDominates(ad, ap) {
					paired = true
				}
			}
			if !paired {
				ok = false
			}
		}
		c.ob("R-BRANCHACCUM", shortFn(f)+":descendant-votes-accumulated", f.Pos(), ok,
			fmt.Sprintf("introduceBranch registers a descendant under the new node without adding that descendant's cumulative vote to the new node (%d Add calls, %d registrations in the loop): a node on an edge shared by two forks then carries only the first fork's votes and the GHOST depends on the order of the precommits", len(adds), len(appends)))
	}
	if n == 0 {
		c.ob("R-BRANCHACCUM", "introduceBranch", token.NoPos, false, "introduceBranch not found (anchor changed)")
	}
}

// R-FRESHSTRUCT: a struct is decoded into a zero value, never into a wholesale copy of the destination.
func (c *Ctx) ruleFreshStruct() {
	f := c.fn("pkg/scale", "(*decodeState).decodeStruct")
	if f == nil {
		return
	}
	c.doc("R-FRESHSTRUCT", "decodeState.decodeStruct builds the decoded value from a zero value (reflect.New) and copies over from the destination only individual exported fields (Field(i).Set): the whole destination is never Set into the temporary, so unexported state of the destination — e.g. the hash a types.Header caches — cannot survive a decode and describe the previous content")
	n, bad := 0, ""
	eachInstr(f, func(_ *ssa.BasicBlock, _ int, in ssa.Instruction) {
		call, ok := in.(*ssa.Call)
		if !ok || calleeName(&call.Call) != "(reflect.Value).Set" {
			return
		}
		n++
		recv := call.Call.Args[0]
		// the temporary itself: Elem() of a reflect.New result (a per-field Set goes through Field(i) instead)
		if el, ok := recv.(*ssa.Call); ok && calleeName(&el.Call) == "(reflect.Value).Elem" {
			if nw, ok := el.Call.Args[0].(*ssa.Call); ok && calleeName(&nw.Call) == "reflect.New" {
				bad = c.pos(call.Pos())
			}
		}
	})
	c.ob("R-FRESHSTRUCT", "decodeStruct:temp-starts-from-zero", f.Pos(), n > 0 && bad == "",
		"the temporary struct is initialised with a copy of the whole destination (at "+bad+"): unexported fields are carried over, so a types.Header decoded into a previously used value keeps the old cached hash and Hash() no longer is BLAKE2b-256 of the header's encoding")
}

// R-FRESHDEST: a decode loop gives every element its own destination object.
func (c *Ctx) ruleFreshDecodeDest(rule, dir, fn string) {
	f := c.fn(dir, fn)
	if f == nil {
		return
	}
	c.doc(rule, fn+": every scale.Unmarshal executed inside a loop decodes into a destination variable that is created in that loop iteration (its allocation is in the loop body): a destination hoisted out of the loop makes all decoded entries share the pointers it holds (e.g. one *types.Header for every stored header of a slot)")
	loops := loopsOf(f)
	n := 0
	eachInstr(f, func(b *ssa.BasicBlock, _ int, in ssa.Instruction) {
		call, ok := in.(*ssa.Call)
		if !ok || !strings.HasSuffix(calleeName(&call.Call), "pkg/scale.Unmarshal") || len(call.Call.Args) < 2 {
			return
		}
		var loop map[*ssa.BasicBlock]bool
		for _, l := range loops {
			if l[b] && (loop == nil || len(l) < len(loop)) {
				loop = l
			}
		}
		if loop == nil {
			return
		}
		dst := call.Call.Args[1]
		if mi, ok := dst.(*ssa.MakeInterface); ok {
			dst = mi.X
		}
		al, isAlloc := dst.(*ssa.Alloc)
		if !isAlloc {
			return
		}
		// only destinations that hold pointers are at risk (a plain slice/number destination is overwritten entirely)
		holdsPtr := false
		if st, ok := al.Type().Underlying().(*types.Pointer).Elem().Underlying().(*types.Struct); ok {
			for i := 0; i < st.NumFields(); i++ {
				if _, ok := st.Field(i).Type().Underlying().(*types.Pointer); ok {
					holdsPtr = true
				}
			}
		}
		if !holdsPtr {
			return
		}
		n++
		c.ob(rule, fmt.Sprintf("%s:decode-destination#%d", fn, n), call.Pos(), loop[al.Block()],
			shortFn(f)+" decodes every element of the loop into one destination `"+al.Comment+"` declared outside the loop: the pointers it holds are shared by all decoded entries, which end up describing the last element")
	})
	if n == 0 {
		c.ob(rule, fn+":decode-destination", f.Pos(), false, "no scale.Unmarshal into a pointer-holding struct inside a loop (anchor changed)")
	}
}

// R-LOCKPAIR: a function releases exactly the locks it takes (same mutex field, same mode).
func (c *Ctx) ruleLockPairing(rule, dir string) {
	sp := c.ssaPkg(dir)
	if sp == nil {
		return
	}
	c.doc(rule, dir+": in every function the multiset of (mutex field, mode) acquired by Lock/RLock equals the multiset released by Unlock/RUnlock, deferred or not: `x.RLock(); defer y.RUnlock()` leaks x and unlocks a mutex that is not held (a fatal runtime error)")
	n := 0
	for _, f := range allFuncs(c, sp) {
		acq := map[string]int{}
		rel := map[string]int{}
		eachInstr(f, func(_ *ssa.BasicBlock, _ int, in ssa.Instruction) {
			var cc *ssa.CallCommon
			switch x := in.(type) {
			case *ssa.Call:
				cc = &x.Call
			case *ssa.Defer:
				cc = &x.Call
			default:
				return
			}
			nm := calleeName(cc)
			mode := ""
			switch nm {
			case "(*sync.RWMutex).RLock", "(*sync.RWMutex).RUnlock":
				mode = "R"
			case "(*sync.RWMutex).Lock", "(*sync.RWMutex).Unlock", "(*sync.Mutex).Lock", "(*sync.Mutex).Unlock":
				mode = "W"
			default:
				return
			}
			fa, ok := cc.Args[0].(*ssa.FieldAddr)
			if !ok || fieldVar(fa) == nil {
				return
			}
			key := namedType(fa.X.Type()) + "." + fieldVar(fa).Name() + "/" + mode
			if strings.HasSuffix(nm, "Unlock") {
				rel[key]++
			} else {
				acq[key]++
			}
		})
		if len(acq) == 0 && len(rel) == 0 {
			continue
		}
		n++
		var bad []string
		for k, a := range acq {
			if rel[k] == 0 {
				bad = append(bad, k+" acquired, never released")
			}
			_ = a
		}
		for k := range rel {
			if acq[k] == 0 {
				bad = append(bad, k+" released, never acquired")
			}
		}
		sort.Strings(bad)
		if len(bad) > 0 {
			c.ob(rule, relName(f.String())+":lock-pairing", f.Pos(), false, shortFn(f)+": "+strings.Join(bad, "; "))
		}
	}
	c.ob(rule, "scan", token.NoPos, n > 0, fmt.Sprintf("%d functions taking or releasing a mutex field examined", n))
}

// R-EPOCHKEYS: epoch-definition database accessors are given the key of the kind of data they are instantiated for.
func (c *Ctx) ruleEpochKeyRoles() {
	sp := c.ssaPkg("dot/state")
	if sp == nil {
		return
	}
	c.doc("R-EPOCHKEYS", "dot/state: getEpochDefinitionFromDatabase[T] / getAndDeleteEpochDataFromDefinition... instantiated for ConfigData is passed configDataKey, for EpochDataRaw epochDataKey: testing `is the next CONFIG already stored?` under the epoch-DATA key makes FinalizeBABENextConfigData return early for ever once epoch data exists")
	n := 0
	for _, f := range allFuncs(c, sp) {
		eachInstr(f, func(_ *ssa.BasicBlock, _ int, in ssa.Instruction) {
			call, ok := in.(*ssa.Call)
			if !ok || call.Call.StaticCallee() == nil {
				return
			}
			nm := call.Call.StaticCallee().Name()
			if !strings.HasPrefix(nm, "getEpochDefinitionFromDatabase[") {
				return
			}
			want := ""
			switch {
			case strings.Contains(nm, "ConfigData"):
				want = "configDataKey"
			case strings.Contains(nm, "EpochDataRaw"):
				want = "epochDataKey"
			default:
				return
			}
			n++
			got := ""
			for _, a := range call.Call.Args {
				for v := range backwardSlice(a, nil) {
					if u, ok := v.(*ssa.UnOp); ok {
						if g, ok := u.X.(*ssa.Global); ok && (g.Name() == "configDataKey" || g.Name() == "epochDataKey") {
							got = g.Name()
						}
					}
					if fn, ok := v.(*ssa.Function); ok && (fn.Name() == "configDataKey" || fn.Name() == "epochDataKey") {
						got = fn.Name() // the key builders are passed as function values
					}
				}
			}
			c.ob("R-EPOCHKEYS", fmt.Sprintf("%s:%s#%d", shortFn(f), want, n), call.Pos(), got == want,
				fmt.Sprintf("%s reads the %s definition under the key %s", shortFn(f), strings.TrimSuffix(want, "Key"), got))
		})
	}
	if n == 0 {
		c.ob("R-EPOCHKEYS", "calls", token.NoPos, false, "no getEpochDefinitionFromDatabase call found (anchor changed)")
	}
}

// R-CONFIGFALLBACK: a block whose own fork announced no configuration for an epoch uses the latest earlier one.
func (c *Ctx) ruleConfigFallback() {
	f := c.fn("dot/state", "(*EpochState).GetConfigData")
	if f == nil {
		return
	}
	c.doc("R-CONFIGFALLBACK", "EpochState.GetConfigData: the search continues with the previous epoch not only when the epoch is unknown (errEpochNotInDatabase, ErrEpochNotInMemory) but also when only OTHER forks announced a configuration for it (errHashNotInMemory): the configuration of a block is the latest one announced on its own ancestry")
	cont := map[string]bool{}
	eachInstr(f, func(b *ssa.BasicBlock, _ int, in ssa.Instruction) {
		call, ok := in.(*ssa.Call)
		if !ok || calleeName(&call.Call) != "errors.Is" {
			return
		}
		for v := range backwardSlice(call.Call.Args[1], nil) {
			if u, ok := v.(*ssa.UnOp); ok {
				if g, ok := u.X.(*ssa.Global); ok {
					cont[g.Name()] = true
				}
			}
		}
	})
	need := []string{"errEpochNotInDatabase", "ErrEpochNotInMemory", "errHashNotInMemory"}
	var missing []string
	for _, k := range need {
		if !cont[k] {
			missing = append(missing, k)
		}
	}
	c.ob("R-CONFIGFALLBACK", "GetConfigData:falls-back-when-own-fork-silent", f.Pos(), len(missing) == 0,
		fmt.Sprintf("GetConfigData does not treat %v as `try the previous epoch`: when a competing fork announced a configuration for the epoch, a block on a silent fork gets a hard error instead of the latest earlier configuration", missing))
}

// R-SETSTART: applying a change never rewrites the recorded start of the CURRENT set.
func (c *Ctx) ruleSetStart() {
	c.doc("R-SETSTART", "GrandpaState.ApplyForcedChanges / ApplyScheduledChanges: setChangeSetIDAtBlock is called for the NEW set id (current + 1) only; writing it for the unmodified current set id overwrites the block at which the current set began and re-attributes that set's earlier blocks to the previous set (GetSetIDByBlockNumber)")
	for _, name := range []string{"(*GrandpaState).ApplyForcedChanges", "(*GrandpaState).ApplyScheduledChanges"} {
		f := c.fn("dot/state", name)
		if f == nil {
			continue
		}
		n := 0
		eachInstr(f, func(_ *ssa.BasicBlock, _ int, in ssa.Instruction) {
			call, ok := in.(*ssa.Call)
			if !ok || call.Call.StaticCallee() == nil || call.Call.StaticCallee().Name() != "setChangeSetIDAtBlock" {
				return
			}
			n++
			id := call.Call.Args[1]
			isNew := false
			if bo, ok := id.(*ssa.BinOp); ok && bo.Op == token.ADD {
				if k, ok := constInt(bo.Y); ok && k == 1 {
					isNew = true
				}
			}
			c.ob("R-SETSTART", fmt.Sprintf("%s:setChangeSetIDAtBlock#%d", strings.TrimPrefix(name, "(*GrandpaState)."), n), call.Pos(), isNew,
				strings.TrimPrefix(name, "(*GrandpaState).")+" records a start block for the CURRENT set id: scheduled change at #2 (set 1 begins after #2), forced change with last-finalised 5 applied -> set 1 now `begins` after #5 and block 4 is reported as set 0")
		})
	}
}

// R-GHOSTANCESTORS / R-CAPFORK / R-STAGEFUNC: three clauses of the voter's vote selection (D69-D71).
func (c *Ctx) ruleVoterSelection() {
	if f := c.fn(gDir, "(*Service).getPossibleSelectedBlocks"); f != nil {
		c.doc("R-GHOSTANCESTORS", "Service.getPossibleSelectedBlocks: the search over common ancestors (getPossibleSelectedAncestors) runs on every successful path — it is not skipped when some directly voted block already has more than the threshold: a common ancestor of the other votes can pass the threshold AND be higher than that block")
		var anc []ssa.Instruction
		eachInstr(f, func(_ *ssa.BasicBlock, _ int, in ssa.Instruction) {
			if cl, ok := in.(*ssa.Call); ok && cl.Call.StaticCallee() != nil && cl.Call.StaticCallee().Name() == "getPossibleSelectedAncestors" {
				anc = append(anc, in)
			}
		})
		ok := len(anc) > 0
		// every success return is either reached through the ancestor search, or the direct votes were empty
		// (the search loop simply does not iterate): no success return is reachable from entry avoiding the loop header
		// that drives the ancestor search
		for _, r := range returnsOf(f) {
			if len(r.Results) < 2 || !isNilConst(resultOf(r, 1)) {
				continue
			}
			reach := false
			for _, a := range anc {
				if instrReaches(a, r) || a.Block().Dominates(r.Block()) {
					reach = true
				}
				// the return must be dominated by the header of the loop containing the ancestor search
				for _, l := range loopsOf(f) {
					if l[a.Block()] {
						for hb := range l {
							if hb.Dominates(r.Block()) && hb.Dominates(a.Block()) {
								reach = true
							}
						}
					}
				}
			}
			if !reach {
				ok = false
			}
			// an early success return that is guarded by `len(blocks) != 0` skips the search
			for _, fc := range factsAt(r.Block()) {
				if subj, op, k, isCmp := cmpWithConst(fc.cond); isCmp && k == 0 {
					if _, isLen := lenOf(subj); isLen {
						o := op
						if !fc.truth {
							o = negOp(o)
						}
						if o == token.NEQ || o == token.GTR {
							ok = false
						}
					}
				}
			}
		}
		c.ob("R-GHOSTANCESTORS", "getPossibleSelectedBlocks:ancestor-search-not-skipped", f.Pos(), ok,
			"getPossibleSelectedBlocks returns as soon as a directly voted block passes the threshold: prevotes genesis:1, y:2, z:1 (y, z children of q) select genesis although q has 3 of 4 votes and is higher")
	}
	if f := c.fn(gDir, "(*Service).determinePreCommit"); f != nil {
		c.doc("R-CAPFORK", "Service.determinePreCommit: the block the precommit is capped at (pending authority change) is reached from the pre-voted block through parent links (GetHeader), never looked up by number on the best chain (GetHeaderByNumber): the GHOST may be on another fork than the best block")
		byNumber := false
		eachInstr(f, func(_ *ssa.BasicBlock, _ int, in ssa.Instruction) {
			if cl, ok := in.(*ssa.Call); ok && cl.Call.IsInvoke() && cl.Call.Method.Name() == "GetHeaderByNumber" {
				byNumber = true
			}
		})
		c.ob("R-CAPFORK", "determinePreCommit:cap-on-own-fork", f.Pos(), !byNumber,
			"determinePreCommit resolves the capped block with GetHeaderByNumber (best chain): when the GRANDPA-GHOST is on another fork the node precommits a block that is not an ancestor of its own target")
	}
	sp := c.ssaPkg(gDir)
	if sp != nil {
		c.doc("R-STAGEFUNC", "lib/grandpa: Service.PreVotes touches only the prevote containers and Service.PreCommits only the precommit containers (same container families as R-STAGEMAPS)")
		family := map[string]string{"prevotes": "prevote", "pvEquivocations": "prevote", "precommits": "precommit", "pcEquivocations": "precommit"}
		for name, st := range map[string]string{"(*Service).PreVotes": "prevote", "(*Service).PreCommits": "precommit"} {
			f := c.fn(gDir, name)
			if f == nil {
				continue
			}
			var wrong []string
			n := 0
			for _, g := range withAnon(f) {
				eachInstr(g, func(_ *ssa.BasicBlock, _ int, in ssa.Instruction) {
					fa, ok := in.(*ssa.FieldAddr)
					if !ok || fieldVar(fa) == nil {
						return
					}
					fam, known := family[fieldVar(fa).Name()]
					if !known {
						return
					}
					n++
					if fam != st {
						wrong = append(wrong, fieldVar(fa).Name())
					}
				})
			}
			c.ob("R-STAGEFUNC", strings.TrimPrefix(name, "(*Service).")+":own-stage-containers", f.Pos(), n > 0 && len(wrong) == 0,
				fmt.Sprintf("%s reads the other stage's container %v: the reported voter list mixes prevote equivocators into the precommit voters", name, wrong))
		}
	}
}
