package main

import (
	"fmt"
	"go/ast"
	"go/token"
	"go/types"
	"strings"

	"golang.org/x/tools/go/ssa"
)

// Rules added after the second seeding round (DESIGN.md §10).

// R-NEXTKEY: the next-key walker compares the FULL, unmodified search key at every node it may return.
func (c *Ctx) ruleNextKey() {
	c.doc("R-NEXTKEY", "findNextNode returns an entry only on the edge bytes.Compare(searchKey, currentFullKey) == -1 with searchKey the unmodified parameter; findNextNode and findNextKeyOnChildren hand the search key down unchanged; children are visited in ascending index order from the starting index and the first hit is returned")
	fn := c.fn(inmemDir, "findNextNode")
	fc := c.fn(inmemDir, "findNextKeyOnChildren")
	if fn == nil || fc == nil {
		return
	}
	key := fn.Params[2]
	n := 0
	for _, r := range returnsOf(fn) {
		res := resultOf(r, 0)
		if _, isAlloc := res.(*ssa.Alloc); !isAlloc {
			continue
		}
		n++
		ok := false
		for _, f := range factsAt(r.Block()) {
			subj, op, k, isCmp := cmpWithConst(f.cond)
			if !isCmp {
				continue
			}
			call, isCall := subj.(*ssa.Call)
			if !isCall || calleeName(&call.Call) != "bytes.Compare" || call.Call.Args[0] != ssa.Value(key) {
				continue
			}
			o := op
			if !f.truth {
				o = negOp(o)
			}
			if (o == token.EQL && k == -1) || (o == token.LSS && k == 0) {
				ok = true
			}
		}
		c.ob("R-NEXTKEY", fmt.Sprintf("findNextNode:entry-return#%d", n), r.Pos(), ok, "an entry is returned without the node's full key having been compared strictly greater than the (unmodified) search key: NextKey can return a key that is not greater than the search key")
	}
	if n == 0 {
		c.ob("R-NEXTKEY", "findNextNode:entry-return", fn.Pos(), false, "no entry-returning path found (anchor changed)")
	}
	pass := func(f *ssa.Function, keyParam *ssa.Parameter, calleeName2 string, argIdx int) {
		m := 0
		eachInstr(f, func(_ *ssa.BasicBlock, _ int, in ssa.Instruction) {
			call, ok := in.(*ssa.Call)
			if !ok || call.Call.StaticCallee() == nil || call.Call.StaticCallee().Name() != calleeName2 {
				return
			}
			m++
			c.ob("R-NEXTKEY", fmt.Sprintf("%s->%s:search-key-unchanged#%d", f.Name(), calleeName2, m), call.Pos(), call.Call.Args[argIdx] == ssa.Value(keyParam),
				f.Name()+" must hand its search key parameter down unchanged (a truncated or cleared search key lets smaller keys be returned)")
		})
	}
	pass(fn, fn.Params[2], "findNextKeyOnChildren", 2)
	pass(fc, fc.Params[2], "findNextNode", 2)
	// ascending scan from startingAt
	asc := false
	eachInstr(fc, func(_ *ssa.BasicBlock, _ int, in ssa.Instruction) {
		if ph, ok := in.(*ssa.Phi); ok {
			hasStart, hasInc := false, false
			for _, e := range ph.Edges {
				if stripConv(e) == ssa.Value(fc.Params[3]) {
					hasStart = true
				}
				if bo, ok := e.(*ssa.BinOp); ok && bo.Op == token.ADD && bo.X == ssa.Value(ph) {
					if k, ok := constInt(bo.Y); ok && k == 1 {
						hasInc = true
					}
				}
			}
			if hasStart && hasInc {
				asc = true
			}
		}
	})
	c.ob("R-NEXTKEY", "findNextKeyOnChildren:ascending-from-start", fc.Pos(), asc, "children are scanned in ascending index order starting at the given index")
}

// R-COMMITORDER: triedb.commit deletes the replaced nodes before it writes the new ones (same batch).
func (c *Ctx) ruleCommitOrder() {
	sp := c.ssaPkg(triedbDir)
	if sp == nil {
		return
	}
	c.doc("R-COMMITORDER", "TrieDB.commit: every batch.Del of a replaced node executes before any batch.Put of the new nodes (no Del reachable after the encoding starts, none inside a deferred/late closure): a node deleted and re-created with the same hash in one commit must survive")
	for _, f := range allFuncs(c, sp) {
		if f.Name() != "commit" || f.Parent() != nil {
			continue
		}
		var dels, puts []ssa.Instruction
		eachInstr(f, func(_ *ssa.BasicBlock, _ int, in ssa.Instruction) {
			call, ok := in.(*ssa.Call)
			if !ok {
				return
			}
			if call.Call.IsInvoke() && call.Call.Method.Name() == "Del" {
				dels = append(dels, in)
			}
			if call.Call.IsInvoke() && call.Call.Method.Name() == "Put" {
				puts = append(puts, in)
			}
			if cal := call.Call.StaticCallee(); cal != nil && (strings.HasPrefix(cal.Name(), "newEncodedNode") || cal.Name() == "commitChild") {
				puts = append(puts, in)
			}
		})
		inClosure := false
		for _, a := range f.AnonFuncs {
			for _, g := range withAnon(a) {
				eachInstr(g, func(_ *ssa.BasicBlock, _ int, in ssa.Instruction) {
					if call, ok := in.(*ssa.Call); ok && call.Call.IsInvoke() && call.Call.Method.Name() == "Del" {
						inClosure = true
					}
				})
			}
		}
		ok := len(dels) > 0 && len(puts) > 0 && !inClosure
		for _, d := range dels {
			for _, p := range puts {
				if instrReaches(p, d) {
					ok = false
				}
			}
		}
		c.ob("R-COMMITORDER", relName(f.String())+":deletes-before-puts", f.Pos(), ok,
			"commit removes replaced nodes after (or interleaved with) writing the new ones: when a node is removed and an identical node is written in the same commit the deletion wins and the committed trie misses it")
	}
}

// R-BIGTRUNC: (*big.Int).Int64/Uint64 only on values whose magnitude was bounded on the path.
func (c *Ctx) ruleBigTrunc(rule, dir string, funcs ...string) {
	c.doc(rule, "every (*big.Int).Int64()/Uint64() is dominated by a bound on that big.Int (Cmp(..) < 0 true, IsInt64/IsUint64 true, or a BitLen comparison): the truncating accessors return only the low 64 bits")
	for _, name := range funcs {
		f := c.fn(dir, name)
		if f == nil {
			continue
		}
		n := 0
		eachInstr(f, func(b *ssa.BasicBlock, _ int, in ssa.Instruction) {
			call, ok := in.(*ssa.Call)
			if !ok {
				return
			}
			nm := calleeName(&call.Call)
			if nm != "(*math/big.Int).Int64" && nm != "(*math/big.Int).Uint64" {
				return
			}
			n++
			recv := call.Call.Args[0]
			bounded := false
			for _, fc := range factsAt(b) {
				for v := range backwardSlice(fc.cond, nil) {
					if bc, ok := v.(*ssa.Call); ok && len(bc.Call.Args) > 0 && sameValue(bc.Call.Args[0], recv) {
						switch calleeName(&bc.Call) {
						case "(*math/big.Int).Cmp", "(*math/big.Int).CmpAbs", "(*math/big.Int).BitLen", "(*math/big.Int).IsInt64", "(*math/big.Int).IsUint64":
							bounded = true
						}
					}
				}
			}
			c.ob(rule, fmt.Sprintf("%s:%s#%d", relName(f.String()), strings.TrimPrefix(nm, "(*math/big.Int)."), n), call.Pos(), bounded,
				shortFn(f)+" takes the low 64 bits of a big integer on a path where its magnitude is not bounded: values of 2^64 and above are silently truncated (wrong compact mode / wrong value)")
		})
	}
	// mode thresholds of encodeBigInt: Cmp against 1<<6, 1<<14, 1<<30, strict
	if f := c.fn(dir, "(*encodeState).encodeBigInt"); f != nil && dir == "pkg/scale" {
		shifts := map[int64]bool{}
		eachInstr(f, func(_ *ssa.BasicBlock, _ int, in ssa.Instruction) {
			bo, ok := in.(*ssa.BinOp)
			if !ok || bo.Op != token.LSS {
				return
			}
			if k, ok := constInt(bo.Y); !ok || k != 0 {
				return
			}
			cmp, ok := bo.X.(*ssa.Call)
			if !ok || calleeName(&cmp.Call) != "(*math/big.Int).Cmp" {
				return
			}
			for v := range backwardSlice(cmp.Call.Args[1], nil) {
				if l, ok := v.(*ssa.Call); ok && calleeName(&l.Call) == "(*math/big.Int).Lsh" {
					if k, ok := constInt(l.Call.Args[2]); ok {
						shifts[k] = true
					}
				}
			}
		})
		c.ob(rule, "encodeBigInt:mode-thresholds", f.Pos(), shifts[6] && shifts[14] && shifts[30] && len(shifts) == 3, fmt.Sprintf("big-integer compact modes are selected by i < 2^6, 2^14, 2^30 compared on the big integer itself (found shifts %v)", shifts))
	}
}

// R-JSONERR: Uint128.UnmarshalJSON fails only when the general decimal parser fails.
func (c *Ctx) ruleUint128JSONErrors() {
	f := c.fn("pkg/scale", "(*Uint128).UnmarshalJSON")
	if f == nil {
		return
	}
	c.doc("R-JSONERR", "every error return of Uint128.UnmarshalJSON is dominated by the failure edge of big.Int.SetString(…, 10) or of NewUint128: no other path may reject a decimal string (every 128-bit value's decimal form must decode)")
	n := 0
	for _, r := range returnsOf(f) {
		if isNilConst(resultOf(r, 0)) {
			continue
		}
		n++
		ok := false
		for _, fc := range factsAt(r.Block()) {
			for _, v := range phiInputs(fc.cond) {
				if ex, isEx := v.(*ssa.Extract); isEx {
					if call, isCall := ex.Tuple.(*ssa.Call); isCall {
						nm := calleeName(&call.Call)
						if nm == "(*math/big.Int).SetString" && ex.Index == 1 && !fc.truth {
							ok = true
						}
					}
				}
			}
			if e, neq, isN := nilCmp(fc.cond); isN && fc.truth == neq {
				for _, v := range phiInputs(e) {
					if ex, isEx := v.(*ssa.Extract); isEx {
						if call, isCall := ex.Tuple.(*ssa.Call); isCall && call.Call.StaticCallee() != nil && call.Call.StaticCallee().Name() == "NewUint128" {
							ok = true
						}
					}
				}
			}
		}
		c.ob("R-JSONERR", fmt.Sprintf("UnmarshalJSON:error-return#%d", n), r.Pos(), ok, "UnmarshalJSON rejects its input on a path where the general decimal parser (big.Int.SetString base 10 / NewUint128) did not fail: some valid 128-bit decimal strings no longer decode")
	}
}

// R-LASTWRITE: in protobufToBlockData the empty-justification override is the last write of bd.Justification.
func (c *Ctx) ruleLastWrite() {
	f := c.fn(msgDir, "protobufToBlockData")
	if f == nil {
		return
	}
	c.doc("R-LASTWRITE", "protobufToBlockData: the store of an empty (non-nil) justification under IsEmptyJustification is not followed by another store to bd.Justification (it must win over the nil default)")
	var override ssa.Instruction
	var others []ssa.Instruction
	eachInstr(f, func(b *ssa.BasicBlock, _ int, in ssa.Instruction) {
		st, ok := in.(*ssa.Store)
		if !ok {
			return
		}
		fa, ok := st.Addr.(*ssa.FieldAddr)
		if !ok || fieldVar(fa) == nil || fieldVar(fa).Name() != "Justification" || !strings.HasSuffix(namedType(fa.X.Type()), "types.BlockData") {
			return
		}
		guarded := false
		for _, fc := range factsAt(b) {
			for v := range backwardSlice(fc.cond, nil) {
				if _, fv, ok := fieldLoad(v); ok && fv != nil && fv.Name() == "IsEmptyJustification" && fc.truth {
					guarded = true
				}
			}
		}
		if guarded {
			override = in
		} else {
			others = append(others, in)
		}
	})
	ok := override != nil
	if ok {
		for _, o := range others {
			if instrReaches(override, o) {
				ok = false
			}
		}
	}
	c.ob("R-LASTWRITE", "protobufToBlockData:empty-justification-wins", f.Pos(), ok, "an empty but present justification (IsEmptyJustification) must survive decoding: its store is overwritten by a later default store, so `&[]byte{}` decodes as nil")
}

// aliasing range operands for R-ITERMOD: `xs := x.f` / `xs := x.f[a:b:c]` then `for range xs`
func aliasOfField(fd *ast.FuncDecl, id *ast.Ident, isFieldSel func(ast.Expr) bool) bool {
	alias := false
	ast.Inspect(fd.Body, func(n ast.Node) bool {
		as, ok := n.(*ast.AssignStmt)
		if !ok {
			return true
		}
		for i, l := range as.Lhs {
			li, ok := l.(*ast.Ident)
			if !ok || li.Name != id.Name || i >= len(as.Rhs) {
				continue
			}
			switch r := as.Rhs[i].(type) {
			case *ast.SliceExpr:
				if isFieldSel(r.X) {
					alias = true
				}
			default:
				if isFieldSel(as.Rhs[i]) {
					alias = true
				}
			}
		}
		return true
	})
	return alias
}

// R-VARIANT/select: the encoder's choice of header variant is a function of (kind, value presence, hashed flag).
func (c *Ctx) ruleVariantSelect() {
	f := c.fn("pkg/trie/node", "encodeHeader")
	if f == nil {
		return
	}
	c.doc("R-VARIANT/select", "encodeHeader: the branch-without-value variant is chosen exactly under StorageValue == nil, the two branch-with-value variants only under StorageValue != nil, hashed variants only under the hashed flag, leaf variants only under Kind()==Leaf: a stale hashed flag on a value-less branch must not change the encoding")
	hashed := ssa.Value(f.Params[1])
	eachInstr(f, func(b *ssa.BasicBlock, _ int, in ssa.Instruction) {
		u, ok := in.(*ssa.UnOp)
		if !ok || u.Op != token.MUL {
			return
		}
		g, ok := u.X.(*ssa.Global)
		if !ok {
			return
		}
		if _, isVar := variantSpec[g.Name()]; !isVar {
			return
		}
		var valNil, valNonNil, isHashed, notHashed bool
		for _, fc := range factsAt(b) {
			if fc.cond == hashed {
				if fc.truth {
					isHashed = true
				} else {
					notHashed = true
				}
			}
			if e, neq, isN := nilCmp(fc.cond); isN {
				if _, fv, ok := fieldLoad(e); ok && fv != nil && fv.Name() == "StorageValue" {
					if fc.truth == neq {
						valNonNil = true
					} else {
						valNil = true
					}
				}
			}
		}
		ok2, want := true, ""
		switch g.Name() {
		case "branchVariant":
			ok2, want = valNil, "StorageValue == nil"
		case "branchWithValueVariant":
			ok2, want = valNonNil && notHashed, "StorageValue != nil && !hashed"
		case "branchWithHashedValueVariant":
			ok2, want = valNonNil && isHashed, "StorageValue != nil && hashed"
		case "leafWithHashedValueVariant":
			ok2, want = isHashed, "hashed"
		case "leafVariant":
			ok2, want = notHashed, "!hashed"
		}
		c.ob("R-VARIANT/select", "encodeHeader:"+g.Name(), u.Pos(), ok2, fmt.Sprintf("%s must be selected only on paths where %s is established (found nil=%v nonnil=%v hashed=%v nothashed=%v)", g.Name(), want, valNil, valNonNil, isHashed, notHashed))
	})
}

// R-EPOCHARG: the verifier checks VRF proofs for the block's OWN epoch.
func (c *Ctx) ruleEpochArg() {
	const dir = "lib/babe"
	c.doc("R-EPOCHARG", "VerificationManager.VerifyBlock hands newVerifier the unmodified result of GetEpochForBlock(header) (the block's own epoch, which the producer signs into the VRF transcript) — not the epoch whose descriptor is used after skipped epochs; newVerifier stores it in verifier.epoch; inside the verifier every callee parameter named epoch/randomness receives verifier.epoch/verifier.randomness")
	f := c.fn(dir, "(*VerificationManager).VerifyBlock")
	if f != nil {
		n := 0
		eachInstr(f, func(_ *ssa.BasicBlock, _ int, in ssa.Instruction) {
			call, ok := in.(*ssa.Call)
			if !ok || call.Call.StaticCallee() == nil || call.Call.StaticCallee().Name() != "newVerifier" {
				return
			}
			n++
			ok2 := false
			if ex, isEx := stripConv(call.Call.Args[2]).(*ssa.Extract); isEx && ex.Index == 0 {
				if src, isCall := ex.Tuple.(*ssa.Call); isCall && src.Call.IsInvoke() && src.Call.Method.Name() == "GetEpochForBlock" && len(src.Call.Args) == 1 && src.Call.Args[0] == ssa.Value(f.Params[1]) {
					ok2 = true
				}
			}
			c.ob("R-EPOCHARG", fmt.Sprintf("VerifyBlock:newVerifier-epoch#%d", n), call.Pos(), ok2,
				"the verifier must be built with GetEpochForBlock(header) itself: with any other epoch (e.g. parent epoch + 1 after skipped epochs) honest VRF claims of the block's epoch are rejected and claims signed for another epoch accepted")
		})
		if n == 0 {
			c.ob("R-EPOCHARG", "VerifyBlock:newVerifier-epoch", f.Pos(), false, "newVerifier is not called (anchor changed)")
		}
	}
	if nv := c.fn(dir, "newVerifier"); nv != nil {
		ok := false
		eachInstr(nv, func(_ *ssa.BasicBlock, _ int, in ssa.Instruction) {
			if st, isSt := in.(*ssa.Store); isSt {
				if fa, isFA := st.Addr.(*ssa.FieldAddr); isFA && fieldVar(fa) != nil && fieldVar(fa).Name() == "epoch" && st.Val == ssa.Value(nv.Params[2]) {
					ok = true
				}
			}
		})
		c.ob("R-EPOCHARG", "newVerifier:epoch-field", nv.Pos(), ok, "newVerifier stores its epoch parameter in verifier.epoch")
	}
	sp := c.ssaPkg(dir)
	if sp == nil {
		return
	}
	n := 0
	for _, g := range allFuncs(c, sp) {
		if g.Signature.Recv() == nil || !strings.HasSuffix(g.Signature.Recv().Type().String(), "babe.verifier") || len(g.Params) == 0 {
			continue
		}
		eachInstr(g, func(_ *ssa.BasicBlock, _ int, in ssa.Instruction) {
			call, ok := in.(*ssa.Call)
			if !ok || call.Call.StaticCallee() == nil || call.Call.StaticCallee().Pkg != sp {
				return
			}
			cal := call.Call.StaticCallee()
			for i, p := range cal.Params {
				if i >= len(call.Call.Args) || (p.Name() != "epoch" && p.Name() != "randomness") {
					continue
				}
				n++
				base, fv, isField := fieldLoad(stripConv(call.Call.Args[i]))
				ok2 := isField && fv != nil && fv.Name() == p.Name() && base == ssa.Value(g.Params[0])
				c.ob("R-EPOCHARG", fmt.Sprintf("%s->%s:%s#%d", shortFn(g), cal.Name(), p.Name(), n), call.Pos(), ok2,
					"inside the verifier the "+p.Name()+" handed to "+cal.Name()+" must be verifier."+p.Name())
			}
		})
	}
}

// R-FULLSCAN: every loop that walks a list of the given element type visits ALL its elements.
// Affine reasoning in the coordinates of the underlying list B: an access X[ind+k] with X = B[aX:], ind ranging over
// [s, len(S)) with S = B[aS:], touches B[aX+s+k .. len(B)-aS+aX+k-1]; it is complete iff aX+k-aS == 0 and the indices
// below aX+s+k are read through constant indices.
func (c *Ctx) ruleFullScan(rule string, f *ssa.Function, elemSubstr, why string) {
	if f == nil {
		return
	}
	type norm struct {
		base ssa.Value
		off  int64
		ok   bool
	}
	normalise := func(v ssa.Value) norm {
		off := int64(0)
		for {
			sl, isSl := v.(*ssa.Slice)
			if !isSl {
				return norm{v, off, true}
			}
			if sl.High != nil || sl.Max != nil {
				return norm{v, off, false}
			}
			if sl.Low != nil {
				k, isC := constInt(sl.Low)
				if !isC {
					return norm{v, off, false}
				}
				off += k
			}
			v = sl.X
		}
	}
	isElem := func(v ssa.Value) bool {
		s, ok := v.Type().Underlying().(*types.Slice)
		return ok && strings.Contains(s.Elem().String(), elemSubstr)
	}
	n := 0
	for _, g := range withAnon(f) {
		constReads := map[ssa.Value]map[int64]bool{}
		type scan struct {
			ia         *ssa.IndexAddr
			base       ssa.Value
			lo, slack  int64
			decided    bool
			undecidedW string
		}
		var scans []scan
		seenLoop := map[ssa.Value]bool{}
		eachInstr(g, func(_ *ssa.BasicBlock, _ int, in ssa.Instruction) {
			ia, ok := in.(*ssa.IndexAddr)
			if !ok || !isElem(ia.X) {
				return
			}
			x := normalise(ia.X)
			if cidx, isC := constInt(ia.Index); isC {
				if x.ok {
					if constReads[x.base] == nil {
						constReads[x.base] = map[int64]bool{}
					}
					constReads[x.base][x.off+cidx] = true
				}
				return
			}
			ind, k := ia.Index, int64(0)
			var phi *ssa.Phi
			start := int64(0)
			classify := func(v ssa.Value) bool {
				// range style: v = phi + 1, phi = [-1, v, v...]
				if bo, isBin := v.(*ssa.BinOp); isBin && bo.Op == token.ADD {
					if p, isPhi := bo.X.(*ssa.Phi); isPhi {
						if one, isC := constInt(bo.Y); isC && one == 1 {
							init, rest := false, true
							for _, e := range p.Edges {
								if cst, isC := constInt(e); isC && cst == -1 {
									init = true
								} else if e != ssa.Value(bo) {
									rest = false
								}
							}
							if init && rest {
								phi, start = p, 0
								return true
							}
						}
					}
				}
				// classic: v = phi [c0, phi+1]
				if p, isPhi := v.(*ssa.Phi); isPhi {
					c0, hasInit, rest := int64(0), false, true
					for _, e := range p.Edges {
						if cst, isC := constInt(e); isC {
							c0, hasInit = cst, true
							continue
						}
						bo, isBin := e.(*ssa.BinOp)
						one, isC := int64(0), false
						if isBin {
							one, isC = constInt(bo.Y)
						}
						if !isBin || bo.Op != token.ADD || bo.X != ssa.Value(p) || !isC || one != 1 {
							rest = false
						}
					}
					if hasInit && rest {
						phi, start = p, c0
						return true
					}
				}
				return false
			}
			if !classify(ind) {
				if bo, isBin := ind.(*ssa.BinOp); isBin && bo.Op == token.ADD {
					if kk, isC := constInt(bo.Y); isC && classify(bo.X) {
						ind, k = bo.X, kk
					}
				}
			}
			if phi == nil {
				return // not an induction-variable access: nothing claimed about it
			}
			if seenLoop[ind] {
				return
			}
			seenLoop[ind] = true
			// bound: ind < len(S)
			var bound ssa.Value
			for _, ref := range *ind.(ssa.Value).Referrers() {
				if bo, isBin := ref.(*ssa.BinOp); isBin && bo.Op == token.LSS && bo.X == ind {
					if l, isLen := lenOf(bo.Y); isLen {
						bound = l
					}
				}
			}
			sc := scan{ia: ia}
			if bound == nil || !x.ok {
				sc.undecidedW = "loop bound is not `index < len(list)` or the list is re-sliced with an upper bound"
				scans = append(scans, sc)
				return
			}
			s := normalise(bound)
			if !s.ok || !sameValue(s.base, x.base) {
				sc.undecidedW = "the loop is bounded by the length of a different list than the one it indexes"
				scans = append(scans, sc)
				return
			}
			sc.base, sc.decided = x.base, true
			sc.lo = x.off + start + k
			sc.slack = x.off + k - s.off // 0 == reaches the last element exactly
			scans = append(scans, sc)
		})
		for _, sc := range scans {
			n++
			ok, msg := false, sc.undecidedW
			if sc.decided {
				ok = sc.slack == 0
				for i := int64(0); i < sc.lo; i++ {
					if !constReads[sc.base][i] {
						ok = false
					}
				}
				msg = fmt.Sprintf("first visited index %d (lower ones must be read explicitly), distance of the last visited index from the end %d", sc.lo, -sc.slack)
			}
			c.ob(rule, fmt.Sprintf("%s:scan#%d", relName(g.String()), n), sc.ia.Pos(), ok, why+" — "+msg)
		}
	}
	if n == 0 {
		c.ob(rule, relName(f.String())+":scan", f.Pos(), false, "no loop over a list of "+elemSubstr+" found (anchor changed)")
	}
}
