package main

import (
	"fmt"
	"go/token"
	"go/types"
	"os"
	"strings"

	"golang.org/x/tools/go/ssa"
)

// R-ATOMICADD (C15): AddBlock changes the tree only after its last check.
func (c *Ctx) ruleAtomicAdd() {
	c.doc("R-ATOMICADD", btDir+" AddBlock: no failing return is reachable after the new node was linked into the tree (addChild / leaves.replace / a store into a node's children): a refused block must leave no trace")
	f := c.fn(btDir, "(*BlockTree).AddBlock")
	if f == nil {
		c.unresolved("(*BlockTree).AddBlock")
		return
	}
	var muts []ssa.Instruction
	eachInstr(f, func(_ *ssa.BasicBlock, _ int, in ssa.Instruction) {
		switch x := in.(type) {
		case *ssa.Call:
			if cal := x.Call.StaticCallee(); cal != nil && (cal.Name() == "addChild" || cal.Name() == "replace") {
				muts = append(muts, x)
			}
		case *ssa.Store:
			if fa, ok := x.Addr.(*ssa.FieldAddr); ok && fieldVar(fa) != nil && fieldVar(fa).Name() == "children" {
				if _, fresh := fa.X.(*ssa.Alloc); !fresh {
					muts = append(muts, x)
				}
			}
		}
	})
	if len(muts) == 0 {
		c.unresolved("tree mutations in AddBlock")
		return
	}
	bad := ""
	for _, r := range returnsOf(f) {
		last := resultOf(r, len(r.Results)-1)
		if k, ok := last.(*ssa.Const); ok && k.Value == nil {
			continue // success
		}
		for _, m := range muts {
			if instrReaches(m, r) {
				bad = fmt.Sprintf("the failing return at %s is reachable after the mutation at %s", c.pos(r.Pos()), c.pos(m.Pos()))
			}
		}
	}
	c.ob("R-ATOMICADD", "AddBlock:no-error-after-mutation", f.Pos(), bad == "", bad)
}

// R-PRIMARYONLY (C16): only a primary pre-digest counts as primary.
func (c *Ctx) rulePrimaryOnly() {
	dir := "dot/types"
	c.doc("R-PRIMARYONLY", dir+" IsPrimary: evaluated for each of the three BABE pre-digest variants (type assertions and type-switch tests decided by the variant), the successful return is true for BabePrimaryPreDigest and false for both secondary variants — the fork-choice weight counts primary blocks only")
	f := c.fn(dir, "IsPrimary")
	if f == nil {
		c.unresolved(dir + ".IsPrimary")
		return
	}
	variants := map[string]bool{"BabePrimaryPreDigest": true, "BabeSecondaryPlainPreDigest": false, "BabeSecondaryVRFPreDigest": false}
	nAssert := 0
	for v, want := range variants {
		env := map[ssa.Value]int64{}
		eachInstr(f, func(_ *ssa.BasicBlock, _ int, in ssa.Instruction) {
			ta, ok := in.(*ssa.TypeAssert)
			if !ok || !ta.CommaOk {
				return
			}
			at := namedType(ta.AssertedType)
			if _, isVariant := variants[at[strings.LastIndex(at, ".")+1:]]; !isVariant {
				return // a test of something else (the digest item kind)
			}
			nAssert++
			is := strings.HasSuffix(at, "."+v)
			for _, r := range *ta.Referrers() {
				if ex, ok := r.(*ssa.Extract); ok && ex.Index == 1 {
					if is {
						env[ex] = 1
					} else {
						env[ex] = 0
					}
				}
			}
		})
		got, decided := int64(-1), true
		for _, r := range returnsOf(f) {
			if len(r.Results) < 2 {
				continue
			}
			if k, ok := resultOf(r, 1).(*ssa.Const); !ok || k.Value != nil {
				continue // error return
			}
			feasible := true
			for _, g := range guardsOf(r.Block()) {
				k, ok := evalInt(g.cond, env, 0)
				if ok && (k != 0) != g.truth {
					feasible = false
				}
			}
			if !feasible {
				continue
			}
			k, ok := evalInt(resultOf(r, 0), env, 0)
			if !ok {
				decided = false
				continue
			}
			if got >= 0 && got != k {
				decided = false
			}
			got = k
		}
		c.ob("R-PRIMARYONLY", "IsPrimary:"+v, f.Pos(), decided && (got == 1) == want && got >= 0,
			fmt.Sprintf("IsPrimary for a %s pre-digest returns %d (decided=%v), want %v", v, got, decided, want))
	}
	if nAssert == 0 {
		c.unresolved("type tests in IsPrimary")
	}
}

// R-FRESHKEYSET (C18): the set of authority keys used to admit precommits is derived from the current voters.
func (c *Ctx) ruleFreshKeySet() {
	c.doc("R-FRESHKEYSET", gDir+" authorityKeySet: the returned set is a map made in this call and filled from State.voters on every path — never a value remembered in a field: updateAuthorities replaces the voters in place at a set change, and a remembered set would keep admitting the previous set's keys")
	f := c.fn(gDir, "(*Service).authorityKeySet")
	if f == nil {
		c.unresolved("(*Service).authorityKeySet")
		return
	}
	bad := ""
	for _, r := range returnsOf(f) {
		seen := map[ssa.Value]bool{}
		var walk func(v ssa.Value)
		walk = func(v ssa.Value) {
			if v == nil || seen[v] || bad != "" {
				return
			}
			seen[v] = true
			switch x := v.(type) {
			case *ssa.MakeMap:
			case *ssa.Phi:
				for _, e := range x.Edges {
					walk(e)
				}
			case *ssa.UnOp:
				if al, ok := x.X.(*ssa.Alloc); ok && x.Op == token.MUL {
					for _, ref := range *al.Referrers() {
						if st, ok := ref.(*ssa.Store); ok && st.Addr == ssa.Value(al) {
							walk(st.Val)
						}
					}
					return
				}
				if _, fv, ok := fieldLoad(x); ok && fv != nil {
					bad = "the field " + fv.Name()
					return
				}
				bad = x.String()
			case *ssa.Const:
				if x.Value != nil {
					bad = "a constant"
				}
			default:
				bad = v.String()
			}
		}
		walk(resultOf(r, 0))
	}
	readsVoters := false
	eachInstr(f, func(_ *ssa.BasicBlock, _ int, in ssa.Instruction) {
		if fa, ok := in.(*ssa.FieldAddr); ok && fieldVar(fa) != nil && fieldVar(fa).Name() == "voters" {
			readsVoters = true
		}
	})
	c.ob("R-FRESHKEYSET", "authorityKeySet:built-from-current-voters", f.Pos(), bad == "" && readsVoters, "the returned key set can be "+bad+fmt.Sprintf(" (reads State.voters: %v)", readsVoters))
}

// R-TOTALORDER (C11): the field order of a struct encoding does not depend on the sort algorithm.
func (c *Ctx) ruleFieldOrderTotal() {
	dir := "pkg/scale"
	c.doc("R-TOTALORDER", dir+" fieldScaleIndices: the sort that fixes the encoding order of struct fields is stable, or its comparator breaks ties between fields by their declaration index (it compares fieldIndex): sort.Slice is unstable beyond 12 elements, so a comparator that ties all untagged fields permutes them in large structs")
	sp := c.ssaPkg(dir)
	if sp == nil {
		return
	}
	n := 0
	for _, f := range allFuncs(c, sp) {
		if f.Name() != "fieldScaleIndices" {
			continue
		}
		eachInstr(f, func(_ *ssa.BasicBlock, _ int, in ssa.Instruction) {
			call, ok := in.(*ssa.Call)
			if !ok {
				return
			}
			name := calleeName(&call.Call)
			if name != "sort.Slice" && name != "sort.SliceStable" && !strings.HasPrefix(name, "slices.Sort") {
				return
			}
			n++
			stable := name == "sort.SliceStable" || strings.HasPrefix(name, "slices.SortStable")
			tie := false
			if mc, ok := call.Call.Args[len(call.Call.Args)-1].(*ssa.MakeClosure); ok {
				if cf, ok := mc.Fn.(*ssa.Function); ok {
					cnt := 0
					// the comparator and the package helpers it delegates to
					fns := []*ssa.Function{cf}
					eachInstr(cf, func(_ *ssa.BasicBlock, _ int, in2 ssa.Instruction) {
						if cl, ok := in2.(*ssa.Call); ok && cl.Call.StaticCallee() != nil && cl.Call.StaticCallee().Pkg == f.Pkg && len(cl.Call.StaticCallee().Blocks) > 0 {
							fns = append(fns, cl.Call.StaticCallee())
						}
					})
					for _, cf := range fns {
						eachInstr(cf, func(_ *ssa.BasicBlock, _ int, in2 ssa.Instruction) {
							bo, ok := in2.(*ssa.BinOp)
							if !ok || (bo.Op != token.LSS && bo.Op != token.GTR && bo.Op != token.LEQ && bo.Op != token.GEQ) {
								return
							}
							isFI := func(v ssa.Value) bool {
								_, fv, ok := fieldLoad(v)
								return ok && fv != nil && fv.Name() == "fieldIndex"
							}
							if isFI(bo.X) && isFI(bo.Y) {
								cnt++
							}
						})
					}
					tie = cnt > 0
				}
			}
			c.ob("R-TOTALORDER", fmt.Sprintf("fieldScaleIndices:sort#%d", n), call.Pos(), stable || tie,
				"the field sort is unstable and its comparator never compares the declaration index of two fields")
		})
	}
	if n == 0 {
		c.unresolved("the field sort in fieldScaleIndices")
	}
}

// R-LENSIGN/conv (C12, C33): a decoded length is not narrowed to a signed integer before it was bounded.
func (c *Ctx) ruleLenConv(dir string) {
	c.doc("R-LENSIGN/conv", dir+": a conversion of the length returned by decodeLength to a signed integer type whose result is used in a comparison (a loop bound) is dominated by an upper bound on the length: int(l) of a compact >= 2^63 is negative, the element loop is skipped and the truncated input accepted")
	f := c.fn(dir, "(*decodeState).decodeLength")
	sp := c.ssaPkg(dir)
	if f == nil || sp == nil {
		c.unresolved(dir + " decodeLength")
		return
	}
	n := 0
	for _, g := range allFuncs(c, sp) {
		ord := 0
		eachInstr(g, func(_ *ssa.BasicBlock, _ int, in ssa.Instruction) {
			call, ok := in.(*ssa.Call)
			if !ok || call.Call.StaticCallee() != f {
				return
			}
			var l ssa.Value
			for _, r := range *call.Referrers() {
				if ex, ok := r.(*ssa.Extract); ok && ex.Index == 0 {
					l = ex
				}
			}
			if l == nil {
				return
			}
			n++
			for _, r := range *l.Referrers() {
				cv, ok := r.(*ssa.Convert)
				if !ok {
					continue
				}
				bt, _ := cv.Type().Underlying().(*types.Basic)
				if bt == nil || bt.Info()&types.IsUnsigned != 0 || bt.Info()&types.IsInteger == 0 {
					continue
				}
				// used as a comparison operand (directly or through a φ)?
				cmpUse := false
				var follow func(v ssa.Value, d int)
				follow = func(v ssa.Value, d int) {
					if d > 3 || v.Referrers() == nil {
						return
					}
					for _, u := range *v.Referrers() {
						switch y := u.(type) {
						case *ssa.BinOp:
							if isCmp(y.Op) {
								cmpUse = true
							}
						case *ssa.Phi:
							follow(y, d+1)
						}
					}
				}
				follow(cv, 0)
				if !cmpUse {
					continue
				}
				ord++
				bounded := guardedBy(cv.Block(), func(cond ssa.Value, truth bool) bool {
					bo, ok := cond.(*ssa.BinOp)
					if !ok || bo.X != l {
						return false
					}
					if _, isC := constInt(bo.Y); !isC {
						return false
					}
					return (bo.Op == token.GTR && !truth) || (bo.Op == token.LEQ && truth) || (bo.Op == token.LSS && truth) || (bo.Op == token.GEQ && !truth)
				})
				c.ob("R-LENSIGN/conv", fmt.Sprintf("%s:signed-bound#%d", relName(g.String()), ord), cv.Pos(), bounded,
					"the decoded length is converted to "+cv.Type().String()+" and compared without an upper bound on the length")
			}
		})
	}
	c.ob("R-LENSIGN/conv", "decodeLength-call-sites", token.NoPos, n > 0, fmt.Sprintf("%d call sites examined", n))
}

// R-GHOSTCONSTRAIN (C20): the merge-point search is constrained by the current best only while the descent did not leave it.
func (c *Ctx) ruleGhostConstrain() {
	c.doc("R-GHOSTCONSTRAIN", fgDir+" FindGHOST: the block handed to ghostFindMergePoint as constraint is currentBest only on the edge of a flag that the descent loop can reset (a loop-carried value with a `false` coming from the loop body): once the search has descended into a heavier vote-node the old best lies below the active node and must not filter the merge point")
	var f *ssa.Function
	if sp := c.ssaPkg(fgDir); sp != nil {
		for _, g := range allFuncs(c, sp) {
			if g.Name() == "FindGHOST" && g.Signature.Recv() != nil && len(g.Blocks) > 0 {
				f = g
			}
		}
	}
	if f == nil {
		c.unresolved("VoteGraph.FindGHOST")
		return
	}
	var call *ssa.Call
	eachInstr(f, func(_ *ssa.BasicBlock, _ int, in ssa.Instruction) {
		if cl, ok := in.(*ssa.Call); ok && cl.Call.StaticCallee() != nil && strings.HasPrefix(cl.Call.StaticCallee().Name(), "ghostFindMergePoint") {
			call = cl
		}
	})
	if call == nil {
		c.unresolved("call of ghostFindMergePoint in FindGHOST")
		return
	}
	// the constraint argument: the one of pointer-to-HashNumber type
	var arg ssa.Value
	for _, a := range call.Call.Args {
		if strings.Contains(a.Type().String(), "HashNumber") {
			arg = a
		}
	}
	if arg == nil {
		c.unresolved("constraint argument of ghostFindMergePoint")
		return
	}
	inLoopBody := func(b *ssa.BasicBlock) bool {
		for _, l := range loopsOf(f) {
			if l[b] {
				return true
			}
		}
		return false
	}
	resettable := func(v ssa.Value) bool {
		phi, ok := v.(*ssa.Phi)
		if !ok {
			return false
		}
		seen := map[*ssa.Phi]bool{}
		var has func(p *ssa.Phi) bool
		has = func(p *ssa.Phi) bool {
			if seen[p] {
				return false
			}
			seen[p] = true
			for i, e := range p.Edges {
				if k, ok := e.(*ssa.Const); ok && k.Value != nil && k.Value.String() == "false" && inLoopBody(p.Block().Preds[i]) {
					return true
				}
				if q, ok := e.(*ssa.Phi); ok && has(q) {
					return true
				}
			}
			return false
		}
		return has(phi)
	}
	ok, why := false, "the constraint is not selected by a flag"
	switch x := arg.(type) {
	case *ssa.Phi:
		// every edge that carries a non-nil value must come from the true edge of a resettable flag
		ok = true
		for i, e := range x.Edges {
			if k, isC := e.(*ssa.Const); isC && k.Value == nil {
				continue
			}
			pred := x.Block().Preds[i]
			good := false
			gs := guardsOf(pred)
			if iff := ifOf(pred); iff != nil && len(pred.Succs) == 2 {
				gs = append(gs, guard{cond: iff.Cond, truth: pred.Succs[0] == x.Block()})
			}
			for _, g := range gs {
				if g.truth && resettable(g.cond) {
					good = true
				}
			}
			if !good {
				ok, why = false, "currentBest reaches ghostFindMergePoint on an edge that is not the true edge of a flag the descent loop can reset"
			}
		}
	case *ssa.Const:
		ok = x.Value == nil
	}
	if ok {
		why = "constraint selected by a flag that the descent loop resets"
	}
	c.ob("R-GHOSTCONSTRAIN", "FindGHOST:constraint-follows-the-descent", call.Pos(), ok, why)
}

// R-FINALISE/setid (C17): a finalisation with a stale set id is refused before anything is written.
func (c *Ctx) ruleFinaliseSetID() {
	c.doc("R-FINALISE/setid", stateDir+" SetFinalisedHash: the call that persists the finalised sub-chain and empties the unfinalised-block map (handleFinalisedBlock) and every database Put are dominated by the accepting edge of the set-id check (setID not lower than the highest finalised one; directly or through a helper that compares its set-id parameter): a refused finalisation must change nothing, else the blocks are gone from memory while the head did not move and every later finalisation fails")
	f := c.fn(stateDir, "(*BlockState).SetFinalisedHash")
	if f == nil {
		c.unresolved("(*BlockState).SetFinalisedHash")
		return
	}
	if len(f.Params) < 4 {
		c.unresolved("parameters of SetFinalisedHash")
		return
	}
	setID := ssa.Value(f.Params[3])
	comparesParam := func(g *ssa.Function, idx int) bool {
		if g == nil || idx >= len(g.Params) {
			return false
		}
		found := false
		eachInstr(g, func(_ *ssa.BasicBlock, _ int, in ssa.Instruction) {
			if bo, ok := in.(*ssa.BinOp); ok && isCmp(bo.Op) && (bo.X == ssa.Value(g.Params[idx]) || bo.Y == ssa.Value(g.Params[idx])) {
				found = true
			}
		})
		return found
	}
	accepts := func(cond ssa.Value, truth bool) bool {
		// direct: setID < x is false / setID >= x is true
		if bo, ok := cond.(*ssa.BinOp); ok {
			if bo.X == setID && ((bo.Op == token.LSS && !truth) || (bo.Op == token.GEQ && truth)) {
				return true
			}
			// helper: err := check(setID); err != nil is false
			if e, neq, ok := nilCmp(cond); ok && truth != neq {
				if ex, isEx := e.(*ssa.Extract); isEx {
					e = ex.Tuple
				}
				if call, isCall := e.(*ssa.Call); isCall && call.Call.StaticCallee() != nil {
					for i, a := range call.Call.Args {
						if a == setID && comparesParam(call.Call.StaticCallee(), i) {
							// only a pure check: the helper must not write
							writes := false
							eachInstr(call.Call.StaticCallee(), func(_ *ssa.BasicBlock, _ int, in2 ssa.Instruction) {
								if c2, ok := in2.(*ssa.Call); ok && c2.Call.IsInvoke() && (c2.Call.Method.Name() == "Put" || c2.Call.Method.Name() == "Del") {
									writes = true
								}
							})
							return !writes
						}
					}
				}
			}
		}
		return false
	}
	n := 0
	eachInstr(f, func(b *ssa.BasicBlock, _ int, in ssa.Instruction) {
		call, ok := in.(*ssa.Call)
		if !ok {
			return
		}
		isWrite := false
		what := ""
		if cal := call.Call.StaticCallee(); cal != nil && cal.Name() == "handleFinalisedBlock" {
			isWrite, what = true, "handleFinalisedBlock"
		}
		if call.Call.IsInvoke() && call.Call.Method.Name() == "Put" {
			isWrite, what = true, "db.Put"
		}
		if !isWrite {
			return
		}
		n++
		c.ob("R-FINALISE/setid", fmt.Sprintf("SetFinalisedHash:%s#%d", what, n), call.Pos(), guardedBy(b, accepts),
			what+" runs before the set id was compared with the highest finalised one")
	})
	if n == 0 {
		c.unresolved("writes in SetFinalisedHash")
	}
}

// R-FRESHDECODE (C11, C12, C14): what a decode leaves in its destination does not depend on what was there before.
func (c *Ctx) ruleFreshDecode() {
	dir := "pkg/scale"
	c.doc("R-FRESHDECODE", dir+": decodePointer's `None` case stores a value into the destination (the nil pointer) instead of leaving it alone, and decodeMap installs a map made in the call on every path (not only when the destination was nil): a reused destination must not keep Some(old) for an encoded None, nor merge old map entries")
	if f := c.fn(dir, "(*decodeState).decodePointer"); f == nil {
		c.unresolved("(*decodeState).decodePointer")
	} else {
		dst := ssa.Value(f.Params[1])
		// the option byte: result of ReadByte; the None edge: byte == 0
		okNone := false
		found := false
		for _, b := range f.Blocks {
			isNone := guardedBy(b, func(cond ssa.Value, truth bool) bool {
				bo, ok := cond.(*ssa.BinOp)
				if !ok || bo.Op != token.EQL || !truth {
					return false
				}
				k, isC := constInt(bo.Y)
				return isC && k == 0
			})
			if !isNone {
				continue
			}
			found = true
			for _, in := range b.Instrs {
				if call, ok := in.(*ssa.Call); ok && calleeName(&call.Call) == "(reflect.Value).Set" && len(call.Call.Args) > 0 && call.Call.Args[0] == dst {
					okNone = true
				}
			}
		}
		c.ob("R-FRESHDECODE", "decodePointer:none-resets-destination", f.Pos(), found && okNone, "the None (0x00) case leaves the destination pointer as it was")
	}
	if f := c.fn(dir, "(*decodeState).decodeMap"); f == nil {
		c.unresolved("(*decodeState).decodeMap")
	} else {
		dst := ssa.Value(f.Params[1])
		var set *ssa.Call
		eachInstr(f, func(_ *ssa.BasicBlock, _ int, in ssa.Instruction) {
			call, ok := in.(*ssa.Call)
			if !ok || calleeName(&call.Call) != "(reflect.Value).Set" || call.Call.Args[0] != dst {
				return
			}
			if mk, ok := call.Call.Args[1].(*ssa.Call); ok && strings.HasPrefix(calleeName(&mk.Call), "reflect.MakeMap") {
				set = call
			}
		})
		ok := set != nil
		if ok {
			// unconditional with respect to the destination: every element store is dominated by it, and it is not
			// guarded by a test of the destination
			if guardedBy(set.Block(), func(cond ssa.Value, truth bool) bool {
				call, isCall := cond.(*ssa.Call)
				return isCall && strings.HasPrefix(calleeName(&call.Call), "(reflect.Value).Is") && call.Call.Args[0] == dst
			}) {
				ok = false
			}
		}
		c.ob("R-FRESHDECODE", "decodeMap:fresh-map", f.Pos(), ok, "the destination map is replaced by a fresh one only when it was nil: entries of a reused destination survive the decode")
	}
}

// R-NOFLOATINT (C13): a balance does not pass through a float64.
func (c *Ctx) ruleNoFloatInt() {
	dir := "lib/genesis"
	c.doc("R-NOFLOATINT", dir+": no big.NewInt(int64(f)) with f a float64: genesis amounts are 128-bit integers, a float64 holds 53 significant bits and int64(f) saturates at 2^63 — a balance of 2^53+1 is written as 2^53, 1e19 as 2^63")
	sp := c.ssaPkg(dir)
	if sp == nil {
		return
	}
	n := 0
	for _, f := range allFuncs(c, sp) {
		ord := 0
		eachInstr(f, func(_ *ssa.BasicBlock, _ int, in ssa.Instruction) {
			call, ok := in.(*ssa.Call)
			if !ok || calleeName(&call.Call) != "math/big.NewInt" {
				return
			}
			n++
			cv, ok := call.Call.Args[0].(*ssa.Convert)
			if !ok {
				return
			}
			bt, _ := cv.X.Type().Underlying().(*types.Basic)
			if bt == nil || bt.Info()&types.IsFloat == 0 {
				return
			}
			ord++
			c.ob("R-NOFLOATINT", fmt.Sprintf("%s:big.NewInt(int64(float64))#%d", relName(f.String()), ord), call.Pos(), false,
				shortFn(f)+" builds a big integer from a float64: amounts above 2^53 lose their low bits, above 2^63 they saturate")
		})
	}
	c.ob("R-NOFLOATINT", "big.NewInt-sites-examined", token.NoPos, n > 0, fmt.Sprintf("%d big.NewInt calls examined", n))
}

// R-VALIDBEFOREEQV (C21): only a valid vote can make its sender an equivocator.
func (c *Ctx) ruleValidBeforeEquivocation() {
	c.doc("R-VALIDBEFOREEQV", gDir+" validateVoteMessage: checkAndReportEquivocation runs only on the success edge of validateVote (block known, hash/number agree, descends from the finalised head): a malformed second vote must not turn its sender into an equivocator that counts for every block")
	f := c.fn(gDir, "(*Service).validateVoteMessage")
	if f == nil {
		c.unresolved("(*Service).validateVoteMessage")
		return
	}
	var validate, eqv *ssa.Call
	eachInstr(f, func(_ *ssa.BasicBlock, _ int, in ssa.Instruction) {
		if call, ok := in.(*ssa.Call); ok && call.Call.StaticCallee() != nil {
			switch call.Call.StaticCallee().Name() {
			case "validateVote":
				validate = call
			case "checkAndReportEquivocation":
				eqv = call
			}
		}
	})
	if validate == nil || eqv == nil {
		c.unresolved("validateVote / checkAndReportEquivocation calls in validateVoteMessage")
		return
	}
	ok := guardedBy(eqv.Block(), func(cond ssa.Value, truth bool) bool {
		e, neq, isNil := nilCmp(cond)
		return isNil && e == ssa.Value(validate) && truth != neq
	})
	c.ob("R-VALIDBEFOREEQV", "validateVoteMessage:equivocation-check-after-validation", eqv.Pos(), ok, "checkAndReportEquivocation is reachable without validateVote having returned nil")
}

// R-PHASECONSIST (C22, C20): one closure, one phase.
func (c *Ctx) rulePhaseConsistent() {
	c.doc("R-PHASECONSIST", fgDir+" round.go: within one function or closure every phase constant handed to the context's Weight / EquivocationWeight is the same phase: the completability test mixes precommit weights with the precommit equivocators, never with the prevote ones")
	sp := c.ssaPkg(fgDir)
	if sp == nil {
		return
	}
	n := 0
	for _, f := range allFuncs(c, sp) {
		if !strings.HasSuffix(c.prog.Fset.Position(f.Pos()).Filename, "round.go") {
			continue
		}
		phases := map[int64]token.Pos{}
		eachInstr(f, func(_ *ssa.BasicBlock, _ int, in ssa.Instruction) {
			call, ok := in.(*ssa.Call)
			if !ok {
				return
			}
			cal := call.Call.StaticCallee()
			if cal == nil {
				return
			}
			name := cal.Name()
			if i := strings.Index(name, "["); i > 0 {
				name = name[:i]
			}
			if name != "Weight" && name != "EquivocationWeight" {
				return
			}
			for _, a := range call.Call.Args {
				if k, isC := a.(*ssa.Const); isC && strings.HasSuffix(a.Type().String(), "Phase") {
					if v, ok := constInt(k); ok {
						phases[v] = call.Pos()
					}
				}
			}
		})
		if len(phases) == 0 {
			continue
		}
		n++
		c.ob("R-PHASECONSIST", relName(f.String())+":single-phase", f.Pos(), len(phases) == 1, fmt.Sprintf("%d different phases are queried in one function", len(phases)))
	}
	if n == 0 {
		c.unresolved("Weight/EquivocationWeight calls with a phase constant in round.go")
	}
}

// R-NOINPLACEFILTER (C23): a digest list filtered in place is not also returned unfiltered.
func (c *Ctx) ruleNoInPlaceFilter() {
	dir := "dot/digest"
	c.doc("R-NOINPLACEFILTER", dir+": a function that builds a filtered list by appending onto param[:0] (sharing the parameter's backing array) never returns or hands on the parameter itself: after the in-place filtering the original list has lost the filtered-out elements' successors' positions (a scheduled change followed by another digest disappears and the last digest is handled twice)")
	sp := c.ssaPkg(dir)
	if sp == nil {
		return
	}
	n := 0
	for _, f := range allFuncs(c, sp) {
		for _, p := range f.Params {
			if _, ok := p.Type().Underlying().(*types.Slice); !ok {
				continue
			}
			n++
			inplace := false
			for _, r := range *p.Referrers() {
				sl, ok := r.(*ssa.Slice)
				if !ok || sl.X != ssa.Value(p) || sl.Low != nil {
					continue
				}
				if k, isC := constInt(sl.High); !isC || k != 0 {
					continue
				}
				// param[:0] flowing into an append
				for v := range forwardValues(sl) {
					if call, ok := v.(*ssa.Call); ok && calleeName(&call.Call) == "builtin.append" {
						inplace = true
					}
				}
			}
			if !inplace {
				continue
			}
			reused := ""
			for _, r := range *p.Referrers() {
				switch x := r.(type) {
				case *ssa.Return:
					reused = c.pos(x.Pos())
				case *ssa.Call:
					if calleeName(&x.Call) != "builtin.len" && calleeName(&x.Call) != "builtin.cap" {
						reused = c.pos(x.Pos())
					}
				case *ssa.Phi:
					reused = c.pos(x.Pos())
				}
			}
			c.ob("R-NOINPLACEFILTER", relName(f.String())+":"+p.Name()+"-filtered-in-place", f.Pos(), reused == "", "the parameter is filtered in place (append onto "+p.Name()+"[:0]) and also used unfiltered at "+reused)
		}
	}
	c.ob("R-NOINPLACEFILTER", "slice-parameters-examined", token.NoPos, n > 0, fmt.Sprintf("%d slice parameters examined", n))
}

// forwardValues: values derived from v through φ, append (as base), slice and conversions.
func forwardValues(v ssa.Value) map[ssa.Value]bool {
	seen := map[ssa.Value]bool{v: true}
	work := []ssa.Value{v}
	for len(work) > 0 {
		x := work[len(work)-1]
		work = work[:len(work)-1]
		if x.Referrers() == nil {
			continue
		}
		for _, r := range *x.Referrers() {
			var nv ssa.Value
			switch y := r.(type) {
			case *ssa.Phi:
				nv = y
			case *ssa.Call:
				if calleeName(&y.Call) == "builtin.append" && len(y.Call.Args) > 0 && y.Call.Args[0] == x {
					nv = y
				}
			case *ssa.Slice:
				nv = y
			case *ssa.ChangeType:
				nv = y
			}
			if nv != nil && !seen[nv] {
				seen[nv] = true
				work = append(work, nv)
			}
		}
	}
	return seen
}

// R-ERRWRAP (C26 and the packages its lookups run through): the error that is wrapped is the error that was tested.
func (c *Ctx) ruleErrWrap(dirs ...string) {
	c.doc("R-ERRWRAP", strings.Join(dirs, ", ")+": in a block entered because an error value e is non-nil, a returned fmt.Errorf(... %w ...) wraps e and not a different error value that is live at that point: callers dispatch on the wrapped sentinel with errors.Is (findAncestor skips an announcing block only on database.ErrNotFound)")
	n := 0
	for _, dir := range dirs {
		sp := c.ssaPkg(dir)
		if sp == nil {
			continue
		}
		for _, f := range allFuncs(c, sp) {
			ord := 0
			eachInstr(f, func(b *ssa.BasicBlock, _ int, in ssa.Instruction) {
				call, ok := in.(*ssa.Call)
				if !ok || calleeName(&call.Call) != "fmt.Errorf" {
					return
				}
				// error-typed operands of the varargs
				var wrapped []ssa.Value
				if len(call.Call.Args) == 2 {
					if sl, ok := call.Call.Args[1].(*ssa.Slice); ok {
						if al, ok := sl.X.(*ssa.Alloc); ok {
							for _, r := range *al.Referrers() {
								ia, ok := r.(*ssa.IndexAddr)
								if !ok {
									continue
								}
								for _, r2 := range *ia.Referrers() {
									if st, ok := r2.(*ssa.Store); ok {
										if mi, ok := st.Val.(*ssa.MakeInterface); ok && types.Identical(mi.X.Type(), types.Universe.Lookup("error").Type()) {
											wrapped = append(wrapped, mi.X)
										} else if ct, ok := st.Val.(*ssa.ChangeInterface); ok && types.Identical(ct.X.Type(), types.Universe.Lookup("error").Type()) {
											wrapped = append(wrapped, ct.X)
										}
									}
								}
							}
						}
					}
				}
				if len(wrapped) == 0 {
					return
				}
				// the innermost guard `e != nil` dominating this block
				var tested ssa.Value
				for d := b; d != nil; d = d.Idom() {
					if id := d.Idom(); id != nil {
						if iff := ifOf(id); iff != nil && len(id.Succs) == 2 && id.Succs[0] == d && id.Succs[1] != d {
							if e, neq, ok := nilCmp(iff.Cond); ok && neq && types.Identical(e.Type(), types.Universe.Lookup("error").Type()) {
								tested = e
								break
							}
						}
					}
				}
				if tested == nil {
					return
				}
				n++
				good := false
				other := false
				for _, w := range wrapped {
					if w == tested || sameValue(w, tested) {
						good = true
					} else if _, isCall := stripExtract(w).(*ssa.Call); isCall {
						other = true
					}
				}
				if good || !other {
					return
				}
				ord++
				c.ob("R-ERRWRAP", fmt.Sprintf("%s:wraps-other-error#%d", relName(f.String()), ord), call.Pos(), false,
					shortFn(f)+" is in the branch of one failed call and wraps the error of a different call")
			})
		}
	}
	c.ob("R-ERRWRAP", "wrap-sites-examined", token.NoPos, n > 0, fmt.Sprintf("%d guarded wrap sites examined", n))
}

func stripExtract(v ssa.Value) ssa.Value {
	if ex, ok := v.(*ssa.Extract); ok {
		return ex.Tuple
	}
	return v
}

// R-EARLYOUT (C27): a header is left unrecorded only when the clock is behind the table, or when it is already there.
func (c *Ctx) ruleEquivocationEarlyOut() {
	c.doc("R-EARLYOUT", stateDir+" CheckEquivocation: a `no proof` return that is not preceded by recording the header is either the direct true edge of `slotNow < firstSavedSlot` (a comparison of the CLOCK parameter, not of the header's slot, and not one arm of a disjunction) or the duplicate-header return inside the scan of the stored headers: a header of an old slot inside the window must still be compared and recorded")
	f := c.fn(stateDir, "(*SlotState).CheckEquivocation")
	if f == nil {
		c.unresolved("(*SlotState).CheckEquivocation")
		return
	}
	if len(f.Params) < 3 {
		c.unresolved("parameters of CheckEquivocation")
		return
	}
	slotNow := ssa.Value(f.Params[1])
	var puts []ssa.Instruction
	eachInstr(f, func(_ *ssa.BasicBlock, _ int, in ssa.Instruction) {
		if call, ok := in.(*ssa.Call); ok && call.Call.IsInvoke() && call.Call.Method.Name() == "Put" {
			puts = append(puts, call)
		}
	})
	loops := loopsOf(f)
	n := 0
	for _, r := range returnsOf(f) {
		if len(r.Results) != 2 || !isNilConst(resultOf(r, 0)) || !isNilConst(resultOf(r, 1)) {
			continue
		}
		recorded := false
		for _, p := range puts {
			if instrReaches(p, r) {
				recorded = true
			}
		}
		if recorded {
			continue
		}
		n++
		b := r.Block()
		clock := false
		if len(b.Preds) == 1 {
			if iff := ifOf(b.Preds[0]); iff != nil && b.Preds[0].Succs[0] == b {
				if bo, ok := iff.Cond.(*ssa.BinOp); ok && ((bo.Op == token.LSS && bo.X == slotNow) || (bo.Op == token.GTR && bo.Y == slotNow)) {
					clock = true
				}
			}
		}
		dup := inLoop(b)
		for _, l := range loops {
			if l[b] {
				dup = true
			}
		}
		// the capacity window: saturating (slotNow - slot) compared with a constant
		if len(b.Preds) == 1 {
			if iff := ifOf(b.Preds[0]); iff != nil && b.Preds[0].Succs[0] == b {
				if bo, ok := iff.Cond.(*ssa.BinOp); ok && bo.Op == token.GTR {
					if call, ok := bo.X.(*ssa.Call); ok && call.Call.StaticCallee() != nil && strings.HasPrefix(call.Call.StaticCallee().Name(), "SaturatingSub") && len(call.Call.Args) == 2 && call.Call.Args[0] == slotNow {
						if _, isC := constInt(bo.Y); isC {
							clock = true
						}
					}
				}
			}
		}
		c.ob("R-EARLYOUT", fmt.Sprintf("CheckEquivocation:unrecorded-return#%d", n), r.Pos(), clock || dup,
			"this return leaves the header unrecorded and uncompared on a condition other than `slotNow < firstSavedSlot` or a duplicate header")
	}
	if n == 0 {
		c.unresolved("early returns of CheckEquivocation")
	}
}

// R-RECIDONCE (C29): the recovery byte is normalised once.
func (c *Ctx) ruleRecIDOnce() {
	dir := "lib/crypto/secp256k1"
	c.doc("R-RECIDONCE", dir+": a function that rewrites the recovery byte of a signature (sig[64] -= 27) does not hand the same slice to another function of the package that rewrites it again: 54..57 would become 0..3 and recover a key where the reference fails")
	sp := c.ssaPkg(dir)
	if sp == nil {
		return
	}
	normalises := func(f *ssa.Function) (ssa.Value, bool) {
		var sig ssa.Value
		eachInstr(f, func(_ *ssa.BasicBlock, _ int, in ssa.Instruction) {
			st, ok := in.(*ssa.Store)
			if !ok {
				return
			}
			ia, ok := st.Addr.(*ssa.IndexAddr)
			if !ok {
				return
			}
			if k, isC := constInt(ia.Index); !isC || k != 64 {
				return
			}
			if bo, ok := st.Val.(*ssa.BinOp); ok && bo.Op == token.SUB {
				if _, isP := ia.X.(*ssa.Parameter); isP {
					sig = ia.X
				}
			}
		})
		return sig, sig != nil
	}
	n := 0
	for _, f := range allFuncs(c, sp) {
		sig, ok := normalises(f)
		if !ok {
			continue
		}
		n++
		bad := ""
		eachInstr(f, func(_ *ssa.BasicBlock, _ int, in ssa.Instruction) {
			call, ok := in.(*ssa.Call)
			if !ok || call.Call.StaticCallee() == nil || call.Call.StaticCallee().Pkg != sp {
				return
			}
			g := call.Call.StaticCallee()
			gsig, gok := normalises(g)
			if !gok {
				return
			}
			for i, a := range call.Call.Args {
				if a == sig && i < len(g.Params) && ssa.Value(g.Params[i]) == gsig {
					bad = g.Name()
				}
			}
		})
		c.ob("R-RECIDONCE", relName(f.String())+":normalises-once", f.Pos(), bad == "", "the recovery byte is rewritten here and again in "+bad+", which receives the same slice")
	}
	if n == 0 {
		c.unresolved("recovery-byte normalisation in " + dir)
	}
}

// R-INSERTFRESH (C30): inserting a peer never resets the state of a peer that is already known.
func (c *Ctx) ruleInsertFresh() {
	c.doc("R-INSERTFRESH", psDir+" PeersState.insertPeer: the membership state is written only into the node created in this call (newNode), never into a node found in the table: addReservedPeers calls insertPeer for peers that may be connected, and resetting a connected peer to notConnected leaks its slot")
	f := c.fn(psDir, "(*PeersState).insertPeer")
	if f == nil {
		c.unresolved("(*PeersState).insertPeer")
		return
	}
	n := 0
	bad := ""
	eachInstr(f, func(_ *ssa.BasicBlock, _ int, in ssa.Instruction) {
		st, ok := in.(*ssa.Store)
		if !ok {
			return
		}
		ia, ok := st.Addr.(*ssa.IndexAddr)
		if !ok {
			return
		}
		_, fv, ok := fieldLoad(ia.X)
		if !ok || fv == nil || fv.Name() != "state" {
			return
		}
		n++
		base, _, _ := fieldLoad(ia.X)
		seen := map[ssa.Value]bool{}
		var walk func(v ssa.Value)
		walk = func(v ssa.Value) {
			if v == nil || seen[v] || bad != "" {
				return
			}
			seen[v] = true
			switch x := v.(type) {
			case *ssa.Call:
				if x.Call.StaticCallee() == nil || x.Call.StaticCallee().Name() != "newNode" {
					bad = "the result of " + calleeName(&x.Call)
				}
			case *ssa.Phi:
				for _, e := range x.Edges {
					walk(e)
				}
			case *ssa.Extract:
				if _, isLookup := x.Tuple.(*ssa.Lookup); isLookup {
					bad = "a node found in the table"
					return
				}
				walk(x.Tuple)
			case *ssa.Lookup:
				bad = "a node found in the table"
			default:
				bad = v.String()
			}
		}
		walk(base)
	})
	c.ob("R-INSERTFRESH", "insertPeer:state-written-into-new-node-only", f.Pos(), n > 0 && bad == "", "the membership state is written into "+bad)
}

// R-KEYPREFIX (C26): the prefix used to list one epoch's stored announcements cannot match another epoch's keys.
func (c *Ctx) ruleEpochKeyPrefix() {
	c.doc("R-KEYPREFIX", stateDir+" epoch.go: the key builders write `<epoch decimal><separator><hash>`; the prefix that getDataKeysFromDisk iterates over ends with the epoch number FOLLOWED BY THAT SEPARATOR — a prefix ending in the bare decimal number also matches the keys of epochs 10..19, 100.. (finalising in epoch 1 deletes their persisted announcements)")
	sp := c.ssaPkg(stateDir)
	if sp == nil {
		return
	}
	format := func(f *ssa.Function) string {
		out := ""
		eachInstr(f, func(_ *ssa.BasicBlock, _ int, in ssa.Instruction) {
			if call, ok := in.(*ssa.Call); ok && calleeName(&call.Call) == "fmt.Sprintf" {
				if k, ok := call.Call.Args[0].(*ssa.Const); ok && k.Value != nil {
					out = strings.Trim(k.Value.ExactString(), "\"")
				}
			}
		})
		return out
	}
	sep := ""
	for _, name := range []string{"nextEpochDataKey", "nextConfigDataKey"} {
		f := c.fn(stateDir, name)
		if f == nil {
			c.unresolved(stateDir + "." + name)
			return
		}
		fm := format(f)
		i := strings.Index(fm, "%d")
		if i < 0 || i+2 >= len(fm) {
			c.unresolved("format of " + name)
			return
		}
		s := fm[i+2 : i+3]
		if sep != "" && sep != s {
			c.ob("R-KEYPREFIX", "key-builders-agree", f.Pos(), false, "the two key builders use different separators")
			return
		}
		sep = s
	}
	var lister *ssa.Function
	for _, f := range allFuncs(c, sp) {
		if strings.HasPrefix(f.Name(), "getDataKeysFromDisk") && len(f.Blocks) > 0 && f.Parent() == nil {
			lister = f
			if f.Origin() != nil {
				lister = f.Origin()
			}
		}
	}
	if lister == nil {
		c.unresolved("getDataKeysFromDisk")
		return
	}
	fm := format(lister)
	c.ob("R-KEYPREFIX", "getDataKeysFromDisk:prefix-ends-with-separator", lister.Pos(), strings.HasSuffix(fm, "%d"+sep),
		fmt.Sprintf("the iteration prefix format is %q, the keys are written as <prefix>%%d%s<hash>", fm, sep))
}

// R-STALEHASH (C27): a header whose hash has been computed (and cached) is not changed afterwards.
func (c *Ctx) ruleStaleHash(dir string) {
	c.doc("R-STALEHASH", dir+": no field of a *types.Header parameter is stored after Hash() was called on it in the same function: Hash() caches its result in the header, so the mutated header keeps answering with the old hash — CheckEquivocation then compares the stored (re-hashed) header with a stale hash and reports an equivocation for one and the same header")
	sp := c.ssaPkg(dir)
	if sp == nil {
		return
	}
	n := 0
	for _, f := range allFuncs(c, sp) {
		for _, p := range f.Params {
			if !isNamed(p.Type(), "dot/types.Header") {
				continue
			}
			// the parameter itself, or loads of the cell it is spilled to when a closure captures it
			isP := func(v ssa.Value) bool {
				if v == ssa.Value(p) {
					return true
				}
				if u, ok := v.(*ssa.UnOp); ok && u.Op == token.MUL {
					if al, ok := u.X.(*ssa.Alloc); ok {
						for _, r := range *al.Referrers() {
							if st, ok := r.(*ssa.Store); ok && st.Addr == ssa.Value(al) && st.Val == ssa.Value(p) {
								return true
							}
						}
					}
				}
				return false
			}
			var hashes, stores []ssa.Instruction
			eachInstr(f, func(_ *ssa.BasicBlock, _ int, in ssa.Instruction) {
				switch x := in.(type) {
				case *ssa.Call:
					if cal := x.Call.StaticCallee(); cal != nil && cal.Name() == "Hash" && len(x.Call.Args) > 0 && isP(x.Call.Args[0]) {
						hashes = append(hashes, x)
					}
				case *ssa.Store:
					if fa, ok := x.Addr.(*ssa.FieldAddr); ok && isP(fa.X) {
						stores = append(stores, x)
					}
				}
			})
			if len(hashes) == 0 && len(stores) == 0 {
				continue
			}
			n++
			bad := ""
			for _, h := range hashes {
				for _, s := range stores {
					if instrReaches(h, s) {
						bad = fmt.Sprintf("Hash() at %s, field store at %s", c.pos(h.Pos()), c.pos(s.Pos()))
					}
				}
			}
			c.ob("R-STALEHASH", relName(f.String())+":"+p.Name()+"-not-mutated-after-Hash", f.Pos(), bad == "", "the header is changed after its hash was cached: "+bad)
		}
	}
	if n == 0 {
		c.unresolved("functions of " + dir + " that hash or change a *types.Header parameter")
	}
}

// R-PRUNEDANCESTRY (C23): ancestry queries about announcing blocks survive the pruning of an abandoned fork.
func (c *Ctx) rulePrunedAncestry() {
	c.doc("R-PRUNEDANCESTRY", stateDir+" GrandpaState: every ancestry function handed to the pending-change structures (a parameter of type isDescendantOfFunc) is a GrandpaState method that turns database.ErrNotFound into `not related` (errors.Is on that sentinel), not the block state's IsDescendantOf itself: the announcing block of a change on an abandoned fork is pruned from tree and database, and an error for it would make every later change application fail")
	sp := c.ssaPkg(stateDir)
	if sp == nil {
		return
	}
	tolerant := func(fn *ssa.Function) bool {
		if fn == nil {
			return false
		}
		found := false
		eachInstr(fn, func(_ *ssa.BasicBlock, _ int, in ssa.Instruction) {
			call, ok := in.(*ssa.Call)
			if !ok || calleeName(&call.Call) != "errors.Is" || len(call.Call.Args) != 2 {
				return
			}
			if u, ok := call.Call.Args[1].(*ssa.UnOp); ok {
				if g, ok := u.X.(*ssa.Global); ok && g.Name() == "ErrNotFound" && strings.HasSuffix(g.Pkg.Pkg.Path(), "internal/database") {
					found = true
				}
			}
		})
		return found
	}
	n := 0
	for _, f := range allFuncs(c, sp) {
		if f.Signature.Recv() == nil || !strings.HasSuffix(namedType(f.Signature.Recv().Type()), "state.GrandpaState") {
			continue
		}
		ord := 0
		eachInstr(f, func(_ *ssa.BasicBlock, _ int, in ssa.Instruction) {
			call, ok := in.(*ssa.Call)
			if !ok || call.Call.StaticCallee() == nil {
				return
			}
			sig := call.Call.StaticCallee().Signature
			args := call.Call.Args
			off := 0
			if sig.Recv() != nil {
				off = 1
			}
			for i := 0; i < sig.Params().Len(); i++ {
				if !strings.HasSuffix(sig.Params().At(i).Type().String(), "isDescendantOfFunc") || i+off >= len(args) {
					continue
				}
				n++
				ord++
				ok := false
				arg := args[i+off]
				if ct, isCT := arg.(*ssa.ChangeType); isCT {
					arg = ct.X
				}
				what := arg.String()
				if mc, isMC := arg.(*ssa.MakeClosure); isMC {
					if fn, isFn := mc.Fn.(*ssa.Function); isFn {
						what = fn.Name()
						target := fn
						if obj, isObj := fn.Object().(*types.Func); isObj && fn.Synthetic != "" {
							if real := c.prog.FuncValue(obj); real != nil {
								target = real
							}
						}
						ok = tolerant(target)
					}
				}
				c.ob("R-PRUNEDANCESTRY", fmt.Sprintf("%s:%s#%d", relName(f.String()), call.Call.StaticCallee().Name(), ord), call.Pos(), ok,
					"the ancestry function handed over ("+what+") does not treat a block missing from tree and database as unrelated")
			}
		})
	}
	if n == 0 {
		c.unresolved("isDescendantOfFunc arguments in GrandpaState")
	}
}

// R-CMP/unsigned-diff (C34): an ordering is not decided by the sign of an unsigned difference.
func (c *Ctx) ruleCmpUnsignedDiff(dir string, names ...string) {
	c.doc("R-CMP/unsigned-diff", dir+": the comparators ("+strings.Join(names, ", ")+") never convert the difference of two unsigned values to a signed integer: for operands 2^63 or more apart the sign is wrong and the order is not even transitive")
	sp := c.ssaPkg(dir)
	if sp == nil {
		return
	}
	n := 0
	for _, f := range allFuncs(c, sp) {
		match := false
		for _, nm := range names {
			if f.Name() == nm {
				match = true
			}
		}
		if !match {
			continue
		}
		n++
		bad := ""
		eachInstr(f, func(_ *ssa.BasicBlock, _ int, in ssa.Instruction) {
			cv, ok := in.(*ssa.Convert)
			if !ok {
				return
			}
			to, _ := cv.Type().Underlying().(*types.Basic)
			if to == nil || to.Info()&types.IsInteger == 0 || to.Info()&types.IsUnsigned != 0 {
				return
			}
			if bo, ok := cv.X.(*ssa.BinOp); ok && bo.Op == token.SUB {
				if from, _ := bo.Type().Underlying().(*types.Basic); from != nil && from.Info()&types.IsUnsigned != 0 {
					bad = c.pos(cv.Pos())
				}
			}
		})
		c.ob("R-CMP/unsigned-diff", relName(f.String())+":no-signed-view-of-unsigned-difference", f.Pos(), bad == "", "the comparator takes the sign of an unsigned difference at "+bad)
	}
	if n == 0 {
		c.unresolved("comparators " + strings.Join(names, ",") + " in " + dir)
	}
}

// R-BOUNDS/pubkey (C37): the public-key text of a key file is sliced only after its length was checked.
func (c *Ctx) rulePubKeySlice() {
	dir := "lib/keystore"
	c.doc("R-BOUNDS/pubkey", dir+": a constant-bound re-slice of the PublicKey string read from a key file (PublicKey[2:]) is dominated by a length test of that string: a key file without the field must be refused, not crash the import")
	sp := c.ssaPkg(dir)
	if sp == nil {
		return
	}
	n := 0
	for _, f := range allFuncs(c, sp) {
		ord := 0
		eachInstr(f, func(b *ssa.BasicBlock, _ int, in ssa.Instruction) {
			sl, ok := in.(*ssa.Slice)
			if !ok {
				return
			}
			_, fv, ok := fieldLoad(sl.X)
			if !ok || fv == nil || fv.Name() != "PublicKey" {
				return
			}
			lo, isC := int64(0), false
			if sl.Low != nil {
				lo, isC = constInt(sl.Low)
			}
			if !isC || lo == 0 {
				return
			}
			n++
			ord++
			okLen := guardedBy(b, func(cond ssa.Value, truth bool) bool {
				bo, ok := cond.(*ssa.BinOp)
				if !ok {
					return false
				}
				lc, ok := bo.X.(*ssa.Call)
				if !ok || calleeName(&lc.Call) != "builtin.len" || !sameFieldLoad(lc.Call.Args[0], sl.X) {
					return false
				}
				k, isK := constInt(bo.Y)
				if !isK {
					return false
				}
				switch {
				case bo.Op == token.LEQ && !truth && k >= lo-1, bo.Op == token.LSS && !truth && k >= lo,
					bo.Op == token.GTR && truth && k >= lo-1, bo.Op == token.GEQ && truth && k >= lo:
					return true
				}
				return false
			})
			c.ob("R-BOUNDS/pubkey", fmt.Sprintf("%s:PublicKey[%d:]#%d", relName(f.String()), lo, ord), sl.Pos(), okLen, "the public-key text is sliced without a length check")
		})
	}
	c.ob("R-BOUNDS/pubkey", "PublicKey-slices-examined", token.NoPos, true, fmt.Sprintf("%d constant-bound slices of PublicKey examined", n))
}

// R-PLAN/count (C31): the number of heights the planner covers is target - start + 1, for start 0 too.
func (c *Ctx) rulePlanCount() {
	c.doc("R-PLAN/count", msgDir+" NewAscendingBlockRequests: the block count the requests are cut from (the value tested against 1 for the single-block case), evaluated for start 0..6 and target start..start+6 through its φ-nodes, equals target - start + 1: a plan from height 0 must not lose its last height")
	f := c.fn(msgDir, "NewAscendingBlockRequests")
	if f == nil {
		c.unresolved(msgDir + ".NewAscendingBlockRequests")
		return
	}
	start, target := ssa.Value(f.Params[0]), ssa.Value(f.Params[1])
	var diff ssa.Value
	eachInstr(f, func(_ *ssa.BasicBlock, _ int, in ssa.Instruction) {
		bo, ok := in.(*ssa.BinOp)
		if !ok || bo.Op != token.EQL {
			return
		}
		if k, isC := constInt(bo.Y); !isC || k != 1 {
			return
		}
		sl := backwardSlice(bo.X, nil)
		if sl[start] && sl[target] {
			diff = bo.X
		}
	})
	if diff == nil {
		c.unresolved("the block count of NewAscendingBlockRequests (value compared with 1)")
		return
	}
	bad := ""
	n := 0
	for s := int64(0); s <= 6 && bad == ""; s++ {
		for t := s; t <= s+6; t++ {
			n++
			got, ok := evalInt(diff, map[ssa.Value]int64{start: s, target: t}, 0)
			if !ok {
				bad = fmt.Sprintf("count not evaluable for start=%d target=%d", s, t)
				break
			}
			if got != t-s+1 {
				bad = fmt.Sprintf("start=%d target=%d: count %d, want %d", s, t, got, t-s+1)
				break
			}
		}
	}
	c.ob("R-PLAN/count", "NewAscendingBlockRequests:count=target-start+1", f.Pos(), bad == "", fmt.Sprintf("%d valuations; %s", n, bad))
}

// R-FINALISE/eachblock (C36, C17): every block of the finalised sub-chain is written.
func (c *Ctx) ruleFinaliseEachBlock() {
	c.doc("R-FINALISE/eachblock", stateDir+" handleFinalisedBlock: in the loop over the finalised sub-chain the only iteration that returns to the loop head without having written the block's header AND body is the genesis block's (the comparison with genesisHash): `already stored` shortcuts keyed on a partial write (the header is the first of the block's non-atomic writes) leave a finalised block without body after a crash and a re-finalisation")
	f := c.fn(stateDir, "(*BlockState).handleFinalisedBlock")
	if f == nil {
		c.unresolved("(*BlockState).handleFinalisedBlock")
		return
	}
	var setHeader, setBody *ssa.Call
	eachInstr(f, func(_ *ssa.BasicBlock, _ int, in ssa.Instruction) {
		if call, ok := in.(*ssa.Call); ok && call.Call.StaticCallee() != nil {
			switch call.Call.StaticCallee().Name() {
			case "SetHeader":
				setHeader = call
			case "SetBlockBody":
				setBody = call
			}
		}
	})
	if setHeader == nil || setBody == nil {
		c.unresolved("SetHeader / SetBlockBody calls in handleFinalisedBlock")
		return
	}
	header, loop := innermostLoop(f, setBody.Block())
	if loop == nil {
		c.ob("R-FINALISE/eachblock", "handleFinalisedBlock:writes-in-loop", setBody.Pos(), false, "the block writes are not in a loop over the sub-chain")
		return
	}
	isGenesisGuard := func(cond ssa.Value, truth bool) bool {
		bo, ok := cond.(*ssa.BinOp)
		if !ok || bo.Op != token.EQL || !truth {
			return false
		}
		for _, side := range []ssa.Value{bo.X, bo.Y} {
			if _, fv, ok := fieldLoad(side); ok && fv != nil && fv.Name() == "genesisHash" {
				return true
			}
		}
		return false
	}
	bad := ""
	n := 0
	for b := range loop {
		if header == nil {
			break
		}
		back := false
		for _, s := range b.Succs {
			if s == header {
				back = true
			}
		}
		if !back || b == header {
			continue
		}
		n++
		if os.Getenv("VERIF_DEBUG") != "" {
			fmt.Printf("  debug eachblock: back block %d header %d domBody=%v domHeader=%v\n", b.Index, header.Index, setBody.Block().Dominates(b), setHeader.Block().Dominates(b))
		}
		if setBody.Block().Dominates(b) && setHeader.Block().Dominates(b) {
			continue
		}
		if guardedBy(b, isGenesisGuard) {
			continue
		}
		if iff := ifOf(b); iff != nil && len(b.Succs) == 2 && isGenesisGuard(iff.Cond, b.Succs[0] == header) {
			continue // the back edge itself is the genesis test
		}
		bad = "block " + fmt.Sprint(b.Index)
		for _, in := range b.Instrs {
			if p := c.pos(in.Pos()); p != "-" && p != "" {
				bad = p
				break
			}
		}
	}
	c.ob("R-FINALISE/eachblock", "handleFinalisedBlock:no-iteration-skips-the-writes", setBody.Pos(), header != nil && n > 0 && bad == "", "an iteration can continue with the next block without writing header and body (near "+bad+")")
}

// innermostLoop returns the header and the whole body (the union of the natural loops of all back edges to that
// header) of the innermost loop containing blk.
func innermostLoop(f *ssa.Function, blk *ssa.BasicBlock) (*ssa.BasicBlock, map[*ssa.BasicBlock]bool) {
	type lp struct {
		header *ssa.BasicBlock
		body   map[*ssa.BasicBlock]bool
	}
	byHeader := map[*ssa.BasicBlock]map[*ssa.BasicBlock]bool{}
	for _, d := range f.Blocks {
		for _, p := range d.Preds {
			if !d.Dominates(p) {
				continue
			}
			body := byHeader[d]
			if body == nil {
				body = map[*ssa.BasicBlock]bool{d: true}
				byHeader[d] = body
			}
			stack := []*ssa.BasicBlock{p}
			for len(stack) > 0 {
				x := stack[len(stack)-1]
				stack = stack[:len(stack)-1]
				if body[x] {
					continue
				}
				body[x] = true
				stack = append(stack, x.Preds...)
			}
		}
	}
	var best *lp
	for h, body := range byHeader {
		if body[blk] && (best == nil || len(body) < len(best.body)) {
			best = &lp{h, body}
		}
	}
	if best == nil {
		return nil, nil
	}
	return best.header, best.body
}
