package main

import (
	"fmt"
	"go/token"
	"go/types"
	"strings"

	"golang.org/x/tools/go/ssa"
)

// R-ATOMICADD (C15): AddBlock changes the tree only after its last check.
func (c *Ctx) ruleAtomicAdd() {
	c.doc("R-ATOMICADD", btDir+" AddBlock: no failing return is reachable after the new node was linked into the tree (addChild / leaves.replace / a store into a node's children): a refused block must leave no trace")
	f := c.fn(btDir, "(*BlockTree).AddBlock")
	if f == nil {
		c.unresolved("(*BlockTree).AddBlock")
		return
	}
	var muts []ssa.Instruction
	eachInstr(f, func(_ *ssa.BasicBlock, _ int, in ssa.Instruction) {
		switch x := in.(type) {
		case *ssa.Call:
			if cal := x.Call.StaticCallee(); cal != nil && (cal.Name() == "addChild" || cal.Name() == "replace") {
				muts = append(muts, x)
			}
		case *ssa.Store:
			if fa, ok := x.Addr.(*ssa.FieldAddr); ok && fieldVar(fa) != nil && fieldVar(fa).Name() == "children" {
				if _, fresh := fa.X.(*ssa.Alloc); !fresh {
					muts = append(muts, x)
				}
			}
		}
	})
	if len(muts) == 0 {
		c.unresolved("tree mutations in AddBlock")
		return
	}
	bad := ""
	for _, r := range returnsOf(f) {
		last := resultOf(r, len(r.Results)-1)
		if k, ok := last.(*ssa.Const); ok && k.Value == nil {
			continue // success
		}
		for _, m := range muts {
			if instrReaches(m, r) {
				bad = fmt.Sprintf("the failing return at %s is reachable after the mutation at %s", c.pos(r.Pos()), c.pos(m.Pos()))
			}
		}
	}
	c.ob("R-ATOMICADD", "AddBlock:no-error-after-mutation", f.Pos(), bad == "", bad)
}

// R-PRIMARYONLY (C16): only a primary pre-digest counts as primary.
func (c *Ctx) rulePrimaryOnly() {
	dir := "dot/types"
	c.doc("R-PRIMARYONLY", dir+" IsPrimary: evaluated for each of the three BABE pre-digest variants (type assertions and type-switch tests decided by the variant), the successful return is true for BabePrimaryPreDigest and false for both secondary variants — the fork-choice weight counts primary blocks only")
	f := c.fn(dir, "IsPrimary")
	if f == nil {
		c.unresolved(dir + ".IsPrimary")
		return
	}
	variants := map[string]bool{"BabePrimaryPreDigest": true, "BabeSecondaryPlainPreDigest": false, "BabeSecondaryVRFPreDigest": false}
	nAssert := 0
	for v, want := range variants {
		env := map[ssa.Value]int64{}
		eachInstr(f, func(_ *ssa.BasicBlock, _ int, in ssa.Instruction) {
			ta, ok := in.(*ssa.TypeAssert)
			if !ok || !ta.CommaOk {
				return
			}
			at := namedType(ta.AssertedType)
			if _, isVariant := variants[at[strings.LastIndex(at, ".")+1:]]; !isVariant {
				return // a test of something else (the digest item kind)
			}
			nAssert++
			is := strings.HasSuffix(at, "."+v)
			for _, r := range *ta.Referrers() {
				if ex, ok := r.(*ssa.Extract); ok && ex.Index == 1 {
					if is {
						env[ex] = 1
					} else {
						env[ex] = 0
					}
				}
			}
		})
		got, decided := int64(-1), true
		for _, r := range returnsOf(f) {
			if len(r.Results) < 2 {
				continue
			}
			if k, ok := resultOf(r, 1).(*ssa.Const); !ok || k.Value != nil {
				continue // error return
			}
			feasible := true
			for _, g := range guardsOf(r.Block()) {
				k, ok := evalInt(g.cond, env, 0)
				if ok && (k != 0) != g.truth {
					feasible = false
				}
			}
			if !feasible {
				continue
			}
			k, ok := evalInt(resultOf(r, 0), env, 0)
			if !ok {
				decided = false
				continue
			}
			if got >= 0 && got != k {
				decided = false
			}
			got = k
		}
		c.ob("R-PRIMARYONLY", "IsPrimary:"+v, f.Pos(), decided && (got == 1) == want && got >= 0,
			fmt.Sprintf("IsPrimary for a %s pre-digest returns %d (decided=%v), want %v", v, got, decided, want))
	}
	if nAssert == 0 {
		c.unresolved("type tests in IsPrimary")
	}
}

// R-FRESHKEYSET (C18): the set of authority keys used to admit precommits is derived from the current voters.
func (c *Ctx) ruleFreshKeySet() {
	c.doc("R-FRESHKEYSET", gDir+" authorityKeySet: the returned set is a map made in this call and filled from State.voters on every path — never a value remembered in a field: updateAuthorities replaces the voters in place at a set change, and a remembered set would keep admitting the previous set's keys")
	f := c.fn(gDir, "(*Service).authorityKeySet")
	if f == nil {
		c.unresolved("(*Service).authorityKeySet")
		return
	}
	bad := ""
	for _, r := range returnsOf(f) {
		seen := map[ssa.Value]bool{}
		var walk func(v ssa.Value)
		walk = func(v ssa.Value) {
			if v == nil || seen[v] || bad != "" {
				return
			}
			seen[v] = true
			switch x := v.(type) {
			case *ssa.MakeMap:
			case *ssa.Phi:
				for _, e := range x.Edges {
					walk(e)
				}
			case *ssa.UnOp:
				if al, ok := x.X.(*ssa.Alloc); ok && x.Op == token.MUL {
					for _, ref := range *al.Referrers() {
						if st, ok := ref.(*ssa.Store); ok && st.Addr == ssa.Value(al) {
							walk(st.Val)
						}
					}
					return
				}
				if _, fv, ok := fieldLoad(x); ok && fv != nil {
					bad = "the field " + fv.Name()
					return
				}
				bad = x.String()
			case *ssa.Const:
				if x.Value != nil {
					bad = "a constant"
				}
			default:
				bad = v.String()
			}
		}
		walk(resultOf(r, 0))
	}
	readsVoters := false
	eachInstr(f, func(_ *ssa.BasicBlock, _ int, in ssa.Instruction) {
		if fa, ok := in.(*ssa.FieldAddr); ok && fieldVar(fa) != nil && fieldVar(fa).Name() == "voters" {
			readsVoters = true
		}
	})
	c.ob("R-FRESHKEYSET", "authorityKeySet:built-from-current-voters", f.Pos(), bad == "" && readsVoters, "the returned key set can be "+bad+fmt.Sprintf(" (reads State.voters: %v)", readsVoters))
}

// R-TOTALORDER (C11): the field order of a struct encoding does not depend on the sort algorithm.
func (c *Ctx) ruleFieldOrderTotal() {
	dir := "pkg/scale"
	c.doc("R-TOTALORDER", dir+" fieldScaleIndices: the sort that fixes the encoding order of struct fields is stable, or its comparator breaks ties between fields by their declaration index (it compares fieldIndex): sort.Slice is unstable beyond 12 elements, so a comparator that ties all untagged fields permutes them in large structs")
	sp := c.ssaPkg(dir)
	if sp == nil {
		return
	}
	n := 0
	for _, f := range allFuncs(c, sp) {
		if f.Name() != "fieldScaleIndices" {
			continue
		}
		eachInstr(f, func(_ *ssa.BasicBlock, _ int, in ssa.Instruction) {
			call, ok := in.(*ssa.Call)
			if !ok {
				return
			}
			name := calleeName(&call.Call)
			if name != "sort.Slice" && name != "sort.SliceStable" && !strings.HasPrefix(name, "slices.Sort") {
				return
			}
			n++
			stable := name == "sort.SliceStable" || strings.HasPrefix(name, "slices.SortStable")
			tie := false
			if mc, ok := call.Call.Args[len(call.Call.Args)-1].(*ssa.MakeClosure); ok {
				if cf, ok := mc.Fn.(*ssa.Function); ok {
					cnt := 0
					eachInstr(cf, func(_ *ssa.BasicBlock, _ int, in2 ssa.Instruction) {
						bo, ok := in2.(*ssa.BinOp)
						if !ok || (bo.Op != token.LSS && bo.Op != token.GTR && bo.Op != token.LEQ && bo.Op != token.GEQ) {
							return
						}
						isFI := func(v ssa.Value) bool {
							_, fv, ok := fieldLoad(v)
							return ok && fv != nil && fv.Name() == "fieldIndex"
						}
						if isFI(bo.X) && isFI(bo.Y) {
							cnt++
						}
					})
					tie = cnt > 0
				}
			}
			c.ob("R-TOTALORDER", fmt.Sprintf("fieldScaleIndices:sort#%d", n), call.Pos(), stable || tie,
				"the field sort is unstable and its comparator never compares the declaration index of two fields")
		})
	}
	if n == 0 {
		c.unresolved("the field sort in fieldScaleIndices")
	}
}

// R-LENSIGN/conv (C12, C33): a decoded length is not narrowed to a signed integer before it was bounded.
func (c *Ctx) ruleLenConv(dir string) {
	c.doc("R-LENSIGN/conv", dir+": a conversion of the length returned by decodeLength to a signed integer type whose result is used in a comparison (a loop bound) is dominated by an upper bound on the length: int(l) of a compact >= 2^63 is negative, the element loop is skipped and the truncated input accepted")
	f := c.fn(dir, "(*decodeState).decodeLength")
	sp := c.ssaPkg(dir)
	if f == nil || sp == nil {
		c.unresolved(dir + " decodeLength")
		return
	}
	n := 0
	for _, g := range allFuncs(c, sp) {
		ord := 0
		eachInstr(g, func(_ *ssa.BasicBlock, _ int, in ssa.Instruction) {
			call, ok := in.(*ssa.Call)
			if !ok || call.Call.StaticCallee() != f {
				return
			}
			var l ssa.Value
			for _, r := range *call.Referrers() {
				if ex, ok := r.(*ssa.Extract); ok && ex.Index == 0 {
					l = ex
				}
			}
			if l == nil {
				return
			}
			n++
			for _, r := range *l.Referrers() {
				cv, ok := r.(*ssa.Convert)
				if !ok {
					continue
				}
				bt, _ := cv.Type().Underlying().(*types.Basic)
				if bt == nil || bt.Info()&types.IsUnsigned != 0 || bt.Info()&types.IsInteger == 0 {
					continue
				}
				// used as a comparison operand (directly or through a φ)?
				cmpUse := false
				var follow func(v ssa.Value, d int)
				follow = func(v ssa.Value, d int) {
					if d > 3 || v.Referrers() == nil {
						return
					}
					for _, u := range *v.Referrers() {
						switch y := u.(type) {
						case *ssa.BinOp:
							if isCmp(y.Op) {
								cmpUse = true
							}
						case *ssa.Phi:
							follow(y, d+1)
						}
					}
				}
				follow(cv, 0)
				if !cmpUse {
					continue
				}
				ord++
				bounded := guardedBy(cv.Block(), func(cond ssa.Value, truth bool) bool {
					bo, ok := cond.(*ssa.BinOp)
					if !ok || bo.X != l {
						return false
					}
					if _, isC := constInt(bo.Y); !isC {
						return false
					}
					return (bo.Op == token.GTR && !truth) || (bo.Op == token.LEQ && truth) || (bo.Op == token.LSS && truth) || (bo.Op == token.GEQ && !truth)
				})
				c.ob("R-LENSIGN/conv", fmt.Sprintf("%s:signed-bound#%d", relName(g.String()), ord), cv.Pos(), bounded,
					"the decoded length is converted to "+cv.Type().String()+" and compared without an upper bound on the length")
			}
		})
	}
	c.ob("R-LENSIGN/conv", "decodeLength-call-sites", token.NoPos, n > 0, fmt.Sprintf("%d call sites examined", n))
}

// R-GHOSTCONSTRAIN (C20): the merge-point search is constrained by the current best only while the descent did not leave it.
func (c *Ctx) ruleGhostConstrain() {
	c.doc("R-GHOSTCONSTRAIN", fgDir+" FindGHOST: the block handed to ghostFindMergePoint as constraint is currentBest only on the edge of a flag that the descent loop can reset (a loop-carried value with a `false` coming from the loop body): once the search has descended into a heavier vote-node the old best lies below the active node and must not filter the merge point")
	var f *ssa.Function
	if sp := c.ssaPkg(fgDir); sp != nil {
		for _, g := range allFuncs(c, sp) {
			if g.Name() == "FindGHOST" && g.Signature.Recv() != nil && len(g.Blocks) > 0 {
				f = g
			}
		}
	}
	if f == nil {
		c.unresolved("VoteGraph.FindGHOST")
		return
	}
	var call *ssa.Call
	eachInstr(f, func(_ *ssa.BasicBlock, _ int, in ssa.Instruction) {
		if cl, ok := in.(*ssa.Call); ok && cl.Call.StaticCallee() != nil && strings.HasPrefix(cl.Call.StaticCallee().Name(), "ghostFindMergePoint") {
			call = cl
		}
	})
	if call == nil {
		c.unresolved("call of ghostFindMergePoint in FindGHOST")
		return
	}
	// the constraint argument: the one of pointer-to-HashNumber type
	var arg ssa.Value
	for _, a := range call.Call.Args {
		if strings.Contains(a.Type().String(), "HashNumber") {
			arg = a
		}
	}
	if arg == nil {
		c.unresolved("constraint argument of ghostFindMergePoint")
		return
	}
	inLoopBody := func(b *ssa.BasicBlock) bool {
		for _, l := range loopsOf(f) {
			if l[b] {
				return true
			}
		}
		return false
	}
	resettable := func(v ssa.Value) bool {
		phi, ok := v.(*ssa.Phi)
		if !ok {
			return false
		}
		seen := map[*ssa.Phi]bool{}
		var has func(p *ssa.Phi) bool
		has = func(p *ssa.Phi) bool {
			if seen[p] {
				return false
			}
			seen[p] = true
			for i, e := range p.Edges {
				if k, ok := e.(*ssa.Const); ok && k.Value != nil && k.Value.String() == "false" && inLoopBody(p.Block().Preds[i]) {
					return true
				}
				if q, ok := e.(*ssa.Phi); ok && has(q) {
					return true
				}
			}
			return false
		}
		return has(phi)
	}
	ok, why := false, "the constraint is not selected by a flag"
	switch x := arg.(type) {
	case *ssa.Phi:
		// every edge that carries a non-nil value must come from the true edge of a resettable flag
		ok = true
		for i, e := range x.Edges {
			if k, isC := e.(*ssa.Const); isC && k.Value == nil {
				continue
			}
			pred := x.Block().Preds[i]
			good := false
			gs := guardsOf(pred)
			if iff := ifOf(pred); iff != nil && len(pred.Succs) == 2 {
				gs = append(gs, guard{cond: iff.Cond, truth: pred.Succs[0] == x.Block()})
			}
			for _, g := range gs {
				if g.truth && resettable(g.cond) {
					good = true
				}
			}
			if !good {
				ok, why = false, "currentBest reaches ghostFindMergePoint on an edge that is not the true edge of a flag the descent loop can reset"
			}
		}
	case *ssa.Const:
		ok = x.Value == nil
	}
	if ok {
		why = "constraint selected by a flag that the descent loop resets"
	}
	c.ob("R-GHOSTCONSTRAIN", "FindGHOST:constraint-follows-the-descent", call.Pos(), ok, why)
}

// R-FINALISE/setid (C17): a finalisation with a stale set id is refused before anything is written.
func (c *Ctx) ruleFinaliseSetID() {
	c.doc("R-FINALISE/setid", stateDir+" SetFinalisedHash: the call that persists the finalised sub-chain and empties the unfinalised-block map (handleFinalisedBlock) and every database Put are dominated by the accepting edge of the set-id check (setID not lower than the highest finalised one; directly or through a helper that compares its set-id parameter): a refused finalisation must change nothing, else the blocks are gone from memory while the head did not move and every later finalisation fails")
	f := c.fn(stateDir, "(*BlockState).SetFinalisedHash")
	if f == nil {
		c.unresolved("(*BlockState).SetFinalisedHash")
		return
	}
	if len(f.Params) < 4 {
		c.unresolved("parameters of SetFinalisedHash")
		return
	}
	setID := ssa.Value(f.Params[3])
	comparesParam := func(g *ssa.Function, idx int) bool {
		if g == nil || idx >= len(g.Params) {
			return false
		}
		found := false
		eachInstr(g, func(_ *ssa.BasicBlock, _ int, in ssa.Instruction) {
			if bo, ok := in.(*ssa.BinOp); ok && isCmp(bo.Op) && (bo.X == ssa.Value(g.Params[idx]) || bo.Y == ssa.Value(g.Params[idx])) {
				found = true
			}
		})
		return found
	}
	accepts := func(cond ssa.Value, truth bool) bool {
		// direct: setID < x is false / setID >= x is true
		if bo, ok := cond.(*ssa.BinOp); ok {
			if bo.X == setID && ((bo.Op == token.LSS && !truth) || (bo.Op == token.GEQ && truth)) {
				return true
			}
			// helper: err := check(setID); err != nil is false
			if e, neq, ok := nilCmp(cond); ok && truth != neq {
				if ex, isEx := e.(*ssa.Extract); isEx {
					e = ex.Tuple
				}
				if call, isCall := e.(*ssa.Call); isCall && call.Call.StaticCallee() != nil {
					for i, a := range call.Call.Args {
						if a == setID && comparesParam(call.Call.StaticCallee(), i) {
							// only a pure check: the helper must not write
							writes := false
							eachInstr(call.Call.StaticCallee(), func(_ *ssa.BasicBlock, _ int, in2 ssa.Instruction) {
								if c2, ok := in2.(*ssa.Call); ok && c2.Call.IsInvoke() && (c2.Call.Method.Name() == "Put" || c2.Call.Method.Name() == "Del") {
									writes = true
								}
							})
							return !writes
						}
					}
				}
			}
		}
		return false
	}
	n := 0
	eachInstr(f, func(b *ssa.BasicBlock, _ int, in ssa.Instruction) {
		call, ok := in.(*ssa.Call)
		if !ok {
			return
		}
		isWrite := false
		what := ""
		if cal := call.Call.StaticCallee(); cal != nil && cal.Name() == "handleFinalisedBlock" {
			isWrite, what = true, "handleFinalisedBlock"
		}
		if call.Call.IsInvoke() && call.Call.Method.Name() == "Put" {
			isWrite, what = true, "db.Put"
		}
		if !isWrite {
			return
		}
		n++
		c.ob("R-FINALISE/setid", fmt.Sprintf("SetFinalisedHash:%s#%d", what, n), call.Pos(), guardedBy(b, accepts),
			what+" runs before the set id was compared with the highest finalised one")
	})
	if n == 0 {
		c.unresolved("writes in SetFinalisedHash")
	}
}

// R-FRESHDECODE (C11, C12, C14): what a decode leaves in its destination does not depend on what was there before.
func (c *Ctx) ruleFreshDecode() {
	dir := "pkg/scale"
	c.doc("R-FRESHDECODE", dir+": decodePointer's `None` case stores a value into the destination (the nil pointer) instead of leaving it alone, and decodeMap installs a map made in the call on every path (not only when the destination was nil): a reused destination must not keep Some(old) for an encoded None, nor merge old map entries")
	if f := c.fn(dir, "(*decodeState).decodePointer"); f == nil {
		c.unresolved("(*decodeState).decodePointer")
	} else {
		dst := ssa.Value(f.Params[1])
		// the option byte: result of ReadByte; the None edge: byte == 0
		okNone := false
		found := false
		for _, b := range f.Blocks {
			isNone := guardedBy(b, func(cond ssa.Value, truth bool) bool {
				bo, ok := cond.(*ssa.BinOp)
				if !ok || bo.Op != token.EQL || !truth {
					return false
				}
				k, isC := constInt(bo.Y)
				return isC && k == 0
			})
			if !isNone {
				continue
			}
			found = true
			for _, in := range b.Instrs {
				if call, ok := in.(*ssa.Call); ok && calleeName(&call.Call) == "(reflect.Value).Set" && len(call.Call.Args) > 0 && call.Call.Args[0] == dst {
					okNone = true
				}
			}
		}
		c.ob("R-FRESHDECODE", "decodePointer:none-resets-destination", f.Pos(), found && okNone, "the None (0x00) case leaves the destination pointer as it was")
	}
	if f := c.fn(dir, "(*decodeState).decodeMap"); f == nil {
		c.unresolved("(*decodeState).decodeMap")
	} else {
		dst := ssa.Value(f.Params[1])
		var set *ssa.Call
		eachInstr(f, func(_ *ssa.BasicBlock, _ int, in ssa.Instruction) {
			call, ok := in.(*ssa.Call)
			if !ok || calleeName(&call.Call) != "(reflect.Value).Set" || call.Call.Args[0] != dst {
				return
			}
			if mk, ok := call.Call.Args[1].(*ssa.Call); ok && strings.HasPrefix(calleeName(&mk.Call), "reflect.MakeMap") {
				set = call
			}
		})
		ok := set != nil
		if ok {
			// unconditional with respect to the destination: every element store is dominated by it, and it is not
			// guarded by a test of the destination
			if guardedBy(set.Block(), func(cond ssa.Value, truth bool) bool {
				call, isCall := cond.(*ssa.Call)
				return isCall && strings.HasPrefix(calleeName(&call.Call), "(reflect.Value).Is") && call.Call.Args[0] == dst
			}) {
				ok = false
			}
		}
		c.ob("R-FRESHDECODE", "decodeMap:fresh-map", f.Pos(), ok, "the destination map is replaced by a fresh one only when it was nil: entries of a reused destination survive the decode")
	}
}

// R-NOFLOATINT (C13): a balance does not pass through a float64.
func (c *Ctx) ruleNoFloatInt() {
	dir := "lib/genesis"
	c.doc("R-NOFLOATINT", dir+": no big.NewInt(int64(f)) with f a float64: genesis amounts are 128-bit integers, a float64 holds 53 significant bits and int64(f) saturates at 2^63 — a balance of 2^53+1 is written as 2^53, 1e19 as 2^63")
	sp := c.ssaPkg(dir)
	if sp == nil {
		return
	}
	n := 0
	for _, f := range allFuncs(c, sp) {
		ord := 0
		eachInstr(f, func(_ *ssa.BasicBlock, _ int, in ssa.Instruction) {
			call, ok := in.(*ssa.Call)
			if !ok || calleeName(&call.Call) != "math/big.NewInt" {
				return
			}
			n++
			cv, ok := call.Call.Args[0].(*ssa.Convert)
			if !ok {
				return
			}
			bt, _ := cv.X.Type().Underlying().(*types.Basic)
			if bt == nil || bt.Info()&types.IsFloat == 0 {
				return
			}
			ord++
			c.ob("R-NOFLOATINT", fmt.Sprintf("%s:big.NewInt(int64(float64))#%d", relName(f.String()), ord), call.Pos(), false,
				shortFn(f)+" builds a big integer from a float64: amounts above 2^53 lose their low bits, above 2^63 they saturate")
		})
	}
	c.ob("R-NOFLOATINT", "big.NewInt-sites-examined", token.NoPos, n > 0, fmt.Sprintf("%d big.NewInt calls examined", n))
}
