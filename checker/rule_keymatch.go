package main

import (
	"fmt"
	"go/token"
	"go/types"

	"golang.org/x/tools/go/ssa"
)

// R-KEYMATCH: radix-trie walkers. K1: a node is the target only on an exact key match. K2: descend into
// X.Children[key[i]] only when X.PartialKey is a prefix of the key.

type fact struct {
	cond  ssa.Value
	truth bool
}

// factsAt returns the atomic (condition, truth) facts that hold on every path reaching block b, looking through
// boolean phis created by && / || assigned to a variable.
func factsAt(b *ssa.BasicBlock) []fact {
	var out []fact
	seen := map[ssa.Value]bool{}
	var expand func(cond ssa.Value, truth bool, depth int)
	expand = func(cond ssa.Value, truth bool, depth int) {
		c2, flip := stripNot(cond)
		if flip {
			truth = !truth
		}
		cond = c2
		if phi, ok := cond.(*ssa.Phi); ok && depth < 6 && !seen[phi] {
			seen[phi] = true
			var rem []int
			for i, e := range phi.Edges {
				if k, ok := e.(*ssa.Const); ok && k.Value != nil {
					if (k.Value.String() == "true") != truth {
						continue // this incoming edge contradicts the observed value
					}
				}
				rem = append(rem, i)
			}
			if len(rem) == 1 {
				i := rem[0]
				if _, isConst := phi.Edges[i].(*ssa.Const); !isConst {
					expand(phi.Edges[i], truth, depth+1)
				}
				pred := phi.Block().Preds[i]
				for _, g := range guardsOf(pred) {
					expand(g.cond, g.truth, depth+1)
				}
				// the edge pred -> phi block itself
				if iff := ifOf(pred); iff != nil {
					for si, s := range pred.Succs {
						if s == phi.Block() && pred.Succs[1-si] != phi.Block() {
							expand(iff.Cond, si == 0, depth+1)
						}
					}
				}
				return
			}
			// several incoming edges are consistent with the observed value: keep the phi itself as the fact
			out = append(out, fact{cond, truth})
			return
		}
		out = append(out, fact{cond, truth})
	}
	for _, g := range guardsOf(b) {
		expand(g.cond, g.truth, 0)
	}
	return out
}

func derivedFrom(v ssa.Value, root ssa.Value) bool {
	seen := map[ssa.Value]bool{}
	for v != nil && !seen[v] {
		seen[v] = true
		if v == root {
			return true
		}
		switch x := v.(type) {
		case *ssa.Slice:
			v = x.X
		case *ssa.Phi:
			for _, e := range x.Edges {
				if derivedFrom(e, root) {
					return true
				}
			}
			return false
		case *ssa.ChangeType:
			v = x.X
		default:
			return false
		}
	}
	return false
}

func isPartialKeyLoad(v ssa.Value) bool {
	b, fv, ok := fieldLoad(v)
	return ok && fv != nil && fv.Name() == "PartialKey" && isNodePtr(b.Type())
}

func callTo(v ssa.Value, name string) *ssa.Call {
	call, ok := v.(*ssa.Call)
	if !ok {
		return nil
	}
	n := relName(calleeName(&call.Call))
	if n == name {
		return call
	}
	if cal := call.Call.StaticCallee(); cal != nil && cal.Name() == name {
		return call
	}
	return nil
}

type walkerSpec struct {
	f         *ssa.Function // set for helpers discovered by delegation (a listed walker that hands node and key on)
	dir, fn   string
	keyParam  int
	k1        string // "", "return-value", "store-nil-value", "call:<name>", "return-nil-node"
	caller    bool   // K2 guard is established by the callers (F3 form)
	prefixSem bool   // prefix walker: target-all action allowed on len(key)==0 || HasPrefix(pk,key)
}

func (c *Ctx) ruleKeyMatch(specs []walkerSpec) {
	c.doc("R-KEYMATCH/K2", "every load X.Children[key[i]] with the index taken from the search key is dominated by a fact implying that X.PartialKey is a prefix of the key: bytes.HasPrefix(key, pk) true; lenCommonPrefix(pk,key) < len(pk) false; or (len(key)==len(pk)+1 && HasPrefix(pk, key[:len(key)-1])), possibly established at every call site")
	c.doc("R-KEYMATCH/K1", "the target action of each walker (returning/clearing the node's value, deleting the leaf) is reachable only through the true edge of bytes.Equal(pk, key) or of len(key)==0")
	c.doc("R-KEYMATCH/K1-strict", "the target action must not be reachable through len(key)==0 alone (an exhausted key is not a match when the partial key is not empty)")
	listed := map[string]bool{}
	for _, sp := range specs {
		listed[sp.dir+":"+sp.fn] = true
	}
	done := map[*ssa.Function]bool{}
	for qi := 0; qi < len(specs); qi++ {
		sp := specs[qi]
		f := sp.f
		if f == nil {
			f = c.fn(sp.dir, sp.fn)
		}
		if f == nil || done[f] {
			continue
		}
		done[f] = true
		// delegation: a walker that passes its key (or a value derived from it) and returns the result of an unlisted
		// function of the same package hands its obligations to that function (extract-function refactorings)
		var cands []walkerSpec
		if sp.keyParam < len(f.Params) {
			eachInstr(f, func(_ *ssa.BasicBlock, _ int, in ssa.Instruction) {
				call, ok := in.(*ssa.Call)
				if !ok {
					return
				}
				g := call.Call.StaticCallee()
				if g == nil || g == f || g.Pkg != f.Pkg || g.Blocks == nil || done[g] || listed[sp.dir+":"+g.Name()] || listed[sp.dir+":"+shortFn(g)] {
					return
				}
				hasNode := false
				for _, a := range call.Call.Args {
					if isNodePtr(a.Type()) {
						hasNode = true
					}
				}
				if !hasNode {
					return
				}
				for i, a := range call.Call.Args {
					if derivedFrom(a, f.Params[sp.keyParam]) && i < len(g.Params) && g.Params[i].Type().String() == "[]byte" {
						nsp := sp
						nsp.f, nsp.fn, nsp.keyParam, nsp.caller = g, shortFn(g), i, false
						cands = append(cands, nsp)
						break
					}
				}
			})
		}
		if sp.keyParam >= len(f.Params) {
			c.undecided("R-KEYMATCH", "signature of "+sp.fn)
			continue
		}
		key := f.Params[sp.keyParam]
		fname := relName(f.String())

		isKeyDerived := func(v ssa.Value) bool { return derivedFrom(v, key) }
		// fact predicates
		f1 := func(fc fact) bool { // HasPrefix(K, PK) true
			call := callTo(fc.cond, "bytes.HasPrefix")
			return call != nil && fc.truth && isKeyDerived(call.Call.Args[0]) && isPartialKeyLoad(call.Call.Args[1])
		}
		f2 := func(fc fact) bool {
			bo, ok := fc.cond.(*ssa.BinOp)
			if !ok {
				return false
			}
			x, y, op := bo.X, bo.Y, bo.Op
			isLcp := func(v ssa.Value) bool {
				call := callTo(v, "lenCommonPrefix")
				if call == nil {
					return false
				}
				a, b := call.Call.Args[0], call.Call.Args[1]
				return (isPartialKeyLoad(a) && isKeyDerived(b)) || (isPartialKeyLoad(b) && isKeyDerived(a))
			}
			isLenPK := func(v ssa.Value) bool {
				a, ok := lenOf(v)
				return ok && isPartialKeyLoad(a)
			}
			if isLenPK(x) && isLcp(y) {
				x, y, op = y, x, flipOp(op)
			}
			if !(isLcp(x) && isLenPK(y)) {
				return false
			}
			if !fc.truth {
				op = negOp(op)
			}
			return op == token.GEQ || op == token.EQL
		}
		f3a := func(fc fact) bool { // HasPrefix(PK, K[:len(K)-1]) true
			call := callTo(fc.cond, "bytes.HasPrefix")
			if call == nil || !fc.truth || !isPartialKeyLoad(call.Call.Args[0]) {
				return false
			}
			sl, ok := call.Call.Args[1].(*ssa.Slice)
			return ok && isKeyDerived(sl.X) && sl.High != nil
		}
		f3b := func(fc fact) bool { // len(K) == len(PK)+1 true
			bo, ok := fc.cond.(*ssa.BinOp)
			if !ok {
				return false
			}
			op := bo.Op
			if !fc.truth {
				op = negOp(op)
			}
			if op != token.EQL {
				return false
			}
			check := func(a, b ssa.Value) bool {
				la, ok := lenOf(a)
				if !ok || !isKeyDerived(la) {
					return false
				}
				add, ok := b.(*ssa.BinOp)
				if !ok || add.Op != token.ADD {
					return false
				}
				k, ok := constInt(add.Y)
				lp, ok2 := lenOf(add.X)
				return ok && ok2 && k == 1 && isPartialKeyLoad(lp)
			}
			return check(bo.X, bo.Y) || check(bo.Y, bo.X)
		}
		hasK2 := func(b *ssa.BasicBlock) (bool, string) {
			fs := factsAt(b)
			a3, b3 := false, false
			for _, fc := range fs {
				if f1(fc) {
					return true, "bytes.HasPrefix(key, partialKey)"
				}
				if f2(fc) {
					return true, "lenCommonPrefix(partialKey,key) covers the partial key"
				}
				if f3a(fc) {
					a3 = true
				}
				if f3b(fc) {
					b3 = true
				}
			}
			if a3 && b3 {
				return true, "len(key)==len(partialKey)+1 && HasPrefix(partialKey, key[:len-1])"
			}
			return false, ""
		}

		// ---- K2
		ord := 0
		eachInstr(f, func(b *ssa.BasicBlock, _ int, in ssa.Instruction) {
			ia, ok := in.(*ssa.IndexAddr)
			if !ok {
				return
			}
			base, ok := isFieldLoadNamed(ia.X, "Children")
			if !ok || !isNodePtr(base.Type()) {
				return
			}
			if _, fresh := base.(*ssa.Alloc); fresh {
				return // slot of a node literal under construction, not a descent
			}
			// index from the key?
			idx := stripConv(ia.Index)
			u, ok := idx.(*ssa.UnOp)
			if !ok || u.Op != token.MUL {
				return
			}
			kia, ok := u.X.(*ssa.IndexAddr)
			if !ok || !isKeyDerived(kia.X) {
				return
			}
			ord++
			k := fmt.Sprintf("%s:descent#%d", fname, ord)
			if sp.caller {
				// the guard must hold at every call site
				n, bad := 0, ""
				for _, g := range allFuncs(c, c.ssaPkg(sp.dir)) {
					eachInstr(g, func(cb *ssa.BasicBlock, _ int, cin ssa.Instruction) {
						call, ok := cin.(*ssa.Call)
						if !ok || call.Call.StaticCallee() != f {
							return
						}
						n++
						// facts at the call site refer to the caller's key parameter: re-evaluate with caller's key
						okc := false
						for _, fc := range factsAt(cb) {
							if cl := callTo(fc.cond, "bytes.HasPrefix"); cl != nil && fc.truth && isPartialKeyLoad(cl.Call.Args[0]) {
								if _, ok := cl.Call.Args[1].(*ssa.Slice); ok {
									okc = true
								}
							}
						}
						if !okc {
							bad = c.pos(call.Pos())
						}
					})
				}
				c.ob("R-KEYMATCH/K2", k, ia.Pos(), n > 0 && bad == "", fmt.Sprintf("%s descends at key[len(partialKey)]; the prefix guard must hold at each of its %d call sites (missing at %s)", shortFn(f), n, bad))
				return
			}
			ok2, why := hasK2(b)
			msg := "guarded by " + why
			if !ok2 {
				msg = fmt.Sprintf("%s descends into Children[key[i]] without a dominating check that the node's partial key is a prefix of the key: a key diverging inside the partial key reaches an unrelated subtree", shortFn(f))
			}
			c.ob("R-KEYMATCH/K2", k, ia.Pos(), ok2, msg)
		})

		// ---- K1
		if sp.k1 == "" {
			if ord == 0 {
				specs = append(specs, cands...) // no descent of its own: the helper it forwards to carries K2
			}
			continue
		}
		var targets []ssa.Instruction
		eachInstr(f, func(_ *ssa.BasicBlock, _ int, in ssa.Instruction) {
			switch sp.k1 {
			case "return-value":
				r, ok := in.(*ssa.Return)
				if !ok || len(r.Results) == 0 {
					return
				}
				for _, v := range phiInputs(resultOf(r, 0)) {
					if isNilConst(v) {
						continue
					}
					// value from this node (StorageValue load, db.Get, helper on the node) but not from recursion
					if call, ok := v.(*ssa.Call); ok {
						if cal := call.Call.StaticCallee(); cal != nil && (cal == f || cal.Name() == "retrieve" || cal.Name() == "getFromDBAtNode") {
							continue
						}
					}
					if ex, ok := v.(*ssa.Extract); ok {
						if call, ok := ex.Tuple.(*ssa.Call); ok {
							if cal := call.Call.StaticCallee(); cal != nil && (cal == f || cal.Name() == "retrieve" || cal.Name() == "getFromDBAtNode") {
								continue
							}
						}
					}
					if _, isPhi := resultOf(r, 0).(*ssa.Phi); isPhi {
						// attribute to the defining block of the value
						if vi, ok := v.(ssa.Instruction); ok {
							targets = append(targets, vi)
							continue
						}
					}
					targets = append(targets, r)
				}
			case "store-nil-value":
				st, ok := in.(*ssa.Store)
				if !ok {
					return
				}
				if fa, ok := st.Addr.(*ssa.FieldAddr); ok && fieldVar(fa) != nil && fieldVar(fa).Name() == "StorageValue" && isNilConst(st.Val) {
					targets = append(targets, st)
				}
			case "register-deleted":
				if call, ok := in.(*ssa.Call); ok {
					if cal := call.Call.StaticCallee(); cal != nil && cal.Name() == "registerDeletedNodeHash" {
						targets = append(targets, call)
					}
				}
			case "found-return":
				// return of a non-nil proof-node list with nil error that is not the result of recursion
				r, ok := in.(*ssa.Return)
				if !ok || len(r.Results) != 2 || !isNilConst(resultOf(r, 1)) {
					return
				}
				if isNilConst(resultOf(r, 0)) {
					return
				}
				rec := false
				for v := range backwardSlice(resultOf(r, 0), nil) {
					if call, ok := v.(*ssa.Call); ok {
						if cal := call.Call.StaticCallee(); cal != nil && cal.Name() == "walk" {
							rec = true
						}
					}
				}
				if !rec {
					targets = append(targets, r)
				}
			}
		})
		if len(targets) == 0 {
			if len(cands) > 0 || sp.f != nil {
				// a pure forwarder: the target action lives in the helper(s) it hands node and key to
				specs = append(specs, cands...)
				continue
			}
			c.undecided("R-KEYMATCH/K1", "no target action ("+sp.k1+") found in "+sp.fn)
			continue
		}
		// edges: true edge of Equal(pk,key) ; true edge of len(key)==0
		type edge struct {
			b  *ssa.BasicBlock
			si int
		}
		var eqEdges, lenEdges []edge
		eqSeen := false
		for _, b := range f.Blocks {
			iff := ifOf(b)
			if iff == nil {
				continue
			}
			cond, flip := stripNot(iff.Cond)
			if phi, ok := cond.(*ssa.Phi); ok {
				// nodeFound := len(key) == 0 || bytes.Equal(pk, key); if nodeFound { ... }
				hasLen, hasEq, other := false, false, false
				for i, e := range phi.Edges {
					if k, ok := e.(*ssa.Const); ok && k.Value != nil {
						if k.Value.String() == "true" {
							// which condition sent us here with `true`?
							pred := phi.Block().Preds[i]
							if pi := ifOf(pred); pi != nil {
								if subj, op, kk, ok := cmpWithConst(pi.Cond); ok && kk == 0 && (op == token.EQL || op == token.LEQ) {
									if l, ok := lenOf(subj); ok && isKeyDerived(l) {
										hasLen = true
										continue
									}
								}
							}
							other = true
						}
						continue
					}
					if call := callTo(e, "bytes.Equal"); call != nil {
						a0, a1 := call.Call.Args[0], call.Call.Args[1]
						if (isPartialKeyLoad(a0) && isKeyDerived(a1)) || (isPartialKeyLoad(a1) && isKeyDerived(a0)) {
							hasEq = true
							continue
						}
					}
					other = true
				}
				if !other && (hasLen || hasEq) {
					si := 0
					if flip {
						si = 1
					}
					if hasLen {
						lenEdges = append(lenEdges, edge{b, si})
					} else {
						eqEdges = append(eqEdges, edge{b, si})
					}
					if hasLen && hasEq {
						// removing this edge removes both alternatives; K1 needs at least one Equal alternative
						eqSeen = true
					}
				}
				continue
			}
			for si := 0; si < 2; si++ {
				truth := (si == 0) != flip
				if call := callTo(cond, "bytes.Equal"); call != nil && truth {
					a0, a1 := call.Call.Args[0], call.Call.Args[1]
					if (isPartialKeyLoad(a0) && isKeyDerived(a1)) || (isPartialKeyLoad(a1) && isKeyDerived(a0)) {
						eqEdges = append(eqEdges, edge{b, si})
					}
				}
				if subj, op, k, ok := cmpWithConst(cond); ok && k == 0 {
					if l, ok := lenOf(subj); ok && isKeyDerived(l) {
						o := op
						if !truth {
							o = negOp(o)
						}
						if o == token.EQL || o == token.LEQ {
							lenEdges = append(lenEdges, edge{b, si})
						}
					}
				}
			}
		}
		reach := func(target *ssa.BasicBlock, removed []edge) bool {
			seen := map[int]bool{0: true}
			stack := []*ssa.BasicBlock{f.Blocks[0]}
			if target == f.Blocks[0] {
				return true
			}
			for len(stack) > 0 {
				b := stack[len(stack)-1]
				stack = stack[:len(stack)-1]
			succ:
				for si, s := range b.Succs {
					for _, e := range removed {
						if e.b == b && e.si == si {
							continue succ
						}
					}
					if s == target {
						return true
					}
					if !seen[s.Index] {
						seen[s.Index] = true
						stack = append(stack, s)
					}
				}
			}
			return false
		}
		for i, tg := range targets {
			k := fmt.Sprintf("%s:%s#%d", fname, sp.k1, i+1)
			both := append(append([]edge{}, eqEdges...), lenEdges...)
			okBoth := (len(eqEdges) > 0 || eqSeen) && !reach(tg.Block(), both)
			c.ob("R-KEYMATCH/K1", k, tg.Pos(), okBoth, fmt.Sprintf("%s performs its target action (%s) on a path that passes neither bytes.Equal(partialKey, key) nor len(key)==0: a node that does not match the key is treated as the target", shortFn(f), sp.k1))
			okStrict := len(eqEdges) > 0 && !reach(tg.Block(), eqEdges)
			c.ob("R-KEYMATCH/K1-strict", k, tg.Pos(), okStrict, fmt.Sprintf("%s treats an exhausted key (len(key)==0) as a match even when the node's partial key is not empty", shortFn(f)))
		}
	}
}

var _ = types.Typ
