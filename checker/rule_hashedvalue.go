package main

import (
	"fmt"
	"go/token"
	"strings"

	"golang.org/x/tools/go/ssa"
)

// R-HASHEDVALUE: a node's StorageValue is handed out only when it is not a hash; child lookups by Merkle value skip
// inlined children; writer and readers of hashed values build the same database key.
func (c *Ctx) ruleHashedValue() {
	c.doc("R-HASHEDVALUE", "in retrieveFromLeaf/retrieveFromBranch/getFromDBAtNode/getStorageValueFromDB every `return X.StorageValue` is dominated by the false edge of X.IsHashedValue")
	for _, name := range []string{"retrieveFromLeaf", "retrieveFromBranch", "getFromDBAtNode", "getStorageValueFromDB"} {
		f := c.fn(inmemDir, name)
		if f == nil {
			continue
		}
		n := 0
		for _, r := range returnsOf(f) {
			if len(r.Results) == 0 {
				continue
			}
			for _, v := range phiInputs(resultOf(r, 0)) {
				base, ok := isFieldLoadNamed(v, "StorageValue")
				if !ok || !isNodePtr(base.Type()) {
					continue
				}
				n++
				blk := r.Block()
				if vi, ok := v.(ssa.Instruction); ok {
					blk = vi.Block()
				}
				ok2 := guardedBy(blk, func(cond ssa.Value, truth bool) bool {
					b, ok := isFieldLoadNamed(cond, "IsHashedValue")
					return ok && b == base && !truth
				})
				c.ob("R-HASHEDVALUE", fmt.Sprintf("%s:return-StorageValue#%d", relName(f.String()), n), r.Pos(), ok2,
					shortFn(f)+" returns StorageValue without excluding IsHashedValue: for a V1 value longer than 32 bytes the caller receives the 32-byte hash instead of the value")
			}
		}
		if n == 0 && name != "getFromDBAtNode" {
			c.ob("R-HASHEDVALUE", relName(f.String())+":return-StorageValue", f.Pos(), false, "no direct StorageValue return found (anchor changed)")
		}
	}
	c.doc("R-HASHEDVALUE/dbget", "every db.Get(child.MerkleValue) is dominated by a guard excluding an empty Merkle value (inlined children carry none)")
	for _, name := range []string{"getFromDBAtNode", "(*InMemoryTrie).loadNode"} {
		f := c.fn(inmemDir, name)
		if f == nil {
			continue
		}
		n := 0
		eachInstr(f, func(b *ssa.BasicBlock, _ int, in ssa.Instruction) {
			call, ok := in.(*ssa.Call)
			if !ok || !call.Call.IsInvoke() || call.Call.Method.Name() != "Get" {
				return
			}
			arg := call.Call.Args[0]
			mv := false
			for _, v := range phiInputs(arg) {
				if _, ok := isFieldLoadNamed(v, "MerkleValue"); ok {
					mv = true
				}
			}
			if !mv {
				return
			}
			n++
			guarded := false
			for _, fc := range factsAt(b) {
				subj, op, k, ok := cmpWithConst(fc.cond)
				if !ok {
					continue
				}
				l, ok := lenOf(subj)
				if !ok || l != arg {
					continue
				}
				if !fc.truth {
					op = negOp(op)
				}
				// fact: len(arg) op k ; must imply len != 0
				implies := true
				if evalCmp(0, op, k) {
					implies = false
				}
				if implies {
					guarded = true
				}
			}
			c.ob("R-HASHEDVALUE/dbget", fmt.Sprintf("%s:db.Get(MerkleValue)#%d", relName(f.String()), n), call.Pos(), guarded,
				shortFn(f)+" looks a child up by Merkle value without excluding inlined children (empty Merkle value): the lookup fails with 'not found' for keys under a small inlined node")
		})
		if n == 0 {
			c.ob("R-HASHEDVALUE/dbget", relName(f.String())+":db.Get(MerkleValue)", f.Pos(), false, "no db.Get(MerkleValue) found (anchor changed)")
		}
	}
	c.doc("R-HASHEDVALUE/key", "writeDirtyNode (writer) and loadStorageValue/getStorageValueFromDB (readers) build the hashed-value key as bytes.Join([PartialKey, hash]) with the partial key first")
	for _, name := range []string{"(*InMemoryTrie).writeDirtyNode", "loadStorageValue", "getStorageValueFromDB"} {
		f := c.fn(inmemDir, name)
		if f == nil {
			continue
		}
		found, good := false, false
		eachInstr(f, func(_ *ssa.BasicBlock, _ int, in ssa.Instruction) {
			call, ok := in.(*ssa.Call)
			if !ok || calleeName(&call.Call) != "bytes.Join" {
				return
			}
			found = true
			sl, ok := call.Call.Args[0].(*ssa.Slice)
			if !ok {
				return
			}
			al, ok := sl.X.(*ssa.Alloc)
			if !ok {
				return
			}
			elems := map[int64]ssa.Value{}
			for _, r := range *al.Referrers() {
				if ia, ok := r.(*ssa.IndexAddr); ok {
					idx, _ := constInt(ia.Index)
					for _, r2 := range *ia.Referrers() {
						if st, ok := r2.(*ssa.Store); ok {
							elems[idx] = st.Val
						}
					}
				}
			}
			_, pk := isFieldLoadNamed(elems[0], "PartialKey")
			second := false
			if _, ok := isFieldLoadNamed(elems[1], "StorageValue"); ok {
				second = true // reader: the stored hash
			}
			if s2, ok := elems[1].(*ssa.Slice); ok {
				if _, ok := isFieldLoadNamed(s2.X, "StorageValue"); ok {
					second = true // reader: node.StorageValue[:]
				}
				// writer: hash[:] of MustBlake2bHash(StorageValue)
				for v := range backwardSlice(s2.X, nil) {
					if cl, ok := v.(*ssa.Call); ok && strings.HasSuffix(calleeName(&cl.Call), "Blake2bHash") {
						if _, ok := isFieldLoadNamed(cl.Call.Args[0], "StorageValue"); ok {
							second = true
						}
					}
				}
			}
			good = len(elems) == 2 && pk && second && isNilConst(call.Call.Args[1])
		})
		c.ob("R-HASHEDVALUE/key", relName(f.String())+":prefixed-key", f.Pos(), found && good,
			shortFn(f)+": the database key of a hashed value must be PartialKey || BLAKE2b(value) with no separator, identically in writer and readers")
	}
}

// R-ORDER/batch: WriteDirty puts everything into one batch, flushes only on success and resets on error.
func (c *Ctx) ruleWriteDirtyBatch() {
	f := c.fn(inmemDir, "(*InMemoryTrie).WriteDirty")
	if f == nil {
		return
	}
	c.doc("R-ORDER/batch", "WriteDirty: writeDirtyNode receives the batch created by NewBatch; Flush is reached only on the err == nil edge; Reset is called on the error edge (atomic write of a block's state)")
	var batch ssa.Value
	var wds, flushes, resets []*ssa.Call
	eachInstr(f, func(_ *ssa.BasicBlock, _ int, in ssa.Instruction) {
		call, ok := in.(*ssa.Call)
		if !ok {
			return
		}
		switch {
		case call.Call.IsInvoke() && call.Call.Method.Name() == "NewBatch":
			batch = call
		case call.Call.IsInvoke() && call.Call.Method.Name() == "Flush":
			flushes = append(flushes, call)
		case call.Call.IsInvoke() && call.Call.Method.Name() == "Reset":
			resets = append(resets, call)
		case call.Call.StaticCallee() != nil && call.Call.StaticCallee().Name() == "writeDirtyNode":
			wds = append(wds, call)
		}
	})
	usesBatch := len(wds) > 0 && batch != nil
	for _, wd := range wds {
		found := false
		for v := range backwardSlice(wd.Call.Args[1], nil) {
			if v == batch {
				found = true
			}
		}
		usesBatch = usesBatch && found
	}
	c.ob("R-ORDER/batch", "WriteDirty:writes-go-to-batch", f.Pos(), usesBatch, "every writeDirtyNode call must write into the batch returned by NewBatch (not directly into the database)")
	// the failure successor of each writeDirtyNode call: the edge on which its error is non-nil
	flushOK, resetOK := len(wds) > 0 && len(flushes) > 0, len(wds) > 0
	for _, wd := range wds {
		var errSucc *ssa.BasicBlock
		for _, b := range f.Blocks {
			iff := ifOf(b)
			if iff == nil {
				continue
			}
			e, neq, ok := nilCmp(iff.Cond)
			if !ok {
				continue
			}
			if ex, isEx := e.(*ssa.Extract); isEx {
				e = ex.Tuple
			}
			if e != ssa.Value(wd) {
				continue
			}
			if neq {
				errSucc = b.Succs[0]
			} else {
				errSucc = b.Succs[1]
			}
		}
		if errSucc == nil || len(errSucc.Instrs) == 0 {
			flushOK, resetOK = false, false
			continue
		}
		first := errSucc.Instrs[0]
		for _, fl := range flushes {
			if first == ssa.Instruction(fl) || instrReaches(first, fl) {
				flushOK = false // Flush can run after a failed write
			}
		}
		// every return reachable from the failure edge passes a Reset
		for _, b := range f.Blocks {
			if len(b.Instrs) == 0 {
				continue
			}
			ret, isRet := b.Instrs[len(b.Instrs)-1].(*ssa.Return)
			if !isRet || !(first == ssa.Instruction(ret) || instrReaches(first, ret)) {
				continue
			}
			passes := false
			for _, rs := range resets {
				if first == ssa.Instruction(rs) || (instrReaches(first, rs) && !reachesAvoidingInstr(first, ret, rs)) {
					passes = true
				}
			}
			if !passes {
				resetOK = false
			}
		}
	}
	// and Flush is not reachable without having passed every root-level write: the entry cannot reach it avoiding the first call
	if flushOK && len(wds) > 0 {
		entry := f.Blocks[0].Instrs[0]
		for _, fl := range flushes {
			if reachesAvoidingInstr(entry, fl, wds[0]) {
				flushOK = false
			}
		}
	}
	c.ob("R-ORDER/batch", "WriteDirty:flush-on-success-only", f.Pos(), flushOK, "Flush must not be reachable from the failure edge of any writeDirtyNode call, nor without the root write")
	c.ob("R-ORDER/batch", "WriteDirty:reset-on-error", f.Pos(), resetOK, "the batch must be Reset on every path from a failed writeDirtyNode call to a return")
}

var _ = token.ADD

// R-ROOTRECV: functions that treat `n == t.root` specially (root nodes are always hashed) must be invoked on the trie
// whose root they are given.
func (c *Ctx) ruleRootRecv() {
	c.doc("R-ROOTRECV", "every call X.m(…, Y.root, …) of a method that compares its node argument with its receiver's root (writeDirtyNode, ensureMerkleValueIsCalculated, getInsertedNodeHashesAtNode) has X == Y: a child trie's root written through the parent trie is treated as an inlinable non-root node and never stored")
	sp := c.ssaPkg(inmemDir)
	if sp == nil {
		return
	}
	// methods that compare a parameter with t.root
	rootSensitive := map[*ssa.Function]bool{}
	for _, f := range allFuncs(c, sp) {
		if f.Signature.Recv() == nil || len(f.Params) < 2 {
			continue
		}
		eachInstr(f, func(_ *ssa.BasicBlock, _ int, in ssa.Instruction) {
			bo, ok := in.(*ssa.BinOp)
			if !ok || (bo.Op != token.EQL && bo.Op != token.NEQ) {
				return
			}
			for _, pair := range [][2]ssa.Value{{bo.X, bo.Y}, {bo.Y, bo.X}} {
				if _, isParam := pair[0].(*ssa.Parameter); !isParam || !isNodePtr(pair[0].Type()) {
					continue
				}
				if b, ok := isFieldLoadNamed(pair[1], "root"); ok && b == ssa.Value(f.Params[0]) {
					rootSensitive[f] = true
				}
			}
		})
	}
	if len(rootSensitive) == 0 {
		c.ob("R-ROOTRECV", "root-sensitive-methods", sp.Members["init"].Pos(), false, "no method comparing its node argument with t.root found (anchor changed)")
		return
	}
	n := 0
	for _, f := range allFuncs(c, sp) {
		ord := 0
		eachInstr(f, func(_ *ssa.BasicBlock, _ int, in ssa.Instruction) {
			call, ok := in.(*ssa.Call)
			if !ok || !rootSensitive[call.Call.StaticCallee()] {
				return
			}
			for _, a := range call.Call.Args[1:] {
				b, ok := isFieldLoadNamed(a, "root")
				if !ok {
					continue
				}
				ord++
				n++
				c.ob("R-ROOTRECV", fmt.Sprintf("%s:%s(root)#%d", relName(f.String()), call.Call.StaticCallee().Name(), ord), call.Pos(), sameValue(b, call.Call.Args[0]),
					fmt.Sprintf("%s passes the root of one trie to %s invoked on another trie: the root is not recognised as a root (roots are always stored by hash, even when shorter than 32 bytes)", shortFn(f), call.Call.StaticCallee().Name()))
			}
		})
	}
	if n == 0 {
		c.ob("R-ROOTRECV", "root-calls", sp.Members["init"].Pos(), false, "no call passing a trie root found (anchor changed)")
	}
}
