package main

import (
	"flag"
	"fmt"
	"os"
	"sort"
)

type propDef struct {
	id    string
	run   func(c *Ctx)
	level string
	expl  string
}

var props = map[string]*propDef{}

func register(id string, expl string, run func(c *Ctx)) {
	props[id] = &propDef{id: id, run: run, level: "other", expl: expl}
}

func main() {
	p := flag.String("p", "", "property id (Cxx) or 'all'")
	tier := flag.String("tier", "quick", "quick|thorough")
	repo := flag.String("repo", "/repo", "repository root")
	list := flag.Bool("list", false, "list registered properties")
	flag.Parse()
	repoDir = *repo
	if t := os.Getenv("VERIF_TIER"); t != "" && *tier == "" {
		*tier = t
	}
	if *list {
		var ids []string
		for id := range props {
			ids = append(ids, id)
		}
		sort.Strings(ids)
		for _, id := range ids {
			fmt.Println(id)
		}
		return
	}
	d := props[*p]
	if d == nil {
		fmt.Fprintln(os.Stderr, "unknown property", *p)
		os.Exit(2)
	}
	c := newCtx(d.id, *tier)
	func() {
		defer func() {
			if r := recover(); r != nil {
				c.undecided("internal", fmt.Sprintf("analysis panic: %v", r))
				if os.Getenv("VERIF_DEBUG") != "" {
					panic(r)
				}
			}
		}()
		d.run(c)
	}()
	os.Exit(c.finish(d.level, d.expl))
}
