package main

import (
	"encoding/json"
	"flag"
	"fmt"
	"io/fs"
	"os"
	"path/filepath"
	"sort"
	"strings"
)

type propDef struct {
	id    string
	run   func(c *Ctx)
	level string
	expl  string
	tech  string
	note  string
	ref   string
}

var props = map[string]*propDef{}

// register: technique, explanation (what is decided / not decided), trusted base note, DESIGN.md reference.
func register(id, tech, expl, note, ref string, run func(c *Ctx)) {
	props[id] = &propDef{id: id, run: run, level: "other", expl: expl, tech: tech, note: note, ref: ref}
}

func main() {
	p := flag.String("p", "", "property id (Cxx) or 'all'")
	tier := flag.String("tier", "quick", "quick|thorough")
	repo := flag.String("repo", "/repo", "repository root")
	overlayDir := flag.String("overlay-dir", "", "directory mirroring repo-relative paths whose files replace the repository's (virtual variant, nothing is written to the repo)")
	list := flag.Bool("list", false, "list registered properties")
	manifest := flag.Bool("manifest", false, "print manifest texts of registered properties as JSON")
	flag.Parse()
	repoDir = *repo
	if t := os.Getenv("VERIF_TIER"); t != "" && *tier == "" {
		*tier = t
	}
	if *manifest {
		out := map[string]map[string]string{}
		for id, d := range props {
			out[id] = map[string]string{"technique": d.tech, "text": d.expl, "note": d.note, "ref": d.ref}
		}
		b, _ := json.MarshalIndent(out, "", " ")
		fmt.Println(string(b))
		return
	}
	if *list {
		var ids []string
		for id := range props {
			ids = append(ids, id)
		}
		sort.Strings(ids)
		for _, id := range ids {
			fmt.Println(id)
		}
		return
	}
	d := props[*p]
	if d == nil {
		fmt.Fprintln(os.Stderr, "unknown property", *p)
		os.Exit(2)
	}
	c := newCtx(d.id, *tier)
	if *overlayDir != "" {
		c.overlay = map[string][]byte{}
		filepath.WalkDir(*overlayDir, func(p string, de fs.DirEntry, err error) error {
			if err != nil || de.IsDir() || !strings.HasSuffix(p, ".go") {
				return nil
			}
			rel, _ := filepath.Rel(*overlayDir, p)
			b, rerr := os.ReadFile(p)
			if rerr == nil {
				c.overlay[filepath.Join(repoDir, rel)] = b
			}
			return nil
		})
	}
	func() {
		defer func() {
			if r := recover(); r != nil {
				c.undecided("internal", fmt.Sprintf("analysis panic: %v", r))
				if os.Getenv("VERIF_DEBUG") != "" {
					panic(r)
				}
			}
		}()
		d.run(c)
	}()
	os.Exit(c.finish(d.level, d.expl))
}
