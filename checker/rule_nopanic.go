package main

import (
	"fmt"
	"go/types"
	"sort"
	"strings"

	"golang.org/x/tools/go/ssa"
)

// R-NOPANIC: no explicit panic() reachable from untrusted-input entry points. Call graph: static callees plus, for
// interface calls, every method of the loaded module packages with that name and an identical signature (CHA limited
// to the analysed packages); plus synthetic edges for the reflection dispatch of pkg/scale.

type panicExempt struct{ fn, reason string }

func (c *Ctx) ruleNoPanic(rule string, entries []*ssa.Function, exempt map[string]string, stopAt func(f *ssa.Function) bool) {
	c.doc(rule, "every explicit panic() reachable in the call graph (static + CHA over the analysed packages + synthetic reflect edges for pkg/scale) from the decoder entry points is listed in the reviewed table with the reason it cannot fire on any input")
	// index methods by name for CHA
	byName := map[string][]*ssa.Function{}
	for _, sp := range c.ssaPkgs {
		for _, f := range allFuncs(c, sp) {
			if f.Signature.Recv() != nil {
				byName[f.Name()] = append(byName[f.Name()], f)
			}
		}
	}
	var scaleUnmarshalers []*ssa.Function
	for _, n := range []string{"UnmarshalSCALE", "ValueAt", "SetValue", "Set"} {
		scaleUnmarshalers = append(scaleUnmarshalers, byName[n]...)
	}
	seen := map[*ssa.Function][]string{}
	var order []*ssa.Function
	var visit func(f *ssa.Function, path []string)
	visit = func(f *ssa.Function, path []string) {
		if f == nil || len(f.Blocks) == 0 {
			return
		}
		if _, ok := seen[f]; ok {
			return
		}
		if f.Pkg == nil || !strings.HasPrefix(f.Pkg.Pkg.Path(), modPath) {
			if f.Origin() == nil || f.Origin().Pkg == nil || !strings.HasPrefix(f.Origin().Pkg.Pkg.Path(), modPath) {
				return
			}
		}
		if stopAt != nil && stopAt(f) {
			return
		}
		p := append(append([]string{}, path...), shortFn(f))
		seen[f] = p
		order = append(order, f)
		for _, g := range f.AnonFuncs {
			visit(g, p)
		}
		eachInstr(f, func(_ *ssa.BasicBlock, _ int, in ssa.Instruction) {
			ci, ok := in.(ssa.CallInstruction)
			if !ok {
				return
			}
			cc := ci.Common()
			if cal := cc.StaticCallee(); cal != nil {
				visit(cal, p)
				return
			}
			if cc.IsInvoke() {
				for _, m := range byName[cc.Method.Name()] {
					if types.Identical(m.Signature.Params(), cc.Method.Type().(*types.Signature).Params()) {
						visit(m, p)
					}
				}
			}
		})
		// synthetic: scale's reflective dispatch
		if f.Pkg != nil && f.Pkg.Pkg.Path() == modPath+"/pkg/scale" && f.Name() == "unmarshal" {
			for _, m := range scaleUnmarshalers {
				visit(m, p)
			}
		}
	}
	for _, e := range entries {
		visit(e, nil)
	}
	sort.Slice(order, func(i, j int) bool { return order[i].String() < order[j].String() })
	n := 0
	for _, f := range order {
		ord := 0
		eachInstr(f, func(_ *ssa.BasicBlock, _ int, in ssa.Instruction) {
			pn, ok := in.(*ssa.Panic)
			if !ok {
				return
			}
			ord++
			n++
			key := fmt.Sprintf("%s:panic#%d", relName(f.String()), ord)
			if reason, ok := exempt[fmt.Sprintf("%s#%d", shortFn(f), ord)]; ok {
				c.ob(rule, key, pn.Pos(), true, "reviewed unreachable: "+reason)
				return
			}
			c.ob(rule, key, pn.Pos(), false, fmt.Sprintf("explicit panic reachable from an untrusted-input entry point via %s", strings.Join(seen[f], " -> ")))
		})
	}
	c.ob(rule, "reachable-functions", entries[0].Pos(), len(order) >= len(entries), fmt.Sprintf("%d functions reachable from %d entry points, %d explicit panics examined", len(order), len(entries), n))
}
