package main

import (
	"fmt"
	"go/ast"
	"go/constant"
	"go/token"
	"strings"
)

func init() {
	register("C20", "phase/bit-parity table agreement (R-PHASEBITS), weighted threshold convention and formula (R-THRESHCONV/B), sorted-insert discipline around binary searches of the vote graph (R-SORTEDSEARCH), accumulator rule for voter weights (R-ACCUM)",
		"Decides: prevotes use even bit positions and precommits odd ones consistently in vote creation (position*2 / position*2+1), in the per-node weight (Iter1s[Merged]Even / Odd) and in the equivocation weight, and Even/Odd are iter1s(0,1)/iter1s(1,1); a voter is recovered from a bit by position/2; every comparison of a weight with the voter set's threshold is `>=`/`<` and the threshold is n - floor((n-1)/3); every slice that is binary-searched in the vote graph/voter set is only grown by inserting at the search index (a plain append is allowed only on the `idx == len(s)` edge), so the search precondition (sortedness) is preserved and votes for the same block are always merged. "+
			"Not decided: the GHOST/estimate/completability values themselves for given vote sets.",
		"golang.org/x/exp/slices.BinarySearchFunc requires a sorted slice", "DESIGN.md §3 R-PHASEBITS, R-THRESHCONV; §4 C20",
		func(c *Ctx) {
			c.load(fgDir)
			c.rulePhaseBits()
			c.min("R-PHASEBITS", 10)
			c.ruleThreshB()
			c.min("R-THRESHCONV/B", 9)
			c.ruleSortedSearch("R-SORTEDSEARCH", fgDir)
			c.min("R-SORTEDSEARCH", 1)
			c.ruleGhostConstrain()
			c.min("R-GHOSTCONSTRAIN", 1)
			c.rulePhaseConsistent()
			c.min("R-PHASECONSIST", 3)
			c.ruleRoundRecompute()
			c.min("R-RECOMPUTE", 6)
			c.ruleWeightSub(map[string]bool{
				// safe by invariant rather than by a guard, so reported as cross-references only:
				"(*Round).update$2:sub#1": true, // totalWeight - threshold: threshold = n - floor((n-1)/3) <= n (R-THRESHCONV/B formula)
				"(*Round).update$2:sub#3": true, // totalWeight - currentWeight: every voter's weight is added once (addVote)
				"(*Round).update$2:sub#4": true, // currentPrecommits - Weight(node): Weight is a bit-count over a union of voter bitfields, subset of the voters seen
				"(*Round).update$2:sub#5": true,
			})
			c.ruleAccum()
		})
}

func (c *Ctx) rulePhaseBits() {
	p := c.pkg(fgDir)
	if p == nil {
		return
	}
	c.doc("R-PHASEBITS", "PrevotePhase <-> even bits (position*2, Iter1s*Even, iter1s(0,1)); PrecommitPhase <-> odd bits (position*2+1, Iter1s*Odd, iter1s(1,1)); voter = position/2")
	// 1. switches on Phase: calls in each case must have the matching parity suffix
	for _, file := range p.Syntax {
		for _, d := range file.Decls {
			fd, ok := d.(*ast.FuncDecl)
			if !ok || fd.Body == nil {
				continue
			}
			ord := 0
			ast.Inspect(fd.Body, func(n ast.Node) bool {
				sw, ok := n.(*ast.SwitchStmt)
				if !ok {
					return true
				}
				for _, cl := range sw.Body.List {
					cc := cl.(*ast.CaseClause)
					phase := ""
					for _, e := range cc.List {
						if id, ok := e.(*ast.Ident); ok && (id.Name == "PrevotePhase" || id.Name == "PrecommitPhase") {
							phase = id.Name
						}
					}
					if phase == "" {
						continue
					}
					var parities []string
					for _, st := range cc.Body {
						ast.Inspect(st, func(m ast.Node) bool {
							if call, ok := m.(*ast.CallExpr); ok {
								if sel, ok := call.Fun.(*ast.SelectorExpr); ok {
									if strings.HasSuffix(sel.Sel.Name, "Even") {
										parities = append(parities, "even")
									}
									if strings.HasSuffix(sel.Sel.Name, "Odd") {
										parities = append(parities, "odd")
									}
								}
							}
							if be, ok := m.(*ast.BinaryExpr); ok && be.Op == token.MUL {
								// position*2 (+1)
								if tv, ok := p.TypesInfo.Types[be.Y]; ok && tv.Value != nil && constant.Compare(tv.Value, token.EQL, constant.MakeInt64(2)) {
									parities = append(parities, "mul2")
								}
							}
							if be, ok := m.(*ast.BinaryExpr); ok && be.Op == token.ADD {
								if tv, ok := p.TypesInfo.Types[be.Y]; ok && tv.Value != nil && constant.Compare(tv.Value, token.EQL, constant.MakeInt64(1)) {
									parities = append(parities, "plus1")
								}
							}
							return true
						})
					}
					if len(parities) == 0 {
						continue
					}
					ord++
					want := map[string]string{"PrevotePhase": "even", "PrecommitPhase": "odd"}[phase]
					ok := true
					hasMul, hasPlus := false, false
					for _, par := range parities {
						switch par {
						case "even", "odd":
							if par != want {
								ok = false
							}
						case "mul2":
							hasMul = true
						case "plus1":
							hasPlus = true
						}
					}
					if hasMul && (hasPlus != (want == "odd")) {
						ok = false
					}
					recv := ""
					if fd.Recv != nil {
						recv = recvTypeName(fd.Recv.List[0].Type) + "."
					}
					c.ob("R-PHASEBITS", fmt.Sprintf("%s%s:%s#%d", recv, fd.Name.Name, phase, ord), cc.Pos(), ok,
						fmt.Sprintf("%s%s: the %s case uses %v; %s votes live at %s bit positions everywhere", recv, fd.Name.Name, phase, parities, phase, want))
				}
				return true
			})
		}
	}
	// 2. Even/Odd iterators: start argument 0/1, step 1
	for _, spec := range []struct {
		fn    string
		start int64
	}{{"bitfield.Iter1sEven", 0}, {"bitfield.Iter1sOdd", 1}, {"bitfield.Iter1sMergedEven", 0}, {"bitfield.Iter1sMergedOdd", 1}} {
		fd, pk := c.funcDecl(fgDir, spec.fn)
		if fd == nil {
			continue
		}
		ok := false
		ast.Inspect(fd.Body, func(n ast.Node) bool {
			call, isCall := n.(*ast.CallExpr)
			if !isCall || len(call.Args) < 2 {
				return true
			}
			a := call.Args[len(call.Args)-2:]
			s, ok1 := pk.TypesInfo.Types[a[0]]
			st, ok2 := pk.TypesInfo.Types[a[1]]
			if ok1 && ok2 && s.Value != nil && st.Value != nil {
				sv, _ := constant.Int64Val(s.Value)
				stv, _ := constant.Int64Val(st.Value)
				if sv == spec.start && stv == 1 {
					ok = true
				}
			}
			return true
		})
		c.ob("R-PHASEBITS", spec.fn+":start/step", fd.Pos(), ok, fmt.Sprintf("%s must iterate bits starting at %d in steps of 2 (step exponent 1)", spec.fn, spec.start))
	}
	// 3. voter = position / 2
	if fd, pk := c.funcDecl(fgDir, "vote.voter"); fd != nil {
		ok := false
		ast.Inspect(fd.Body, func(n ast.Node) bool {
			if be, isBE := n.(*ast.BinaryExpr); isBE && be.Op == token.QUO {
				if tv, has := pk.TypesInfo.Types[be.Y]; has && tv.Value != nil && constant.Compare(tv.Value, token.EQL, constant.MakeInt64(2)) {
					ok = true
				}
			}
			return true
		})
		c.ob("R-PHASEBITS", "vote.voter:position/2", fd.Pos(), ok, "the voter index of a vote bit is position/2 (inverse of position*2[+1])")
	}
}

// R-SORTEDSEARCH: a slice that is binary-searched is only grown at the search index.
func (c *Ctx) ruleSortedSearch(rule, dir string) {
	p := c.pkg(dir)
	if p == nil {
		return
	}
	c.doc(rule, "in every function that binary-searches a slice S (slices.BinarySearch[Func]), an assignment S = append(S, x) must be on the `idx == len(S)` branch; inserting elsewhere must use S[:idx] / slices.Insert at idx")
	for _, file := range p.Syntax {
		for _, d := range file.Decls {
			fd, ok := d.(*ast.FuncDecl)
			if !ok || fd.Body == nil {
				continue
			}
			searched := map[string]bool{}
			ast.Inspect(fd.Body, func(n ast.Node) bool {
				call, ok := n.(*ast.CallExpr)
				if !ok {
					return true
				}
				if sel, ok := call.Fun.(*ast.SelectorExpr); ok && strings.HasPrefix(sel.Sel.Name, "BinarySearch") && len(call.Args) > 0 {
					if id, ok := call.Args[0].(*ast.Ident); ok {
						searched[id.Name] = true
					}
				}
				return true
			})
			if len(searched) == 0 {
				continue
			}
			ord := 0
			var stack []ast.Node
			ast.Inspect(fd.Body, func(n ast.Node) bool {
				if n == nil {
					stack = stack[:len(stack)-1]
					return true
				}
				stack = append(stack, n)
				as, ok := n.(*ast.AssignStmt)
				if !ok || len(as.Lhs) != 1 || len(as.Rhs) != 1 {
					return true
				}
				lhs, ok := as.Lhs[0].(*ast.Ident)
				if !ok || !searched[lhs.Name] {
					return true
				}
				call, ok := as.Rhs[0].(*ast.CallExpr)
				if !ok {
					return true
				}
				// S = slices.Insert(S, idx, x): a positional insert at the search index
				if sel, isSel := call.Fun.(*ast.SelectorExpr); isSel && sel.Sel.Name == "Insert" && len(call.Args) >= 3 {
					if a0, isID := call.Args[0].(*ast.Ident); isID && a0.Name == lhs.Name {
						ord++
						recv := ""
						if fd.Recv != nil {
							recv = recvTypeName(fd.Recv.List[0].Type) + "."
						}
						_, idxIsIdent := call.Args[1].(*ast.Ident)
						c.ob(rule, fmt.Sprintf("%s.%s%s:append-to-searched-slice#%d", dir, recv, fd.Name.Name, ord), as.Pos(), idxIsIdent,
							"slices.Insert at the position returned by the binary search keeps the slice sorted")
						return true
					}
				}
				fn, ok := call.Fun.(*ast.Ident)
				if !ok || fn.Name != "append" || len(call.Args) == 0 {
					return true
				}
				first, isIdent := call.Args[0].(*ast.Ident)
				if !isIdent || first.Name != lhs.Name {
					return true // append(S[:idx], ...) : positional insert
				}
				ord++
				// plain append: allowed only under `idx == len(S)`
				guarded := false
				for i := len(stack) - 1; i >= 0; i-- {
					ifs, ok := stack[i].(*ast.IfStmt)
					if !ok {
						continue
					}
					// the assignment must be in the Body (not Else) of this if
					inBody := false
					ast.Inspect(ifs.Body, func(m ast.Node) bool {
						if m == ast.Node(as) {
							inBody = true
						}
						return true
					})
					if !inBody {
						continue
					}
					if be, ok := ifs.Cond.(*ast.BinaryExpr); ok && be.Op == token.EQL {
						for _, side := range []ast.Expr{be.X, be.Y} {
							if lc, ok := side.(*ast.CallExpr); ok {
								if id, ok := lc.Fun.(*ast.Ident); ok && id.Name == "len" && len(lc.Args) == 1 {
									if a, ok := lc.Args[0].(*ast.Ident); ok && a.Name == lhs.Name {
										guarded = true
									}
								}
							}
						}
					}
				}
				recv := ""
				if fd.Recv != nil {
					recv = recvTypeName(fd.Recv.List[0].Type) + "."
				}
				c.ob(rule, fmt.Sprintf("%s.%s%s:append-to-searched-slice#%d", dir, recv, fd.Name.Name, ord), as.Pos(), guarded,
					fmt.Sprintf("%s%s appends to %s, which it binary-searches, without being on the `idx == len(%s)` branch: the slice is no longer sorted, later searches miss existing entries and their weights are not merged", recv, fd.Name.Name, lhs.Name, lhs.Name))
				return true
			})
		}
	}
}
