package main

import (
	"fmt"
	"go/ast"
	"go/types"

	"golang.org/x/tools/go/packages"
)

// R-ITERMOD: a `for … range x.f` directly over a slice field must not reach (through calls inside the package,
// transitively, including recursion) an assignment to that same field: deleting/appending while ranging skips or
// repeats elements. Ranging over a copy is the accepted idiom.
func (c *Ctx) ruleIterMod(rule, dir, typeName, field string) {
	p := c.pkg(dir)
	if p == nil {
		return
	}
	c.doc(rule, fmt.Sprintf("no `for range <%s>.%s` loop body reaches, through calls inside %s, an assignment to the %s field (element removal/append while ranging); ranging over a copy is fine", typeName, field, dir, field))
	fieldObj := lookupField(p, typeName, field)
	if fieldObj == nil {
		c.unresolved(fmt.Sprintf("field %s.%s in %s", typeName, field, dir))
		return
	}
	// functions that assign the field directly
	decls := map[*types.Func]*ast.FuncDecl{}
	for _, file := range p.Syntax {
		for _, d := range file.Decls {
			if fd, ok := d.(*ast.FuncDecl); ok && fd.Body != nil {
				if fn, ok := p.TypesInfo.Defs[fd.Name].(*types.Func); ok {
					decls[fn] = fd
				}
			}
		}
	}
	isFieldSel := func(e ast.Expr) bool {
		sel, ok := e.(*ast.SelectorExpr)
		if !ok {
			return false
		}
		s := p.TypesInfo.Selections[sel]
		return s != nil && s.Obj() == fieldObj
	}
	// shrinks: an assignment x.f = <expression re-slicing x.f> (element removal / shift). A plain append or the
	// initialisation of a fresh object's field does not disturb a running range loop.
	shrinks := func(as *ast.AssignStmt) bool {
		for i, l := range as.Lhs {
			if !isFieldSel(l) || i >= len(as.Rhs) {
				continue
			}
			found := false
			ast.Inspect(as.Rhs[i], func(n ast.Node) bool {
				if se, ok := n.(*ast.SliceExpr); ok && isFieldSel(se.X) {
					found = true
				}
				return true
			})
			if found {
				return true
			}
		}
		return false
	}
	writes := map[*types.Func]bool{}
	callees := map[*types.Func][]*types.Func{}
	for fn, fd := range decls {
		ast.Inspect(fd.Body, func(n ast.Node) bool {
			switch x := n.(type) {
			case *ast.AssignStmt:
				if shrinks(x) {
					writes[fn] = true
				}
			case *ast.CallExpr:
				var id *ast.Ident
				switch f := x.Fun.(type) {
				case *ast.Ident:
					id = f
				case *ast.SelectorExpr:
					id = f.Sel
				}
				if id != nil {
					if callee, ok := p.TypesInfo.Uses[id].(*types.Func); ok && decls[callee] != nil {
						callees[fn] = append(callees[fn], callee)
					}
				}
			}
			return true
		})
	}
	reaches := map[*types.Func]bool{}
	var canWrite func(fn *types.Func, seen map[*types.Func]bool) bool
	canWrite = func(fn *types.Func, seen map[*types.Func]bool) bool {
		if writes[fn] {
			return true
		}
		if seen[fn] {
			return false
		}
		seen[fn] = true
		for _, cal := range callees[fn] {
			if canWrite(cal, seen) {
				return true
			}
		}
		return false
	}
	for fn := range decls {
		reaches[fn] = canWrite(fn, map[*types.Func]bool{})
	}
	n := 0
	for fn, fd := range decls {
		ord := 0
		ast.Inspect(fd.Body, func(node ast.Node) bool {
			rs, ok := node.(*ast.RangeStmt)
			if !ok {
				return true
			}
			if !isFieldSel(rs.X) {
				// a local that merely aliases the field's backing array (xs := x.f or a re-slice of it) is no copy
				id, isIdent := rs.X.(*ast.Ident)
				if !isIdent || !aliasOfField(fd, id, isFieldSel) {
					return true
				}
			}
			ord++
			n++
			bad := ""
			ast.Inspect(rs.Body, func(m ast.Node) bool {
				switch x := m.(type) {
				case *ast.BlockStmt:
					for i, st := range x.List {
						as, ok := st.(*ast.AssignStmt)
						if !ok || !shrinks(as) {
							continue
						}
						leaves := false
						if i+1 < len(x.List) {
							switch nx := x.List[i+1].(type) {
							case *ast.ReturnStmt:
								leaves = true
							case *ast.BranchStmt:
								leaves = nx.Tok.String() == "break"
							}
						}
						if !leaves {
							bad = "removes elements of the field in the loop body and keeps iterating"
						}
					}
				case *ast.CallExpr:
					var id *ast.Ident
					switch f := x.Fun.(type) {
					case *ast.Ident:
						id = f
					case *ast.SelectorExpr:
						id = f.Sel
					}
					if id != nil {
						if callee, ok := p.TypesInfo.Uses[id].(*types.Func); ok && reaches[callee] {
							bad = "calls " + callee.Name() + ", which can reach an assignment to ." + field
						}
					}
				}
				return true
			})
			recv := ""
			if fd.Recv != nil {
				recv = recvTypeName(fd.Recv.List[0].Type) + "."
			}
			c.ob(rule, fmt.Sprintf("%s.%s%s:range-%s#%d", dir, recv, fn.Name(), field, ord), rs.Pos(), bad == "",
				fmt.Sprintf("%s%s ranges directly over .%s and %s: elements are skipped when the slice shrinks during the iteration", recv, fn.Name(), field, bad))
			return true
		})
	}
	if n == 0 {
		c.undecided(rule, "no range loop over ."+field+" found in "+dir)
	}
}

func lookupField(p *packages.Package, typeName, field string) *types.Var {
	obj := p.Types.Scope().Lookup(typeName)
	if obj == nil {
		return nil
	}
	st, ok := obj.Type().Underlying().(*types.Struct)
	if !ok {
		return nil
	}
	for i := 0; i < st.NumFields(); i++ {
		if st.Field(i).Name() == field {
			return st.Field(i)
		}
	}
	return nil
}
