package main

import (
	"fmt"
	"go/constant"
	"go/token"
	"go/types"
	"strings"

	"golang.org/x/tools/go/ssa"
)

const psDir = "dot/peerset"

func init() {
	register("C30", "slot-accounting path exploration over boolean symbols (R-SLOTS), ban-threshold dominance (R-BANGUARD), saturating arithmetic confinement (R-SATARITH), per-peer loop completeness (R-LOOPEXIT), lock re-entrancy (R-LOCKS/L3)",
		"Decides: tryOutgoing/tryAcceptIncoming increment the slot counter exactly on the paths where a free slot was observed and the peer occupies slots, and mark the peer connected only when a slot is free or the peer is slot-free (all four combinations of the two conditions are explored on the SSA); every Connect/Accept message is dominated by the not-banned edge of a comparison of a stored reputation with BannedThresholdValue, and a missing reputation defaults to 0 only when the peer is absent from the node map; reputation values are only added/subtracted inside the saturating helpers; a reputation report for several peers never returns early with success inside the per-peer loop; no method re-acquires the peer-state lock it holds. "+
			"Not decided: that the counters always equal the number of connected peers over whole histories (forgetPeer/disconnect interplay), time-based decay values.",
		"none beyond the type checker", "DESIGN.md §3 R-LOOPEXIT, R-LOCKS, R-SATARITH, R-BANGUARD; §4 C30",
		func(c *Ctx) {
			c.load(psDir)
			c.ruleSlots()
			c.min("R-SLOTS", 8)
			c.ruleInsertFresh()
			c.min("R-INSERTFRESH", 1)
			c.ruleBanGuard()
			c.min("R-BANGUARD", 3)
			c.ruleSatArith()
			c.ruleLostUpdate("R-LOSTUPDATE", psDir)
			c.min("R-LOSTUPDATE", 2)
			c.ruleLoopExit()
			c.min("R-LOOPEXIT", 1)
			c.ruleLocks(lockSpec{dir: psDir, typ: "PeersState", guarded: []string{"nodes", "sets"}, rule: "R-LOCKS", noL4: true,
				xrefOnly: map[string]bool{"L1": true, "L2": true}})
			c.min("R-LOCKS/L3", 10)
		})
}

func (c *Ctx) ruleSlots() {
	c.doc("R-SLOTS", "for hasFree in {T,F} x isNoSlotNode in {T,F}: the counter increment executes iff hasFree && !isNoSlotNode... is reachable only then, and the state change to connected is reachable only when hasFree || isNoSlotNode (abstract path exploration of the SSA)")
	for _, spec := range [][3]string{{"(*PeersState).tryOutgoing", "hasFreeOutgoingSlot", "numOut"}, {"(*PeersState).tryAcceptIncoming", "hasFreeIncomingSlot", "numIn"}} {
		f := c.fn(psDir, spec[0])
		if f == nil {
			continue
		}
		var free ssa.Value
		var noSlot ssa.Value
		var inc, stateStore ssa.Instruction
		eachInstr(f, func(_ *ssa.BasicBlock, _ int, in ssa.Instruction) {
			switch x := in.(type) {
			case *ssa.Call:
				if cal := x.Call.StaticCallee(); cal != nil && cal.Name() == spec[1] {
					free = x
				}
			case *ssa.Extract:
				if lk, ok := x.Tuple.(*ssa.Lookup); ok && x.Index == 1 {
					if _, ok := isFieldLoadNamed(lk.X, "noSlotNodes"); ok {
						noSlot = x
					}
				}
			case *ssa.Store:
				if fa, ok := x.Addr.(*ssa.FieldAddr); ok && fieldVar(fa) != nil && fieldVar(fa).Name() == spec[2] {
					if bo, ok := x.Val.(*ssa.BinOp); ok && bo.Op == token.ADD {
						inc = in
					}
				}
				if ia, ok := x.Addr.(*ssa.IndexAddr); ok {
					if _, ok := isFieldLoadNamed(ia.X, "state"); ok {
						stateStore = in
					}
				}
			}
		})
		if free == nil || noSlot == nil || inc == nil || stateStore == nil {
			c.ob("R-SLOTS", spec[0]+":anchors", f.Pos(), false, fmt.Sprintf("could not find free-slot test (%v), no-slot lookup (%v), counter increment (%v), state store (%v)", free != nil, noSlot != nil, inc != nil, stateStore != nil))
			continue
		}
		for _, h := range []bool{true, false} {
			for _, s := range []bool{true, false} {
				hh, ss := h, s
				vis := explore(f, &cmpEnv{extern: func(v ssa.Value) (any, bool) {
					if v == free {
						return hh, true
					}
					if v == noSlot {
						return ss, true
					}
					return nil, false
				}})
				wantInc := h && !s
				wantConn := h || s
				c.ob("R-SLOTS", fmt.Sprintf("%s:increment[free=%v,noSlot=%v]", spec[0], h, s), inc.Pos(), vis[inc] == wantInc,
					fmt.Sprintf("with a free slot=%v and a slot-free peer=%v the %s increment is reachable=%v, expected %v (a slot-occupying peer may only be counted when a slot is free; a slot-free peer never)", h, s, spec[2], vis[inc], wantInc))
				c.ob("R-SLOTS", fmt.Sprintf("%s:connect[free=%v,noSlot=%v]", spec[0], h, s), stateStore.Pos(), vis[stateStore] == wantConn,
					fmt.Sprintf("with a free slot=%v and a slot-free peer=%v marking the peer connected is reachable=%v, expected %v", h, s, vis[stateStore], wantConn))
			}
		}
	}
}

func (c *Ctx) ruleBanGuard() {
	sp := c.ssaPkg(psDir)
	if sp == nil {
		return
	}
	c.doc("R-BANGUARD", "every store/literal of Message.Status = Connect or Accept is dominated by the false edge of `<reputation> < BannedThresholdValue`; the compared reputation is a node.reputation load, or the default 0 only on the `not present` edge of the nodes-map lookup")
	banObj, _ := sp.Pkg.Scope().Lookup("BannedThresholdValue").(*types.Const)
	if banObj == nil {
		c.unresolved("peerset.BannedThresholdValue")
		return
	}
	ban, _ := constant.Int64Val(banObj.Val())
	statusVal := func(name string) int64 {
		if k, ok := sp.Pkg.Scope().Lookup(name).(*types.Const); ok {
			v, _ := constant.Int64Val(k.Val())
			return v
		}
		return -1
	}
	connect, accept := statusVal("Connect"), statusVal("Accept")
	isBanCmp := func(cond ssa.Value, truth bool) (ssa.Value, bool) {
		subj, op, k, ok := cmpWithConst(cond)
		if !ok || k != ban {
			return nil, false
		}
		if !truth {
			op = negOp(op)
		}
		if op == token.GEQ {
			return subj, true
		}
		return nil, false
	}
	n := 0
	for _, f := range allFuncs(c, sp) {
		ord := 0
		eachInstr(f, func(b *ssa.BasicBlock, _ int, in ssa.Instruction) {
			st, ok := in.(*ssa.Store)
			if !ok {
				return
			}
			fa, ok := st.Addr.(*ssa.FieldAddr)
			if !ok || fieldVar(fa) == nil || fieldVar(fa).Name() != "Status" || !strings.HasSuffix(namedType(fa.X.Type()), "peerset.Message") {
				return
			}
			k, ok := constInt(st.Val)
			if !ok || (k != connect && k != accept) {
				return
			}
			ord++
			n++
			var rep ssa.Value
			for _, fc := range factsAt(b) {
				if r, ok := isBanCmp(fc.cond, fc.truth); ok {
					rep = r
				}
			}
			what := map[int64]string{connect: "Connect", accept: "Accept"}[k]
			key := fmt.Sprintf("%s:%s#%d", relName(f.String()), what, ord)
			if rep == nil {
				c.ob("R-BANGUARD", key, st.Pos(), false, shortFn(f)+" emits "+what+" on a path not dominated by `reputation >= BannedThresholdValue`: a banned peer can be connected/accepted")
				return
			}
			// provenance of the compared reputation
			okRep, why := true, ""
			var check func(v ssa.Value, from *ssa.BasicBlock, depth int)
			check = func(v ssa.Value, from *ssa.BasicBlock, depth int) {
				if depth > 6 {
					return
				}
				switch x := v.(type) {
				case *ssa.Phi:
					for i, e := range x.Edges {
						check(e, x.Block().Preds[i], depth+1)
					}
				case *ssa.Const:
					// default value: allowed only where the peer is absent from the nodes map
					absent := false
					if from != nil {
						for _, fc := range factsAt(from) {
							if ex, ok := fc.cond.(*ssa.Extract); ok && ex.Index == 1 && !fc.truth {
								if lk, ok := ex.Tuple.(*ssa.Lookup); ok {
									if _, ok := isFieldLoadNamed(lk.X, "nodes"); ok {
										absent = true
									}
								}
							}
						}
						// the edge from the lookup's own block
						if iff := ifOf(from); iff != nil {
							if ex, ok := iff.Cond.(*ssa.Extract); ok && ex.Index == 1 {
								if lk, ok := ex.Tuple.(*ssa.Lookup); ok {
									if _, ok := isFieldLoadNamed(lk.X, "nodes"); ok {
										absent = true
									}
								}
							}
						}
					}
					if !absent {
						okRep, why = false, "a default reputation is assumed on a path where the peer may be present in the node map (its stored, possibly banned, reputation is ignored)"
					}
				default:
					if _, fv, ok := fieldLoad(v); !ok || fv == nil || fv.Name() != "reputation" {
						okRep, why = false, "compared value is not a stored reputation: "+describeVal(v)
					}
				}
			}
			check(rep, nil, 0)
			c.ob("R-BANGUARD", key, st.Pos(), okRep, shortFn(f)+" emits "+what+": "+why)
		})
	}
	if n == 0 {
		c.ob("R-BANGUARD", "status-stores", token.NoPos, false, "no Connect/Accept message construction found (anchor changed)")
	}
}

func (c *Ctx) ruleSatArith() {
	sp := c.ssaPkg(psDir)
	if sp == nil {
		return
	}
	c.doc("R-SATARITH", "+ and - on values of type Reputation occur only inside Reputation.add / Reputation.sub, after the saturation guards")
	n := 0
	for _, f := range allFuncs(c, sp) {
		ord := 0
		eachInstr(f, func(_ *ssa.BasicBlock, _ int, in ssa.Instruction) {
			bo, ok := in.(*ssa.BinOp)
			if !ok || (bo.Op != token.ADD && bo.Op != token.SUB) {
				return
			}
			if !strings.HasSuffix(namedType(bo.Type()), "peerset.Reputation") {
				return
			}
			if _, isC1 := bo.X.(*ssa.Const); isC1 {
				if _, isC2 := bo.Y.(*ssa.Const); isC2 {
					return
				}
			}
			ord++
			n++
			inHelper := shortFn(f) == "(Reputation).add" || shortFn(f) == "(Reputation).sub"
			// inside the helpers, constant-limit arithmetic (MaxInt32 - num) is part of the guard
			c.ob("R-SATARITH", fmt.Sprintf("%s:%s#%d", relName(f.String()), bo.Op, ord), bo.Pos(), inHelper,
				shortFn(f)+" adds/subtracts Reputation values outside the saturating helpers: the result can wrap around int32")
		})
	}
	c.ob("R-SATARITH", "scan", token.NoPos, n >= 2, fmt.Sprintf("%d Reputation additions/subtractions found (all must be inside add/sub)", n))
	// the helpers themselves: guards present (comparisons with MaxInt32/MinInt32 derived limits)
	for _, name := range []string{"Reputation.add", "Reputation.sub"} {
		f := c.fn(psDir, name)
		if f == nil {
			continue
		}
		guards := 0
		satRet := 0
		eachInstr(f, func(_ *ssa.BasicBlock, _ int, in ssa.Instruction) {
			if bo, ok := in.(*ssa.BinOp); ok && (bo.Op == token.GTR || bo.Op == token.LSS) {
				guards++
			}
			if r, ok := in.(*ssa.Return); ok {
				if k, ok := constInt(resultOf(r, 0)); ok && (k == 2147483647 || k == -2147483648) {
					satRet++
				}
			}
		})
		c.ob("R-SATARITH", name+":saturates", f.Pos(), guards >= 3 && satRet == 2, fmt.Sprintf("%s must return MaxInt32/MinInt32 on the two overflow edges (guards found %d, saturating returns %d)", name, guards, satRet))
	}
}

func (c *Ctx) ruleLoopExit() {
	f := c.fn(psDir, "(*PeerSet).reportPeer")
	if f == nil {
		return
	}
	c.doc("R-LOOPEXIT", "reportPeer: inside the loop over the reported peers the only returns are error returns; a `return nil` skips the remaining peers")
	// loop blocks: those that can reach themselves
	n := 0
	for _, r := range returnsOf(f) {
		if !inLoop(r.Block()) {
			continue
		}
		n++
		c.ob("R-LOOPEXIT", fmt.Sprintf("reportPeer:return-in-loop#%d", n), r.Pos(), !isNilConst(resultOf(r, 0)),
			"reportPeer returns success from inside the per-peer loop: peers listed after this one never receive the reputation change")
	}
	c.ob("R-LOOPEXIT", "reportPeer:loop", f.Pos(), true, fmt.Sprintf("%d return sites inside the per-peer loop examined", n))
}

// inLoop: block b is dominated by a body block (not the header) of some natural loop of its function, i.e. it
// executes inside an iteration (a return there leaves the loop early).
func inLoop(b *ssa.BasicBlock) bool {
	f := b.Parent()
	for _, d := range f.Blocks {
		for _, p := range d.Preds {
			if !d.Dominates(p) {
				continue // not a back edge
			}
			// natural loop of p -> d
			body := map[*ssa.BasicBlock]bool{d: true}
			stack := []*ssa.BasicBlock{p}
			for len(stack) > 0 {
				x := stack[len(stack)-1]
				stack = stack[:len(stack)-1]
				if body[x] {
					continue
				}
				body[x] = true
				stack = append(stack, x.Preds...)
			}
			for x := range body {
				if x != d && x.Dominates(b) {
					return true
				}
			}
		}
	}
	return false
}
