package main

import (
	"fmt"
	"go/token"
	"strings"

	"golang.org/x/tools/go/ssa"
)

const wazeroDir = "lib/runtime/wazero"

func init() {
	register("C09", "structural rules on storageAppend's SSA (R-APPEND) + canonical compact decoding of the length prefix (R-COMPACT/bigint, R-COMPACT/canon)",
		"Decides: the stored value's length prefix is decoded by the big-integer compact decoder, which rejects every non-canonical encoding (mode bounds and zero/short big-integer forms are read from the constants in pkg/scale); on a decode error the value is replaced by the one-item list 0x04||item; on success the new prefix is the decoded length + 1 and exactly the re-encoded (canonical) prefix length is stripped from the old value; an absent/empty value becomes a one-item list. "+
			"Not decided: the byte layout of the result for every input; the upper bound n+1 <= u32::MAX is reported as a finding.",
		"scale.Marshal of a *big.Int is the canonical compact encoding (C11)", "DESIGN.md §3 R-APPENDDECODER, R-COMPACT; §4 C09",
		func(c *Ctx) {
			c.load(wazeroDir, "pkg/scale")
			c.ruleBigIntCanon()
			c.ruleCompactCanon("R-COMPACT/canon", "pkg/scale", "(*decodeState).decodeSmallInt")
			c.min("R-COMPACT/canon", 2)
			c.ruleStorageAppend()
			c.min("R-APPEND", 5)
		})
	register("C10", "delegation/version-flow rules on the SSA of the trie-root host functions (R-HOSTVER)",
		"Decides: the *_version_1 root host functions delegate to *_version_2 with the constant version 0; the *_version_2 functions derive the state version from their version argument through trie.ParseVersion, return 0 (failure) on its error and on undecodable input, and compute the root with that version on a fresh empty trie; the ordered root keys are the compact encodings of the element indices; TrieLayout.Root sets the version before inserting and hashes afterwards. The root computation itself is covered by the C01 rules. "+
			"Not decided: the root values; ParseVersion(uint8(version)) truncates versions above 255 (outside the property's quantifier).",
		"wazero API trusted", "DESIGN.md §3 R-HOSTVER; §4 C10",
		func(c *Ctx) {
			c.load(wazeroDir, "pkg/trie")
			c.ruleHostVer()
			c.min("R-HOSTVER", 12)
		})
}

func (c *Ctx) ruleStorageAppend() {
	f := c.fn(wazeroDir, "storageAppend")
	if f == nil {
		return
	}
	c.doc("R-APPEND", "storageAppend: Unmarshal into *big.Int; error edge writes 0x04||item; success edge writes Marshal(len+1) || old[len(Marshal(len)):] || item; empty value writes Marshal(1)||item; n+1 must stay within u32")
	var um *ssa.Call
	eachInstr(f, func(_ *ssa.BasicBlock, _ int, in ssa.Instruction) {
		if call, ok := in.(*ssa.Call); ok && strings.HasSuffix(calleeName(&call.Call), "pkg/scale.Unmarshal") {
			um = call
		}
	})
	if um == nil {
		c.ob("R-APPEND", "storageAppend:length-decoder", f.Pos(), false, "no scale.Unmarshal of the current value found")
		return
	}
	dst := stripConv(um.Call.Args[1])
	c.ob("R-APPEND", "storageAppend:length-decoder", um.Pos(), strings.Contains(dst.Type().String(), "**math/big.Int"),
		"the length prefix must be decoded as a compact integer into *big.Int (decodeBigInt: canonical-only); destination type is "+dst.Type().String())
	isErr := func(wantErr bool) func(cond ssa.Value, truth bool) bool {
		return func(cond ssa.Value, truth bool) bool {
			e, neq, ok := nilCmp(cond)
			if !ok || (truth == neq) != wantErr {
				return false
			}
			for _, v := range phiInputs(e) {
				if v == ssa.Value(um) {
					return true
				}
			}
			return false
		}
	}
	oneItem, addOne, strip, first := false, false, false, false
	nOldCuts, badCut := 0, false
	u32 := false
	eachInstr(f, func(b *ssa.BasicBlock, _ int, in ssa.Instruction) {
		switch x := in.(type) {
		case *ssa.Store:
			if ia, ok := x.Addr.(*ssa.IndexAddr); ok {
				if i, ok := constInt(ia.Index); ok && i == 0 {
					if k, ok := constInt(x.Val); ok && k == 4 && guardedBy(b, isErr(true)) {
						oneItem = true
					}
				}
			}
		case *ssa.Call:
			n := calleeName(&x.Call)
			if n == "(*math/big.Int).Add" && guardedBy(b, isErr(false)) {
				for _, a := range x.Call.Args[1:] {
					if nc, ok := a.(*ssa.Call); ok && calleeName(&nc.Call) == "math/big.NewInt" {
						if k, ok := constInt(nc.Call.Args[0]); ok && k == 1 {
							addOne = true
						}
					}
				}
			}
			if n == "math/big.NewInt" {
				if k, ok := constInt(x.Call.Args[0]); ok && k == 1 && !guardedBy(b, isErr(false)) && !guardedBy(b, isErr(true)) {
					first = true
				}
			}
			if strings.Contains(n, "Cmp") || strings.Contains(n, "IsUint64") || strings.Contains(n, "BitLen") {
				u32 = true
			}
		case *ssa.Slice:
			// currentValue[len(lengthBytes):] — the OLD value (the bytes handed to Unmarshal) is cut at the length of the
			// re-encoding of the DECODED length (not of length+1, and not a size computed from the mode bits)
			if x.Low != nil && sameValue(x.X, um.Call.Args[0]) {
				nOldCuts++
				okCut := false
				if l, ok := lenOf(x.Low); ok {
					fromDecoded, fromSum := false, false
					for v := range backwardSlice(l, nil) {
						if v == dst {
							fromDecoded = true
						}
						if call, ok := v.(*ssa.Call); ok && calleeName(&call.Call) == "(*math/big.Int).Add" {
							fromSum = true
						}
					}
					isMarshal := false
					for v := range backwardSlice(l, nil) {
						if call, ok := v.(*ssa.Call); ok && strings.HasSuffix(calleeName(&call.Call), "pkg/scale.Marshal") {
							isMarshal = true
						}
					}
					okCut = isMarshal && fromDecoded && !fromSum
				}
				if okCut {
					strip = true
				} else {
					badCut = true
				}
			}
		}
	})
	c.ob("R-APPEND", "storageAppend:error-edge-one-item-list", um.Pos(), oneItem, "when the stored value does not start with a canonical compact length it must be replaced by 0x04 || item")
	c.ob("R-APPEND", "storageAppend:success-edge-length-plus-one", um.Pos(), addOne, "on success the new length is the decoded length + 1")
	c.ob("R-APPEND", "storageAppend:strip-canonical-prefix", um.Pos(), strip && !badCut && nOldCuts > 0, "the old prefix stripped from the value is the re-encoded (canonical) length, which equals the consumed prefix only because non-canonical prefixes are rejected")
	c.ob("R-APPEND", "storageAppend:empty-value-one-item", um.Pos(), first, "an absent or empty value becomes a one-item list (length 1)")
	c.ob("R-APPEND", "storageAppend:u32-bound", um.Pos(), u32, "no check that length+1 still fits in u32: a value starting with the compact u32::MAX is extended to length 2^32 instead of being replaced by a one-item list")
}

func (c *Ctx) ruleHostVer() {
	c.doc("R-HOSTVER", "version_1 delegates with constant 0; version_2: version -> trie.ParseVersion -> receiver of Root; error edges return 0; Root gets a fresh NewEmptyTrie(); ordered-root keys are Marshal(big.NewInt(int64(i))); TrieLayout.Root: SetVersion before Put, Hash last")
	for _, base := range []string{"ext_trie_blake2_256_root", "ext_trie_blake2_256_ordered_root"} {
		v1 := c.fn(wazeroDir, base+"_version_1")
		v2 := c.fn(wazeroDir, base+"_version_2")
		if v1 == nil || v2 == nil {
			continue
		}
		deleg := false
		eachInstr(v1, func(_ *ssa.BasicBlock, _ int, in ssa.Instruction) {
			if call, ok := in.(*ssa.Call); ok && call.Call.StaticCallee() == v2 {
				if k, ok := constInt(call.Call.Args[len(call.Call.Args)-1]); ok && k == 0 {
					deleg = true
				}
			}
		})
		c.ob("R-HOSTVER", base+"_version_1:delegates-with-0", v1.Pos(), deleg, "version_1 must compute the V0 root (delegate with version 0)")
		verParam := v2.Params[len(v2.Params)-1]
		var pv, um, root *ssa.Call
		eachInstr(v2, func(_ *ssa.BasicBlock, _ int, in ssa.Instruction) {
			call, ok := in.(*ssa.Call)
			if !ok {
				return
			}
			n := calleeName(&call.Call)
			switch {
			case strings.Contains(n, "pkg/trie.ParseVersion"):
				pv = call
			case strings.HasSuffix(n, "pkg/scale.Unmarshal"):
				um = call
			case strings.HasSuffix(n, "TrieLayout).Root"):
				root = call
			}
		})
		okPV := pv != nil && stripConv(pv.Call.Args[0]) == ssa.Value(verParam)
		c.ob("R-HOSTVER", base+"_version_2:version-parsed", v2.Pos(), okPV, "the state version must come from trie.ParseVersion(version argument)")
		okRecv, fresh := false, false
		if root != nil && pv != nil {
			if ex, ok := root.Call.Args[0].(*ssa.Extract); ok && ex.Tuple == ssa.Value(pv) && ex.Index == 0 {
				okRecv = true
			}
			if mi, ok := root.Call.Args[1].(*ssa.MakeInterface); ok {
				if nc, ok := mi.X.(*ssa.Call); ok && strings.HasSuffix(calleeName(&nc.Call), "inmemory.NewEmptyTrie") {
					fresh = true
				}
			}
		}
		c.ob("R-HOSTVER", base+"_version_2:root-uses-parsed-version", v2.Pos(), okRecv, "Root must be computed with the parsed state version")
		c.ob("R-HOSTVER", base+"_version_2:fresh-trie", v2.Pos(), fresh, "Root must be computed on a fresh empty trie")
		// error edges return 0
		errRet := func(call *ssa.Call) bool {
			if call == nil {
				return false
			}
			found := false
			for _, r := range returnsOf(v2) {
				k, ok := constInt(resultOf(r, 0))
				if !ok || k != 0 {
					continue
				}
				if guardedBy(r.Block(), func(cond ssa.Value, truth bool) bool {
					e, neq, ok := nilCmp(cond)
					if !ok || truth != neq {
						return false
					}
					if ex, ok := e.(*ssa.Extract); ok {
						return ex.Tuple == ssa.Value(call)
					}
					return e == ssa.Value(call)
				}) {
					found = true
				}
			}
			return found
		}
		c.ob("R-HOSTVER", base+"_version_2:unknown-version-fails", v2.Pos(), errRet(pv), "an unknown state version must return 0 (failure)")
		c.ob("R-HOSTVER", base+"_version_2:undecodable-input-fails", v2.Pos(), errRet(um), "undecodable input must return 0 (failure)")
		// no success return before Root: every non-zero return is dominated by the Root call's success edge
		if root != nil {
			okSucc := true
			for _, r := range returnsOf(v2) {
				if k, ok := constInt(resultOf(r, 0)); ok && k == 0 {
					continue
				}
				if !root.Block().Dominates(r.Block()) {
					okSucc = false
				}
			}
			c.ob("R-HOSTVER", base+"_version_2:success-after-root", v2.Pos(), okSucc, "a pointer is returned only after the root was computed")
		}
		if base == "ext_trie_blake2_256_ordered_root" {
			// every key stored into an Entry is, on every path, scale.Marshal(big.NewInt(int64(index))) — directly or
			// through a helper of the package whose every return is; a hand-written fast path is a different encoder
			var isIdxKey func(v ssa.Value, depth int) bool
			isIdxKey = func(v ssa.Value, depth int) bool {
				if depth > 3 {
					return false
				}
				ins := phiInputs(v)
				if len(ins) == 0 {
					return false
				}
				for _, x := range ins {
					x = stripConv(x)
					if u, ok := x.(*ssa.UnOp); ok && u.Op == token.MUL {
						// a local cell: every value stored into it must qualify
						if al, ok := u.X.(*ssa.Alloc); ok {
							n, all := 0, true
							for _, r := range *al.Referrers() {
								if st, ok := r.(*ssa.Store); ok && st.Addr == ssa.Value(al) {
									n++
									if !isIdxKey(st.Val, depth+1) {
										all = false
									}
								}
							}
							if n == 0 || !all {
								return false
							}
							continue
						}
					}
					okOne := false
					if ex, ok := x.(*ssa.Extract); ok && ex.Index == 0 {
						if call, ok := ex.Tuple.(*ssa.Call); ok {
							if strings.HasSuffix(calleeName(&call.Call), "pkg/scale.Marshal") {
								if mi, ok := call.Call.Args[0].(*ssa.MakeInterface); ok {
									if nc, ok := mi.X.(*ssa.Call); ok && calleeName(&nc.Call) == "math/big.NewInt" {
										okOne = true
									}
								}
							} else if g := call.Call.StaticCallee(); g != nil && g.Pkg == v2.Pkg && len(g.Blocks) > 0 {
								okOne = true
								for _, r := range returnsOf(g) {
									if isNilConst(resultOf(r, 0)) {
										continue // error return
									}
									if !isIdxKey(resultOf(r, 0), depth+1) {
										okOne = false
									}
								}
							}
						}
					}
					if !okOne {
						return false
					}
				}
				return true
			}
			nKeys, okKey := 0, true
			for _, g := range withAnon(v2) {
				eachInstr(g, func(_ *ssa.BasicBlock, _ int, in ssa.Instruction) {
					st, ok := in.(*ssa.Store)
					if !ok {
						return
					}
					fa, ok := st.Addr.(*ssa.FieldAddr)
					if !ok || fieldVar(fa) == nil || fieldVar(fa).Name() != "Key" || !strings.HasSuffix(namedType(fa.X.Type()), "trie.Entry") {
						return
					}
					nKeys++
					if !isIdxKey(st.Val, 0) {
						okKey = false
					}
				})
			}
			c.ob("R-HOSTVER", base+"_version_2:keys-are-compact-indices", v2.Pos(), nKeys > 0 && okKey, "on every path the key of an ordered-root entry must be scale.Marshal(big.NewInt(int64(index))) — the compact encoding of the element index; a hand-written shortcut for small indices is a second encoder that can disagree at a mode boundary (e.g. index 64)")
		}
	}
	rf := c.fn("pkg/trie", "TrieLayout.Root")
	if rf != nil {
		// entries are inserted in the order given: the parameter is only ranged over / indexed, never handed to a call
		entries := rf.Params[2]
		okOrder := true
		why := ""
		for _, r := range *entries.Referrers() {
			switch x := r.(type) {
			case *ssa.Call:
				if b, ok := x.Call.Value.(*ssa.Builtin); ok && b.Name() == "len" {
					continue
				}
				okOrder, why = false, "passed to "+relName(calleeName(&x.Call))
			case *ssa.MakeInterface, *ssa.Slice, *ssa.Store, *ssa.MakeClosure:
				okOrder, why = false, "escapes through "+r.String()
			case *ssa.Index, *ssa.IndexAddr, *ssa.Range, *ssa.DebugRef:
			}
		}
		c.ob("R-HOSTVER", "pkg/trie.TrieLayout.Root:entries-in-given-order", rf.Pos(), okOrder,
			"Root must insert the entries in the order given (later duplicates overwrite earlier ones); the entries parameter is "+why)
		c.ruleSeq("R-HOSTVER", rf, []seqMarker{
			{"SetVersion", invokeNamed("SetVersion")},
			{"Put", invokeNamed("Put")},
			{"Hash", invokeNamed("Hash")},
		})
	}
}

func invokeNamed(name string) func(in ssa.Instruction) bool {
	return func(in ssa.Instruction) bool {
		call, ok := in.(*ssa.Call)
		if !ok {
			return false
		}
		if call.Call.IsInvoke() {
			return call.Call.Method.Name() == name
		}
		cal := call.Call.StaticCallee()
		return cal != nil && cal.Name() == name
	}
}

var _ = fmt.Sprintf
