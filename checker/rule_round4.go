package main

import (
	"fmt"
	"go/constant"
	"go/token"
	"go/types"
	"sort"
	"strings"

	"golang.org/x/tools/go/ssa"
)

// evalInt evaluates an integer/boolean SSA expression under a valuation of some values (parameters). Booleans are
// 0/1. ok=false when the expression depends on anything else.
func evalInt(v ssa.Value, env map[ssa.Value]int64, depth int) (int64, bool) {
	if depth > 12 {
		return 0, false
	}
	if k, ok := env[v]; ok {
		return k, true
	}
	b2i := func(b bool) int64 {
		if b {
			return 1
		}
		return 0
	}
	trunc := func(k int64, t types.Type) int64 {
		if bt, ok := t.Underlying().(*types.Basic); ok {
			switch bt.Kind() {
			case types.Uint8:
				return int64(uint8(k))
			case types.Uint16:
				return int64(uint16(k))
			case types.Uint32:
				return int64(uint32(k))
			case types.Int8:
				return int64(int8(k))
			case types.Int16:
				return int64(int16(k))
			case types.Int32:
				return int64(int32(k))
			}
		}
		return k
	}
	switch x := v.(type) {
	case *ssa.Const:
		if x.Value == nil {
			return 0, false
		}
		switch x.Value.Kind() {
		case constant.Int:
			k, ok := constant.Int64Val(x.Value)
			return k, ok
		case constant.Bool:
			return b2i(constant.BoolVal(x.Value)), true
		}
		return 0, false
	case *ssa.Convert:
		k, ok := evalInt(x.X, env, depth+1)
		return trunc(k, x.Type()), ok
	case *ssa.ChangeType:
		return evalInt(x.X, env, depth+1)
	case *ssa.UnOp:
		k, ok := evalInt(x.X, env, depth+1)
		if !ok {
			return 0, false
		}
		switch x.Op {
		case token.NOT:
			return b2i(k == 0), true
		case token.SUB:
			return trunc(-k, x.Type()), true
		case token.XOR:
			return trunc(^k, x.Type()), true
		}
		return 0, false
	case *ssa.Phi:
		// the edge taken is the one whose guards (those of the predecessor plus the branch into this block) all hold
		taken := -1
		for i, p := range x.Block().Preds {
			gs := guardsOf(p)
			if iff := ifOf(p); iff != nil && len(p.Succs) == 2 && p.Succs[0] != p.Succs[1] {
				gs = append(gs, guard{cond: iff.Cond, truth: p.Succs[0] == x.Block(), at: p})
			}
			feasible, decided := true, 0
			for _, g := range gs {
				k, ok := evalInt(g.cond, env, depth+1)
				if !ok {
					continue
				}
				decided++
				if (k != 0) != g.truth {
					feasible = false
				}
			}
			if feasible {
				if taken >= 0 || decided == 0 {
					return 0, false // two feasible edges, or nothing known about this one
				}
				taken = i
			}
		}
		if taken < 0 {
			return 0, false
		}
		return evalInt(x.Edges[taken], env, depth+1)
	case *ssa.BinOp:
		a, ok1 := evalInt(x.X, env, depth+1)
		b, ok2 := evalInt(x.Y, env, depth+1)
		if !ok1 || !ok2 {
			return 0, false
		}
		switch x.Op {
		case token.AND:
			return a & b, true
		case token.OR:
			return a | b, true
		case token.XOR:
			return trunc(a^b, x.Type()), true
		case token.AND_NOT:
			return a &^ b, true
		case token.SHL:
			if b < 0 || b > 62 {
				return 0, false
			}
			return trunc(a<<uint(b), x.Type()), true
		case token.SHR:
			if b < 0 || b > 62 {
				return 0, false
			}
			return a >> uint(b), true
		case token.ADD:
			return trunc(a+b, x.Type()), true
		case token.SUB:
			return trunc(a-b, x.Type()), true
		case token.MUL:
			return trunc(a*b, x.Type()), true
		case token.EQL:
			return b2i(a == b), true
		case token.NEQ:
			return b2i(a != b), true
		case token.LSS:
			return b2i(a < b), true
		case token.LEQ:
			return b2i(a <= b), true
		case token.GTR:
			return b2i(a > b), true
		case token.GEQ:
			return b2i(a >= b), true
		}
	}
	return 0, false
}

// R-FIELDMAP (C31): which optional field of a served BlockData is filled, from which database getter, under which
// bit of the request mask.
func (c *Ctx) ruleFieldMap() {
	c.doc("R-FIELDMAP", "dot/sync getBlockData: every store into an optional field of the served BlockData (a) carries the result of that field's own BlockState getter and of no other (a cell shared between fields receives several getters' results), and (b) executes for exactly the request masks 0..31 that have the field's bit set (the guards over the mask are evaluated for all 32 masks)")
	f := c.fn(syncDir, "(*SyncService).getBlockData")
	if f == nil {
		c.unresolved("(*SyncService).getBlockData")
		return
	}
	type spec struct {
		getter string
		bit    int64
	}
	table := map[string]spec{
		"Header": {"GetHeader", 1}, "Body": {"GetBlockBody", 2}, "Receipt": {"GetReceipt", 4},
		"MessageQueue": {"GetMessageQueue", 8}, "Justification": {"GetJustification", 16},
	}
	var mask ssa.Value
	for _, p := range f.Params {
		if bt, ok := p.Type().Underlying().(*types.Basic); ok && bt.Kind() == types.Uint8 {
			mask = p
		}
	}
	if mask == nil {
		c.unresolved("request-mask parameter (byte) of getBlockData")
		return
	}
	callName := func(cc *ssa.CallCommon) string {
		if cc.IsInvoke() {
			return cc.Method.Name()
		}
		if cal := cc.StaticCallee(); cal != nil {
			// a helper that is handed the getter as a bound method value
			for _, a := range cc.Args {
				if mc, ok := a.(*ssa.MakeClosure); ok {
					if fn, ok := mc.Fn.(*ssa.Function); ok && strings.HasSuffix(fn.Name(), "$bound") {
						return strings.TrimSuffix(fn.Name(), "$bound")
					}
				}
			}
			return cal.Name()
		}
		return "?"
	}
	var src func(v ssa.Value, seen map[ssa.Value]bool, out map[string]bool)
	src = func(v ssa.Value, seen map[ssa.Value]bool, out map[string]bool) {
		if v == nil || seen[v] {
			return
		}
		seen[v] = true
		switch x := v.(type) {
		case *ssa.Extract:
			src(x.Tuple, seen, out)
		case *ssa.Call:
			out[callName(&x.Call)] = true
		case *ssa.Alloc:
			for _, r := range *x.Referrers() {
				if st, ok := r.(*ssa.Store); ok && st.Addr == ssa.Value(x) {
					src(st.Val, seen, out)
				}
			}
		case *ssa.UnOp:
			if x.Op == token.MUL {
				src(x.X, seen, out)
			} else {
				out["?"] = true
			}
		case *ssa.Phi:
			for _, e := range x.Edges {
				src(e, seen, out)
			}
		case *ssa.MakeInterface:
			src(x.X, seen, out)
		case *ssa.ChangeType:
			src(x.X, seen, out)
		case *ssa.Convert:
			src(x.X, seen, out)
		case *ssa.Const:
			// nil / zero: no source
		default:
			out["?"] = true
		}
	}
	found := map[string]bool{}
	ord := map[string]int{}
	eachInstr(f, func(b *ssa.BasicBlock, _ int, in ssa.Instruction) {
		st, ok := in.(*ssa.Store)
		if !ok {
			return
		}
		fa, ok := st.Addr.(*ssa.FieldAddr)
		if !ok || !isNamed(fa.X.Type(), "dot/types.BlockData") || fieldVar(fa) == nil {
			return
		}
		name := fieldVar(fa).Name()
		sp, ok := table[name]
		if !ok {
			return
		}
		found[name] = true
		ord[name]++
		key := fmt.Sprintf("getBlockData:%s#%d", name, ord[name])
		// (a) provenance
		got := map[string]bool{}
		src(st.Val, map[ssa.Value]bool{}, got)
		var names []string
		for n := range got {
			names = append(names, n)
		}
		sort.Strings(names)
		okSrc := len(names) == 1 && names[0] == sp.getter
		// (b) gating over all 32 masks
		gs := guardsOf(b)
		var bad []string
		evaluable := 0
		for m := int64(0); m < 32; m++ {
			runs := true
			for _, g := range gs {
				k, ok := evalInt(g.cond, map[ssa.Value]int64{mask: m}, 0)
				if !ok {
					continue
				}
				if m == 0 {
					evaluable++
				}
				if (k != 0) != g.truth {
					runs = false
				}
			}
			if want := m&sp.bit != 0; runs != want {
				bad = append(bad, fmt.Sprintf("%d", m))
			}
		}
		msg := fmt.Sprintf("BlockData.%s <- %v (want %s); mask guards evaluated: %d", name, names, sp.getter, evaluable)
		if len(bad) > 0 {
			msg += "; filled/not filled for the wrong request masks: " + strings.Join(bad, ",")
		}
		if !okSrc && len(names) > 1 {
			msg += "; the stored cell also receives other getters' results (shared between fields?)"
		}
		c.ob("R-FIELDMAP", key, st.Pos(), okSrc && len(bad) == 0, msg)
	})
	for name := range table {
		if !found[name] {
			c.ob("R-FIELDMAP", "getBlockData:"+name+":filled", f.Pos(), false, "the served BlockData never gets its "+name+" field although the mask can request it")
		}
	}
}

// R-RANGECOUNT (C31): the by-number range handed on by the request handlers, evaluated over a small domain.
func (c *Ctx) ruleRangeCount() {
	c.doc("R-RANGECOUNT", "dot/sync handleAscendingRequest / handleDescendingRequest: the end number handed to handle*ByNumber, evaluated as a function of (start, max[, best]) for start 1..14, max 1..7, best start..start+9, equals min(start+max-1, best) ascending and max(1, start-max+1) descending — the response never holds more than max blocks and never fewer than available")
	for _, dir := range []struct{ fn, callee string; asc bool }{
		{"(*SyncService).handleAscendingRequest", "handleAscendingByNumber", true},
		{"(*SyncService).handleDescendingRequest", "handleDescendingByNumber", false},
	} {
		f := c.fn(syncDir, dir.fn)
		if f == nil {
			c.unresolved(dir.fn)
			continue
		}
		var call *ssa.Call
		eachInstr(f, func(_ *ssa.BasicBlock, _ int, in ssa.Instruction) {
			if cl, ok := in.(*ssa.Call); ok {
				if cal := cl.Call.StaticCallee(); cal != nil && cal.Name() == dir.callee {
					call = cl
				}
			}
		})
		if call == nil {
			c.unresolved("call of " + dir.callee + " in " + dir.fn)
			continue
		}
		args := call.Call.Args // receiver, start, end, data
		if len(args) < 3 {
			c.unresolved("arguments of " + dir.callee)
			continue
		}
		start, end := args[1], args[2]
		// leaves of the end expression: the maximum (a φ with the protocol constant on one edge) and the best number
		var maxV, bestV ssa.Value
		seen := map[ssa.Value]bool{}
		var walk func(v ssa.Value, d int)
		walk = func(v ssa.Value, d int) {
			if v == nil || seen[v] || d > 10 {
				return
			}
			seen[v] = true
			switch x := v.(type) {
			case *ssa.Call:
				// the maximum computed by a helper from the request (extract-function form)
				if cal := x.Call.StaticCallee(); cal != nil && cal.Pkg == f.Pkg && !x.Call.IsInvoke() {
					for _, r := range returnsOf(cal) {
						for _, res := range r.Results {
							for w := range backwardSlice(res, nil) {
								if k, ok := constInt(w); ok && k == 128 {
									maxV = x
								}
							}
						}
					}
				}
			case *ssa.Phi:
				for _, e := range x.Edges {
					if k, ok := constInt(e); ok && k == 128 {
						maxV = x
						return
					}
				}
				for _, e := range x.Edges {
					walk(e, d+1)
				}
				for _, p := range x.Block().Preds {
					for _, g := range guardsOf(p) {
						walk(g.cond, d+1)
					}
					if iff := ifOf(p); iff != nil {
						walk(iff.Cond, d+1)
					}
				}
			case *ssa.BinOp:
				walk(x.X, d+1)
				walk(x.Y, d+1)
			case *ssa.Convert:
				walk(x.X, d+1)
			case *ssa.Extract:
				if cl, ok := x.Tuple.(*ssa.Call); ok && x.Index == 0 {
					if cl.Call.IsInvoke() && cl.Call.Method.Name() == "BestBlockNumber" {
						bestV = x
					}
				}
			}
		}
		walk(end, 0)
		if maxV == nil {
			c.ob("R-RANGECOUNT", dir.callee+":end-number", call.Pos(), false, "the end number does not depend on the response maximum")
			continue
		}
		if dir.asc && bestV == nil {
			c.ob("R-RANGECOUNT", dir.callee+":end-number", call.Pos(), false, "the ascending end number is not capped by the best block number")
			continue
		}
		bad, n := "", 0
		for st := int64(1); st <= 14 && bad == ""; st++ {
			for mx := int64(1); mx <= 7 && bad == ""; mx++ {
				for best := st; best <= st+9; best++ {
					env := map[ssa.Value]int64{start: st, maxV: mx}
					if bestV != nil {
						env[bestV] = best
					}
					got, ok := evalInt(end, env, 0)
					n++
					var want int64
					if dir.asc {
						want = st + mx - 1
						if best < want {
							want = best
						}
					} else {
						want = st - mx + 1
						if want < 1 {
							want = 1
						}
					}
					if !ok {
						bad = fmt.Sprintf("end number not evaluable for start=%d max=%d best=%d", st, mx, best)
						break
					}
					if got != want {
						cnt := got - st + 1
						if !dir.asc {
							cnt = st - got + 1
						}
						bad = fmt.Sprintf("start=%d max=%d best=%d: end=%d (%d blocks), want end=%d", st, mx, best, got, cnt, want)
						break
					}
					if !dir.asc {
						break
					}
				}
			}
		}
		c.ob("R-RANGECOUNT", dir.callee+":end-number", call.Pos(), bad == "", fmt.Sprintf("%d valuations; %s", n, bad))
	}
}

// R-LENSIGN (C12, C33): a decoded length cannot become negative.
func (c *Ctx) ruleLenSign(dir string) {
	c.doc("R-LENSIGN", dir+": the length decoded by decodeLength is carried in an unsigned type, or every use of it is dominated by the non-negative edge of a sign test: a peer-chosen compact integer >= 2^63 must not turn into a negative size (make panics) or a negative count (the element loop is skipped and the input accepted)")
	f := c.fn(dir, "(*decodeState).decodeLength")
	if f == nil {
		c.unresolved(dir + " (*decodeState).decodeLength")
		return
	}
	res := f.Signature.Results()
	if res.Len() == 0 {
		c.unresolved("result of decodeLength")
		return
	}
	bt, _ := res.At(0).Type().Underlying().(*types.Basic)
	unsigned := bt != nil && bt.Info()&types.IsUnsigned != 0
	c.ob("R-LENSIGN", "decodeLength:result-type", f.Pos(), bt != nil && bt.Info()&types.IsInteger != 0, fmt.Sprintf("decodeLength returns %s", res.At(0).Type()))
	sp := c.ssaPkg(dir)
	ord := map[string]int{}
	for _, g := range allFuncs(c, sp) {
		eachInstr(g, func(_ *ssa.BasicBlock, _ int, in ssa.Instruction) {
			call, ok := in.(*ssa.Call)
			if !ok || call.Call.StaticCallee() != f {
				return
			}
			name := relName(g.String())
			ord[name]++
			key := fmt.Sprintf("%s:decodeLength#%d", name, ord[name])
			if unsigned {
				c.ob("R-LENSIGN", key, call.Pos(), true, "length is unsigned")
				return
			}
			var v ssa.Value
			for _, r := range *call.Referrers() {
				if ex, ok := r.(*ssa.Extract); ok && ex.Index == 0 {
					v = ex
				}
			}
			if v == nil {
				c.ob("R-LENSIGN", key, call.Pos(), true, "length unused")
				return
			}
			nonNeg := func(cond ssa.Value, truth bool) bool {
				b, ok := cond.(*ssa.BinOp)
				if !ok {
					return false
				}
				if b.X == v {
					if k, isC := constInt(b.Y); isC {
						switch {
						case b.Op == token.LSS && k == 0 && !truth, b.Op == token.GEQ && k == 0 && truth,
							b.Op == token.GTR && k >= -1 && truth, b.Op == token.LEQ && k == -1 && !truth:
							return true
						}
					}
				}
				return false
			}
			bad := ""
			for _, r := range *v.Referrers() {
				if b, ok := r.(*ssa.BinOp); ok && b.X == v {
					if _, isC := constInt(b.Y); isC {
						continue // the tests themselves
					}
				}
				if !guardedBy(r.Block(), nonNeg) {
					bad = c.pos(r.Pos())
					break
				}
			}
			c.ob("R-LENSIGN", key, call.Pos(), bad == "", "signed length used without a sign test at "+bad)
		})
	}
}

// R-FRAMEBOUND (C33): the announced frame length is bounded before anything is sized by it.
func (c *Ctx) ruleFrameBound() {
	dir := "dot/network"
	c.doc("R-FRAMEBOUND", dir+": every allocation whose size derives from the LEB128 frame length read off a stream (ReadLEB128ToUint64) is dominated by the within-limit edge of a comparison of that length with the caller's maximum; so is every conversion of the length to a signed integer used as a size or index")
	sp := c.ssaPkg(dir)
	if sp == nil {
		return
	}
	n := 0
	for _, f := range allFuncs(c, sp) {
		eachInstr(f, func(_ *ssa.BasicBlock, _ int, in ssa.Instruction) {
			call, ok := in.(*ssa.Call)
			if !ok {
				return
			}
			cal := call.Call.StaticCallee()
			if cal == nil || cal.Name() != "ReadLEB128ToUint64" {
				return
			}
			var length ssa.Value
			for _, r := range *call.Referrers() {
				if ex, ok := r.(*ssa.Extract); ok && ex.Index == 0 {
					length = ex
				}
			}
			if length == nil {
				return
			}
			n++
			bounded := func(cond ssa.Value, truth bool) bool {
				b, ok := cond.(*ssa.BinOp)
				if !ok {
					return false
				}
				isLimit := func(v ssa.Value) bool {
					v = stripConv(v)
					if _, ok := v.(*ssa.Parameter); ok {
						return true
					}
					_, ok := constInt(v)
					return ok
				}
				switch {
				case b.X == length && isLimit(b.Y):
					return (b.Op == token.GTR && !truth) || (b.Op == token.LEQ && truth) || (b.Op == token.GEQ && !truth) || (b.Op == token.LSS && truth)
				case b.Y == length && isLimit(b.X):
					return (b.Op == token.LSS && !truth) || (b.Op == token.GEQ && truth) || (b.Op == token.LEQ && !truth) || (b.Op == token.GTR && truth)
				}
				return false
			}
			ord := 0
			eachInstr(f, func(b *ssa.BasicBlock, _ int, in2 ssa.Instruction) {
				ms, ok := in2.(*ssa.MakeSlice)
				if !ok {
					return
				}
				sl := backwardSlice(ms.Len, nil)
				if !sl[length] {
					return
				}
				ord++
				c.ob("R-FRAMEBOUND", fmt.Sprintf("%s:make#%d", relName(f.String()), ord), ms.Pos(), guardedBy(b, bounded),
					"a buffer sized by the peer-announced frame length is allocated before the length was compared with the maximum (2^63 makes the size negative: panic; anything above the limit is allocated although the message is rejected)")
			})
			if ord == 0 {
				c.ob("R-FRAMEBOUND", relName(f.String())+":no-length-sized-allocation", call.Pos(), true, "nothing is allocated from the announced length")
			}
		})
	}
	if n == 0 {
		c.unresolved("a call of ReadLEB128ToUint64 in dot/network")
	}
}

// R-DECODECOPY (C33): a network message decoder does not keep the caller's byte slice.
func (c *Ctx) ruleDecodeCopy() {
	dir := "dot/network"
	c.doc("R-DECODECOPY", dir+" and "+msgDir+": no Decode method stores its input []byte (or a re-slice of it) into the receiver: the input is a window of the stream's pooled read buffer, which the next message overwrites while the decoded message is still gossiped")
	n := 0
	for _, d := range []string{dir, msgDir} {
		sp := c.ssaPkg(d)
		if sp == nil {
			continue
		}
		for _, f := range allFuncs(c, sp) {
			if f.Name() != "Decode" || f.Signature.Recv() == nil || len(f.Params) != 2 {
				continue
			}
			in := f.Params[1]
			if sl, ok := in.Type().Underlying().(*types.Slice); !ok || !isByte(sl.Elem()) {
				continue
			}
			n++
			alias := map[ssa.Value]bool{in: true}
			for changed := true; changed; {
				changed = false
				eachInstr(f, func(_ *ssa.BasicBlock, _ int, ins ssa.Instruction) {
					v, ok := ins.(ssa.Value)
					if !ok || alias[v] {
						return
					}
					switch x := ins.(type) {
					case *ssa.Slice:
						if alias[x.X] {
							alias[v], changed = true, true
						}
					case *ssa.ChangeType:
						if alias[x.X] {
							alias[v], changed = true, true
						}
					case *ssa.Phi:
						for _, e := range x.Edges {
							if alias[e] {
								alias[v], changed = true, true
							}
						}
					}
				})
			}
			bad := ""
			eachInstr(f, func(_ *ssa.BasicBlock, _ int, ins ssa.Instruction) {
				st, ok := ins.(*ssa.Store)
				if !ok || !alias[st.Val] {
					return
				}
				if fa, ok := st.Addr.(*ssa.FieldAddr); ok && fa.X == ssa.Value(f.Params[0]) {
					bad = c.pos(st.Pos())
				}
			})
			c.ob("R-DECODECOPY", relName(f.String())+":input-not-retained", f.Pos(), bad == "", "the decoder keeps the caller's buffer in its receiver at "+bad)
		}
	}
	if n == 0 {
		c.unresolved("Decode([]byte) methods in dot/network")
	}
}

func isByte(t types.Type) bool {
	b, ok := t.Underlying().(*types.Basic)
	return ok && b.Kind() == types.Uint8
}

// R-NONEMPTYFRAG (C32): the fragment list that Process sorts, merges and indexes with [0] only receives non-empty
// fragments, and the disjoint-fragment update is only handed a non-empty chain.
func (c *Ctx) ruleNonEmptyFrag() {
	c.doc("R-CHAIN/completed", "dot/sync Process: the result of updateIncompleteBlocks (blocks completed by a body-only response, which no chain check covers) is never appended to the ready list as one fragment; each completed block is a fragment of its own")
	c.doc("R-NONEMPTYFRAG", "dot/sync Process: every append to the fragment list handed to sortFragmentsOfChain/mergeFragmentsOfChain, and every chain handed to updateDisjointFragments, is dominated by the non-empty edge of a len() test of that slice (or of the response data it is): an empty or duplicated response must not reach fragment[0]")
	f := c.fn(syncDir, "(*FullSyncStrategy).Process")
	if f == nil {
		c.unresolved("(*FullSyncStrategy).Process")
		return
	}
	isFragList := func(t types.Type) bool {
		s1, ok := t.Underlying().(*types.Slice)
		if !ok {
			return false
		}
		s2, ok := s1.Elem().Underlying().(*types.Slice)
		return ok && strings.HasSuffix(types.TypeString(s2.Elem(), nil), "types.BlockData")
	}
	nonEmpty := func(x ssa.Value) func(cond ssa.Value, truth bool) bool {
		return func(cond ssa.Value, truth bool) bool {
			b, ok := cond.(*ssa.BinOp)
			if !ok {
				return false
			}
			lenOf := func(v ssa.Value) bool {
				call, ok := v.(*ssa.Call)
				return ok && calleeName(&call.Call) == "builtin.len" && sameFieldLoad(call.Call.Args[0], x)
			}
			if lenOf(b.X) {
				if k, isC := constInt(b.Y); isC {
					switch {
					case b.Op == token.GTR && k == 0 && truth, b.Op == token.NEQ && k == 0 && truth,
						b.Op == token.EQL && k == 0 && !truth, b.Op == token.GEQ && k == 1 && truth,
						b.Op == token.LSS && k == 1 && !truth, b.Op == token.LEQ && k == 0 && !truth:
						return true
					}
				}
			}
			return false
		}
	}
	// the list that is sorted and merged
	ready := map[ssa.Value]bool{}
	eachInstr(f, func(_ *ssa.BasicBlock, _ int, in ssa.Instruction) {
		if call, ok := in.(*ssa.Call); ok && call.Call.StaticCallee() != nil {
			switch call.Call.StaticCallee().Name() {
			case "sortFragmentsOfChain", "mergeFragmentsOfChain":
				for v := range backwardSlice(call.Call.Args[0], nil) {
					if isFragList(v.Type()) {
						ready[v] = true
					}
				}
			}
		}
	})
	if len(ready) == 0 {
		c.unresolved("the fragment list handed to sortFragmentsOfChain/mergeFragmentsOfChain in Process")
		return
	}
	n := 0
	ord := 0
	eachInstr(f, func(b *ssa.BasicBlock, _ int, in ssa.Instruction) {
		call, ok := in.(*ssa.Call)
		if !ok {
			return
		}
		switch {
		case calleeName(&call.Call) == "builtin.append" && isFragList(call.Type()) && len(call.Call.Args) == 2 && ready[call]:
			// append(list, frag): the variadic argument is a one-element slice literal holding the fragment
			var frag ssa.Value
			if sl, ok := call.Call.Args[1].(*ssa.Slice); ok {
				if al, ok := sl.X.(*ssa.Alloc); ok {
					for _, r := range *al.Referrers() {
						if ia, ok := r.(*ssa.IndexAddr); ok {
							for _, r2 := range *ia.Referrers() {
								if st, ok := r2.(*ssa.Store); ok && st.Addr == ssa.Value(ia) {
									frag = st.Val
								}
							}
						}
					}
				}
			}
			if frag == nil {
				return // append(list, other...) — concatenation of lists
			}
			// only the list that flows into the sort/merge matters: the ready list
			ord++
			n++
			// a one-block slice literal is non-empty and trivially a chain
			single := false
			if sl, ok := frag.(*ssa.Slice); ok {
				if al, ok := sl.X.(*ssa.Alloc); ok {
					if arr, ok := al.Type().Underlying().(*types.Pointer).Elem().Underlying().(*types.Array); ok && arr.Len() == 1 {
						single = true
					}
				}
			}
			// the blocks completed by a body response are not known to be linked: never one fragment
			if cl, ok := frag.(*ssa.Call); ok && cl.Call.StaticCallee() != nil && cl.Call.StaticCallee().Name() == "updateIncompleteBlocks" {
				c.ob("R-CHAIN/completed", fmt.Sprintf("Process:completed-blocks-as-one-fragment#%d", ord), call.Pos(), false,
					"the blocks completed by a body-only response are appended as ONE fragment although nothing checked that they are linked: only the first one's parent is tested before they are all handed to the importer")
			}
			if single {
				c.ob("R-NONEMPTYFRAG", fmt.Sprintf("Process:append-fragment#%d", ord), call.Pos(), true, "one-block fragment")
				return
			}
			c.ob("R-NONEMPTYFRAG", fmt.Sprintf("Process:append-fragment#%d", ord), call.Pos(), guardedBy(b, nonEmpty(frag)),
				"a fragment is appended to a fragment list without a dominating len(fragment) > 0 test: an empty fragment panics at fragment[0] / a[0] in the sort")
		case call.Call.StaticCallee() != nil && call.Call.StaticCallee().Name() == "updateDisjointFragments":
			args := call.Call.Args
			chain := args[len(args)-1]
			n++
			c.ob("R-NONEMPTYFRAG", "Process:updateDisjointFragments-chain", call.Pos(), guardedBy(b, nonEmpty(chain)),
				"updateDisjointFragments indexes chain[len(chain)-1]: the response data must be known non-empty")
		}
	})
	if n == 0 {
		c.unresolved("fragment-list appends in Process")
	}
	c.ob("R-CHAIN/completed", "Process:ready-appends-examined", f.Pos(), n > 0, fmt.Sprintf("%d appends/calls examined", n))
}

// R-CHILDPERSIST (C36): persisting a state writes its child tries whatever the shape of the top trie.
func (c *Ctx) ruleChildPersist() {
	c.doc("R-CHILDPERSIST", inmemDir+": in the function that walks t.childTries to persist them, no successful return is reachable from a node write (db.Put / writeDirtyNode of the root) without passing that walk — a root that is a leaf must not skip its child tries; the function is WriteDirty or reached from it")
	sp := c.ssaPkg(inmemDir)
	if sp == nil {
		return
	}
	n := 0
	for _, f := range allFuncs(c, sp) {
		var walks []ssa.Instruction
		eachInstr(f, func(_ *ssa.BasicBlock, _ int, in ssa.Instruction) {
			rg, ok := in.(*ssa.Range)
			if !ok {
				return
			}
			if _, fv, ok := fieldLoad(rg.X); ok && fv != nil && fv.Name() == "childTries" {
				walks = append(walks, rg)
			}
		})
		if len(walks) == 0 {
			continue
		}
		// only the persisting walk: its body calls writeDirtyNode
		persists := false
		var writes []ssa.Instruction
		eachInstr(f, func(_ *ssa.BasicBlock, _ int, in ssa.Instruction) {
			call, ok := in.(*ssa.Call)
			if !ok {
				return
			}
			if cal := call.Call.StaticCallee(); cal != nil && cal.Name() == "writeDirtyNode" {
				if instrReaches(walks[0], call) && !reachesAvoidingInstr(f.Blocks[0].Instrs[0], call, walks[0]) {
					persists = true // inside/after the walk
				} else {
					writes = append(writes, call)
				}
			}
			if call.Call.IsInvoke() && call.Call.Method.Name() == "Put" {
				writes = append(writes, call)
			}
		})
		if !persists {
			continue
		}
		n++
		bad := ""
		for _, b := range f.Blocks {
			if len(b.Instrs) == 0 {
				continue
			}
			ret, ok := b.Instrs[len(b.Instrs)-1].(*ssa.Return)
			if !ok || len(ret.Results) == 0 {
				continue
			}
			// success returns only: the error result is the nil constant, or a value the walk cannot have produced
			last := resultOf(ret, len(ret.Results)-1)
			failure := false
			if call, isCall := last.(*ssa.Call); isCall {
				switch calleeName(&call.Call) {
				case "fmt.Errorf", "errors.New":
					failure = true
				}
			}
			if guardedBy(b, func(cond ssa.Value, truth bool) bool {
				e, neq, ok := nilCmp(cond)
				return ok && e == last && truth == neq
			}) {
				failure = true // `if err != nil { return err }`
			}
			if failure {
				continue
			}
			for _, w := range writes {
				if instrReaches(w, ret) && reachesAvoidingInstr(w, ret, walks[0]) {
					bad = fmt.Sprintf("the return at %s is reachable from the node write at %s without walking the child tries", c.pos(ret.Pos()), c.pos(w.Pos()))
				}
			}
		}
		c.ob("R-CHILDPERSIST", relName(f.String())+":child-tries-always-written", f.Pos(), bad == "", bad)
	}
	if n == 0 {
		c.ob("R-CHILDPERSIST", "child-tries-walk", token.NoPos, false, "no function of "+inmemDir+" persists t.childTries")
	}
}

// R-LRUSEQ (C35): the sequential shape of the LRU operations. R-TTL: the ccache-backed value cache can refresh recency.
func (c *Ctx) ruleLRUSeq() {
	dir := "lib/utils/lru-cache"
	c.doc("R-LRUSEQ", dir+": Get on a hit moves the found element to the front before returning its value; Put on an existing key stores the new value and moves the element to the front; Put on a full cache (len(map) >= capacity) removes list.Back() from both the map (by its own key) and the list; a new entry is pushed to the FRONT and the map records the pushed element under the new key")
	var get, put *ssa.Function
	if sp := c.ssaPkg(dir); sp != nil {
		if obj := sp.Pkg.Scope().Lookup("LRUCache"); obj != nil {
			if named, ok := obj.Type().(*types.Named); ok {
				for i := 0; i < named.NumMethods(); i++ {
					switch named.Method(i).Name() {
					case "Get":
						get = c.prog.FuncValue(named.Method(i))
					case "Put":
						put = c.prog.FuncValue(named.Method(i))
					}
				}
			}
		}
	}
	if get == nil || put == nil || len(get.Blocks) == 0 || len(put.Blocks) == 0 {
		c.unresolved(dir + " LRUCache.Get/Put")
		return
	}
	listCall := func(in ssa.Instruction, name string) *ssa.Call {
		call, ok := in.(*ssa.Call)
		if !ok {
			return nil
		}
		if cal := call.Call.StaticCallee(); cal != nil && cal.Name() == name && cal.Pkg != nil && cal.Pkg.Pkg.Path() == "container/list" {
			return call
		}
		return nil
	}
	// the element found by the map lookup `elem, exists := c.cache[key]`
	lookupElem := func(f *ssa.Function) (elem, exists ssa.Value) {
		eachInstr(f, func(_ *ssa.BasicBlock, _ int, in ssa.Instruction) {
			lk, ok := in.(*ssa.Lookup)
			if !ok || !lk.CommaOk {
				return
			}
			if _, fv, ok := fieldLoad(lk.X); !ok || fv == nil || fv.Name() != "cache" {
				return
			}
			for _, r := range *lk.Referrers() {
				if ex, ok := r.(*ssa.Extract); ok {
					if ex.Index == 0 {
						elem = ex
					} else {
						exists = ex
					}
				}
			}
		})
		return
	}
	onHit := func(b *ssa.BasicBlock, exists ssa.Value) bool {
		return guardedBy(b, func(cond ssa.Value, truth bool) bool { return cond == exists && truth })
	}
	// ---- Get
	{
		elem, exists := lookupElem(get)
		var mtf *ssa.Call
		eachInstr(get, func(b *ssa.BasicBlock, _ int, in ssa.Instruction) {
			if call := listCall(in, "MoveToFront"); call != nil && len(call.Call.Args) == 2 && call.Call.Args[1] == elem && onHit(b, exists) {
				mtf = call
			}
		})
		ok := elem != nil && mtf != nil
		if ok {
			// every return on the hit edge is preceded by the move
			for _, b := range get.Blocks {
				if len(b.Instrs) == 0 {
					continue
				}
				if ret, isRet := b.Instrs[len(b.Instrs)-1].(*ssa.Return); isRet && onHit(b, exists) && !instrDominates(mtf, ret) {
					ok = false
				}
			}
		}
		c.ob("R-LRUSEQ", "Get:hit-moves-to-front", get.Pos(), ok, "a hit must call lruList.MoveToFront(found element) before returning")
	}
	// ---- Put
	elem, exists := lookupElem(put)
	var mtf, back, remove, pushFront, pushBack, del *ssa.Call
	var mapStore *ssa.MapUpdate
	valueStored := false
	eachInstr(put, func(b *ssa.BasicBlock, _ int, in ssa.Instruction) {
		if call := listCall(in, "MoveToFront"); call != nil && len(call.Call.Args) == 2 && call.Call.Args[1] == elem && onHit(b, exists) {
			mtf = call
		}
		if call := listCall(in, "Back"); call != nil {
			back = call
		}
		if call := listCall(in, "Remove"); call != nil {
			remove = call
		}
		if call := listCall(in, "PushFront"); call != nil {
			pushFront = call
		}
		if call := listCall(in, "PushBack"); call != nil {
			pushBack = call
		}
		if call, ok := in.(*ssa.Call); ok && calleeName(&call.Call) == "builtin.delete" {
			del = call
		}
		if mu, ok := in.(*ssa.MapUpdate); ok {
			if _, fv, ok := fieldLoad(mu.Map); ok && fv != nil && fv.Name() == "cache" {
				mapStore = mu
			}
		}
		if st, ok := in.(*ssa.Store); ok && onHit(b, exists) {
			if fa, ok := st.Addr.(*ssa.FieldAddr); ok && fieldVar(fa) != nil && fieldVar(fa).Name() == "value" && len(put.Params) == 3 && st.Val == ssa.Value(put.Params[2]) {
				valueStored = true
			}
		}
	})
	c.ob("R-LRUSEQ", "Put:existing-key-updated-and-moved", put.Pos(), mtf != nil && valueStored, "an existing key gets the new value and is moved to the front")
	// eviction
	evOK, why := back != nil && remove != nil && del != nil, "Put never evicts list.Back()"
	if evOK {
		why = ""
		if len(remove.Call.Args) != 2 || remove.Call.Args[1] != ssa.Value(back) {
			evOK, why = false, "the element removed from the list is not list.Back()"
		}
		// the deleted key is read from the Back element
		if !backwardSlice(del.Call.Args[1], nil)[back] {
			evOK, why = false, "the key deleted from the map is not the key of list.Back()"
		}
		full := func(cond ssa.Value, truth bool) bool {
			b, ok := cond.(*ssa.BinOp)
			if !ok {
				return false
			}
			isLen := func(v ssa.Value) bool {
				call, ok := stripConv(v).(*ssa.Call)
				if !ok || calleeName(&call.Call) != "builtin.len" {
					return false
				}
				_, fv, ok := fieldLoad(call.Call.Args[0])
				return ok && fv != nil && fv.Name() == "cache"
			}
			isCap := func(v ssa.Value) bool {
				_, fv, ok := fieldLoad(stripConv(v))
				return ok && fv != nil && fv.Name() == "capacity"
			}
			switch {
			case isLen(b.X) && isCap(b.Y):
				return (b.Op == token.GEQ && truth) || (b.Op == token.LSS && !truth) || (b.Op == token.EQL && truth)
			case isCap(b.X) && isLen(b.Y):
				return (b.Op == token.LEQ && truth) || (b.Op == token.GTR && !truth) || (b.Op == token.EQL && truth)
			}
			return false
		}
		if evOK && !guardedBy(remove.Block(), full) {
			evOK, why = false, "the eviction is not on the len(cache) >= capacity edge (an off-by-one lets the cache exceed or undershoot its capacity)"
		}
		// and no insertion path from the full edge avoids the eviction except through a nil Back
		if evOK && pushFront != nil && !instrReaches(back, pushFront) {
			evOK, why = false, "the insertion does not follow the eviction"
		}
	}
	c.ob("R-LRUSEQ", "Put:full-cache-evicts-back", put.Pos(), evOK, why)
	insOK := pushFront != nil && pushBack == nil && mapStore != nil && mapStore.Value == ssa.Value(pushFront) && len(put.Params) == 3 && mapStore.Key == ssa.Value(put.Params[1])
	c.ob("R-LRUSEQ", "Put:new-entry-at-front", put.Pos(), insOK, "a new entry is pushed to the front of the list and the map stores the pushed element under the new key")
}

func (c *Ctx) ruleCacheTTL() {
	dir := "pkg/trie/cache/inmemory"
	c.doc("R-TTL", dir+": every ccache Set/Replace stores the item with a positive constant time to live: ccache does not promote an expired item on Get, and a zero TTL expires at once — gets would not refresh recency")
	sp := c.ssaPkg(dir)
	if sp == nil {
		return
	}
	n := 0
	for _, f := range allFuncs(c, sp) {
		eachInstr(f, func(_ *ssa.BasicBlock, _ int, in ssa.Instruction) {
			call, ok := in.(*ssa.Call)
			if !ok {
				return
			}
			cal := call.Call.StaticCallee()
			if cal != nil && cal.Origin() != nil {
				cal = cal.Origin()
			}
			if cal == nil || cal.Pkg == nil || !strings.Contains(cal.Pkg.Pkg.Path(), "karlseguin/ccache") {
				return
			}
			if cal.Name() != "Set" && cal.Name() != "Setnx" && cal.Name() != "TrackingSet" {
				return
			}
			n++
			ttl := call.Call.Args[len(call.Call.Args)-1]
			k, isC := constInt(ttl)
			c.ob("R-TTL", fmt.Sprintf("%s:ccache.%s#%d", relName(f.String()), cal.Name(), n), call.Pos(), isC && k > 0, fmt.Sprintf("time to live %v (must be a positive constant)", ttl))
		})
	}
	if n == 0 {
		c.unresolved("ccache Set call in " + dir)
	}
}

// R-ROOTARG (C38): a state-root parameter is never fed a block hash.
func (c *Ctx) ruleRootArg() {
	dir := "dot/rpc/modules"
	c.doc("R-ROOTARG", dir+": the argument handed to a StorageAPI parameter named `root` is nil (best state) or the result of GetStateRootFromBlock on every path; a request's block hash passed straight through selects no state (the lookup fails for every block)")
	sp := c.ssaPkg(dir)
	if sp == nil {
		return
	}
	n := 0
	ord := map[string]int{}
	for _, f := range allFuncs(c, sp) {
		eachInstr(f, func(_ *ssa.BasicBlock, _ int, in ssa.Instruction) {
			call, ok := in.(*ssa.Call)
			if !ok || !call.Call.IsInvoke() {
				return
			}
			recvT := call.Call.Value.Type()
			if !strings.HasSuffix(namedType(recvT), "modules.StorageAPI") {
				return
			}
			sig := call.Call.Method.Type().(*types.Signature)
			for i := 0; i < sig.Params().Len(); i++ {
				if sig.Params().At(i).Name() != "root" {
					continue
				}
				n++
				name := relName(f.String())
				ord[name]++
				key := fmt.Sprintf("%s:%s.root#%d", name, call.Call.Method.Name(), ord[name])
				bad := ""
				seen := map[ssa.Value]bool{}
				var walk func(v ssa.Value)
				walk = func(v ssa.Value) {
					if v == nil || seen[v] || bad != "" {
						return
					}
					seen[v] = true
					switch x := v.(type) {
					case *ssa.Const:
						if x.Value != nil {
							bad = "constant"
						}
					case *ssa.Phi:
						for _, e := range x.Edges {
							walk(e)
						}
					case *ssa.Extract:
						walk(x.Tuple)
					case *ssa.Call:
						if !(x.Call.IsInvoke() && x.Call.Method.Name() == "GetStateRootFromBlock") {
							bad = "result of " + calleeName(&x.Call) + x.Call.Method.String()
						}
					case *ssa.UnOp:
						if al, ok := x.X.(*ssa.Alloc); ok && x.Op == token.MUL {
							for _, r := range *al.Referrers() {
								if st, ok := r.(*ssa.Store); ok && st.Addr == ssa.Value(al) {
									walk(st.Val)
								}
							}
							return
						}
						if _, fv, ok := fieldLoad(x); ok && fv != nil {
							bad = "request field " + fv.Name()
							return
						}
						bad = x.String()
					default:
						bad = v.String()
					}
				}
				walk(call.Call.Args[i])
				c.ob("R-ROOTARG", key, call.Pos(), bad == "", "the state root argument is "+bad+", not nil / GetStateRootFromBlock(...)")
			}
		})
	}
	if n == 0 {
		c.unresolved("StorageAPI calls with a root parameter in " + dir)
	}
}

// R-DECODEASSIGN (C07): a fixed-size SCALE decoder assigns what it decoded, whatever the bytes were.
func (c *Ctx) ruleDecodeAssign(dir string) {
	c.doc("R-DECODEASSIGN", dir+": every UnmarshalSCALE method stores the decoded value through its receiver on every path to a nil-error return; a store skipped for some decoded value (e.g. all zero bytes) makes that value decode to the receiver's previous/empty state and re-encode differently")
	sp := c.ssaPkg(dir)
	if sp == nil {
		return
	}
	n := 0
	for _, f := range allFuncs(c, sp) {
		if f.Name() != "UnmarshalSCALE" || f.Signature.Recv() == nil || len(f.Blocks) == 0 {
			continue
		}
		recv := f.Params[0]
		var stores []ssa.Instruction
		eachInstr(f, func(_ *ssa.BasicBlock, _ int, in ssa.Instruction) {
			if st, ok := in.(*ssa.Store); ok {
				base := st.Addr
				for {
					switch x := base.(type) {
					case *ssa.FieldAddr:
						base = x.X
						continue
					case *ssa.IndexAddr:
						base = x.X
						continue
					}
					break
				}
				if base == ssa.Value(recv) {
					stores = append(stores, st)
				}
			}
		})
		n++
		bad := ""
		entry := f.Blocks[0].Instrs[0]
		for _, b := range f.Blocks {
			if len(b.Instrs) == 0 {
				continue
			}
			ret, ok := b.Instrs[len(b.Instrs)-1].(*ssa.Return)
			if !ok || len(ret.Results) == 0 {
				continue
			}
			if k, isC := resultOf(ret, len(ret.Results)-1).(*ssa.Const); !isC || k.Value != nil {
				continue // error return
			}
			// reachable from entry while avoiding every store?
			avoidAll := true
			if len(stores) == 1 {
				avoidAll = entry == ssa.Instruction(ret) || reachesAvoidingInstr(entry, ret, stores[0])
			} else if len(stores) > 1 {
				avoidAll = false
				// conservative: some store must dominate the return
				dom := false
				for _, st := range stores {
					if instrDominates(st, ret) {
						dom = true
					}
				}
				avoidAll = !dom
			}
			if avoidAll {
				bad = c.pos(ret.Pos())
			}
		}
		c.ob("R-DECODEASSIGN", relName(f.String())+":assigns-on-success", f.Pos(), bad == "", "a nil-error return at "+bad+" is reachable without storing the decoded value into the receiver")
	}
	if n == 0 {
		c.unresolved("UnmarshalSCALE methods in " + dir)
	}
}

// R-EACHKEY (C05): every requested key is walked.
func (c *Ctx) ruleEachKey() {
	dir := "pkg/trie/inmemory/proof"
	c.doc("R-EACHKEY", dir+" Generate: in the loop over the requested keys every iteration reaches the walk (walkRoot) of that key — no `continue` path skips a key: since values stored by hash are emitted by the walk of their own key, a key skipped because a longer key shares its path loses its value")
	f := c.fn(dir, "Generate")
	if f == nil {
		c.unresolved(dir + ".Generate")
		return
	}
	// the loop ranging over the keys parameter
	var keys ssa.Value
	for _, p := range f.Params {
		if s1, ok := p.Type().Underlying().(*types.Slice); ok {
			if s2, ok := s1.Elem().Underlying().(*types.Slice); ok && isByte(s2.Elem()) {
				keys = p
			}
		}
	}
	var walk *ssa.Call
	eachInstr(f, func(_ *ssa.BasicBlock, _ int, in ssa.Instruction) {
		if call, ok := in.(*ssa.Call); ok && call.Call.StaticCallee() != nil && call.Call.StaticCallee().Pkg == f.Pkg {
			// the walk: a package function handed (nibbles of) an element of keys
			for _, a := range call.Call.Args {
				for v := range backwardSlice(a, nil) {
					if ia, ok := v.(*ssa.IndexAddr); ok && ia.X == keys {
						walk = call
					}
				}
			}
		}
	})
	if keys == nil || walk == nil {
		c.unresolved("the per-key walk in Generate")
		return
	}
	// the loop containing the walk: innermost natural loop whose body holds the walk's block
	header, loop := innermostLoop(f, walk.Block())
	if loop == nil {
		c.ob("R-EACHKEY", "Generate:walk-in-loop", walk.Pos(), false, "the walk is not inside a loop over the keys")
		return
	}
	// a path from the header back to the header (a full iteration) that avoids the walk's block
	skip := false
	if header != nil {
		seen := map[*ssa.BasicBlock]bool{}
		var stack []*ssa.BasicBlock
		for _, s := range header.Succs {
			if loop[s] {
				stack = append(stack, s)
			}
		}
		for len(stack) > 0 {
			x := stack[len(stack)-1]
			stack = stack[:len(stack)-1]
			if x == header {
				skip = true
				break
			}
			if seen[x] || x == walk.Block() || !loop[x] {
				continue
			}
			seen[x] = true
			stack = append(stack, x.Succs...)
		}
	}
	c.ob("R-EACHKEY", "Generate:every-key-walked", walk.Pos(), header != nil && !skip, "an iteration of the key loop can return to the loop head without walking its key")
}

// R-SORTEDKEYS (C08): the transaction's sorted key list stays sorted and duplicate-free.
func (c *Ctx) ruleSortedKeys() {
	dir := "lib/runtime/storage"
	c.doc("R-SORTEDKEYS", dir+": storageDiff.sortedKeys (binary-searched by NextKey) only grows on the not-found edge of a binary search for the inserted key — or at the end when the list is empty or the key is STRICTLY greater than its last element — and only shrinks on the found edge: a duplicate entry makes NextKey return the key itself or a deleted key")
	sp := c.ssaPkg(dir)
	if sp == nil {
		return
	}
	isSK := func(v ssa.Value) bool {
		_, fv, ok := fieldLoad(v)
		return ok && fv != nil && fv.Name() == "sortedKeys"
	}
	n := 0
	for _, f := range allFuncs(c, sp) {
		ord := 0
		eachInstr(f, func(b *ssa.BasicBlock, _ int, in ssa.Instruction) {
			st, ok := in.(*ssa.Store)
			if !ok {
				return
			}
			fa, ok := st.Addr.(*ssa.FieldAddr)
			if !ok || fieldVar(fa) == nil || fieldVar(fa).Name() != "sortedKeys" {
				return
			}
			call, ok := st.Val.(*ssa.Call)
			if !ok || calleeName(&call.Call) != "builtin.append" {
				return
			}
			base := call.Call.Args[0]
			grow := isSK(base)
			shrink := false
			if sl, ok := base.(*ssa.Slice); ok && isSK(sl.X) {
				shrink = true
			}
			if !grow && !shrink {
				return
			}
			n++
			ord++
			searchEdge := func(cond ssa.Value, truth bool, wantFound bool) bool {
				if u, ok := cond.(*ssa.UnOp); ok && u.Op == token.NOT {
					cond, truth = u.X, !truth
				}
				ex, ok := cond.(*ssa.Extract)
				if !ok || ex.Index != 1 {
					return false
				}
				sc, ok := ex.Tuple.(*ssa.Call)
				if !ok || !strings.Contains(calleeName(&sc.Call), "slices.BinarySearch") {
					return false
				}
				return isSK(sc.Call.Args[0]) && truth == wantFound
			}
			endEdge := func(cond ssa.Value, truth bool) bool {
				bo, ok := cond.(*ssa.BinOp)
				if !ok {
					return false
				}
				isLen := func(v ssa.Value) bool {
					lc, ok := v.(*ssa.Call)
					return ok && calleeName(&lc.Call) == "builtin.len" && isSK(lc.Call.Args[0])
				}
				isLast := func(v ssa.Value) bool {
					u, ok := v.(*ssa.UnOp)
					if !ok || u.Op != token.MUL {
						return false
					}
					ia, ok := u.X.(*ssa.IndexAddr)
					if !ok || !isSK(ia.X) {
						return false
					}
					sub, ok := ia.Index.(*ssa.BinOp)
					if !ok || sub.Op != token.SUB || !isLen(sub.X) {
						return false
					}
					k, isC := constInt(sub.Y)
					return isC && k == 1
				}
				if isLen(bo.X) {
					if k, isC := constInt(bo.Y); isC && k == 0 {
						return (bo.Op == token.EQL && truth) || (bo.Op == token.NEQ && !truth) || (bo.Op == token.GTR && !truth)
					}
				}
				if _, isParam := bo.X.(*ssa.Parameter); isParam && isLast(bo.Y) {
					return (bo.Op == token.GTR && truth) || (bo.Op == token.LEQ && !truth)
				}
				if _, isParam := bo.Y.(*ssa.Parameter); isParam && isLast(bo.X) {
					return (bo.Op == token.LSS && truth) || (bo.Op == token.GEQ && !truth)
				}
				return false
			}
			okGuard := false
			if shrink {
				okGuard = guardedBy(b, func(cond ssa.Value, truth bool) bool { return searchEdge(cond, truth, true) })
			} else {
				okGuard = guardedBy(b, func(cond ssa.Value, truth bool) bool { return searchEdge(cond, truth, false) || endEdge(cond, truth) })
				if !okGuard && len(b.Preds) > 0 {
					// `a || b`: every edge into the block carries an accepted condition
					all := true
					for _, p := range b.Preds {
						iff := ifOf(p)
						if iff == nil || !(endEdge(iff.Cond, p.Succs[0] == b) || searchEdge(iff.Cond, p.Succs[0] == b, false)) {
							all = false
						}
					}
					okGuard = all
				}
			}
			what := "grows"
			if shrink {
				what = "shrinks"
			}
			c.ob("R-SORTEDKEYS", fmt.Sprintf("%s:%s#%d", relName(f.String()), what, ord), st.Pos(), okGuard,
				"sortedKeys "+what+" here without the matching binary-search edge (grow: not found / strictly greater than the last; shrink: found)")
		})
	}
	if n == 0 {
		c.unresolved("growth/shrink sites of storageDiff.sortedKeys")
	}
}

// R-FRESHMAP (C03): a snapshot never shares its child-trie map with the trie it was taken from.
func (c *Ctx) ruleFreshMap() {
	c.doc("R-FRESHMAP", inmemDir+": every store into the childTries field of a trie constructed by Snapshot/DeepCopy is a map made in that function on every path (never the source trie's own map, not even when it is empty): the map is keyed by child root hash and mutated in place by the child operations of either side")
	n := 0
	for _, name := range []string{"(*InMemoryTrie).Snapshot", "(*InMemoryTrie).DeepCopy"} {
		f := c.fn(inmemDir, name)
		if f == nil {
			c.unresolved(inmemDir + " " + name)
			continue
		}
		ord := 0
		eachInstr(f, func(_ *ssa.BasicBlock, _ int, in ssa.Instruction) {
			st, ok := in.(*ssa.Store)
			if !ok {
				return
			}
			fa, ok := st.Addr.(*ssa.FieldAddr)
			if !ok || fieldVar(fa) == nil || fieldVar(fa).Name() != "childTries" {
				return
			}
			if _, fresh := fa.X.(*ssa.Alloc); !fresh {
				return // not the trie under construction
			}
			n++
			ord++
			bad := ""
			seen := map[ssa.Value]bool{}
			var walk func(v ssa.Value)
			walk = func(v ssa.Value) {
				if v == nil || seen[v] || bad != "" {
					return
				}
				seen[v] = true
				switch x := v.(type) {
				case *ssa.MakeMap:
				case *ssa.Phi:
					for _, e := range x.Edges {
						walk(e)
					}
				case *ssa.Const:
					if x.Value != nil {
						bad = "a constant"
					}
				case *ssa.UnOp:
					if al, ok := x.X.(*ssa.Alloc); ok && x.Op == token.MUL {
						for _, r := range *al.Referrers() {
							if s2, ok := r.(*ssa.Store); ok && s2.Addr == ssa.Value(al) {
								walk(s2.Val)
							}
						}
						return
					}
					if _, fv, ok := fieldLoad(x); ok && fv != nil {
						bad = "the field " + fv.Name() + " of another trie"
						return
					}
					bad = x.String()
				default:
					bad = v.String()
				}
			}
			walk(st.Val)
			c.ob("R-FRESHMAP", fmt.Sprintf("%s:childTries#%d", name, ord), st.Pos(), bad == "", "the new trie's childTries can be "+bad)
		})
	}
	if n == 0 {
		c.unresolved("childTries stores in Snapshot/DeepCopy")
	}
}

// R-CHILDINPLACE (C08): a child trie obtained from the state is never mutated in place.
func (c *Ctx) ruleChildInPlace() {
	dir := "lib/runtime/storage"
	c.doc("R-CHILDINPLACE", dir+": no Put/Delete/ClearPrefix/ClearPrefixLimit is invoked on a trie obtained through GetChild: the parent trie stores the child's root hash (and keys its child map by it), so a child changed in place leaves the parent's entry and the state root stale; child tries are changed only through PutIntoChild/ClearFromChild/DeleteChild of the parent")
	sp := c.ssaPkg(dir)
	if sp == nil {
		return
	}
	mut := map[string]bool{"Put": true, "Delete": true, "ClearPrefix": true, "ClearPrefixLimit": true, "PutIntoChild": true, "ClearFromChild": true, "DeleteChild": true}
	n := 0
	for _, f := range allFuncs(c, sp) {
		ord := 0
		eachInstr(f, func(_ *ssa.BasicBlock, _ int, in ssa.Instruction) {
			call, ok := in.(*ssa.Call)
			if !ok || !call.Call.IsInvoke() {
				return
			}
			if call.Call.Method.Name() == "GetChild" {
				n++
			}
			if !mut[call.Call.Method.Name()] {
				return
			}
			fromChild := false
			for v := range backwardSlice(call.Call.Value, nil) {
				if gc, ok := v.(*ssa.Call); ok && gc.Call.IsInvoke() && gc.Call.Method.Name() == "GetChild" {
					fromChild = true
				}
			}
			if !fromChild {
				return
			}
			ord++
			c.ob("R-CHILDINPLACE", fmt.Sprintf("%s:%s-on-child#%d", relName(f.String()), call.Call.Method.Name(), ord), call.Pos(), false,
				shortFn(f)+" calls "+call.Call.Method.Name()+" on a child trie returned by GetChild: the child root stored in the parent trie is not updated")
		})
	}
	c.ob("R-CHILDINPLACE", "GetChild-results-examined", token.NoPos, n > 0, fmt.Sprintf("%d GetChild calls examined", n))
}

// R-LIMITKEYS / R-ALLDELETED / R-OVERLAY/namespace (C08): the bookkeeping of limited deletions and of the two key spaces.
func (c *Ctx) ruleOverlayBookkeeping() {
	dir := "lib/runtime/storage"
	c.doc("R-LIMITKEYS", dir+" storageDiff.deleteChildLimit/clearPrefix: a key list that merges state keys with the transaction's upserted keys takes each upserted key only under a membership test against the other source (no key twice; an overwritten state key is not a key 'created during the block')")
	c.doc("R-ALLDELETED", dir+" storageDiff.clearPrefix: the `all deleted` result compares the number deleted with a count of keys that HAVE the prefix, not with a list that also holds unrelated pending writes")
	c.doc("R-OVERLAY/namespace", dir+": the function that marks a MAIN key deleted does not also drop or mark a child trie of the same name (main keys and child-trie names are different key spaces)")
	isMapsKeysOf := func(v ssa.Value, field string) bool {
		call, ok := v.(*ssa.Call)
		if !ok {
			return false
		}
		cal := call.Call.StaticCallee()
		if cal != nil && cal.Origin() != nil {
			cal = cal.Origin()
		}
		if cal == nil || cal.Name() != "Keys" || cal.Pkg == nil || !strings.HasSuffix(cal.Pkg.Pkg.Path(), "/maps") && cal.Pkg.Pkg.Path() != "maps" {
			return false
		}
		_, fv, ok := fieldLoad(call.Call.Args[0])
		return ok && fv != nil && fv.Name() == field
	}
	// ---- R-LIMITKEYS: deleteChildLimit
	if f := c.fn(dir, "(*storageDiff).deleteChildLimit"); f == nil {
		c.unresolved("(*storageDiff).deleteChildLimit")
	} else {
		// an unfiltered maps.Keys(upserts) must not be appended to (a clone of) the state key list
		bad := ""
		eachInstr(f, func(_ *ssa.BasicBlock, _ int, in ssa.Instruction) {
			call, ok := in.(*ssa.Call)
			if !ok || calleeName(&call.Call) != "builtin.append" || len(call.Call.Args) != 2 {
				return
			}
			if isMapsKeysOf(call.Call.Args[1], "upserts") {
				fromParam := false
				for v := range backwardSlice(call.Call.Args[0], nil) {
					if _, ok := v.(*ssa.Parameter); ok {
						fromParam = true
					}
				}
				if fromParam {
					bad = c.pos(call.Pos())
				}
			}
		})
		c.ob("R-LIMITKEYS", "deleteChildLimit:upserted-keys-filtered", f.Pos(), bad == "", "every upserted key is appended to the state key list unfiltered at "+bad+": an overwritten state key is listed twice and never counts towards the limit")
	}
	// ---- R-ALLDELETED: clearPrefix
	if f := c.fn(dir, "(*storageDiff).clearPrefix"); f == nil {
		c.unresolved("(*storageDiff).clearPrefix")
	} else {
		bad := ""
		for _, r := range returnsOf(f) {
			if len(r.Results) < 2 {
				continue
			}
			cmp, ok := resultOf(r, 1).(*ssa.BinOp)
			if !ok || cmp.Op != token.EQL {
				continue
			}
			for _, side := range []ssa.Value{cmp.X, cmp.Y} {
				lc, ok := stripConv(side).(*ssa.Call)
				if !ok || calleeName(&lc.Call) != "builtin.len" {
					continue
				}
				for v := range backwardSlice(lc.Call.Args[0], nil) {
					if isMapsKeysOf(v, "upserts") {
						bad = c.pos(r.Pos())
					}
				}
			}
		}
		c.ob("R-ALLDELETED", "clearPrefix:all-deleted-counts-matching-keys", f.Pos(), bad == "", "the `all deleted` result at "+bad+" compares with the length of a list seeded with every pending upsert, whatever its prefix")
	}
	// ---- namespace
	if f := c.fn(dir, "(*storageDiff).delete"); f == nil {
		c.unresolved("(*storageDiff).delete")
	} else {
		touchesChild, marks := false, false
		eachInstr(f, func(_ *ssa.BasicBlock, _ int, in ssa.Instruction) {
			switch x := in.(type) {
			case *ssa.Call:
				if calleeName(&x.Call) == "builtin.delete" {
					if _, fv, ok := fieldLoad(x.Call.Args[0]); ok && fv != nil && fv.Name() == "childChangeSet" {
						touchesChild = true
					}
				}
			case *ssa.MapUpdate:
				if _, fv, ok := fieldLoad(x.Map); ok && fv != nil && fv.Name() == "deletes" {
					marks = true
				}
			}
		})
		// who calls it with a main key: TrieState.Delete
		mainCaller := false
		if d := c.fn(dir, "(*TrieState).Delete"); d != nil {
			eachInstr(d, func(_ *ssa.BasicBlock, _ int, in ssa.Instruction) {
				if call, ok := in.(*ssa.Call); ok && call.Call.StaticCallee() == f {
					mainCaller = true
				}
			})
		}
		c.ob("R-OVERLAY/namespace", "storageDiff.delete:main-key-delete-leaves-children-alone", f.Pos(), !(touchesChild && marks && mainCaller),
			"TrieState.Delete(main key) goes through storageDiff.delete, which also drops childChangeSet[key] and sets the marker that the child readers and applyToTrie take for `child trie deleted`")
	}
}

// R-MERGEONCE (C02): the merge of one branch is counted once.
func (c *Ctx) ruleMergeOnce() {
	c.doc("R-MERGEONCE", inmemDir+" deleteNodesLimit: inside the loop over a branch's children, the node counter incremented because handleDeletion merged THAT branch (a loop-invariant node) is incremented at most once per call — the increment cannot be reached twice, or it is guarded by a flag it sets: a merge counted on every later turn makes the ancestors' Descendants counters too small (they wrap below zero, and ClearPrefix takes `1 + Descendants == 0` for `nothing removed`)")
	f := c.fn(inmemDir, "(*InMemoryTrie).deleteNodesLimit")
	if f == nil {
		c.unresolved("(*InMemoryTrie).deleteNodesLimit")
		return
	}
	n := 0
	eachInstr(f, func(_ *ssa.BasicBlock, _ int, in ssa.Instruction) {
		call, ok := in.(*ssa.Call)
		if !ok || call.Call.StaticCallee() == nil || call.Call.StaticCallee().Name() != "handleDeletion" {
			return
		}
		// inside a loop, on a loop-invariant node?
		_, loop := innermostLoop(f, call.Block())
		if loop == nil {
			return
		}
		arg := call.Call.Args[1]
		if ai, ok := arg.(ssa.Instruction); ok && loop[ai.Block()] {
			return // a different node on every turn
		}
		var merged ssa.Value
		for _, r := range *call.Referrers() {
			if ex, ok := r.(*ssa.Extract); ok && ex.Index == 1 {
				merged = ex
			}
		}
		if merged == nil {
			return
		}
		// increments guarded by the merged flag
		for b := range loop {
			if !guardedBy(b, func(cond ssa.Value, truth bool) bool { return cond == merged && truth }) {
				continue
			}
			for _, ins := range b.Instrs {
				bo, ok := ins.(*ssa.BinOp)
				if !ok || bo.Op != token.ADD {
					continue
				}
				if k, isC := constInt(bo.Y); !isC || k != 1 {
					continue
				}
				n++
				// (a) cannot run twice
				again := false
				seen := map[*ssa.BasicBlock]bool{}
				stack := append([]*ssa.BasicBlock{}, b.Succs...)
				for len(stack) > 0 {
					x := stack[len(stack)-1]
					stack = stack[:len(stack)-1]
					if x == b {
						again = true
						break
					}
					if seen[x] {
						continue
					}
					seen[x] = true
					stack = append(stack, x.Succs...)
				}
				// (b) or guarded by a flag that this block sets
				once := false
				if again {
					once = guardedBy(b, func(cond ssa.Value, truth bool) bool {
						var flag *ssa.Phi
						if u, ok := cond.(*ssa.UnOp); ok && u.Op == token.NOT && truth {
							flag, _ = u.X.(*ssa.Phi)
						} else if !truth {
							flag, _ = cond.(*ssa.Phi)
						}
						if flag == nil {
							return false
						}
						// the flag becomes true on the way out of this block
						var setsTrue func(p *ssa.Phi, depth int) bool
						setsTrue = func(p *ssa.Phi, depth int) bool {
							for i, e := range p.Edges {
								pred := p.Block().Preds[i]
								if k, ok := e.(*ssa.Const); ok && k.Value != nil && k.Value.String() == "true" && (pred == b || b.Dominates(pred)) {
									return true
								}
								if inner, ok := e.(*ssa.Phi); ok && depth < 3 && inner != p && setsTrue(inner, depth+1) {
									return true
								}
							}
							return false
						}
						return setsTrue(flag, 0)
					})
				}
				c.ob("R-MERGEONCE", fmt.Sprintf("deleteNodesLimit:merge-counted-once#%d", n), bo.Pos(), !again || once,
					"the counter incremented for the merge of the loop-invariant branch can be incremented again on a later turn of the loop")
			}
		}
	})
	if n == 0 {
		c.unresolved("the merge counter of deleteNodesLimit")
	}
}
