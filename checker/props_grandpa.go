package main

import (
	"fmt"
	"go/token"
	"strings"

	"golang.org/x/tools/go/ssa"
)

const gDir = "lib/grandpa"
const fgDir = "pkg/finality-grandpa"

// taintThreshold: values derived from the threshold sources inside a package (through conversions, phis, +/- constants,
// and parameters whose every in-package call site passes a tainted value).
func (c *Ctx) taintThreshold(sp *ssa.Package, isSource func(v ssa.Value) bool) map[ssa.Value]bool {
	t := map[ssa.Value]bool{}
	funcs := allFuncs(c, sp)
	for changed := true; changed; {
		changed = false
		mark := func(v ssa.Value) {
			if !t[v] {
				t[v] = true
				changed = true
			}
		}
		for _, f := range funcs {
			eachInstr(f, func(_ *ssa.BasicBlock, _ int, in ssa.Instruction) {
				v, ok := in.(ssa.Value)
				if !ok || t[v] {
					return
				}
				if isSource(v) {
					mark(v)
					return
				}
				switch x := in.(type) {
				case *ssa.Convert:
					if t[x.X] {
						mark(v)
					}
				case *ssa.ChangeType:
					if t[x.X] {
						mark(v)
					}
				case *ssa.Phi:
					for _, e := range x.Edges {
						if t[e] {
							mark(v)
						}
					}
				case *ssa.BinOp:
					if x.Op == token.ADD || x.Op == token.SUB {
						if _, isC := constInt(x.Y); isC && t[x.X] {
							mark(v)
						}
					}
				case *ssa.UnOp:
					// load of a local variable cell holding the threshold
					if al, ok := x.X.(*ssa.Alloc); ok && x.Op == token.MUL {
						for _, r := range *al.Referrers() {
							if st, ok := r.(*ssa.Store); ok && st.Addr == al && t[st.Val] {
								mark(v)
							}
						}
					}
					if fv, ok := x.X.(*ssa.FreeVar); ok && t[fv] {
						mark(v)
					}
				}
			})
			// parameters
			for pi, p := range f.Params {
				if t[p] {
					continue
				}
				n, all := 0, true
				for _, g := range funcs {
					eachInstr(g, func(_ *ssa.BasicBlock, _ int, in ssa.Instruction) {
						call, ok := in.(*ssa.Call)
						if !ok || call.Call.StaticCallee() != f {
							return
						}
						if pi < len(call.Call.Args) && call.Call.Args[pi] == ssa.Value(p) {
							return // recursive call handing its own parameter on
						}
						n++
						if pi >= len(call.Call.Args) || !t[call.Call.Args[pi]] {
							all = false
						}
					})
				}
				if n > 0 && all {
					mark(p)
				}
			}
			// free variables of closures
			for fi, fv := range f.FreeVars {
				if t[fv] || f.Parent() == nil {
					continue
				}
				eachInstr(f.Parent(), func(_ *ssa.BasicBlock, _ int, in ssa.Instruction) {
					if mc, ok := in.(*ssa.MakeClosure); ok && mc.Fn == f && fi < len(mc.Bindings) {
						b := mc.Bindings[fi]
						if t[b] {
							mark(fv)
						}
						if al, ok := b.(*ssa.Alloc); ok {
							for _, r := range *al.Referrers() {
								if st, ok := r.(*ssa.Store); ok && st.Addr == al && t[st.Val] {
									mark(fv)
								}
							}
						}
					}
				})
			}
		}
	}
	return t
}

// ruleThreshConv: every comparison against a threshold-derived value uses the convention of that threshold.
func (c *Ctx) ruleThreshConv(rule, dir string, isSource func(v ssa.Value) bool, accept, reject token.Token, conv string, exempt map[string]string) {
	sp := c.ssaPkg(dir)
	if sp == nil {
		return
	}
	c.doc(rule, "every comparison `count OP T` with T derived from "+conv+" uses OP in {"+accept.String()+", "+reject.String()+"} (after normalising operand order); comparisons of T with a constant are not vote counts and are skipped")
	t := c.taintThreshold(sp, isSource)
	for _, f := range allFuncs(c, sp) {
		ord := 0
		eachInstr(f, func(_ *ssa.BasicBlock, _ int, in ssa.Instruction) {
			bo, ok := in.(*ssa.BinOp)
			if !ok || !isCmp(bo.Op) {
				return
			}
			x, y, op := bo.X, bo.Y, bo.Op
			if t[x] && !t[y] {
				x, y, op = y, x, flipOp(op)
			}
			if !t[y] || t[x] {
				return
			}
			if _, isConst := x.(*ssa.Const); isConst {
				return
			}
			ord++
			key := fmt.Sprintf("%s:count-vs-threshold#%d", relName(f.String()), ord)
			if reason, ok := exempt[shortFn(f)]; ok {
				c.ob(rule, key, bo.Pos(), true, "exempt: "+reason)
				return
			}
			c.ob(rule, key, bo.Pos(), op == accept || op == reject,
				fmt.Sprintf("%s compares a vote count with the threshold using `%s`; with %s the supermajority test must be `%s` (accept) / `%s` (reject), otherwise exactly-two-thirds support passes or a supermajority is refused", shortFn(f), op, conv, accept, reject))
		})
	}
}

func (c *Ctx) ruleThresholdFormula(rule string, f *ssa.Function, nOf func(v ssa.Value) bool, spec func(n int64) int64, text string) {
	if f == nil {
		return
	}
	c.doc(rule+"/formula", "the threshold function is abstractly evaluated for n = 1..300 and compared with "+text)
	bad := int64(-1)
	var got any
	for n := int64(1); n <= 300; n++ {
		nn := n
		v, errs := evalFunc(f, &cmpEnv{attr: func(ssa.Value) (attrRef, bool) { return attrRef{}, false },
			extern: func(v ssa.Value) (any, bool) {
				if nOf(v) {
					return nn, true
				}
				return nil, false
			}})
		if errs != "" || fmt.Sprint(v) != fmt.Sprint(spec(n)) {
			bad, got = n, v
			if errs != "" {
				got = errs
			}
			break
		}
	}
	c.ob(rule+"/formula", relName(f.String()), f.Pos(), bad < 0, fmt.Sprintf("threshold(%d) evaluates to %v, specification %d (%s)", bad, got, spec(bad), text))
}

func init() {
	register("C18", "threshold-convention taint analysis (R-THRESHCONV), threshold formula evaluation, verified-votes-only counting by control dependence (R-VERIFIED) on the SSA of lib/grandpa",
		"Decides for every path of commit verification: the vote total is compared strictly (count > floor(2n/3) to accept / count <= to reject) at every site where a value derived from State.threshold() meets a count; floor(2n/3) is what threshold() computes (evaluated for n=1..300); every contribution to the compared total is made on the success edge of the signature/membership check (verifyJustification) of the vote it counts, after the block-number check, and each authority contributes at most one unit (equivocators only through two different verified votes); the commit handler finalises only on the success edge of the verification. "+
			"Not decided: signature mathematics, ancestry queries, catch-up messages' own counting beyond the threshold convention.",
		"ed25519 verification and BlockState ancestry queries trusted", "DESIGN.md §3 R-THRESHCONV, R-VERIFIED; §4 C18",
		func(c *Ctx) {
			c.load(gDir)
			c.ruleThreshA()
			c.min("R-THRESHCONV", 7)
			c.ruleVerifiedCommit()
			c.min("R-VERIFIED", 5)
			c.ruleDistinctVotes()
			c.ruleFreshKeySet()
			c.min("R-FRESHKEYSET", 1)
			c.ruleAncestryGrandpaCommit()
			c.min("R-ANCESTRYARGS", 2)
		})
	register("C21", "threshold-convention taint analysis on the voter paths (R-THRESHCONV), validation-before-store dominance (R-VERIFIED/vote)",
		"Decides: on the voter's own paths (best final candidate, pre-voted block, possible selected blocks, finalisation attempt) every comparison of a vote total with a threshold-derived value is strict (> floor(2n/3)); a received vote is stored in the prevote/precommit maps only after, on every path, the signature check, the authority-membership lookup and validateVote succeeded, and validateVote checks that the block exists, that the vote's number equals the header's number, and that the block descends from the finalised head; votes from the node itself are rejected. "+
			"Not decided: GHOST selection values, the pending-change cap arithmetic.",
		"BlockState queries trusted", "DESIGN.md §3 R-THRESHCONV, R-VERIFIED; §4 C21",
		func(c *Ctx) {
			c.load(gDir)
			c.ruleThreshA()
			c.min("R-THRESHCONV", 7)
			c.ruleVerifiedVote()
			c.min("R-VERIFIED/vote", 7)
			c.ruleValidBeforeEquivocation()
			c.min("R-VALIDBEFOREEQV", 1)
			c.ruleAncestryGrandpaVoter()
			c.min("R-ANCESTRYARGS", 2)
			c.ruleVoterSelection()
		})
	register("C19", "comparator sign analysis (R-CMP/unsigned), accumulator read-before-write (R-ACCUM), threshold convention and formula of the weighted voter set (R-THRESHCONV/B)",
		"Decides: no 3-way comparator in finality-grandpa / the justification verifier derives its result from an unsigned subtraction (the order of precommits and the integer width cannot change the round base); a repeated voter's weight is accumulated (the stored weight depends on the old weight); the weighted threshold is n - floor((n-1)/3) (evaluated for n=1..300) and every comparison of a weight with it is `>=` (reached) / `<` (not reached); in the justification verifier every precommit's signature check dominates the success return and precedes any early continue. "+
			"Not decided: ancestry-route bookkeeping values, GHOST computation.",
		"signature verification primitive trusted", "DESIGN.md §3 R-CMP, R-ACCUM, R-THRESHCONV; §4 C19",
		func(c *Ctx) {
			c.load(fgDir, "internal/client/consensus/grandpa")
			c.ruleCmpUnsigned("R-CMP/unsigned", fgDir, "internal/client/consensus/grandpa")
			c.ruleAccum()
			c.ruleThreshB()
			c.min("R-THRESHCONV/B", 9)
			c.ruleJustificationSigs()
			c.ruleBranchAccum()
			c.ruleSortedSearch("R-SORTEDSEARCH", fgDir)
			c.min("R-SORTEDSEARCH", 1)
			c.doc("R-FULLSCAN", "every induction-variable loop over the precommit list in the justification verifier / ValidateCommit visits every element (affine index reasoning in the coordinates of the underlying list): the lowest precommit (ancestry base), the signature checks and the weight tally must not skip an entry depending on its position")
			if sp := c.ssaPkg("internal/client/consensus/grandpa"); sp != nil {
				for _, f := range allFuncs(c, sp) {
					if strings.Contains(f.Name(), "verifyWithVoterSet") && f.Parent() == nil {
						c.ruleFullScan("R-FULLSCAN", f, "SignedPrecommit", "the base/lowest-precommit selection, signature checks and ancestry bookkeeping must consider every precommit whatever its position")
					}
				}
			}
			c.min("R-FULLSCAN", 3)
		})
}

func (c *Ctx) ruleThreshA() {
	isSrc := func(v ssa.Value) bool {
		call, ok := v.(*ssa.Call)
		return ok && call.Call.StaticCallee() != nil && call.Call.StaticCallee().Name() == "threshold" && strings.HasSuffix(calleeName(&call.Call), "grandpa.State).threshold")
	}
	c.ruleThreshConv("R-THRESHCONV", gDir, isSrc, token.GTR, token.LEQ, "State.threshold() = floor(2n/3)", map[string]string{})
	f := c.fn(gDir, "(*State).threshold")
	c.ruleThresholdFormula("R-THRESHCONV", f, func(v ssa.Value) bool {
		l, ok := lenOf(v)
		if !ok {
			return false
		}
		_, isVoters := isFieldLoadNamed(l, "voters")
		return isVoters
	}, func(n int64) int64 { return 2 * n / 3 }, "floor(2n/3)")
}

func (c *Ctx) ruleThreshB() {
	isSrc := func(v ssa.Value) bool {
		if _, fv, ok := fieldLoad(v); ok && fv != nil && fv.Name() == "threshold" {
			return true
		}
		if call, ok := v.(*ssa.Call); ok {
			if fn := calleeFunc(&call.Call); fn != nil && fn.Name() == "Threshold" {
				return true
			}
		}
		return false
	}
	c.ruleThreshConv("R-THRESHCONV/B", fgDir, isSrc, token.GEQ, token.LSS, "VoterSet.threshold = n - floor((n-1)/3)", map[string]string{})
	sp := c.ssaPkg(fgDir)
	if sp != nil {
		f := sp.Func("threshold")
		c.ruleThresholdFormula("R-THRESHCONV/B", f, func(v ssa.Value) bool {
			p, ok := v.(*ssa.Parameter)
			return ok && f != nil && len(f.Params) > 0 && p == f.Params[0]
		}, func(n int64) int64 { return n - (n-1)/3 }, "n - floor((n-1)/3)")
	}
}

// R-ACCUM: NewVoterSet accumulates the weight of a repeated voter.
func (c *Ctx) ruleAccum() {
	c.doc("R-ACCUM", "NewVoterSet: on the already-present path the weight stored back depends on the weight read from the map (accumulation), and totalWeight accumulates every listed weight")
	sp := c.ssaPkg(fgDir)
	if sp == nil {
		return
	}
	f := sp.Func("NewVoterSet")
	if f == nil {
		c.unresolved("finality-grandpa.NewVoterSet")
		return
	}
	n := 0
	eachInstr(f, func(_ *ssa.BasicBlock, _ int, in ssa.Instruction) {
		st, ok := in.(*ssa.Store)
		if !ok {
			return
		}
		fa, ok := st.Addr.(*ssa.FieldAddr)
		if !ok || fieldVar(fa) == nil || fieldVar(fa).Name() != "weight" {
			return
		}
		// store into a VoterInfo obtained from the map (not a fresh literal): the base alloc receives the Get result
		base, isAlloc := fa.X.(*ssa.Alloc)
		if !isAlloc {
			return
		}
		fromGet := false
		for _, r := range *base.Referrers() {
			if s2, ok := r.(*ssa.Store); ok && s2.Addr == base {
				for v := range backwardSlice(s2.Val, nil) {
					if call, ok := v.(*ssa.Call); ok && strings.Contains(calleeName(&call.Call), ".Get") {
						fromGet = true
					}
				}
			}
		}
		if !fromGet {
			return
		}
		n++
		dep := false
		for v := range backwardSlice(st.Val, nil) {
			if u, ok := v.(*ssa.UnOp); ok && u.Op == token.MUL {
				if fa2, ok := u.X.(*ssa.FieldAddr); ok && fa2.X == ssa.Value(base) && fieldVar(fa2).Name() == "weight" {
					dep = true
				}
			}
		}
		c.ob("R-ACCUM", fmt.Sprintf("NewVoterSet:repeated-voter-weight#%d", n), st.Pos(), dep, "the weight stored for an already present voter must include its previous weight (a voter listed several times has its weights summed); overwriting makes per-voter weights disagree with the total and the threshold")
	})
	if n == 0 {
		c.ob("R-ACCUM", "NewVoterSet:repeated-voter-weight", f.Pos(), false, "no update of an already present voter's weight found (anchor changed)")
	}
}

// justification verifier: signature check of every precommit
func (c *Ctx) ruleJustificationSigs() {
	dir := "internal/client/consensus/grandpa"
	sp := c.ssaPkg(dir)
	if sp == nil {
		return
	}
	c.doc("R-VERIFIED/just", "in verifyWithVoterSet the per-precommit loop reaches CheckMessageSignature before any `continue` that skips it: no branch of the loop body jumps back to the loop header without passing the signature check")
	for _, f := range allFuncs(c, sp) {
		if !strings.Contains(f.Name(), "verifyWithVoterSet") {
			continue
		}
		var sig *ssa.Call
		eachInstr(f, func(_ *ssa.BasicBlock, _ int, in ssa.Instruction) {
			if call, ok := in.(*ssa.Call); ok && strings.Contains(calleeName(&call.Call), "CheckMessageSignature") {
				sig = call
			}
		})
		if sig == nil {
			c.ob("R-VERIFIED/just", relName(f.String())+":signature-check", f.Pos(), false, "no CheckMessageSignature call found")
			continue
		}
		// find the loop header of the loop containing sig: the nearest dominator that sig's block can reach back to
		var header *ssa.BasicBlock
		for b := sig.Block(); b != nil; b = b.Idom() {
			if b != sig.Block() && reachable(sig.Block(), b) {
				header = b
				break
			}
		}
		ok := header != nil
		if header != nil {
			// every back edge into header comes from a block dominated by sig's block, or the edge leaves through an error return
			for _, p := range header.Preds {
				if !reachable(header, p) {
					continue // loop entry edge
				}
				if !sig.Block().Dominates(p) {
					ok = false
				}
			}
		}
		c.ob("R-VERIFIED/just", relName(f.String())+":every-precommit-signature-checked", sig.Pos(), ok,
			"some path of the per-precommit loop returns to the loop header without passing CheckMessageSignature: that precommit's weight was already counted by ValidateCommit but its signature is never verified")
	}
}

func errSuccessGuard(call *ssa.Call) func(cond ssa.Value, truth bool) bool {
	return func(cond ssa.Value, truth bool) bool {
		e, neq, ok := nilCmp(cond)
		if !ok || truth == neq {
			return false
		}
		for _, v := range phiInputs(e) {
			if v == ssa.Value(call) {
				return true
			}
			if ex, ok := v.(*ssa.Extract); ok && ex.Tuple == ssa.Value(call) {
				return true
			}
		}
		return false
	}
}

// R-VERIFIED: commit justification counting
func (c *Ctx) ruleVerifiedCommit() {
	f := c.fn(gDir, "verifyCommitMessageJustification")
	if f == nil {
		return
	}
	c.doc("R-VERIFIED", "verifyCommitMessageJustification: every update of the per-authority tally is dominated by the success edge of verifyJustification and by the header-number check; the total compared with the threshold grows by the constant 1 per authority; the success return is dominated by the rejecting comparison's false edge; handleCommitMessage finalises only after a successful verification")
	var vj *ssa.Call
	eachInstr(f, func(_ *ssa.BasicBlock, _ int, in ssa.Instruction) {
		if call, ok := in.(*ssa.Call); ok && call.Call.StaticCallee() != nil && call.Call.StaticCallee().Name() == "verifyJustification" {
			vj = call
		}
	})
	if vj == nil {
		c.ob("R-VERIFIED", "verifyCommitMessageJustification:signature-check", f.Pos(), false, "verifyJustification is not called")
		return
	}
	// stage argument is `precommit`
	if k, ok := constInt(vj.Call.Args[3]); ok {
		c.ob("R-VERIFIED", "verifyCommitMessageJustification:stage=precommit", vj.Pos(), k == 1, fmt.Sprintf("precommit signatures are verified for the precommit stage (stage constant %d)", k))
	}
	// tally updates
	n, allOK := 0, true
	bad := ""
	eachInstr(f, func(b *ssa.BasicBlock, _ int, in ssa.Instruction) {
		isUpd := false
		switch x := in.(type) {
		case *ssa.MapUpdate:
			isUpd = true
		case *ssa.Store:
			if fa, ok := x.Addr.(*ssa.FieldAddr); ok {
				if _, isAlloc := fa.X.(*ssa.Alloc); !isAlloc && strings.Contains(fa.X.Type().String(), "authorityTally") {
					isUpd = true
				}
			}
		case *ssa.BinOp:
			// counters incremented inside the verification loop (var x int; x++) are phis; handled below
		}
		if !isUpd {
			return
		}
		n++
		if !guardedBy(b, errSuccessGuard(vj)) {
			allOK = false
			bad = c.pos(in.Pos())
		}
	})
	c.ob("R-VERIFIED", "verifyCommitMessageJustification:tally-after-signature-check", vj.Pos(), n > 0 && allOK,
		fmt.Sprintf("all %d updates of the vote tally must be on the success edge of verifyJustification (offending: %s): otherwise unverified or non-member votes are counted", n, bad))
	// the compared total
	thr := f.Params[2]
	var cmp *ssa.BinOp
	eachInstr(f, func(_ *ssa.BasicBlock, _ int, in ssa.Instruction) {
		if bo, ok := in.(*ssa.BinOp); ok && isCmp(bo.Op) && (bo.X == ssa.Value(thr) || bo.Y == ssa.Value(thr)) {
			cmp = bo
		}
	})
	if cmp == nil {
		c.ob("R-VERIFIED", "verifyCommitMessageJustification:threshold-comparison", f.Pos(), false, "the vote total is never compared with the threshold parameter")
		return
	}
	total := cmp.X
	if total == ssa.Value(thr) {
		total = cmp.Y
	}
	unit, noLen := true, true
	for v := range backwardSlice(total, func(v ssa.Value) bool { _, isCall := v.(*ssa.Call); return isCall }) {
		switch x := v.(type) {
		case *ssa.BinOp:
			if x.Op == token.ADD {
				k, isC := constInt(x.Y)
				if !isC || k != 1 {
					unit = false
				}
			}
			if x.Op == token.MUL || x.Op == token.SHL {
				unit = false
			}
		case *ssa.Call:
			if _, ok := lenOf(x); ok {
				// len of the per-authority map would be fine, len of message fields is not
				l, _ := lenOf(x)
				if _, isMap := l.Type().Underlying().(interface{ Key() interface{} }); !isMap {
					if !strings.Contains(l.Type().String(), "map[") {
						noLen = false
					}
				}
			}
		}
	}
	c.ob("R-VERIFIED", "verifyCommitMessageJustification:one-unit-per-authority", cmp.Pos(), unit && noLen,
		"the total compared with the threshold must grow by exactly 1 per counted authority and must not include a length of the (unverified) message fields; an equivocator counted once per vote or a raw len(AuthData) lets a minority reach the threshold")
	// success return after the comparison
	okRet := false
	for _, r := range returnsOf(f) {
		if isNilConst(resultOf(r, 0)) {
			okRet = cmp.Block().Dominates(r.Block()) && r.Block() != cmp.Block()
		}
	}
	c.ob("R-VERIFIED", "verifyCommitMessageJustification:success-after-threshold-test", cmp.Pos(), okRet, "the only success return lies behind the threshold comparison")
	// number check
	numChk := false
	eachInstr(f, func(b *ssa.BasicBlock, _ int, in ssa.Instruction) {
		if bo, ok := in.(*ssa.BinOp); ok && (bo.Op == token.NEQ || bo.Op == token.EQL) {
			hasHdr, hasVote := false, false
			for v := range backwardSlice(bo, nil) {
				if base, fv, ok := fieldLoad(v); ok && fv != nil && fv.Name() == "Number" {
					if strings.Contains(base.Type().String(), "Header") {
						hasHdr = true
					} else {
						hasVote = true
					}
				}
			}
			if hasHdr && hasVote {
				numChk = true
			}
		}
	})
	c.ob("R-VERIFIED", "verifyCommitMessageJustification:precommit-number-matches-header", f.Pos(), numChk, "each precommit's block number is compared with the number of the header stored for its hash")
	// handler
	h := c.fn(gDir, "(*Service).handleCommitMessage")
	if h != nil {
		var vc, fin *ssa.Call
		eachInstr(h, func(_ *ssa.BasicBlock, _ int, in ssa.Instruction) {
			if call, ok := in.(*ssa.Call); ok {
				if call.Call.StaticCallee() == f {
					vc = call
				}
				if call.Call.IsInvoke() && call.Call.Method.Name() == "SetFinalisedHash" {
					fin = call
				}
			}
		})
		ok := vc != nil && fin != nil && guardedBy(fin.Block(), errSuccessGuard(vc))
		c.ob("R-VERIFIED", "handleCommitMessage:finalise-only-after-verification", h.Pos(), ok, "SetFinalisedHash must be dominated by the success edge of verifyCommitMessageJustification")
		// threshold argument is s.state.threshold()
		okT := false
		if vc != nil {
			if tc, isCall := vc.Call.Args[2].(*ssa.Call); isCall && tc.Call.StaticCallee() != nil && tc.Call.StaticCallee().Name() == "threshold" {
				okT = true
			}
		}
		c.ob("R-VERIFIED", "handleCommitMessage:threshold-argument", h.Pos(), okT, "the threshold handed to the verification is State.threshold() of the current authority set")
	}
}

// R-VERIFIED/vote: validateVoteMessage stores a vote only after all validations.
func (c *Ctx) ruleVerifiedVote() {
	f := c.fn(gDir, "(*Service).validateVoteMessage")
	if f == nil {
		return
	}
	c.doc("R-VERIFIED/vote", "validateVoteMessage: prevotes.Store / precommits.Store are dominated by the success edges of validateMessageSignature, pubkeyToVoter and validateVote and by the not-from-self test; validateVote: existence, number-vs-header and descends-from-finalised-head checks all dominate its success return")
	var sig, voter, vv *ssa.Call
	var stores []*ssa.Call
	eachInstr(f, func(_ *ssa.BasicBlock, _ int, in ssa.Instruction) {
		call, ok := in.(*ssa.Call)
		if !ok {
			return
		}
		n := ""
		if cal := call.Call.StaticCallee(); cal != nil {
			n = cal.Name()
		}
		switch n {
		case "validateMessageSignature":
			sig = call
		case "pubkeyToVoter":
			voter = call
		case "validateVote":
			vv = call
		}
		if strings.HasSuffix(calleeName(&call.Call), "sync.Map).Store") {
			stores = append(stores, call)
		}
	})
	if len(stores) == 0 {
		c.ob("R-VERIFIED/vote", "validateVoteMessage:stores", f.Pos(), false, "no vote store found (anchor changed)")
		return
	}
	for i, st := range stores {
		for name, call := range map[string]*ssa.Call{"signature": sig, "authority-membership": voter, "validateVote": vv} {
			ok := call != nil && guardedBy(st.Block(), errSuccessGuard(call))
			c.ob("R-VERIFIED/vote", fmt.Sprintf("validateVoteMessage:store#%d-after-%s", i+1, name), st.Pos(), ok,
				"a received vote is stored (and so counted) on a path where the "+name+" check did not succeed")
		}
	}
	// validateVote internals
	v := c.fn(gDir, "(*Service).validateVote")
	if v == nil {
		return
	}
	var has, num, desc *ssa.Call
	eachInstr(v, func(_ *ssa.BasicBlock, _ int, in ssa.Instruction) {
		call, ok := in.(*ssa.Call)
		if !ok {
			return
		}
		if call.Call.IsInvoke() {
			switch call.Call.Method.Name() {
			case "HasHeader":
				has = call
			case "IsDescendantOf":
				desc = call
			}
		} else if cal := call.Call.StaticCallee(); cal != nil && cal.Name() == "verifyBlockHashAgainstBlockNumber" {
			num = call
		}
	})
	var succ *ssa.Return
	for _, r := range returnsOf(v) {
		if isNilConst(resultOf(r, 0)) {
			succ = r
		}
	}
	if succ == nil {
		c.ob("R-VERIFIED/vote", "validateVote:success-return", v.Pos(), false, "no success return")
		return
	}
	chk := func(name string, call *ssa.Call, extra func() bool) {
		ok := call != nil && guardedBy(succ.Block(), errSuccessGuard(call))
		if ok && extra != nil {
			ok = extra()
		}
		c.ob("R-VERIFIED/vote", "validateVote:"+name, succ.Pos(), ok, "validateVote accepts a vote without the `"+name+"` check on some path")
	}
	chk("block-exists", has, func() bool {
		return guardedBy(succ.Block(), func(cond ssa.Value, truth bool) bool {
			ex, ok := cond.(*ssa.Extract)
			return ok && ex.Tuple == ssa.Value(has) && ex.Index == 0 && truth
		})
	})
	chk("number-matches-header", num, nil)
	chk("descends-from-finalised-head", desc, func() bool {
		return guardedBy(succ.Block(), func(cond ssa.Value, truth bool) bool {
			ex, ok := cond.(*ssa.Extract)
			return ok && ex.Tuple == ssa.Value(desc) && ex.Index == 0 && truth
		})
	})
}

// R-ANCESTRYARGS: IsDescendantOf(ancestor, descendant) call sites pass the roles in the right order.
type argRole func(v ssa.Value) bool

func derivesFromCall(name string) argRole {
	return func(v ssa.Value) bool {
		for x := range backwardSlice(v, nil) {
			if call, ok := x.(*ssa.Call); ok {
				if fn := calleeFunc(&call.Call); fn != nil && fn.Name() == name {
					return true
				}
			}
		}
		return false
	}
}

func derivesFromField(name string) argRole {
	return func(v ssa.Value) bool {
		for x := range backwardSlice(v, nil) {
			if _, fv, ok := fieldLoad(x); ok && fv != nil && fv.Name() == name {
				return true
			}
			if fa, ok := x.(*ssa.FieldAddr); ok && fieldVar(fa) != nil && fieldVar(fa).Name() == name {
				return true
			}
		}
		return false
	}
}

func derivesFromParam(i int) argRole {
	return func(v ssa.Value) bool {
		for x := range backwardSlice(v, nil) {
			if p, ok := x.(*ssa.Parameter); ok && len(p.Parent().Params) > i && p.Parent().Params[i] == p {
				return true
			}
		}
		return false
	}
}

func (c *Ctx) ruleAncestryArgs(rule, dir, fn string, ordinal int, ancestor, descendant argRole, what string) {
	f := c.fn(dir, fn)
	if f == nil {
		return
	}
	n := 0
	found := false
	eachInstr(f, func(_ *ssa.BasicBlock, _ int, in ssa.Instruction) {
		call, ok := in.(*ssa.Call)
		if !ok {
			return
		}
		fnc := calleeFunc(&call.Call)
		if fnc == nil || fnc.Name() != "IsDescendantOf" {
			return
		}
		n++
		if n != ordinal {
			return
		}
		found = true
		args := call.Call.Args
		a, d := args[len(args)-2], args[len(args)-1]
		ok2 := ancestor(a) && descendant(d) && !(ancestor(d) && descendant(a) && !ancestor(a))
		// swapped?
		swapped := ancestor(d) && descendant(a) && !(ancestor(a) && descendant(d))
		c.ob(rule, fmt.Sprintf("%s:IsDescendantOf#%d", relName(f.String()), ordinal), call.Pos(), ok2 && !swapped,
			shortFn(f)+": IsDescendantOf(ancestor, descendant) must test "+what+"; the arguments are not in that order")
	})
	if !found {
		c.ob(rule, fmt.Sprintf("%s:IsDescendantOf#%d", relName(f.String()), ordinal), f.Pos(), false, "ancestry test not found (anchor changed)")
	}
}

func (c *Ctx) ruleAncestryGrandpaVoter() {
	c.doc("R-ANCESTRYARGS", "IsDescendantOf(ancestor, descendant) role table: candidate-is-ancestor-of-prevoted-block in getBestFinalCandidate; finalised-head-is-ancestor-of-voted-block in validateVote")
	c.ruleAncestryArgs("R-ANCESTRYARGS", gDir, "(*Service).getBestFinalCandidate", 1,
		func(v ssa.Value) bool { return !derivesFromCall("getPreVotedBlock")(v) }, derivesFromCall("getPreVotedBlock"),
		"that the candidate block (with >2/3 precommits) is an ancestor of the pre-voted block: only ancestors of the GHOST may be finalised")
	c.ruleAncestryArgs("R-ANCESTRYARGS", gDir, "(*Service).validateVote", 1,
		derivesFromField("head"), derivesFromParam(1),
		"that the finalised head is an ancestor of the voted block")
}

func (c *Ctx) ruleAncestryGrandpaCommit() {
	c.doc("R-ANCESTRYARGS", "commit verification: highest finalised block is an ancestor of the commit target; the commit target is an ancestor of each counted precommit's block")
	c.ruleAncestryArgs("R-ANCESTRYARGS", gDir, "verifyCommitMessageJustification", 1,
		derivesFromCall("GetHighestFinalisedHeader"), func(v ssa.Value) bool { return !derivesFromCall("GetHighestFinalisedHeader")(v) },
		"that the highest finalised block is an ancestor of the commit's target")
	c.ruleAncestryArgs("R-ANCESTRYARGS", gDir, "verifyCommitMessageJustification", 2,
		func(v ssa.Value) bool { return !derivesFromField("Precommits")(v) }, derivesFromField("Precommits"),
		"that the commit's target is an ancestor of (or equal to) the precommitted block: precommits for ancestors or other forks do not support the target")
}
