package main

import (
	"fmt"
	"go/token"
	"math"
	"os"

	"golang.org/x/tools/go/ssa"
)

// R-THRESH: value-hashing and node-inlining thresholds.
//   HASHED(n)  <=> n > MaxInlineValue(version)   (V1: n >= 33; V0: never)
//   INLINE(n)  <=> n < 32                         (Merkle value / node encoding / child reference length)
func (c *Ctx) ruleThresh(dirs ...string) {
	c.doc("R-THRESH", "every comparison of a length with MaxInlineValue() (directly or through a parameter fed only by it) is `len > M` or `len <= M`; every comparison of a length with a constant in 30..34 decides exactly {n < 32} or its complement; MaxInlineValue is V0->MaxInt, V1->32 (abstractly evaluated)")
	// 1. MaxInlineValue table
	if f := c.fn("pkg/trie", "TrieLayout.MaxInlineValue"); f != nil {
		// "never hashed" for V0 is the largest int of the ANALYSED architecture (the thorough tier also analyses GOARCH=386)
		maxInt := int64(math.MaxInt64)
		switch os.Getenv("VERIF_GOARCH") {
		case "386", "arm", "mips", "mipsle", "wasm32":
			maxInt = math.MaxInt32
		}
		for ver, want := range map[int64]int64{0: maxInt, 1: 32} {
			got, errs := evalFunc(f, &cmpEnv{attr: func(ssa.Value) (attrRef, bool) { return attrRef{}, false },
				extern: func(v ssa.Value) (any, bool) {
					if p, ok := v.(*ssa.Parameter); ok && p == f.Params[0] {
						return ver, true
					}
					return nil, false
				}})
			c.ob("R-THRESH", fmt.Sprintf("pkg/trie.TrieLayout.MaxInlineValue:V%d", ver), f.Pos(), errs == "" && fmt.Sprint(got) == fmt.Sprint(want),
				fmt.Sprintf("MaxInlineValue(V%d) evaluates to %v (%s), specification %d", ver, got, errs, want))
		}
	}
	isMaxInline := func(v ssa.Value) bool {
		call, ok := stripConv(v).(*ssa.Call)
		if !ok {
			return false
		}
		fn := calleeFunc(&call.Call)
		return fn != nil && fn.Name() == "MaxInlineValue"
	}
	for _, dir := range dirs {
		sp := c.ssaPkg(dir)
		if sp == nil {
			continue
		}
		funcs := allFuncs(c, sp)
		// parameters fed only by MaxInlineValue() at every call site in the package
		paramIsMax := func(p *ssa.Parameter) bool {
			f := p.Parent()
			idx := -1
			for i, q := range f.Params {
				if q == p {
					idx = i
				}
			}
			n, all := 0, true
			for _, g := range funcs {
				eachInstr(g, func(_ *ssa.BasicBlock, _ int, in ssa.Instruction) {
					call, ok := in.(*ssa.Call)
					if !ok {
						return
					}
					cal := call.Call.StaticCallee()
					if cal == nil {
						return
					}
					if cal != f && cal.Origin() != f {
						return
					}
					n++
					if idx >= len(call.Call.Args) || !isMaxInline(call.Call.Args[idx]) {
						all = false
					}
				})
			}
			return n > 0 && all
		}
		for _, f := range funcs {
			ord := 0
			eachInstr(f, func(_ *ssa.BasicBlock, _ int, in ssa.Instruction) {
				bo, ok := in.(*ssa.BinOp)
				if !ok || !isCmp(bo.Op) {
					return
				}
				x, y, op := bo.X, bo.Y, bo.Op
				if _, ok := lenOf(x); !ok {
					if _, ok2 := lenOf(y); ok2 {
						x, y, op = y, x, flipOp(op)
					} else {
						// n (a byte count) compared with the hash length
						return
					}
				}
				// x is a length now
				isM := isMaxInline(y)
				if p, ok := stripConv(y).(*ssa.Parameter); ok && !isM {
					isM = paramIsMax(p)
				}
				if isM {
					ord++
					okk := op == token.GTR || op == token.LEQ
					c.ob("R-THRESH", fmt.Sprintf("%s:len-vs-MaxInlineValue#%d", relName(f.String()), ord), bo.Pos(), okk,
						fmt.Sprintf("%s compares a value length with MaxInlineValue using %s: only values strictly longer than the threshold (V1: 33 bytes and more) are hashed, so the comparison must be `>` (or `<=` for the inline side)", shortFn(f), op))
					return
				}
				k, ok := constInt(y)
				if !ok || k < 30 || k > 34 {
					return
				}
				if op == token.EQL || op == token.NEQ {
					return // an exact-length test (e.g. "is a cached 32-byte root hash"), not a threshold decision
				}
				ord++
				// decided set over n in 0..70 must be {n<32} or {n>=32}
				lt, ge := true, true
				for n := int64(0); n <= 70; n++ {
					v := evalCmp(n, op, k)
					if v != (n < 32) {
						lt = false
					}
					if v != (n >= 32) {
						ge = false
					}
				}
				c.ob("R-THRESH", fmt.Sprintf("%s:len-vs-32#%d", relName(f.String()), ord), bo.Pos(), lt || ge,
					fmt.Sprintf("%s decides `length %s %d`; a node/child reference is inlined exactly when its encoding is shorter than 32 bytes, so the comparison must decide {n < 32} or {n >= 32}", shortFn(f), op, k))
			})
		}
	}
}
