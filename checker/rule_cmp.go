package main

import (
	"fmt"
	"go/constant"
	"go/token"
	"go/types"
	"strings"

	"golang.org/x/tools/go/ssa"
)

// R-CMP: a comparator only observes its arguments through comparisons, so its meaning is a finite table over the
// sign of each compared attribute. The table is built by abstractly interpreting the SSA of the comparator (no
// gossamer code is executed): straight-line evaluation over blocks with comparisons of attributes resolved from the
// sign assignment.

type attrRef struct {
	name string
	side int // 0 = first element, 1 = second element
}

type cmpEnv struct {
	attr   func(v ssa.Value) (attrRef, bool) // recognise an attribute operand
	sign   map[string]int                    // attr name -> sign of (side0 - side1): -1, 0, +1
	extern func(v ssa.Value) (any, bool)     // other leaves (e.g. calls) -> bool/int
}

// evalFunc abstractly executes f and returns the value of result #0 (bool or int64) or an error string.
func evalFunc(f *ssa.Function, env *cmpEnv) (any, string) {
	vals := map[ssa.Value]any{}
	var eval func(v ssa.Value) (any, bool)
	eval = func(v ssa.Value) (any, bool) {
		if x, ok := vals[v]; ok {
			return x, true
		}
		if env.extern != nil {
			if x, ok := env.extern(v); ok {
				return x, true
			}
		}
		switch x := v.(type) {
		case *ssa.Const:
			if x.Value == nil {
				return nil, false
			}
			switch x.Value.Kind() {
			case constant.Bool:
				return constant.BoolVal(x.Value), true
			case constant.Int:
				i, _ := constant.Int64Val(x.Value)
				return i, true
			}
		case *ssa.UnOp:
			if x.Op == token.NOT {
				if b, ok := eval(x.X); ok {
					if bb, ok := b.(bool); ok {
						return !bb, true
					}
				}
			}
			if x.Op == token.SUB {
				if b, ok := eval(x.X); ok {
					if i, ok := b.(int64); ok {
						return -i, true
					}
				}
			}
		case *ssa.BinOp:
			if isCmp(x.Op) {
				a, okA := env.attr(x.X)
				b, okB := env.attr(x.Y)
				if okA && okB && a.name == b.name && a.side != b.side {
					s, ok := env.sign[a.name]
					if !ok {
						return nil, false
					}
					if a.side == 1 {
						s = -s
					}
					return evalCmp(int64(s), x.Op, 0), true
				}
				// comparison of an evaluated int with a constant (e.g. bytes.Compare(a,b) < 0)
				l, okL := eval(x.X)
				r, okR := eval(x.Y)
				if okL && okR {
					li, ok1 := l.(int64)
					ri, ok2 := r.(int64)
					if ok1 && ok2 {
						return evalCmp(li, x.Op, ri), true
					}
					lb, ok1 := l.(bool)
					rb, ok2 := r.(bool)
					if ok1 && ok2 && (x.Op == token.EQL || x.Op == token.NEQ) {
						return (lb == rb) == (x.Op == token.EQL), true
					}
				}
			}
			switch x.Op {
			case token.ADD, token.SUB, token.MUL, token.QUO, token.REM:
				_, okA := env.attr(x.X)
				_, okB := env.attr(x.Y)
				if !okA && !okB {
					l, okL := eval(x.X)
					r, okR := eval(x.Y)
					li, ok1 := l.(int64)
					ri, ok2 := r.(int64)
					if okL && okR && ok1 && ok2 {
						switch x.Op {
						case token.ADD:
							return li + ri, true
						case token.SUB:
							return li - ri, true
						case token.MUL:
							return li * ri, true
						case token.QUO:
							if ri != 0 {
								return li / ri, true
							}
						case token.REM:
							if ri != 0 {
								return li % ri, true
							}
						}
					}
				}
			}
			if x.Op == token.SUB {
				// a.attr - b.attr : only its sign is meaningful
				a, okA := env.attr(x.X)
				b, okB := env.attr(x.Y)
				if okA && okB && a.name == b.name && a.side != b.side {
					s := env.sign[a.name]
					if a.side == 1 {
						s = -s
					}
					return int64(s), true
				}
			}
		case *ssa.Convert:
			return eval(x.X)
		case *ssa.ChangeType:
			return eval(x.X)
		}
		return nil, false
	}
	b := f.Blocks[0]
	var prev *ssa.BasicBlock
	for steps := 0; steps < 500; steps++ {
		for _, in := range b.Instrs {
			switch x := in.(type) {
			case *ssa.Phi:
				for i, p := range b.Preds {
					if p == prev {
						if v, ok := eval(x.Edges[i]); ok {
							vals[x] = v
						}
					}
				}
			case *ssa.If:
				cv, ok := eval(x.Cond)
				if !ok {
					return nil, "cannot evaluate condition " + x.Cond.String() + " in " + x.Cond.Name()
				}
				prev = b
				if cv.(bool) {
					b = b.Succs[0]
				} else {
					b = b.Succs[1]
				}
				goto next
			case *ssa.Jump:
				prev = b
				b = b.Succs[0]
				goto next
			case *ssa.Return:
				if len(x.Results) == 0 {
					return nil, "no result"
				}
				v, ok := eval(x.Results[0])
				if !ok {
					return nil, "cannot evaluate result " + x.Results[0].String()
				}
				return v, ""
			case *ssa.Panic:
				return nil, "panic"
			default:
				if v, ok := in.(ssa.Value); ok {
					if r, ok := eval(v); ok {
						vals[v] = r
					}
				}
			}
		}
		return nil, "fell off block"
	next:
	}
	return nil, "step bound exceeded"
}

// elemFieldAttr recognises `x[idx].field` where idx is one of the two index parameters, or `p.field` where p is
// one of two pointer parameters.
func elemFieldAttr(params []*ssa.Parameter) func(v ssa.Value) (attrRef, bool) {
	side := func(v ssa.Value) int {
		for i, p := range params {
			if v == p {
				return i
			}
		}
		return -1
	}
	return func(v ssa.Value) (attrRef, bool) {
		v = stripConv(v)
		base, fv, ok := fieldLoad(v)
		if !ok || fv == nil {
			return attrRef{}, false
		}
		// base is load(IndexAddr(slice, idx)) or a parameter pointer
		if s := side(base); s >= 0 {
			return attrRef{fv.Name(), s}, true
		}
		if u, ok := base.(*ssa.UnOp); ok && u.Op == token.MUL {
			if ia, ok := u.X.(*ssa.IndexAddr); ok {
				if s := side(ia.Index); s >= 0 {
					return attrRef{fv.Name(), s}, true
				}
			}
		}
		return attrRef{}, false
	}
}

// ruleCmpTable evaluates comparator f over every sign vector of the named attributes and compares with spec.
func (c *Ctx) ruleCmpTable(rule, key string, f *ssa.Function, attrs []string, attrFn func(v ssa.Value) (attrRef, bool),
	spec func(sign map[string]int) any, specText string) {
	if f == nil {
		return
	}
	c.doc(rule, "comparator truth table over sign vectors of "+strings.Join(attrs, ",")+" must equal: "+specText)
	n := 1
	for range attrs {
		n *= 3
	}
	for i := 0; i < n; i++ {
		sign := map[string]int{}
		k := i
		var desc []string
		for _, a := range attrs {
			sign[a] = k%3 - 1
			k /= 3
			desc = append(desc, fmt.Sprintf("%s%s", a, map[int]string{-1: "<", 0: "=", 1: ">"}[sign[a]]))
		}
		got, errs := evalFunc(f, &cmpEnv{attr: attrFn, sign: sign})
		want := spec(sign)
		okk := errs == "" && fmt.Sprint(got) == fmt.Sprint(want)
		msg := fmt.Sprintf("case %s: comparator yields %v, specification %v", strings.Join(desc, ","), got, want)
		if errs != "" {
			msg = fmt.Sprintf("case %s: UNDECIDED (%s)", strings.Join(desc, ","), errs)
		}
		c.ob(rule, key+":"+strings.Join(desc, ","), f.Pos(), okk, msg)
	}
}

// R-CMP/unsigned: 3-way comparator function literals returning int(a - b) on unsigned operands.
func (c *Ctx) ruleCmpUnsigned(rule string, dirs ...string) {
	c.doc(rule, "no 3-way comparator (func literal passed to slices.SortFunc/BinarySearchFunc/sort.Slice etc. or any func returning int) computes its result as a conversion of an unsigned subtraction")
	for _, dir := range dirs {
		sp := c.ssaPkg(dir)
		if sp == nil {
			continue
		}
		for _, f := range allFuncs(c, sp) {
			if f.Signature.Results().Len() != 1 {
				continue
			}
			if b, ok := f.Signature.Results().At(0).Type().Underlying().(*types.Basic); !ok || b.Kind() != types.Int {
				continue
			}
			if f.Signature.Params().Len() != 2 {
				continue
			}
			ord := 0
			for _, r := range returnsOf(f) {
				for _, v := range phiInputs(resultOf(r, 0)) {
					cv, ok := v.(*ssa.Convert)
					if !ok {
						continue
					}
					bo, ok := cv.X.(*ssa.BinOp)
					if !ok || bo.Op != token.SUB {
						continue
					}
					ord++
					unsigned := isUnsignedType(bo.X.Type())
					c.ob(rule, fmt.Sprintf("%s:int(a-b)#%d", relName(f.String()), ord), cv.Pos(), !unsigned,
						fmt.Sprintf("comparator returns int(a - b) on operands of type %s: for unsigned operands the difference wraps, so cmp(a,b) and cmp(b,a) can both be positive and the order depends on the integer width", bo.X.Type()))
				}
			}
		}
	}
}

func isUnsignedType(t types.Type) bool {
	switch u := t.Underlying().(type) {
	case *types.Basic:
		return u.Info()&types.IsUnsigned != 0
	case *types.Interface:
		// type parameter constraint: unsigned if every term is unsigned
		return false
	}
	if tp, ok := t.(*types.TypeParam); ok {
		iface, _ := tp.Constraint().Underlying().(*types.Interface)
		if iface == nil {
			return false
		}
		all, any := true, false
		for i := 0; i < iface.NumEmbeddeds(); i++ {
			if u, ok := iface.EmbeddedType(i).Underlying().(*types.Interface); ok {
				_ = u
			}
			if un, ok := iface.EmbeddedType(i).(*types.Union); ok {
				for j := 0; j < un.Len(); j++ {
					any = true
					if !isUnsignedType(un.Term(j).Type()) {
						all = false
					}
				}
			} else if n := namedType(iface.EmbeddedType(i)); strings.HasSuffix(n, "constraints.Unsigned") {
				any = true
			} else {
				all = false
			}
		}
		return all && any
	}
	return false
}

// explore abstractly executes f along every path consistent with env: conditions that evaluate under env follow
// one branch, all others fork. It returns the set of instructions that can execute. Each (block, predecessor) pair
// is expanded once, so loops terminate.
func explore(f *ssa.Function, env *cmpEnv) map[ssa.Instruction]bool {
	v, _ := exploreForks(f, env)
	return v
}

// exploreForks also returns the If instructions whose condition could not be evaluated (both branches were taken).
func exploreForks(f *ssa.Function, env *cmpEnv) (map[ssa.Instruction]bool, []*ssa.If) {
	visited := map[ssa.Instruction]bool{}
	var forks []*ssa.If
	type st struct{ b, prev *ssa.BasicBlock }
	seen := map[st]bool{}
	var evalCond func(v ssa.Value, prev *ssa.BasicBlock, depth int) (bool, bool)
	evalCond = func(v ssa.Value, prev *ssa.BasicBlock, depth int) (bool, bool) {
		if depth > 8 {
			return false, false
		}
		if env.extern != nil {
			if x, ok := env.extern(v); ok {
				if b, ok := x.(bool); ok {
					return b, true
				}
			}
		}
		switch x := v.(type) {
		case *ssa.Const:
			if x.Value != nil && x.Value.Kind() == constant.Bool {
				return constant.BoolVal(x.Value), true
			}
		case *ssa.UnOp:
			if x.Op == token.NOT {
				if b, ok := evalCond(x.X, prev, depth+1); ok {
					return !b, true
				}
			}
		case *ssa.Phi:
			for i, p := range x.Block().Preds {
				if p == prev {
					return evalCond(x.Edges[i], nil, depth+1)
				}
			}
		case *ssa.BinOp:
			if isCmp(x.Op) && env.attr != nil {
				a, okA := env.attr(x.X)
				b, okB := env.attr(x.Y)
				if okA && okB && a.name == b.name && a.side != b.side {
					if s, ok := env.sign[a.name]; ok {
						if a.side == 1 {
							s = -s
						}
						return evalCmp(int64(s), x.Op, 0), true
					}
				}
			}
			if isCmp(x.Op) && env.extern != nil {
				l, okL := env.extern(x.X)
				r, okR := env.extern(x.Y)
				if !okR {
					if k, ok := constInt(x.Y); ok {
						r, okR = k, true
					}
				}
				if !okL {
					if k, ok := constInt(x.X); ok {
						l, okL = k, true
					}
				}
				if okL && okR {
					li, ok1 := l.(int64)
					ri, ok2 := r.(int64)
					if ok1 && ok2 {
						return evalCmp(li, x.Op, ri), true
					}
				}
			}
		}
		return false, false
	}
	var walk func(b, prev *ssa.BasicBlock)
	walk = func(b, prev *ssa.BasicBlock) {
		if seen[st{b, prev}] {
			return
		}
		seen[st{b, prev}] = true
		for _, in := range b.Instrs {
			visited[in] = true
			switch x := in.(type) {
			case *ssa.If:
				if v, ok := evalCond(x.Cond, prev, 0); ok {
					if v {
						walk(b.Succs[0], b)
					} else {
						walk(b.Succs[1], b)
					}
				} else {
					forks = append(forks, x)
					walk(b.Succs[0], b)
					walk(b.Succs[1], b)
				}
				return
			case *ssa.Jump:
				walk(b.Succs[0], b)
				return
			case *ssa.Return, *ssa.Panic:
				return
			}
		}
	}
	walk(f.Blocks[0], nil)
	return visited, forks
}
