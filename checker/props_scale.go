package main

func init() {
	register("C12", "short-read, allocation-bound (interval analysis) and canonical-range rules on the SSA of pkg/scale's decoder (R-READFULL, R-ALLOC, R-COMPACT, R-TAGDEFAULT, R-NOPANIC)",
		"Decides on pkg/scale for every path: each Read's byte count is checked or the read is a full-read helper (truncated input fails, never zero-filled); every allocation sized by a decoded quantity is bounded by type/interval arithmetic and its size expression cannot wrap; each compact mode rejects exactly the values below its lower bound (canonical form), from the constants in the code; tag switches reject unknown tags; no explicit panic is reachable from Unmarshal/Decode inside the package. "+
			"Not decided: that a successful decode re-encodes to the consumed prefix (value-level), nil dereferences/type assertions, memory of nested element-wise decoding (bounded by input because each element consumes input).",
		"io.Reader contract (err==nil for a 1-byte buffer implies n==1); reflect and encoding/binary are trusted", "DESIGN.md §3 R-READFULL, R-ALLOC, R-COMPACT; §4 C12",
		func(c *Ctx) {
			c.load("pkg/scale")
			c.ruleReadFull("R-READFULL", "pkg/scale")
			c.min("R-READFULL", 1)
			c.ruleAlloc("R-ALLOC", 1<<17, "pkg/scale")
			c.ruleLenSign("pkg/scale")
			c.ruleLenConv("pkg/scale")
			c.ruleFreshDecode()
			c.min("R-FRESHDECODE", 2)
			c.min("R-LENSIGN", 4)
			c.min("R-ALLOC", 2)
			c.ruleCompactCanon("R-COMPACT/canon", "pkg/scale", "(*decodeState).decodeUint", "(*decodeState).decodeSmallInt")
			c.min("R-COMPACT/canon", 6)
			c.ruleBigIntCanon()
			c.ruleBigSign("R-BIGSIGN", "pkg/scale")
			c.ruleFreshElem("R-FRESHELEM", "pkg/scale")
			c.ruleFreshStruct()
			c.min("R-FRESHELEM", 3)
			c.ruleTagDefault("R-TAGDEFAULT", "pkg/scale", "(*decodeState).decodeBool", "(*decodeState).decodePointer", "(*decodeState).decodeResult")
			c.min("R-TAGDEFAULT", 3)
			c.notDecides("re-encoding of the decoded value equals the consumed prefix; nil dereference / failed type assertion panics")
		})
}

var allVDTDirs = []string{"dot/types", "lib/runtime", "lib/runtime/wazero", "lib/grandpa", "lib/babe/inherents", "lib/babe", "pkg/finality-grandpa"}

func init() {
	register("C11", "sibling-table agreement on the AST/SSA of pkg/scale and of every VaryingDataType (R-COMPACT/widths, R-COMPACT/enc, R-VDT, R-CODECSWITCH)",
		"Decides: the decoder handles every compact big-integer width the encoder emits; the encoder's mode thresholds/tags are the canonical ones (2^6, 2^14, 2^30; tags 0..3); every type/kind handled by marshal is handled by unmarshal and vice versa; for all 20 VaryingDataType implementations IndexValue, ValueAt and SetValue are mutually inverse (an enum variant that encodes also decodes to the same type). "+
			"Not decided: value-level round-trip equality and byte-identity with a reference encoder for every value; struct field-order tags.",
		"reflect-based dispatch is modelled only through the two switch tables; encoding/binary trusted", "DESIGN.md §3 R-COMPACT, R-VDT; §4 C11",
		func(c *Ctx) {
			c.load(append([]string{"pkg/scale"}, allVDTDirs...)...)
			c.ruleFieldOrderTotal()
			c.min("R-TOTALORDER", 1)
			c.ruleFreshDecode()
			c.min("R-FRESHDECODE", 2)
			c.ruleCompactWidths("R-COMPACT/widths")
			c.min("R-COMPACT/widths", 5)
			c.ruleCompactEnc("R-COMPACT/enc")
			c.min("R-COMPACT/enc", 4)
			c.ruleBigSign("R-BIGSIGN", "pkg/scale")
			c.ruleScaleMapAndBigRange()
			c.ruleBigTrunc("R-BIGTRUNC", "pkg/scale", "(*encodeState).encodeBigInt")
			c.min("R-BIGTRUNC", 4)
			c.ruleCodecSwitchAgree("R-CODECSWITCH")
			c.min("R-CODECSWITCH", 2)
			c.ruleVDT("R-VDT", false, allVDTDirs...)
			c.min("R-VDT", 20)
			c.notDecides("round-trip equality of values; canonical bytes for every value")
		})
}
