package main

import (
	"fmt"
	"go/ast"
	"go/token"
	"os"
	"sort"
	"strings"

	"golang.org/x/tools/go/packages"
	"golang.org/x/tools/go/ssa"
)

// C22 (structural part only): every way the node records a block as finalised is behind a supermajority gate.

// finaliseSites: the frozen who-may-call table of BlockState.SetFinalisedHash (non-test code of the whole module).
var finaliseSites = map[string]string{
	"lib/grandpa:Service.finalise":             "gate: only called from attemptToFinalize under precommits > threshold (R-FINALGATE/voter)",
	"lib/grandpa:Service.handleCommitMessage":  "gate: success edge of verifyCommitMessageJustification (R-FINALGATE/commit; counting itself is C18)",
	"dot/sync:blockImporter.processBlockData":  "gate: success edge of FinalityGadget.VerifyBlockJustification (R-FINALGATE/import; verification itself is C18)",
	"dot/state:NewBlockStateFromGenesis":       "exempt: the genesis block is final by definition",
	"dot/state:Service.Rewind":                 "exempt: offline operator command that rewinds the database, not part of the voting protocol",
	"dot/state:Service.Import":                 "exempt: offline operator command importing a trusted state snapshot",
	"dot/state:BlockState.SetFinalisedHash":    "definition",
	"dot/state:BlockState.setFirstSlotOnFinalisation": "n/a",
}

func (c *Ctx) ruleFinalGateCallers() {
	c.doc("R-FINALGATE/callers", "who-may-call: across every non-test package of the module (parsed with the build's file selection), the method name SetFinalisedHash is mentioned (called or taken as a method value) only inside the functions of the frozen table (the voter's finalise, the commit handler, the block importer, genesis initialisation, the offline rewind/import commands); any new site is a finalisation path without a proven gate")
	env := append(os.Environ(), "GOFLAGS=-mod=mod", "GOPROXY=off", "GOSUMDB=off", "GOTOOLCHAIN=local", "GOWORK=off")
	if a := os.Getenv("VERIF_GOARCH"); a != "" {
		env = append(env, "GOARCH="+a)
	}
	fset := token.NewFileSet()
	cfg := &packages.Config{Mode: packages.NeedName | packages.NeedFiles | packages.NeedCompiledGoFiles | packages.NeedSyntax,
		Dir: repoDir, Env: env, Fset: fset, Overlay: c.overlay}
	pkgs, err := packages.Load(cfg, "./...")
	if err != nil {
		c.undecided("R-FINALGATE/callers", "load ./...: "+err.Error())
		return
	}
	sort.Slice(pkgs, func(i, j int) bool { return pkgs[i].PkgPath < pkgs[j].PkgPath })
	found := map[string]int{}
	npk := 0
	for _, p := range pkgs {
		if len(p.Syntax) == 0 {
			continue // only build-tagged or test files
		}
		npk++
		dir := strings.TrimPrefix(p.PkgPath, modPath+"/")
		for _, file := range p.Syntax {
			fname := fset.Position(file.Pos()).Filename
			if strings.HasSuffix(fname, "_test.go") {
				continue
			}
			for _, d := range file.Decls {
				fd, ok := d.(*ast.FuncDecl)
				if !ok || fd.Body == nil {
					continue
				}
				name := fd.Name.Name
				if fd.Recv != nil && len(fd.Recv.List) > 0 {
					name = recvTypeName(fd.Recv.List[0].Type) + "." + name
				}
				if strings.HasPrefix(name, "Mock") {
					continue // generated gomock recorders forward to the mock controller, not to a block state
				}
				ast.Inspect(fd.Body, func(n ast.Node) bool {
					sel, ok := n.(*ast.SelectorExpr)
					if !ok || sel.Sel.Name != "SetFinalisedHash" {
						return true
					}
					site := dir + ":" + name
					found[site]++
					_, allowed := finaliseSites[site]
					p := fset.Position(sel.Pos())
					c.obAt("R-FINALGATE/callers", fmt.Sprintf("%s:SetFinalisedHash#%d", site, found[site]), strings.TrimPrefix(p.Filename, repoDir+"/")+":"+fmt.Sprint(p.Line), allowed,
						"a block is recorded as finalised from a function that is not in the table of gated finalisation paths: nothing shows that more than two thirds of the voters precommitted to it")
					return true
				})
			}
		}
	}
	c.packagesExtra = npk
	if npk < 100 {
		c.undecided("R-FINALGATE/callers", fmt.Sprintf("only %d packages parsed for the who-may-call rule", npk))
	}
	for _, must := range []string{"lib/grandpa:Service.finalise", "lib/grandpa:Service.handleCommitMessage", "dot/sync:blockImporter.processBlockData"} {
		if found[must] == 0 {
			c.ob("R-FINALGATE/callers", must+":present", token.NoPos, false, "expected finalisation site not found (renamed? update the table after confirming its gate)")
		}
	}
}

func isStageValue(v ssa.Value, name string, k int64) bool {
	if n, ok := constInt(v); ok {
		return n == k
	}
	if u, ok := v.(*ssa.UnOp); ok && u.Op == token.MUL {
		if g, ok := u.X.(*ssa.Global); ok {
			return g.Name() == name
		}
	}
	return false
}

// gatedBy: every entry->target path that is consistent with the branch facts holding at target passes an edge on
// which pred holds.
func gatedBy(f *ssa.Function, target *ssa.BasicBlock, pred func(cond ssa.Value, truth bool) bool) bool {
	removed := edgesWhere(f, pred)
	if len(removed) == 0 {
		return false
	}
	for _, g := range guardsOf(target) {
		gc, flip := stripNot(g.cond)
		gt := g.truth != flip
		removed = append(removed, edgesWhere(f, func(cond ssa.Value, truth bool) bool { return cond == gc && truth != gt })...)
	}
	return !reachesAvoiding(f, target, removed)
}

func (c *Ctx) ruleFinalGate() {
	c.doc("R-FINALGATE/voter", "lib/grandpa: finalise() is called only by attemptToFinalize, on the edge where the precommit total (second result of retrieveBestFinalCandidate, which is getTotalVotesForBlock(candidate, precommit)) is strictly greater than State.threshold()")
	c.doc("R-FINALGATE/commit", "lib/grandpa: handleCommitMessage reaches SetFinalisedHash only through the success edge of verifyCommitMessageJustification called with State.threshold()")
	c.doc("R-FINALGATE/import", "dot/sync: processBlockData reaches SetFinalisedHash only through the success edge of VerifyBlockJustification, for the same header hash and number")
	c.doc("R-FINALGATE/once", "lib/grandpa: getTotalVotesForBlock adds to the direct votes the NUMBER OF equivocating voters (len of the per-voter equivocation map of the same stage): an equivocator counts once however many votes it cast; getDirectVotes adds exactly 1 per stored voter entry")
	sp := c.ssaPkg(gDir)
	if sp == nil {
		return
	}
	// voter path
	nFin := 0
	for _, f := range allFuncs(c, sp) {
		eachInstr(f, func(b *ssa.BasicBlock, _ int, in ssa.Instruction) {
			call, ok := in.(ssa.CallInstruction)
			if !ok {
				return
			}
			cal := call.Common().StaticCallee()
			if cal == nil || cal.Name() != "finalise" || cal.Pkg != sp {
				return
			}
			nFin++
			host := f
			for host.Parent() != nil {
				host = host.Parent()
			}
			okCaller := host.Name() == "attemptToFinalize" && f == host
			strict := false
			if okCaller {
				for _, g := range guardsOf(b) {
					cond, flip := stripNot(g.cond)
					bo, isBin := cond.(*ssa.BinOp)
					if !isBin || !isCmp(bo.Op) {
						continue
					}
					op := bo.Op
					if g.truth == flip {
						op = negOp(op)
					}
					isThr := func(v ssa.Value) bool {
						cl, ok := stripConv(v).(*ssa.Call)
						return ok && cl.Call.StaticCallee() != nil && cl.Call.StaticCallee().Name() == "threshold"
					}
					isCount := func(v ssa.Value) bool {
						ex, ok := stripConv(v).(*ssa.Extract)
						if !ok || ex.Index != 1 {
							return false
						}
						cl, ok := ex.Tuple.(*ssa.Call)
						return ok && cl.Call.StaticCallee() != nil && cl.Call.StaticCallee().Name() == "retrieveBestFinalCandidate"
					}
					if isThr(bo.X) && isCount(bo.Y) {
						op = flipOp(op)
					} else if !(isCount(bo.X) && isThr(bo.Y)) {
						continue
					}
					if op == token.GTR {
						strict = true
					}
				}
			}
			c.ob("R-FINALGATE/voter", fmt.Sprintf("%s:finalise-call#%d", shortFn(f), nFin), in.Pos(), okCaller && strict,
				"the voter finalises its best final candidate on a path where `precommits > threshold()` (strict, on the count returned by retrieveBestFinalCandidate) is not established: a block without a precommit supermajority can be finalised and two forks can both finalise")
		})
	}
	if nFin == 0 {
		c.ob("R-FINALGATE/voter", "finalise-call", token.NoPos, false, "no call of finalise found (anchor changed)")
	}
	// the count is the precommit total of the candidate
	if f := c.fn(gDir, "(*Service).retrieveBestFinalCandidate"); f != nil {
		ok := false
		for _, r := range returnsOf(f) {
			if !isNilConst(resultOf(r, 2)) {
				continue
			}
			ok = false
			for v := range backwardSlice(resultOf(r, 1), nil) {
				if cl, isCall := v.(*ssa.Call); isCall && cl.Call.StaticCallee() != nil && cl.Call.StaticCallee().Name() == "getTotalVotesForBlock" {
					if isStageValue(cl.Call.Args[2], "precommit", 1) {
						ok = true
					}
				}
			}
			if !ok {
				break
			}
		}
		c.ob("R-FINALGATE/voter", "retrieveBestFinalCandidate:count=total-precommits", f.Pos(), ok, "the count handed to the finalisation gate must be getTotalVotesForBlock(candidate, precommit)")
	}
	// commit path
	if f := c.fn(gDir, "(*Service).handleCommitMessage"); f != nil {
		var vcall *ssa.Call
		eachInstr(f, func(_ *ssa.BasicBlock, _ int, in ssa.Instruction) {
			if cl, ok := in.(*ssa.Call); ok && cl.Call.StaticCallee() != nil && cl.Call.StaticCallee().Name() == "verifyCommitMessageJustification" {
				vcall = cl
			}
		})
		n := 0
		eachInstr(f, func(b *ssa.BasicBlock, _ int, in ssa.Instruction) {
			cl, ok := in.(*ssa.Call)
			if !ok || !cl.Call.IsInvoke() || cl.Call.Method.Name() != "SetFinalisedHash" {
				return
			}
			n++
			ok2 := vcall != nil && gatedBy(f, b, errSuccessGuard(vcall))
			if ok2 {
				thrOK := false
				for v := range backwardSlice(vcall.Call.Args[2], nil) {
					if t, isCall := v.(*ssa.Call); isCall && t.Call.StaticCallee() != nil && t.Call.StaticCallee().Name() == "threshold" {
						thrOK = true
					}
				}
				ok2 = thrOK
			}
			c.ob("R-FINALGATE/commit", fmt.Sprintf("handleCommitMessage:SetFinalisedHash#%d", n), in.Pos(), ok2,
				"a received commit finalises its block on a path that does not pass the success edge of verifyCommitMessageJustification(…, State.threshold(), …)")
		})
		if n == 0 {
			c.ob("R-FINALGATE/commit", "handleCommitMessage:SetFinalisedHash", f.Pos(), false, "no SetFinalisedHash call found (anchor changed)")
		}
	}
	// import path
	if f := c.fn(syncDir, "(*blockImporter).processBlockData"); f != nil {
		var vcall *ssa.Call
		eachInstr(f, func(_ *ssa.BasicBlock, _ int, in ssa.Instruction) {
			if cl, ok := in.(*ssa.Call); ok && cl.Call.IsInvoke() && cl.Call.Method.Name() == "VerifyBlockJustification" {
				vcall = cl
			}
		})
		n := 0
		eachInstr(f, func(b *ssa.BasicBlock, _ int, in ssa.Instruction) {
			cl, ok := in.(*ssa.Call)
			if !ok || !cl.Call.IsInvoke() || cl.Call.Method.Name() != "SetFinalisedHash" {
				return
			}
			n++
			ok2 := vcall != nil && gatedBy(f, b, errSuccessGuard(vcall))
			msg := "an imported block is recorded as finalised on a path that does not pass the success edge of VerifyBlockJustification"
			if ok2 {
				// same block: both hashes are Header.Hash() of the same header field
				hdr := func(v ssa.Value) ssa.Value {
					for x := range backwardSlice(v, nil) {
						if hc, isCall := x.(*ssa.Call); isCall && hc.Call.StaticCallee() != nil && hc.Call.StaticCallee().Name() == "Hash" && len(hc.Call.Args) == 1 {
							for y := range backwardSlice(hc.Call.Args[0], nil) {
								if _, fv, ok := fieldLoad(y); ok && fv != nil && fv.Name() == "Header" {
									return y
								}
								if fa, ok := y.(*ssa.FieldAddr); ok && fieldVar(fa) != nil && fieldVar(fa).Name() == "Header" {
									return fa
								}
							}
						}
					}
					return nil
				}
				a, b2 := hdr(vcall.Call.Args[0]), hdr(cl.Call.Args[0])
				if a == nil || b2 == nil {
					ok2, msg = false, "the verified hash and the finalised hash must both be blockData.Header.Hash()"
				}
			}
			c.ob("R-FINALGATE/import", fmt.Sprintf("processBlockData:SetFinalisedHash#%d", n), in.Pos(), ok2, msg)
		})
		if n == 0 {
			c.ob("R-FINALGATE/import", "processBlockData:SetFinalisedHash", f.Pos(), false, "no SetFinalisedHash call found (anchor changed)")
		}
	}
	// equivocators once
	if f := c.fn(gDir, "(*Service).getTotalVotesForBlock"); f != nil {
		ok, why := false, "no success return"
		for _, r := range returnsOf(f) {
			if !isNilConst(resultOf(r, 1)) {
				continue
			}
			add, isAdd := resultOf(r, 0).(*ssa.BinOp)
			if !isAdd || add.Op != token.ADD {
				ok, why = false, "the total is not direct-votes + equivocators"
				break
			}
			var direct bool
			lens := map[string]bool{}
			other := false
			for _, side := range []ssa.Value{add.X, add.Y} {
				for _, v := range phiInputs(stripConv(side)) {
					v = stripConv(v)
					if ex, isEx := v.(*ssa.Extract); isEx && ex.Index == 0 {
						if cl, isCall := ex.Tuple.(*ssa.Call); isCall && cl.Call.StaticCallee() != nil && cl.Call.StaticCallee().Name() == "getVotesForBlock" {
							direct = true
							continue
						}
					}
					if l, isLen := lenOf(v); isLen {
						if _, fv, ok := fieldLoad(l); ok && fv != nil && strings.HasPrefix(fv.Type().Underlying().String(), "map[") {
							lens[fv.Name()] = true
							continue
						}
					}
					// the count computed by a helper of the package: every value it returns is such a len
					if cl, isCall := v.(*ssa.Call); isCall && cl.Call.StaticCallee() != nil && cl.Call.StaticCallee().Pkg == f.Pkg && len(cl.Call.StaticCallee().Blocks) > 0 {
						allLens := true
						nres := 0
						for _, hr := range returnsOf(cl.Call.StaticCallee()) {
							for _, hv := range phiInputs(stripConv(resultOf(hr, 0))) {
								nres++
								hl, isLen := lenOf(stripConv(hv))
								if !isLen {
									allLens = false
									continue
								}
								if _, fv, ok := fieldLoad(hl); ok && fv != nil && strings.HasPrefix(fv.Type().Underlying().String(), "map[") {
									lens[fv.Name()] = true
								} else {
									allLens = false
								}
							}
						}
						if allLens && nres > 0 {
							continue
						}
					}
					other = true
				}
			}
			ok = direct && !other && lens["pvEquivocations"] && lens["pcEquivocations"] && len(lens) == 2
			why = fmt.Sprintf("direct=%v equivocation-map lens=%v other-addends=%v", direct, lens, other)
		}
		c.ob("R-FINALGATE/once", "getTotalVotesForBlock:equivocators-counted-once", f.Pos(), ok, "total = getVotesForBlock + len(pv/pcEquivocations map): "+why)
	}
	if f := c.fn(gDir, "(*Service).getDirectVotes"); f != nil {
		n, ok := 0, true
		for _, g := range withAnon(f) {
			eachInstr(g, func(_ *ssa.BasicBlock, _ int, in ssa.Instruction) {
				mu, isMU := in.(*ssa.MapUpdate)
				if !isMU {
					return
				}
				n++
				bo, isBin := mu.Value.(*ssa.BinOp)
				if !isBin || bo.Op != token.ADD {
					ok = false
					return
				}
				if k, isC := constInt(bo.Y); !isC || k != 1 {
					ok = false
				}
			})
		}
		c.ob("R-FINALGATE/once", "getDirectVotes:unit-per-voter", f.Pos(), ok && n == 1, "each stored voter entry adds exactly 1 to its vote's count")
	}
}

func init() {
	register("C22", "structural necessary conditions only: who-may-call table of SetFinalisedHash over the whole module (R-FINALGATE/callers), must-pass-through of the supermajority gate on each finalisation path (R-FINALGATE/voter, /commit, /import, exact edge-removal reachability on the SSA), equivocators-count-once shape of the tally (R-FINALGATE/once) and its guarded-by discipline (R-TALLYLOCK: the equivocation maps are touched only under mapLock), stage-selected branches touch only their stage's vote containers (R-STAGEMAPS), strict threshold convention and formula (R-THRESHCONV)",
		"Decides a NECESSARY condition of safety, not safety itself: (1) SetFinalisedHash is called only from the voter's finalise, the commit handler, the block importer, genesis initialisation and the offline rewind/import commands; (2) finalise() is called only from attemptToFinalize on the edge precommits > floor(2n/3), where the count is getTotalVotesForBlock(candidate, precommit); (3) the commit handler and the block importer finalise only through the success edge of their justification verification; (4) the tally adds direct votes and the number of equivocating voters (each equivocator once), every branch selected by the vote stage reads, stores and deletes votes in that stage's containers only, and every comparison with the threshold is strict; (5) floor(2n/3) is what threshold() computes (n = 1..300). "+
			"NOT decided (no static argument in reach): that no two conflicting blocks are finalised under every interleaving, delay, loss and Byzantine behaviour — this needs the protocol-level argument (vote-selection rules across rounds, completability, GHOST) which quantifies over executions; the checks above only guarantee that no code path finalises without the supermajority gate the safety argument rests on.",
		"signature verification, ancestry queries and the honest-supermajority assumption itself", "DESIGN.md §5 (C22), §8.2 R-FINALGATE, R-STAGEMAPS",
		func(c *Ctx) {
			c.load(gDir, syncDir, fgDir)
			c.rulePhaseConsistent()
			c.min("R-PHASECONSIST", 3)
			c.ruleFinalGateCallers()
			c.min("R-FINALGATE/callers", 5)
			c.ruleFinalGate()
			c.min("R-FINALGATE/voter", 2)
			c.min("R-FINALGATE/once", 2)
			c.doc("R-TALLYLOCK", "lib/grandpa: the equivocation maps pv/pcEquivocations are read and written only with Service.mapLock held (must-hold dataflow, requirement forwarded to callers of unexported functions); with it the move of a voter from the direct votes to the equivocators is atomic for the tally")
			c.ruleLocks(lockSpec{dir: gDir, typ: "Service", mutex: "mapLock", guarded: []string{"pvEquivocations", "pcEquivocations"}, rule: "R-TALLYLOCK", noL4: true,
				l1Exempt: map[string]string{"(*Service).initiateRound": "round set-up installs fresh maps under roundLock, which vote handling holds; the round's tally starts after it returns"}})
			c.min("R-TALLYLOCK/L1", 12)
			c.min("R-TALLYLOCK/L3", 7)
			c.ruleStageMaps()
			c.ruleEquivocatorRemoved()
			c.min("R-STAGEMAPS", 6)
			c.ruleThreshA()
			c.min("R-THRESHCONV", 7)
		})
}
