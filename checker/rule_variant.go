package main

import (
	"fmt"
	"go/ast"
	"go/constant"
	"math/bits"
	"sort"
	"strings"
)

// R-VARIANT: node-header variant table (bits, mask) equals the specification, table order suits the decoder loop,
// and Decode handles every variant decodeHeaderByte can return without panicking.

var variantSpec = map[string][2]int64{
	"leafVariant":                  {0b0100_0000, 0b1100_0000},
	"branchVariant":                {0b1000_0000, 0b1100_0000},
	"branchWithValueVariant":       {0b1100_0000, 0b1100_0000},
	"leafWithHashedValueVariant":   {0b0010_0000, 0b1110_0000},
	"branchWithHashedValueVariant": {0b0001_0000, 0b1111_0000},
	"emptyVariant":                 {0b0000_0000, 0b1111_1111},
	"compactEncodingVariant":       {0b0000_0001, 0b1111_1111},
}

func (c *Ctx) ruleVariant(dir string) {
	p := c.pkg(dir)
	if p == nil {
		return
	}
	c.doc("R-VARIANT/table", "each header variant's (bits, mask) literal equals the Polkadot spec table, bits are inside the mask, and no two variants overlap")
	c.doc("R-VARIANT/order", "variantsOrderedByBitMask is ordered by ascending number of mask bits (decodeHeaderByte scans it backwards so that the most specific mask wins)")
	c.doc("R-VARIANT/exhaustive", "Decode handles every element of variantsOrderedByBitMask by a case (or an early `variant == X` return) whose body does not panic")
	vals := map[string][2]int64{}
	var order []string
	for _, file := range p.Syntax {
		for _, d := range file.Decls {
			gd, ok := d.(*ast.GenDecl)
			if !ok {
				continue
			}
			for _, s := range gd.Specs {
				vs, ok := s.(*ast.ValueSpec)
				if !ok {
					continue
				}
				for i, name := range vs.Names {
					if i >= len(vs.Values) {
						continue
					}
					cl, ok := vs.Values[i].(*ast.CompositeLit)
					if !ok {
						continue
					}
					if name.Name == "variantsOrderedByBitMask" {
						for _, e := range cl.Elts {
							if id, ok := e.(*ast.Ident); ok {
								order = append(order, id.Name)
							}
						}
						continue
					}
					if !strings.HasSuffix(name.Name, "Variant") {
						continue
					}
					var bm [2]int64
					found := 0
					for _, e := range cl.Elts {
						kv, ok := e.(*ast.KeyValueExpr)
						if !ok {
							continue
						}
						k, _ := kv.Key.(*ast.Ident)
						tv, ok := p.TypesInfo.Types[kv.Value]
						if k == nil || !ok || tv.Value == nil {
							continue
						}
						v, _ := constant.Int64Val(tv.Value)
						switch k.Name {
						case "bits":
							bm[0] = v
							found++
						case "mask":
							bm[1] = v
							found++
						}
					}
					if found == 2 {
						vals[name.Name] = bm
					}
				}
			}
		}
	}
	pos := p.Syntax[0].Pos()
	for name, want := range variantSpec {
		got, ok := vals[name]
		c.ob("R-VARIANT/table", dir+"."+name, pos, ok && got == want && got[0]&^got[1] == 0,
			fmt.Sprintf("variant %s is (bits %08b, mask %08b), specification (bits %08b, mask %08b)", name, got[0], got[1], want[0], want[1]))
	}
	// order
	okOrder := len(order) == len(variantSpec)
	prev := 0
	for _, n := range order {
		pc := bits.OnesCount8(uint8(vals[n][1]))
		if pc < prev {
			okOrder = false
		}
		prev = pc
		if _, ok := variantSpec[n]; !ok {
			okOrder = false
		}
	}
	c.ob("R-VARIANT/order", dir+".variantsOrderedByBitMask", pos, okOrder, fmt.Sprintf("order %v must list all %d variants by non-decreasing mask width", order, len(variantSpec)))
	// exhaustiveness of Decode
	fd, _ := c.funcDecl(dir, "Decode")
	if fd == nil {
		return
	}
	handled := map[string]bool{}
	panicking := map[string]bool{}
	ast.Inspect(fd.Body, func(n ast.Node) bool {
		switch s := n.(type) {
		case *ast.IfStmt:
			if be, ok := s.Cond.(*ast.BinaryExpr); ok && be.Op.String() == "==" {
				for _, e := range []ast.Expr{be.X, be.Y} {
					if id, ok := e.(*ast.Ident); ok && strings.HasSuffix(id.Name, "Variant") {
						handled[id.Name] = true
					}
				}
			}
		case *ast.SwitchStmt:
			for _, cl := range s.Body.List {
				cc := cl.(*ast.CaseClause)
				pan := false
				for _, st := range cc.Body {
					if es, ok := st.(*ast.ExprStmt); ok {
						if call, ok := es.X.(*ast.CallExpr); ok {
							if id, ok := call.Fun.(*ast.Ident); ok && id.Name == "panic" {
								pan = true
							}
						}
					}
				}
				for _, e := range cc.List {
					if id, ok := e.(*ast.Ident); ok && strings.HasSuffix(id.Name, "Variant") {
						handled[id.Name] = true
						if pan {
							panicking[id.Name] = true
						}
					}
				}
			}
		}
		return true
	})
	sort.Strings(order)
	for _, n := range order {
		c.ob("R-VARIANT/exhaustive", dir+".Decode:"+n, fd.Pos(), handled[n] && !panicking[n],
			fmt.Sprintf("Decode has no non-panicking handler for %s, which decodeHeaderByte can return: such a header byte reaches the default panic", n))
	}
}
