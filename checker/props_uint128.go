package main

import (
	"fmt"
	"go/token"
	"go/types"
	"strings"

	"golang.org/x/tools/go/ssa"
)

func init() {
	register("C13", "byte-order tag flow (R-ENDIAN), writer/reader half-layout agreement (R-ENDIAN/halves), no sign-changing or narrowing conversion of the 64-bit halves (R-NOSIGNCAST) on the SSA of pkg/scale/uint128.go",
		"Decides: every big.Int.SetBytes fed from a Uint128 receives big-endian bytes; for each byte order, Bytes() (writer) and NewUint128([]byte) (reader) place Upper and Lower in the same halves, and the *big.Int constructor reads big-endian halves; the numeric views never convert the unsigned 64-bit halves to a signed or narrower integer; MarshalJSON is String() and UnmarshalJSON goes through big.Int.SetString base 10 and NewUint128. These are necessary for the decimal/JSON/big-integer/byte views to denote one number for all 2^128 values. "+
			"Not decided: arithmetic inside math/big; padding of short byte slices.",
		"math/big and encoding/binary trusted", "DESIGN.md §3 R-ENDIAN; §4 C13",
		func(c *Ctx) {
			c.load("pkg/scale", "lib/genesis")
			c.ruleNoFloatInt()
			c.min("R-NOFLOATINT", 1)
			c.ruleEndian()
			c.ruleUint128JSONErrors()
			c.ruleTrimZero()
			c.min("R-TRIMZERO", 2)
			c.min("R-JSONERR", 2)
			c.min("R-ENDIAN", 1)
			c.min("R-ENDIAN/halves", 10)
			c.min("R-NOSIGNCAST", 1)
		})
}

func byteOrderConst(v ssa.Value) string {
	// MakeInterface(load Global LittleEndian/BigEndian) or the global itself
	for _, x := range phiInputs(v) {
		if mi, ok := x.(*ssa.MakeInterface); ok {
			x = mi.X
		}
		if u, ok := x.(*ssa.UnOp); ok {
			if g, ok := u.X.(*ssa.Global); ok && g.Pkg != nil && g.Pkg.Pkg.Path() == "encoding/binary" {
				return g.Name()
			}
		}
	}
	return ""
}

func (c *Ctx) ruleEndian() {
	sp := c.ssaPkg("pkg/scale")
	if sp == nil {
		return
	}
	c.doc("R-ENDIAN", "every (*big.Int).SetBytes whose argument comes from (*Uint128).Bytes gets the big-endian form (Bytes(binary.BigEndian)) or reversed little-endian bytes")
	n := 0
	for _, f := range allFuncs(c, sp) {
		eachInstr(f, func(_ *ssa.BasicBlock, _ int, in ssa.Instruction) {
			call, ok := in.(*ssa.Call)
			if !ok || calleeName(&call.Call) != "(*math/big.Int).SetBytes" {
				return
			}
			for _, v := range phiInputs(call.Call.Args[1]) {
				bc, ok := v.(*ssa.Call)
				if !ok || !strings.HasSuffix(calleeName(&bc.Call), "pkg/scale.Uint128).Bytes") {
					continue
				}
				n++
				// variadic order argument: slice of a 1-element array holding the order, or nil
				order := ""
				if sl, ok := bc.Call.Args[1].(*ssa.Slice); ok {
					if al, ok := sl.X.(*ssa.Alloc); ok {
						for _, r := range *al.Referrers() {
							if ia, ok := r.(*ssa.IndexAddr); ok {
								for _, r2 := range *ia.Referrers() {
									if st, ok := r2.(*ssa.Store); ok {
										order = byteOrderConst(st.Val)
									}
								}
							}
						}
					}
				}
				c.ob("R-ENDIAN", fmt.Sprintf("%s:SetBytes(Uint128.Bytes)#%d", relName(f.String()), n), call.Pos(), order == "BigEndian",
					fmt.Sprintf("%s feeds big.Int.SetBytes (big-endian) with Uint128.Bytes(%s): the default form is little-endian, so every value above 255 is misread", shortFn(f), order))
			}
		})
	}
	if n == 0 {
		c.ob("R-ENDIAN", "SetBytes(Uint128.Bytes)", token.NoPos, true, "no big.Int.SetBytes(Uint128.Bytes(..)) in the package: the decimal form is not derived from the byte form, nothing to tag (the half/sign rules below still apply)")
	}

	c.doc("R-ENDIAN/halves", "half layout: LittleEndian: bytes[0:8]=Lower, bytes[8:16]=Upper; BigEndian: bytes[0:8]=Upper, bytes[8:16]=Lower — identically in Bytes (writer), NewUint128([]byte) (reader) and NewUint128(*big.Int) (big-endian reader)")
	want := map[string]string{"LittleEndian/0": "Lower", "LittleEndian/1": "Upper", "BigEndian/0": "Upper", "BigEndian/1": "Lower"}
	halfOf := func(v ssa.Value) (int, bool) {
		sl, ok := v.(*ssa.Slice)
		if !ok {
			return 0, false
		}
		lo, hi := int64(0), int64(-1)
		if sl.Low != nil {
			lo, _ = constInt(sl.Low)
		}
		if sl.High != nil {
			hi, _ = constInt(sl.High)
		}
		if lo == 0 && hi == 8 {
			return 0, true
		}
		if lo == 8 && (hi == -1 || hi == 16) {
			return 1, true
		}
		return 0, false
	}
	// which byte order governs block b: a dominating comparison `o == binary.X` (interface comparison)
	orderAt := func(b *ssa.BasicBlock) string {
		res := ""
		for _, fc := range factsAt(b) {
			bo, ok := fc.cond.(*ssa.BinOp)
			if !ok || (bo.Op != token.EQL && bo.Op != token.NEQ) {
				continue
			}
			o := byteOrderConst(bo.Y)
			if o == "" {
				o = byteOrderConst(bo.X)
			}
			if o == "" {
				continue
			}
			eq := (bo.Op == token.EQL) == fc.truth
			if eq {
				res = o
			} else if res == "" {
				// "not BigEndian" => LittleEndian (two-valued domain, default LE)
				if o == "BigEndian" {
					res = "LittleEndian"
				} else {
					res = "BigEndian"
				}
			}
		}
		return res
	}
	// writer: Bytes
	if f := c.fn("pkg/scale", "(*Uint128).Bytes"); f != nil {
		eachInstr(f, func(b *ssa.BasicBlock, _ int, in ssa.Instruction) {
			call, ok := in.(*ssa.Call)
			if !ok || !call.Call.IsInvoke() || call.Call.Method.Name() != "PutUint64" {
				return
			}
			h, ok := halfOf(call.Call.Args[0])
			_, fv, ok2 := fieldLoad(call.Call.Args[1])
			if !ok || !ok2 {
				c.ob("R-ENDIAN/halves", "Bytes:unrecognised-PutUint64", call.Pos(), false, "PutUint64 with an unrecognised half/field")
				return
			}
			o := orderAt(b)
			k := fmt.Sprintf("%s/%d", o, h)
			c.ob("R-ENDIAN/halves", "Bytes:"+k, call.Pos(), want[k] == fv.Name(), fmt.Sprintf("Bytes(%s) writes %s into half %d, expected %s", o, fv.Name(), h, want[k]))
		})
	}
	// readers: NewUint128
	if f := c.fn("pkg/scale", "NewUint128"); f != nil {
		eachInstr(f, func(b *ssa.BasicBlock, _ int, in ssa.Instruction) {
			st, ok := in.(*ssa.Store)
			if !ok {
				return
			}
			fa, ok := st.Addr.(*ssa.FieldAddr)
			if !ok || fieldVar(fa) == nil || (fieldVar(fa).Name() != "Upper" && fieldVar(fa).Name() != "Lower") {
				return
			}
			call, ok := st.Val.(*ssa.Call)
			if !ok {
				return
			}
			fn := calleeFunc(&call.Call)
			if fn == nil || fn.Name() != "Uint64" {
				return
			}
			args := callArgs(&call.Call)
			h, ok := halfOf(args[len(args)-1])
			if !ok {
				c.ob("R-ENDIAN/halves", "NewUint128:unrecognised-half", call.Pos(), false, "Uint64 on an unrecognised half")
				return
			}
			o := ""
			if call.Call.IsInvoke() {
				o = orderAt(b) // o.Uint64 on the chosen order
				if o == "" {
					// no byte-order test dominates: the same layout is used for every order the caller passes
					for _, oo := range []string{"LittleEndian", "BigEndian"} {
						k := fmt.Sprintf("%s/%d", oo, h)
						c.ob("R-ENDIAN/halves", fmt.Sprintf("NewUint128([]byte):%s:%s", k, fieldVar(fa).Name()), call.Pos(), want[k] == fieldVar(fa).Name(),
							fmt.Sprintf("NewUint128([]byte, %s) reads %s from half %d regardless of the byte order, but Bytes(%s) writes %s there", oo, fieldVar(fa).Name(), h, oo, want[k]))
					}
					return
				}
			} else {
				// static call on binary.BigEndian / LittleEndian value
				if strings.Contains(calleeName(&call.Call), "bigEndian") {
					o = "BigEndian"
				} else {
					o = "LittleEndian"
				}
			}
			k := fmt.Sprintf("%s/%d", o, h)
			src := "[]byte"
			if !call.Call.IsInvoke() {
				src = "*big.Int"
			}
			c.ob("R-ENDIAN/halves", fmt.Sprintf("NewUint128(%s):%s", src, k), call.Pos(), want[k] == fieldVar(fa).Name(),
				fmt.Sprintf("NewUint128(%s, %s) reads %s from half %d, expected %s (the layout Bytes(%s) writes)", src, o, fieldVar(fa).Name(), h, want[k], o))
		})
	}

	c.doc("R-NOSIGNCAST", "no conversion of a value derived from the Upper/Lower fields to a signed or narrower integer type in the Uint128 methods (String, MarshalJSON, Compare, Bytes)")
	nconv := 0
	for _, f := range allFuncs(c, sp) {
		if f.Signature.Recv() == nil || !strings.HasSuffix(f.Signature.Recv().Type().String(), "scale.Uint128") {
			continue
		}
		ord := 0
		eachInstr(f, func(_ *ssa.BasicBlock, _ int, in ssa.Instruction) {
			cv, ok := in.(*ssa.Convert)
			if !ok {
				return
			}
			fromHalf := false
			for v := range backwardSlice(cv.X, nil) {
				if _, fv, ok := fieldLoad(v); ok && fv != nil && (fv.Name() == "Upper" || fv.Name() == "Lower") {
					fromHalf = true
				}
			}
			if !fromHalf {
				return
			}
			nconv++
			bt, ok := cv.Type().Underlying().(*types.Basic)
			bad := ok && bt.Info()&types.IsInteger != 0 && (bt.Info()&types.IsUnsigned == 0 || bt.Kind() == types.Uint32 || bt.Kind() == types.Uint16 || bt.Kind() == types.Uint8)
			if bad {
				ord++
				c.ob("R-NOSIGNCAST", fmt.Sprintf("%s:convert#%d", relName(f.String()), ord), cv.Pos(), false,
					fmt.Sprintf("%s converts a 64-bit half of the value to %s: halves with bit 63 set become negative/truncated, so that view denotes another number", shortFn(f), cv.Type()))
			}
		})
	}
	c.ob("R-NOSIGNCAST", "scan", token.NoPos, true, fmt.Sprintf("%d conversions of half-derived values inspected in the Uint128 methods", nconv))
	// JSON: MarshalJSON returns String(); UnmarshalJSON: SetString(.., 10) -> NewUint128
	if f := c.fn("pkg/scale", "Uint128.MarshalJSON"); f != nil {
		ok := false
		eachInstr(f, func(_ *ssa.BasicBlock, _ int, in ssa.Instruction) {
			if call, isCall := in.(*ssa.Call); isCall && strings.HasSuffix(calleeName(&call.Call), "Uint128).String") {
				ok = true
			}
		})
		c.ob("R-ENDIAN", "MarshalJSON=String", f.Pos(), ok, "the JSON form must be the decimal string")
	}
	if f := c.fn("pkg/scale", "(*Uint128).UnmarshalJSON"); f != nil {
		base10, viaNew := false, false
		eachInstr(f, func(_ *ssa.BasicBlock, _ int, in ssa.Instruction) {
			if call, isCall := in.(*ssa.Call); isCall {
				if calleeName(&call.Call) == "(*math/big.Int).SetString" {
					if k, ok := constInt(call.Call.Args[2]); ok && k == 10 {
						base10 = true
					}
				}
				if call.Call.StaticCallee() != nil && call.Call.StaticCallee().Name() == "NewUint128" {
					viaNew = true
				}
			}
		})
		c.ob("R-ENDIAN", "UnmarshalJSON=SetString10+NewUint128", f.Pos(), base10 && viaNew, "JSON decoding must parse the decimal string (base 10) and build the value through NewUint128(*big.Int)")
	}
}
