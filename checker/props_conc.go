package main

func init() {
	register("C35", "guarded-by must-hold lock dataflow on SSA (R-LOCKS L1-L5)", "Static guarded-by analysis of lrucache.LRUCache: must-hold lock dataflow over the SSA CFG of every function of the package. "+
		"Decides: every access to cache/lruList happens under the embedded RWMutex (L1), every mutation (map store/delete, container/list mutators) under the exclusive lock (L2), no re-entrant acquisition (L3), one critical section per operation (L4). "+
		"These are necessary for race-freedom and atomicity (hence linearizability) of Get/Put. Not decided: the sequential LRU semantics (eviction order, capacity accounting); container/list is trusted.",
		"container/list trusted and known to be unsynchronised; frozen guarded-by table and mutator-name table", "DESIGN.md §3 R-LOCKS; §4 C35",
		func(c *Ctx) {
			c.load("lib/utils/lru-cache", "pkg/trie/cache/inmemory")
			c.ruleLRUSeq()
			c.min("R-LRUSEQ", 4)
			c.ruleCacheTTL()
			c.min("R-TTL", 1)
			c.doc("R-LOCKS", "L1 read under lock, L2 write under exclusive lock, L3 no re-acquisition, L4 single critical section; table: LRUCache{cache,lruList} guarded by embedded sync.RWMutex")
			c.ruleLocks(lockSpec{dir: "lib/utils/lru-cache", typ: "LRUCache", guarded: []string{"cache", "lruList"}, rule: "R-LOCKS", l5: true})
			c.min("R-LOCKS/L1", 2)
			c.min("R-LOCKS/L2", 5)
			c.min("R-LOCKS/L4", 2)
			c.assume("container/list is not itself synchronised and its mutators are exactly the tabled method names")
			c.notDecides("container/list's own behaviour; ccache's batch pruning (it is never a strict LRU); values of the sequential histories beyond the shape of Get/Put (R-LRUSEQ)")
		})
	register("C34", "guarded-by must-hold lock dataflow on SSA (R-LOCKS L1-L5) + comparator truth-table evaluation + FIFO-counter/duplicate dominance rules", "Static guarded-by analysis of transaction.PriorityQueue (+ comparator table for priorityQueue.Less). "+
		"Decides: all accesses to pq/txs/currOrder are under the Mutex (L1/L2), no re-entrant locking (L3), one critical section per operation (L4), duplicates test dominates heap.Push under the same lock, Less == (priority desc, order asc). "+
		"Not decided: container/heap correctness, the full linearizability of histories (only its structural necessary conditions).",
		"container/heap trusted; frozen guarded-by table", "DESIGN.md §3 R-LOCKS, R-CMP; §4 C34",
		func(c *Ctx) {
			c.load("lib/transaction")
			c.doc("R-LOCKS", "table: PriorityQueue{pq,txs,currOrder} guarded by embedded sync.Mutex; Pool{transactions} guarded by Pool.mu (armed since the repair of D36)")
			c.ruleLocks(lockSpec{dir: "lib/transaction", typ: "PriorityQueue", guarded: []string{"pq", "txs", "currOrder"}, rule: "R-LOCKS", l5: true,
				l4Exempt: map[string]string{"(*PriorityQueue).PopWithTimer": "polling wrapper: each Pop is its own linearizable operation by design",
					"(*PriorityQueue).PopWithTimer$1": "polling goroutine: each Pop is its own linearizable operation by design"}})
			c.min("R-LOCKS/L1", 5)
			c.min("R-LOCKS/L2", 6)
			c.min("R-LOCKS/L4", 6)
			c.ruleLocks(lockSpec{dir: "lib/transaction", typ: "Pool", guarded: []string{"transactions"}, rule: "R-LOCKS-POOL", noL4: true})
			c.min("R-LOCKS-POOL/L1", 6)
			c.min("R-LOCKS-POOL/L2", 2)
			c.ruleQueue()
			c.ruleHeapIndex("lib/transaction")
			c.ruleCmpUnsignedDiff("lib/transaction", "Less")
			c.min("R-CMP/unsigned-diff", 1)
			c.min("R-HEAPINDEX", 4)
			c.min("R-FIFO", 3)
			c.min("R-DUP", 4)
			less := c.fn("lib/transaction", "priorityQueue.Less")
			if less != nil {
				c.ruleCmpTable("R-CMP/spec", "priorityQueue.Less", less, []string{"priority", "order"}, elemFieldAttr(less.Params[1:]),
					func(s map[string]int) any { return s["priority"] > 0 || (s["priority"] == 0 && s["order"] < 0) },
					"Less(i,j) <=> priority_i > priority_j || (priority_i == priority_j && order_i < order_j)")
			}
			c.min("R-CMP/spec", 9)
			c.assume("container/heap is correct; heap.Interface methods of priorityQueue are only invoked through container/heap or under the lock")
			c.notDecides("full linearizability of concurrent histories; only race-freedom/atomicity structure")
		})
}
