package main

import (
	"go/constant"
	"go/token"
	"go/types"
	"math/big"

	"golang.org/x/tools/go/ssa"
)

// A tiny interval domain over SSA integer expressions (no fixpoint over loops: phis in cycles widen to the type range).

type ivl struct {
	lo, hi *big.Int
}

func typeRange(t types.Type) (ivl, bool) {
	b, ok := t.Underlying().(*types.Basic)
	if !ok || b.Info()&types.IsInteger == 0 {
		return ivl{}, false
	}
	bits := 64
	switch b.Kind() {
	case types.Int8, types.Uint8:
		bits = 8
	case types.Int16, types.Uint16:
		bits = 16
	case types.Int32, types.Uint32:
		bits = 32
	}
	one := big.NewInt(1)
	if b.Info()&types.IsUnsigned != 0 {
		hi := new(big.Int).Lsh(one, uint(bits))
		return ivl{big.NewInt(0), hi.Sub(hi, one)}, true
	}
	hi := new(big.Int).Lsh(one, uint(bits-1))
	lo := new(big.Int).Neg(hi)
	return ivl{lo, new(big.Int).Sub(hi, one)}, true
}

func (a ivl) within(b ivl) bool { return a.lo.Cmp(b.lo) >= 0 && a.hi.Cmp(b.hi) <= 0 }

type ivlEval struct {
	memo  map[ssa.Value]ivl
	busy  map[ssa.Value]bool
	wraps map[ssa.Value]ivl // arithmetic nodes whose mathematical result may leave the type range
}

func newIvlEval() *ivlEval {
	return &ivlEval{memo: map[ssa.Value]ivl{}, busy: map[ssa.Value]bool{}, wraps: map[ssa.Value]ivl{}}
}

func (e *ivlEval) of(v ssa.Value) ivl {
	if r, ok := e.memo[v]; ok {
		return r
	}
	tr, isInt := typeRange(v.Type())
	if !isInt {
		tr = ivl{big.NewInt(-1 << 62), big.NewInt(1 << 62)}
	}
	if e.busy[v] {
		return tr
	}
	e.busy[v] = true
	defer func() { e.busy[v] = false }()
	res := tr
	switch x := v.(type) {
	case *ssa.Const:
		if x.Value != nil && x.Value.Kind() == constant.Int {
			if bi, ok := constant.Val(x.Value).(*big.Int); ok {
				res = ivl{bi, bi}
			} else if i, ok := constant.Int64Val(x.Value); ok {
				res = ivl{big.NewInt(i), big.NewInt(i)}
			}
		}
	case *ssa.Convert:
		src := e.of(x.X)
		if _, ok := typeRange(x.X.Type()); ok && src.within(tr) {
			res = src
		}
	case *ssa.ChangeType:
		res = e.of(x.X)
	case *ssa.Phi:
		var lo, hi *big.Int
		for _, ed := range x.Edges {
			r := e.of(ed)
			if lo == nil || r.lo.Cmp(lo) < 0 {
				lo = r.lo
			}
			if hi == nil || r.hi.Cmp(hi) > 0 {
				hi = r.hi
			}
		}
		if lo != nil {
			res = ivl{lo, hi}
		}
	case *ssa.Call:
		if b, ok := x.Call.Value.(*ssa.Builtin); ok && (b.Name() == "len" || b.Name() == "cap") {
			res = ivl{big.NewInt(0), tr.hi}
			// len of a fixed-size array
			if a, ok := x.Call.Args[0].Type().Underlying().(*types.Array); ok {
				res = ivl{big.NewInt(a.Len()), big.NewInt(a.Len())}
			}
		}
	case *ssa.BinOp:
		a, b := e.of(x.X), e.of(x.Y)
		var m ivl
		ok := true
		switch x.Op {
		case token.ADD:
			m = ivl{new(big.Int).Add(a.lo, b.lo), new(big.Int).Add(a.hi, b.hi)}
		case token.SUB:
			m = ivl{new(big.Int).Sub(a.lo, b.hi), new(big.Int).Sub(a.hi, b.lo)}
		case token.MUL:
			c := []*big.Int{new(big.Int).Mul(a.lo, b.lo), new(big.Int).Mul(a.lo, b.hi), new(big.Int).Mul(a.hi, b.lo), new(big.Int).Mul(a.hi, b.hi)}
			m = ivl{c[0], c[0]}
			for _, k := range c {
				if k.Cmp(m.lo) < 0 {
					m.lo = k
				}
				if k.Cmp(m.hi) > 0 {
					m.hi = k
				}
			}
		case token.QUO:
			if a.lo.Sign() >= 0 && b.lo.Sign() > 0 {
				m = ivl{new(big.Int).Quo(a.lo, b.hi), new(big.Int).Quo(a.hi, b.lo)}
			} else {
				ok = false
			}
		case token.REM:
			if a.lo.Sign() >= 0 && b.lo.Sign() > 0 {
				hi := new(big.Int).Sub(b.hi, big.NewInt(1))
				if a.hi.Cmp(hi) < 0 {
					hi = a.hi
				}
				m = ivl{big.NewInt(0), hi}
			} else {
				ok = false
			}
		case token.SHR:
			if a.lo.Sign() >= 0 && b.lo.Sign() >= 0 && b.lo.IsInt64() && b.hi.IsInt64() && b.hi.Int64() < 256 {
				m = ivl{new(big.Int).Rsh(a.lo, uint(b.hi.Int64())), new(big.Int).Rsh(a.hi, uint(b.lo.Int64()))}
			} else {
				ok = false
			}
		case token.SHL:
			if a.lo.Sign() >= 0 && b.lo.Sign() >= 0 && b.hi.IsInt64() && b.hi.Int64() < 256 {
				m = ivl{new(big.Int).Lsh(a.lo, uint(b.lo.Int64())), new(big.Int).Lsh(a.hi, uint(b.hi.Int64()))}
			} else {
				ok = false
			}
		case token.AND:
			if a.lo.Sign() >= 0 && b.lo.Sign() >= 0 {
				hi := a.hi
				if b.hi.Cmp(hi) < 0 {
					hi = b.hi
				}
				m = ivl{big.NewInt(0), hi}
			} else if b.lo.Sign() >= 0 {
				m = ivl{big.NewInt(0), b.hi}
			} else if a.lo.Sign() >= 0 {
				m = ivl{big.NewInt(0), a.hi}
			} else {
				ok = false
			}
		default:
			ok = false
		}
		if ok && isInt {
			if m.within(tr) {
				res = m
			} else {
				e.wraps[v] = m
			}
		}
	}
	e.memo[v] = res
	return res
}

// exprNodes collects the arithmetic expression tree feeding v (through conversions, phis and binops).
func exprNodes(v ssa.Value, seen map[ssa.Value]bool, out *[]ssa.Value) {
	if seen[v] {
		return
	}
	seen[v] = true
	*out = append(*out, v)
	switch x := v.(type) {
	case *ssa.Convert:
		exprNodes(x.X, seen, out)
	case *ssa.ChangeType:
		exprNodes(x.X, seen, out)
	case *ssa.BinOp:
		exprNodes(x.X, seen, out)
		exprNodes(x.Y, seen, out)
	case *ssa.Phi:
		for _, e := range x.Edges {
			exprNodes(e, seen, out)
		}
	}
}
