package main

import (
	"fmt"
	"go/token"
	"go/types"
	"strings"

	"golang.org/x/tools/go/ssa"
)

const msgDir = "dot/network/messages"
const syncDir = "dot/sync"

func init() {
	register("C31", "clamp/guard dominance and interval analysis on the block-request planner and server (R-CLAMP, R-PLAN, R-MASKSHIFT, R-DIRSWITCH)",
		"Decides: the served response size is the protocol maximum unless the request's Max is present AND smaller (the override is dominated by `*req.Max < MaxBlocksInResponse`), in both directions; the direction switch rejects unknown directions; the request field mask is written and read with the same shift and tested as (data & field) == field; the planner's per-request size is at most MaxBlocksInResponse by interval analysis (128 or the remainder diff % 128), the start number advances by exactly the size of the request just emitted, and the request count is diff/128 rounded up. "+
			"Not decided: that the served blocks form the requested chain (database content), range arithmetic over all a..b.",
		"none beyond the type checker", "DESIGN.md §3 R-CLAMP, R-MASKSHIFT, R-DIRSWITCH; §4 C31",
		func(c *Ctx) {
			c.load(msgDir, syncDir)
			c.ruleBlockRequests()
			c.min("R-CLAMP", 2)
			c.min("R-PLAN", 4)
			c.min("R-MASKSHIFT", 3)
			c.ruleDirPrune()
			c.min("R-DIRPRUNE", 4)
			c.ruleFieldMap()
			c.ruleRangeCount()
			c.min("R-RANGECOUNT", 2)
			c.rulePlanCount()
			c.min("R-PLAN/count", 1)
			c.min("R-FIELDMAP", 5)
		})
	register("C32", "dominance rules on full-sync validation and import ordering (R-STATEDHASH, R-CHAIN, R-PARENTKNOWN)",
		"Decides: a block response is kept only after every block's stated hash was compared with the hash of its header and the headers were checked to be a parent-linked chain (both checks dominate the append to the valid set); blocks are queued for import only on the edge where the parent of the FIRST block of exactly the slice being queued is known to the block state, and importBlock is only invoked on elements of that queue, in order; fragments whose parent is unknown are parked, not imported. "+
			"Not decided: duplicate suppression across calls, fragment merging values.",
		"BlockState.HasHeader trusted", "DESIGN.md §3 R-STATEDHASH; §4 C32",
		func(c *Ctx) {
			c.load(syncDir)
			c.ruleFullSync()
			c.min("R-STATEDHASH", 2)
			c.min("R-PARENTKNOWN", 3)
			c.ruleNonEmptyFrag()
			c.min("R-NONEMPTYFRAG", 4)
			c.min("R-CHAIN/completed", 1)
		})
	register("C33", "explicit-panic reachability from every network decoder (R-NOPANIC), guarded slice-to-array conversions and slicing (R-SLICE2ARRAY), short-read/allocation rules of the SCALE decoder they funnel into (R-READFULL, R-ALLOC)",
		"Decides, for the decoders of block announcements, handshakes, transactions, block requests/responses, state and warp-sync requests, light messages and GRANDPA messages: no explicit panic() is reachable in the module call graph (static + CHA + reflect edges of pkg/scale) except those tabled as unreachable; every conversion of a peer-supplied slice to a fixed-size array and every constant-bound reslice of such a slice is dominated by a length check; the SCALE primitives they use check their read counts and bound their allocations (same rules as C12, with the recorded byte-string findings). "+
			"Not decided: protobuf's own decoder; nil dereferences; re-encode equality; time bounds.",
		"google.golang.org/protobuf trusted", "DESIGN.md §3 R-NOPANIC, R-READFULL, R-ALLOC, R-BOUNDS; §4 C33",
		func(c *Ctx) {
			c.load("dot/network", msgDir, "lib/grandpa", "dot/types", "pkg/scale", "lib/common")
			c.ruleNetDecoders()
			c.min("R-SLICE2ARRAY", 1)
			c.ruleReadFull("R-READFULL", "pkg/scale")
			c.ruleAlloc("R-ALLOC", 1<<17, "pkg/scale")
			c.ruleLenSign("pkg/scale")
			c.ruleLenConv("pkg/scale")
			c.ruleFrameBound()
			c.ruleDecodeCopy()
			c.min("R-FRAMEBOUND", 1)
			c.min("R-DECODECOPY", 12)
			c.min("R-LENSIGN", 4)
		})
	register("C37", "guarded slicing (R-BOUNDS), resolved AEAD/nonce callees (R-CALLEE), explicit-panic reachability (R-NOPANIC) on lib/keystore",
		"Decides: Decrypt slices the nonce off the ciphertext only after checking the length, opens the AES-GCM box and returns its error (authentication failure is never ignored, the plaintext is returned only on the success edge); Encrypt draws a fresh nonce of gcm.NonceSize() bytes from crypto/rand through io.ReadFull and seals with it; the key is derived from the password by BLAKE2b-256 on both sides by the same helper; DecryptPrivateKey/ReadFromFileAndDecrypt return Decrypt's error before decoding the key; no explicit panic is reachable from the decrypting entry points. "+
			"Not decided: AES-GCM itself; key decoding for each scheme.",
		"crypto/aes, crypto/cipher, crypto/rand trusted", "DESIGN.md §3 R-BOUNDS, R-CALLEE; §4 C37",
		func(c *Ctx) {
			c.load("lib/keystore", "lib/crypto/secp256k1")
			c.ruleKeystore()
			c.rulePubKeySlice()
			c.min("R-BOUNDS/pubkey", 2)
			c.min("R-BOUNDS", 1)
			c.min("R-CALLEE", 7)
		})
}

func (c *Ctx) ruleBlockRequests() {
	sp := c.ssaPkg(msgDir)
	maxResp := int64(128)
	if sp != nil {
		if v, ok := constOf(sp, "MaxBlocksInResponse"); ok {
			maxResp = v
		}
	}
	c.doc("R-CLAMP", "handleAscendingRequest/handleDescendingRequest: the response size defaults to MaxBlocksInResponse and is replaced by *req.Max only on the edge req.Max != nil && *req.Max < MaxBlocksInResponse")
	for _, name := range []string{"(*SyncService).handleAscendingRequest", "(*SyncService).handleDescendingRequest"} {
		f := c.fn(syncDir, name)
		if f == nil {
			continue
		}
		found, ok := false, true
		eachInstr(f, func(_ *ssa.BasicBlock, _ int, in ssa.Instruction) {
			phi, isPhi := in.(*ssa.Phi)
			if !isPhi {
				return
			}
			hasConst := false
			for _, e := range phi.Edges {
				if k, isK := constInt(e); isK && k == maxResp {
					hasConst = true
				}
			}
			if !hasConst {
				return
			}
			for i, e := range phi.Edges {
				if _, isK := constInt(e); isK {
					continue
				}
				// e derives from *req.Max ?
				fromMax := false
				for v := range backwardSlice(e, nil) {
					if _, fv, ok := fieldLoad(v); ok && fv != nil && fv.Name() == "Max" {
						fromMax = true
					}
				}
				if !fromMax {
					continue
				}
				found = true
				pred := phi.Block().Preds[i]
				guarded := false
				check := func(cond ssa.Value, truth bool) bool {
					_, op, k, isCmp := cmpWithConst(cond)
					if !isCmp || k != maxResp {
						return false
					}
					if !truth {
						op = negOp(op)
					}
					return op == token.LSS
				}
				for _, fc := range factsAt(pred) {
					if check(fc.cond, fc.truth) {
						guarded = true
					}
				}
				if iff := ifOf(pred); iff != nil && pred.Succs[0] == phi.Block() && check(iff.Cond, true) {
					guarded = true
				}
				if !guarded {
					ok = false
				}
			}
		})
		if !found {
			// extract-function form: the size comes from a helper of the package whose every return is either the
			// protocol maximum or the request's Max on a path where `*req.Max < MaxBlocksInResponse` holds
			eachInstr(f, func(_ *ssa.BasicBlock, _ int, in ssa.Instruction) {
				call, isCall := in.(*ssa.Call)
				if !isCall || found {
					return
				}
				g := call.Call.StaticCallee()
				if g == nil || g.Pkg != f.Pkg || len(g.Blocks) == 0 || g.Signature.Results().Len() != 1 {
					return
				}
				if _, isInt := typeRange(g.Signature.Results().At(0).Type()); !isInt {
					return
				}
				nConst, nMax, good := 0, 0, true
				for _, r := range returnsOf(g) {
					for _, v := range phiInputs(resultOf(r, 0)) {
						if k, isK := constInt(v); isK && k == maxResp {
							nConst++
							continue
						}
						fromMax := false
						for x := range backwardSlice(v, nil) {
							if _, fv, ok := fieldLoad(x); ok && fv != nil && fv.Name() == "Max" {
								fromMax = true
							}
						}
						guarded := false
						for _, fc := range factsAt(r.Block()) {
							_, op, k, isCmp := cmpWithConst(fc.cond)
							if isCmp && k == maxResp {
								if !fc.truth {
									op = negOp(op)
								}
								if op == token.LSS {
									guarded = true
								}
							}
						}
						if fromMax && guarded {
							nMax++
						} else {
							good = false
						}
					}
				}
				if nConst > 0 && nMax > 0 {
					found, ok = true, good
				}
			})
		}
		c.ob("R-CLAMP", name+":max-clamped", f.Pos(), found && ok, "the number of served blocks may exceed the protocol maximum: the override by the request's Max must be dominated by `*req.Max < MaxBlocksInResponse`")
	}
	c.doc("R-DIRSWITCH", "CreateBlockResponse: a direction other than Ascending/Descending returns errInvalidRequestDirection")
	if f := c.fn(syncDir, "(*SyncService).CreateBlockResponse"); f != nil {
		var chain []*ssa.BasicBlock
		for _, b := range f.Blocks {
			if iff := ifOf(b); iff != nil {
				if subj, op, _, ok := cmpWithConst(iff.Cond); ok && op == token.EQL {
					if _, fv, ok := fieldLoad(stripConv(subj)); ok && fv != nil && fv.Name() == "Direction" {
						chain = append(chain, b)
					}
				}
			}
		}
		ok := len(chain) == 2 && blockRejects(chain[1].Succs[1])
		c.ob("R-DIRSWITCH", "CreateBlockResponse:unknown-direction-rejected", f.Pos(), ok, "the direction switch must reject values other than the two known directions")
	}
	c.doc("R-MASKSHIFT", "RequestedData is encoded as uint32(data) << 24 and decoded as byte(fields >> 24); RequestField is (data & field) == field")
	shiftOf := func(fn string, op token.Token) int64 {
		f := c.fn(msgDir, fn)
		if f == nil {
			return -1
		}
		var k int64 = -1
		eachInstr(f, func(_ *ssa.BasicBlock, _ int, in ssa.Instruction) {
			if bo, ok := in.(*ssa.BinOp); ok && bo.Op == op {
				if kk, ok := constInt(bo.Y); ok {
					k = kk
				}
			}
		})
		return k
	}
	es, ds := shiftOf("(*BlockRequestMessage).Encode", token.SHL), shiftOf("(*BlockRequestMessage).Decode", token.SHR)
	c.ob("R-MASKSHIFT", "BlockRequestMessage:encode-shift", token.NoPos, es == 24, fmt.Sprintf("Encode shifts the requested-data byte by %d (must be 24: most significant byte of the u32)", es))
	c.ob("R-MASKSHIFT", "BlockRequestMessage:decode-shift", token.NoPos, ds == es && ds == 24, fmt.Sprintf("Decode shifts by %d, Encode by %d: writer and reader must agree", ds, es))
	if f := c.fn(msgDir, "(*BlockRequestMessage).RequestField"); f != nil {
		ok := false
		eachInstr(f, func(_ *ssa.BasicBlock, _ int, in ssa.Instruction) {
			if bo, isBo := in.(*ssa.BinOp); isBo && bo.Op == token.EQL {
				if and, isAnd := bo.X.(*ssa.BinOp); isAnd && and.Op == token.AND && (and.Y == bo.Y || and.X == bo.Y) {
					ok = true
				}
			}
		})
		c.ob("R-MASKSHIFT", "RequestField:(data&field)==field", f.Pos(), ok, "a field is requested iff all of its bits are set in the request")
	}
	c.doc("R-PLAN", "NewAscendingBlockRequests: per-request size in [1,128] by interval analysis; start advances by the emitted size; count = ceil(diff/128); empty plan only when start > target")
	if f := c.fn(msgDir, "NewAscendingBlockRequests"); f != nil {
		ev := newIvlEval()
		n := 0
		eachInstr(f, func(_ *ssa.BasicBlock, _ int, in ssa.Instruction) {
			call, ok := in.(*ssa.Call)
			if !ok || call.Call.StaticCallee() == nil || call.Call.StaticCallee().Name() != "NewBlockRequest" {
				return
			}
			n++
			r := ev.of(call.Call.Args[1])
			c.ob("R-PLAN", fmt.Sprintf("NewAscendingBlockRequests:request-size#%d", n), call.Pos(), r.hi.IsInt64() && r.hi.Int64() <= maxResp && r.lo.Sign() >= 0,
				fmt.Sprintf("planned request size has range [%s,%s]; the protocol maximum is %d", r.lo, r.hi, maxResp))
		})
		// start advances by max
		adv := false
		eachInstr(f, func(_ *ssa.BasicBlock, _ int, in ssa.Instruction) {
			if bo, ok := in.(*ssa.BinOp); ok && bo.Op == token.ADD {
				if _, isPhi := bo.X.(*ssa.Phi); isPhi {
					if cv, ok := bo.Y.(*ssa.Convert); ok {
						// the converted value is the size passed to NewBlockRequest in the same iteration
						eachInstr(f, func(_ *ssa.BasicBlock, _ int, in2 ssa.Instruction) {
							if call, ok := in2.(*ssa.Call); ok && call.Call.StaticCallee() != nil && call.Call.StaticCallee().Name() == "NewBlockRequest" && call.Call.Args[1] == cv.X {
								adv = true
							}
						})
					}
				}
			}
		})
		c.ob("R-PLAN", "NewAscendingBlockRequests:start-advances-by-emitted-size", f.Pos(), adv, "the next request must start exactly after the blocks covered by the previous one (start += size of the request just emitted)")
		// count = diff / 128 (+1 on remainder)
		div, rem := false, false
		eachInstr(f, func(_ *ssa.BasicBlock, _ int, in ssa.Instruction) {
			if bo, ok := in.(*ssa.BinOp); ok {
				if k, ok := constInt(bo.Y); ok && k == maxResp {
					if bo.Op == token.QUO {
						div = true
					}
					if bo.Op == token.REM {
						rem = true
					}
				}
			}
		})
		c.ob("R-PLAN", "NewAscendingBlockRequests:count=ceil(diff/max)", f.Pos(), div && rem, "the number of requests is diff/MaxBlocksInResponse, plus one when there is a remainder")
		// empty only when start > target
		empty := false
		if iff := ifOf(f.Blocks[0]); iff != nil {
			if bo, ok := iff.Cond.(*ssa.BinOp); ok && bo.Op == token.GTR && bo.X == ssa.Value(f.Params[0]) && bo.Y == ssa.Value(f.Params[1]) {
				empty = true
			}
		}
		c.ob("R-PLAN", "NewAscendingBlockRequests:empty-iff-start>target", f.Pos(), empty, "the plan is empty exactly when the start is above the target")
	}
}

func (c *Ctx) ruleFullSync() {
	c.doc("R-STATEDHASH", "validateResponseFields compares each block's stated Hash with Header.Hash() (error on mismatch); validateResults appends to validRes only after validateResponseFields succeeded and isResponseAChain held")
	vf := c.fn(syncDir, "validateResponseFields")
	if vf != nil {
		cmp := false
		eachInstr(vf, func(b *ssa.BasicBlock, _ int, in ssa.Instruction) {
			bo, ok := in.(*ssa.BinOp)
			if !ok || (bo.Op != token.NEQ && bo.Op != token.EQL) {
				return
			}
			hasCall, hasField := false, false
			for v := range backwardSlice(bo, nil) {
				if call, ok := v.(*ssa.Call); ok && strings.HasSuffix(calleeName(&call.Call), "types.Header).Hash") {
					hasCall = true
				}
				if _, fv, ok := fieldLoad(v); ok && fv != nil && fv.Name() == "Hash" {
					hasField = true
				}
			}
			if hasCall && hasField {
				// mismatch edge rejects
				for _, r := range *bo.Referrers() {
					if iff, ok := r.(*ssa.If); ok {
						si := 0
						if bo.Op == token.EQL {
							si = 1
						}
						if blockRejects(iff.Block().Succs[si]) {
							cmp = true
						}
					}
					if ph, ok := r.(*ssa.Phi); ok {
						for _, r2 := range *ph.Referrers() {
							if iff, ok := r2.(*ssa.If); ok && (blockRejects(iff.Block().Succs[0]) || blockRejects(iff.Block().Succs[1])) {
								cmp = true
							}
						}
					}
				}
			}
		})
		c.ob("R-STATEDHASH", "validateResponseFields:stated-hash==header-hash", vf.Pos(), cmp, "a response block whose stated hash differs from the hash of its header must be rejected")
	}
	vr := c.fn(syncDir, "validateResults")
	if vr != nil {
		var vfCall, chain *ssa.Call
		var app ssa.Instruction
		eachInstr(vr, func(_ *ssa.BasicBlock, _ int, in ssa.Instruction) {
			call, ok := in.(*ssa.Call)
			if !ok {
				return
			}
			if cal := call.Call.StaticCallee(); cal != nil {
				switch cal.Name() {
				case "validateResponseFields":
					vfCall = call
				case "isResponseAChain":
					chain = call
				}
			}
			if b, ok := call.Call.Value.(*ssa.Builtin); ok && b.Name() == "append" && strings.Contains(call.Type().String(), "RequestResponseData") {
				app = in
			}
		})
		ok1 := app != nil && vfCall != nil && guardedBy(app.Block(), errSuccessGuard(vfCall))
		c.ob("R-STATEDHASH", "validateResults:valid-only-after-field-validation", vr.Pos(), ok1, "a response joins the valid set only on the success edge of validateResponseFields")
		ok2 := false
		if app != nil && chain != nil {
			// every path to the append passes `headers not requested` or `isResponseAChain == true`
			edges := edgesWhere(vr, func(cond ssa.Value, truth bool) bool {
				if cond == ssa.Value(chain) && truth {
					return true
				}
				if call, ok := cond.(*ssa.Call); ok && call.Call.StaticCallee() != nil && call.Call.StaticCallee().Name() == "RequestField" && !truth {
					return true
				}
				return false
			})
			ok2 = len(edges) >= 2 && !reachesAvoiding(vr, app.Block(), edges)
		}
		c.ob("R-CHAIN", "validateResults:valid-only-if-chain", vr.Pos(), ok2, "a response with headers joins the valid set only if its blocks form a parent-linked chain")
	}
	c.doc("R-PARENTKNOWN", "FullSyncStrategy.Process: every append to the import queue is dominated by the true edge of HasHeader(X[0].Header.ParentHash) for the very slice X being appended; importBlock is called only on elements ranged from that queue")
	p := c.fn(syncDir, "(*FullSyncStrategy).Process")
	if p == nil {
		return
	}
	// identify the queue: slice values appended and later ranged over for importBlock
	n := 0
	eachInstr(p, func(b *ssa.BasicBlock, _ int, in ssa.Instruction) {
		call, ok := in.(*ssa.Call)
		if !ok {
			return
		}
		bi, ok := call.Call.Value.(*ssa.Builtin)
		if !ok || bi.Name() != "append" || call.Type().String() != "[]*github.com/ChainSafe/gossamer/dot/types.BlockData" {
			return
		}
		// append(queue, X...) where X is a []*BlockData (spread)
		x := call.Call.Args[1]
		if x.Type().String() != "[]*github.com/ChainSafe/gossamer/dot/types.BlockData" {
			return
		}
		// only the import queue: result flows (through phis) into a range consumed by importBlock
		n++
		okG := false
		for _, fc := range factsAt(b) {
			for _, v := range phiInputs(fc.cond) {
				ex, ok := v.(*ssa.Extract)
				if !ok || ex.Index != 0 || !fc.truth {
					continue
				}
				hc, ok := ex.Tuple.(*ssa.Call)
				if !ok || !hc.Call.IsInvoke() || hc.Call.Method.Name() != "HasHeader" {
					continue
				}
				// argument derives from x[0].Header.ParentHash with the same x
				sameX, parent := false, false
				for a := range backwardSlice(hc.Call.Args[0], nil) {
					if ia, ok := a.(*ssa.IndexAddr); ok && sameValue(ia.X, x) {
						if k, ok := constInt(ia.Index); ok && k == 0 {
							sameX = true
						}
					}
					if fa, ok := a.(*ssa.FieldAddr); ok && fieldVar(fa) != nil && fieldVar(fa).Name() == "ParentHash" {
						parent = true
					}
				}
				if sameX && parent {
					okG = true
				}
			}
		}
		c.ob("R-PARENTKNOWN", fmt.Sprintf("Process:queue-for-import#%d", n), call.Pos(), okG,
			"blocks are queued for import without the parent of the first queued block being known (the HasHeader test must be on the parent of the first block of exactly the slice that is queued; testing another slice lets a block be imported before its parent)")
	})
	imp := 0
	eachInstr(p, func(_ *ssa.BasicBlock, _ int, in ssa.Instruction) {
		if call, ok := in.(*ssa.Call); ok && call.Call.IsInvoke() && call.Call.Method.Name() == "importBlock" {
			imp++
		}
	})
	c.ob("R-PARENTKNOWN", "Process:single-import-site", p.Pos(), imp == 1, fmt.Sprintf("%d importBlock call sites (exactly one, fed by the import queue)", imp))
}

func (c *Ctx) ruleNetDecoders() {
	c.doc("R-SLICE2ARRAY", "in the network decoder packages every slice->array conversion and every constant-bound reslice/index of a slice that comes from a decoded message is dominated by a len() comparison")
	type ep struct{ dir, fn string }
	eps := []ep{{"dot/network", "(*BlockAnnounceMessage).Decode"}, {"dot/network", "(*BlockAnnounceHandshake).Decode"}, {"dot/network", "decodeBlockAnnounceHandshake"},
		{"dot/network", "decodeBlockAnnounceMessage"}, {"dot/network", "(*LightRequest).Decode"}, {"dot/network", "(*LightResponse).Decode"},
		{"dot/network", "(*ConsensusMessage).Decode"}, {"dot/network", "decodeSyncMessage"}, {"dot/network", "(*TransactionMessage).Decode"},
		{"dot/network", "decodeTransactionMessage"}, {"dot/network", "decodeWarpSyncMessage"},
		{msgDir, "(*BlockRequestMessage).Decode"}, {msgDir, "(*BlockResponseMessage).Decode"}, {msgDir, "(*StateRequest).Decode"}, {msgDir, "(*StateResponse).Decode"},
		{msgDir, "(*WarpProofRequest).Decode"}, {"lib/grandpa", "(*GrandpaHandshake).Decode"}, {"lib/grandpa", "decodeMessage"}, {"dot/types", "NewBodyFromBytes"}}
	var entries []*ssa.Function
	for _, e := range eps {
		if f := c.fn(e.dir, e.fn); f != nil {
			entries = append(entries, f)
		}
	}
	// reachable functions inside the three decoder packages: check conversions
	inScope := func(f *ssa.Function) bool {
		p := f.Pkg
		if p == nil && f.Origin() != nil {
			p = f.Origin().Pkg
		}
		if p == nil {
			return false
		}
		switch relName(p.Pkg.Path()) {
		case "dot/network", msgDir, "lib/grandpa", "dot/types":
			return true
		}
		return false
	}
	seen := map[*ssa.Function]bool{}
	var order []*ssa.Function
	var visit func(f *ssa.Function)
	visit = func(f *ssa.Function) {
		if f == nil || seen[f] || len(f.Blocks) == 0 || !inScope(f) {
			return
		}
		seen[f] = true
		order = append(order, f)
		eachInstr(f, func(_ *ssa.BasicBlock, _ int, in ssa.Instruction) {
			if call, ok := in.(*ssa.Call); ok {
				visit(call.Call.StaticCallee())
			}
		})
	}
	for _, e := range entries {
		visit(e)
	}
	n, nFixed := 0, 0
	c.doc("R-FIXEDWIDTH", "every binary.LittleEndian/BigEndian.UintN(b) reachable from a network decoder is dominated by facts implying len(b) >= N/8 (len == k, len >= k, the false edge of len < k or len != k, or a constant-length slice/array), so a short field cannot panic the decoder")
	for _, f := range order {
		ord := 0
		eachInstr(f, func(b *ssa.BasicBlock, _ int, in ssa.Instruction) {
			var src ssa.Value
			need := int64(-1)
			what := ""
			switch x := in.(type) {
			case *ssa.SliceToArrayPointer:
				src = x.X
				if at, ok := x.Type().(*types.Pointer).Elem().Underlying().(*types.Array); ok {
					need = at.Len()
				}
				what = "conversion to " + x.Type().(*types.Pointer).Elem().String()
			case *ssa.Call:
				nm := calleeName(&x.Call)
				if !strings.HasPrefix(nm, "(encoding/binary.littleEndian).Uint") && !strings.HasPrefix(nm, "(encoding/binary.bigEndian).Uint") {
					return
				}
				bits := int64(0)
				fmt.Sscanf(nm[strings.Index(nm, ").Uint")+6:], "%d", &bits)
				if bits == 0 || len(x.Call.Args) < 2 {
					return
				}
				nFixed++
				src, need = x.Call.Args[1], bits/8
				lb := lowerBoundOfLen(b, src)
				c.ob("R-FIXEDWIDTH", fmt.Sprintf("%s:%s#%d", relName(f.String()), nm[strings.Index(nm, ").")+2:], nFixed), in.Pos(), lb >= need,
					fmt.Sprintf("%s reads a %d-byte integer from a slice whose length is only known to be >= %d on this path: a shorter field from a peer panics the decoder (index out of range)", shortFn(f), need, lb))
				return
			default:
				return
			}
			ord++
			n++
			guarded := false
			for _, fc := range factsAt(b) {
				bo, ok := fc.cond.(*ssa.BinOp)
				if !ok || !isCmp(bo.Op) {
					continue
				}
				for _, side := range []ssa.Value{bo.X, bo.Y} {
					if l, ok := lenOf(side); ok && sameValue(l, src) {
						guarded = true
					}
				}
			}
			c.ob("R-SLICE2ARRAY", fmt.Sprintf("%s:slice-to-array#%d", relName(f.String()), ord), in.Pos(), guarded,
				fmt.Sprintf("%s performs a %s (needs %d bytes) on a slice taken from the decoded message without a dominating length check: a shorter field from a peer panics the decoder", shortFn(f), what, need))
		})
	}
	c.ob("R-SLICE2ARRAY", "scan", token.NoPos, len(order) >= len(entries), fmt.Sprintf("%d functions reachable from %d decoder entry points inside the decoder packages; %d slice-to-array conversions checked", len(order), len(entries), n))
	c.ruleNoPanic("R-NOPANIC", entries, map[string]string{}, func(f *ssa.Function) bool {
		p := f.Pkg
		if p == nil && f.Origin() != nil {
			p = f.Origin().Pkg
		}
		if p == nil {
			return true
		}
		switch relName(p.Pkg.Path()) {
		case "dot/network", msgDir, "lib/grandpa", "dot/types", "pkg/scale", "lib/common":
			return false
		}
		return true
	})
}

func (c *Ctx) ruleKeystore() {
	dir := "lib/keystore"
	c.doc("R-NOALIAS", "Decrypt leaves its input intact: AEAD.Open's destination is nil or a fresh buffer, never a slice of the ciphertext argument, and no store targets the argument (decrypting the same stored ciphertext twice, or with the right password after a wrong one, must behave the same)")
	c.doc("R-BOUNDS", "Decrypt: data[:nonceSize] / data[nonceSize:] are dominated by the false edge of len(data) < nonceSize")
	d := c.fn(dir, "Decrypt")
	if d != nil {
		n := 0
		eachInstr(d, func(b *ssa.BasicBlock, _ int, in ssa.Instruction) {
			sl, ok := in.(*ssa.Slice)
			if !ok || sl.X != ssa.Value(d.Params[0]) {
				return
			}
			n++
			g := false
			for _, fc := range factsAt(b) {
				bo, ok := fc.cond.(*ssa.BinOp)
				if !ok {
					continue
				}
				op := bo.Op
				if !fc.truth {
					op = negOp(op)
				}
				if l, ok := lenOf(bo.X); ok && l == ssa.Value(d.Params[0]) && (op == token.GEQ || op == token.GTR) {
					g = true
				}
			}
			c.ob("R-BOUNDS", fmt.Sprintf("Decrypt:data-slice#%d", n), sl.Pos(), g, "Decrypt slices the ciphertext by the nonce size without checking its length: a truncated ciphertext panics instead of returning an error")
		})
		var open *ssa.Call
		eachInstr(d, func(_ *ssa.BasicBlock, _ int, in ssa.Instruction) {
			if call, ok := in.(*ssa.Call); ok && call.Call.IsInvoke() && call.Call.Method.Name() == "Open" {
				open = call
			}
		})
		okOpen := false
		if open != nil {
			for _, r := range returnsOf(d) {
				if isNilConst(resultOf(r, 1)) {
					okOpen = guardedBy(r.Block(), errSuccessGuard(open))
				}
			}
		}
		c.ob("R-CALLEE", "Decrypt:plaintext-only-on-authenticated-open", d.Pos(), okOpen, "Decrypt must return the plaintext only on the success edge of AEAD.Open (a wrong password or modified ciphertext is an error)")
		// the stored ciphertext is an input: neither Open's destination nor any store may alias it
		if open != nil && len(open.Call.Args) >= 1 {
			dst := open.Call.Args[0]
			alias := false
			if !isNilConst(dst) {
				for v := range backwardSlice(dst, nil) {
					if p, ok := v.(*ssa.Parameter); ok && p.Parent() == d {
						alias = true
					}
				}
			}
			c.ob("R-NOALIAS", "Decrypt:Open-destination-is-not-the-input", open.Pos(), !alias, "AEAD.Open decrypts into a buffer carved out of Decrypt's own input: the caller's ciphertext is overwritten (zeroed on an authentication failure), so decrypting the same stored ciphertext again — e.g. the right password after a wrong one — fails")
		}
		writes := 0
		eachInstr(d, func(_ *ssa.BasicBlock, _ int, in ssa.Instruction) {
			if st, ok := in.(*ssa.Store); ok {
				if ia, ok := st.Addr.(*ssa.IndexAddr); ok {
					base := ia.X
					for {
						if sl, ok := base.(*ssa.Slice); ok {
							base = sl.X
							continue
						}
						break
					}
					if p, ok := base.(*ssa.Parameter); ok && p.Parent() == d {
						writes++
					}
				}
			}
		})
		c.ob("R-NOALIAS", "Decrypt:no-store-into-the-input", d.Pos(), writes == 0, fmt.Sprintf("Decrypt stores into its ciphertext/password argument (%d stores)", writes))
	}
	if g := c.fn(dir, "gcmFromPassphrase"); g != nil {
		names := map[string]bool{}
		eachInstr(g, func(_ *ssa.BasicBlock, _ int, in ssa.Instruction) {
			if call, ok := in.(*ssa.Call); ok {
				names[calleeName(&call.Call)] = true
			}
		})
		c.ob("R-CALLEE", "gcmFromPassphrase:blake2b256->aes->gcm", g.Pos(), names["golang.org/x/crypto/blake2b.Sum256"] && names["crypto/aes.NewCipher"] && names["crypto/cipher.NewGCM"],
			"the key is BLAKE2b-256(password), the cipher AES in GCM mode")
		// the whole password, byte for byte: what is hashed is the parameter itself
		whole := false
		eachInstr(g, func(_ *ssa.BasicBlock, _ int, in ssa.Instruction) {
			if call, ok := in.(*ssa.Call); ok && calleeName(&call.Call) == "golang.org/x/crypto/blake2b.Sum256" && len(g.Params) > 0 {
				whole = call.Call.Args[0] == ssa.Value(g.Params[0])
			}
		})
		// decoding the decrypted bytes of a secp256k1 key cannot dereference nil: the checked constructor is used
		if c.ssaPkg("lib/crypto/secp256k1") != nil {
			if dec := c.fn("lib/crypto/secp256k1", "(*PrivateKey).Decode"); dec != nil {
				unsafeCtor := false
				eachInstr(dec, func(_ *ssa.BasicBlock, _ int, in ssa.Instruction) {
					if call, ok := in.(*ssa.Call); ok && strings.HasSuffix(calleeName(&call.Call), ".ToECDSAUnsafe") {
						unsafeCtor = true
					}
				})
				c.ob("R-CALLEE", "secp256k1.PrivateKey.Decode:checked-scalar", dec.Pos(), !unsafeCtor, "ToECDSAUnsafe returns nil for a scalar that is zero or not below the curve order; Decode dereferences the result: a decrypted key file with such bytes crashes instead of failing")
			}
		}
		c.ob("R-CALLEE", "gcmFromPassphrase:hashes-the-password-unchanged", g.Pos(), whole,
			"the key must be the hash of the password exactly as given: trimming, folding or truncating it makes different passwords open the same key")
	}
	if e := c.fn(dir, "Encrypt"); e != nil {
		var rf, seal *ssa.Call
		eachInstr(e, func(_ *ssa.BasicBlock, _ int, in ssa.Instruction) {
			if call, ok := in.(*ssa.Call); ok {
				if calleeName(&call.Call) == "io.ReadFull" {
					rf = call
				}
				if call.Call.IsInvoke() && call.Call.Method.Name() == "Seal" {
					seal = call
				}
			}
		})
		okRand := false
		if rf != nil {
			for v := range backwardSlice(rf.Call.Args[0], nil) {
				if u, ok := v.(*ssa.UnOp); ok {
					if gl, ok := u.X.(*ssa.Global); ok && gl.Pkg != nil && gl.Pkg.Pkg.Path() == "crypto/rand" && gl.Name() == "Reader" {
						okRand = true
					}
				}
			}
		}
		c.ob("R-CALLEE", "Encrypt:nonce-from-crypto/rand-via-ReadFull", e.Pos(), okRand, "the nonce must be filled from crypto/rand.Reader with io.ReadFull")
		okSeal := seal != nil && rf != nil && seal.Call.Args[0] == rf.Call.Args[1] && seal.Call.Args[1] == rf.Call.Args[1] && guardedBy(seal.Block(), errSuccessGuard(rf))
		c.ob("R-CALLEE", "Encrypt:seal-with-that-nonce-prefixed", e.Pos(), okSeal, "Seal(nonce, nonce, msg, nil): the fresh nonce is both used and stored as the ciphertext prefix, only after it was read successfully")
		okSize := false
		eachInstr(e, func(_ *ssa.BasicBlock, _ int, in ssa.Instruction) {
			if ms, ok := in.(*ssa.MakeSlice); ok {
				if call, ok := ms.Len.(*ssa.Call); ok && call.Call.IsInvoke() && call.Call.Method.Name() == "NonceSize" {
					okSize = true
				}
			}
		})
		c.ob("R-CALLEE", "Encrypt:nonce-size", e.Pos(), okSize, "the nonce has gcm.NonceSize() bytes (the size Decrypt strips)")
	}
	if dp := c.fn(dir, "DecryptPrivateKey"); dp != nil {
		var dc, dk *ssa.Call
		eachInstr(dp, func(_ *ssa.BasicBlock, _ int, in ssa.Instruction) {
			if call, ok := in.(*ssa.Call); ok && call.Call.StaticCallee() != nil {
				switch call.Call.StaticCallee().Name() {
				case "Decrypt":
					dc = call
				case "DecodePrivateKey":
					dk = call
				}
			}
		})
		c.ob("R-CALLEE", "DecryptPrivateKey:decode-only-after-successful-decrypt", dp.Pos(), dc != nil && dk != nil && guardedBy(dk.Block(), errSuccessGuard(dc)), "the key is decoded only from successfully authenticated plaintext")
	}
	var entries []*ssa.Function
	for _, n := range []string{"Decrypt", "DecryptPrivateKey", "ReadFromFileAndDecrypt"} {
		if f := c.fn(dir, n); f != nil {
			entries = append(entries, f)
		}
	}
	c.ruleNoPanic("R-NOPANIC", entries, map[string]string{}, func(f *ssa.Function) bool {
		p := f.Pkg
		if p == nil && f.Origin() != nil {
			p = f.Origin().Pkg
		}
		return p == nil || relName(p.Pkg.Path()) != dir
	})
}

// lowerBoundOfLen: the largest k such that the branch facts holding at b (or the construction of v) imply len(v) >= k.
func lowerBoundOfLen(b *ssa.BasicBlock, v ssa.Value) int64 {
	lb := int64(0)
	switch x := v.(type) {
	case *ssa.Slice:
		if pt, ok := x.X.Type().Underlying().(*types.Pointer); ok {
			if at, ok := pt.Elem().Underlying().(*types.Array); ok && x.Low == nil && x.High == nil {
				lb = at.Len()
			}
		}
		if x.High != nil {
			if hi, ok := constInt(x.High); ok {
				lo := int64(0)
				if x.Low != nil {
					lo, _ = constInt(x.Low)
				}
				// s[lo:hi] panics itself when s is too short, so reaching the use implies the length
				if hi-lo > lb {
					lb = hi - lo
				}
			}
		}
	case *ssa.MakeSlice:
		if k, ok := constInt(x.Len); ok {
			lb = k
		}
	}
	for _, fc := range factsAt(b) {
		bo, ok := fc.cond.(*ssa.BinOp)
		if !ok || !isCmp(bo.Op) {
			continue
		}
		x, y, op := bo.X, bo.Y, bo.Op
		if _, isLen := lenOf(y); isLen {
			x, y, op = y, x, flipOp(op)
		}
		l, isLen := lenOf(x)
		k, isC := constInt(y)
		if !isLen || !isC || !sameFieldLoad(l, v) {
			continue
		}
		if !fc.truth {
			op = negOp(op)
		}
		switch op {
		case token.EQL, token.GEQ:
			if k > lb {
				lb = k
			}
		case token.GTR:
			if k+1 > lb {
				lb = k + 1
			}
		}
	}
	return lb
}
