package main

import (
	"fmt"
	"strings"

	"golang.org/x/tools/go/ssa"
)

const triedbDir = "pkg/trie/triedb"

// K1/K2 for the database-backed engine's lookup, and "a matched node is rebuilt with the NEW value" for its insert.
func (c *Ctx) ruleTriedb() {
	sp := c.ssaPkg(triedbDir)
	if sp == nil {
		return
	}
	c.doc("R-KEYMATCH/triedb", "TrieLookup.lookupNode: a node is returned as found only on the true edge of partialKey.Equal(node.PartialKey); Children[...] indexed by a key nibble is dominated by partialKey.StartsWith(node.PartialKey)")
	c.doc("R-NEWVALUE", "insertInspector: wherever the new value was computed (NewValue) on the way to returning a restore/replace action, the node handed to that action carries that new value (never the node read from storage with its old value)")
	for _, f := range allFuncs(c, sp) {
		switch {
		case f.Name() == "lookupNode" && f.Signature.Recv() != nil && strings.Contains(f.Signature.Recv().Type().String(), "TrieLookup"):
			var found, desc int
			eachInstr(f, func(b *ssa.BasicBlock, _ int, in ssa.Instruction) {
				switch x := in.(type) {
				case *ssa.Return:
					if len(x.Results) != 2 || isNilConst(resultOf(x, 0)) || !isNilConst(resultOf(x, 1)) {
						return
					}
					found++
					eq := false
					for _, fc := range factsAt(b) {
						if call, ok := fc.cond.(*ssa.Call); ok && fc.truth && strings.HasSuffix(calleeName(&call.Call), "nibbles.Nibbles).Equal") {
							eq = true
						}
					}
					c.ob("R-KEYMATCH/triedb", fmt.Sprintf("lookupNode:found-return#%d", found), x.Pos(), eq, "the lookup reports a node as found on a path where the remaining key was not compared equal to the node's partial key")
				case *ssa.IndexAddr, *ssa.Index:
					var base, idx ssa.Value
					if ia, ok := x.(*ssa.IndexAddr); ok {
						base, idx = ia.X, ia.Index
					} else {
						ix := x.(*ssa.Index)
						base, idx = ix.X, ix.Index
					}
					isChildren := false
					for v := range backwardSlice(base, func(v ssa.Value) bool { _, isCall := v.(*ssa.Call); return isCall }) {
						if fa, ok := v.(*ssa.FieldAddr); ok && fieldVar(fa) != nil && fieldVar(fa).Name() == "Children" {
							isChildren = true
						}
						if fl, ok := v.(*ssa.Field); ok {
							if _, fv, ok := fieldLoad(fl); ok && fv != nil && fv.Name() == "Children" {
								isChildren = true
							}
						}
					}
					fromKey := false
					for v := range backwardSlice(idx, nil) {
						if call, ok := v.(*ssa.Call); ok && strings.HasSuffix(calleeName(&call.Call), "nibbles.Nibbles).At") {
							fromKey = true
						}
					}
					if !isChildren || !fromKey {
						return
					}
					desc++
					sw := false
					for _, fc := range factsAt(b) {
						if call, ok := fc.cond.(*ssa.Call); ok && fc.truth && strings.HasSuffix(calleeName(&call.Call), "nibbles.Nibbles).StartsWith") {
							sw = true
						}
					}
					c.ob("R-KEYMATCH/triedb", fmt.Sprintf("lookupNode:descent#%d", desc), in.Pos(), sw, "the lookup descends into a child without the remaining key starting with the branch's partial key")
				}
			})
			if found == 0 || desc == 0 {
				c.ob("R-KEYMATCH/triedb", "lookupNode:anchors", f.Pos(), false, fmt.Sprintf("found-returns=%d descents=%d (anchor changed)", found, desc))
			}
		case f.Name() == "insertInspector":
			var newValues []*ssa.Call
			eachInstr(f, func(_ *ssa.BasicBlock, _ int, in ssa.Instruction) {
				if call, ok := in.(*ssa.Call); ok && call.Call.StaticCallee() != nil && strings.HasPrefix(call.Call.StaticCallee().Name(), "NewValue") {
					newValues = append(newValues, call)
				}
			})
			n := 0
			eachInstr(f, func(b *ssa.BasicBlock, _ int, in ssa.Instruction) {
				al, ok := in.(*ssa.Alloc)
				if !ok {
					return
				}
				tn := namedType(al.Type())
				if !strings.HasSuffix(tn, "triedb.restoreNode") && !strings.HasSuffix(tn, "triedb.replaceNode") {
					return
				}
				// NewValue calls dominating this literal
				var dom []*ssa.Call
				for _, nv := range newValues {
					if nv.Block() == b || nv.Block().Dominates(b) {
						dom = append(dom, nv)
					}
				}
				if len(dom) == 0 {
					return
				}
				n++
				carries := false
				for v := range backwardSlice(al, nil) {
					for _, nv := range dom {
						if v == ssa.Value(nv) {
							carries = true
						}
					}
				}
				kind := "restoreNode"
				if strings.HasSuffix(tn, "replaceNode") {
					kind = "replaceNode"
				}
				c.ob("R-NEWVALUE", fmt.Sprintf("insertInspector:%s#%d", kind, n), al.Pos(), carries,
					"after the new value was computed, insertInspector returns a "+kind+" action whose node does not carry it (the node read from storage, with the old value, is put back): the insert is silently dropped when the value comparison says `unchanged`")
			})
			if n == 0 {
				c.ob("R-NEWVALUE", "insertInspector:actions", f.Pos(), false, "no restore/replace action after a NewValue found (anchor changed)")
			}
		}
	}
}
