package main

import (
	"fmt"
	"go/token"
	"go/types"
	"strings"

	"golang.org/x/tools/go/ssa"
)

const triedbDir = "pkg/trie/triedb"

// K1/K2 for the database-backed engine's lookup, and "a matched node is rebuilt with the NEW value" for its insert.
func (c *Ctx) ruleTriedb() {
	sp := c.ssaPkg(triedbDir)
	if sp == nil {
		return
	}
	c.doc("R-KEYMATCH/triedb", "TrieLookup.lookupNode: a node is returned as found only on the true edge of partialKey.Equal(node.PartialKey); Children[...] indexed by a key nibble is dominated by partialKey.StartsWith(node.PartialKey)")
	c.doc("R-NEWVALUE", "insertInspector: wherever the new value was computed (NewValue) on the way to returning a restore/replace action, the node handed to that action carries that new value (never the node read from storage with its old value)")
	for _, f := range allFuncs(c, sp) {
		switch {
		case f.Name() == "lookupNode" && f.Signature.Recv() != nil && strings.Contains(f.Signature.Recv().Type().String(), "TrieLookup"):
			var found, desc int
			eachInstr(f, func(b *ssa.BasicBlock, _ int, in ssa.Instruction) {
				switch x := in.(type) {
				case *ssa.Return:
					if len(x.Results) != 2 || isNilConst(resultOf(x, 0)) || !isNilConst(resultOf(x, 1)) {
						return
					}
					found++
					eq := false
					for _, fc := range factsAt(b) {
						if call, ok := fc.cond.(*ssa.Call); ok && fc.truth && strings.HasSuffix(calleeName(&call.Call), "nibbles.Nibbles).Equal") {
							eq = true
						}
					}
					c.ob("R-KEYMATCH/triedb", fmt.Sprintf("lookupNode:found-return#%d", found), x.Pos(), eq, "the lookup reports a node as found on a path where the remaining key was not compared equal to the node's partial key")
				case *ssa.IndexAddr, *ssa.Index:
					var base, idx ssa.Value
					if ia, ok := x.(*ssa.IndexAddr); ok {
						base, idx = ia.X, ia.Index
					} else {
						ix := x.(*ssa.Index)
						base, idx = ix.X, ix.Index
					}
					isChildren := false
					for v := range backwardSlice(base, func(v ssa.Value) bool { _, isCall := v.(*ssa.Call); return isCall }) {
						if fa, ok := v.(*ssa.FieldAddr); ok && fieldVar(fa) != nil && fieldVar(fa).Name() == "Children" {
							isChildren = true
						}
						if fl, ok := v.(*ssa.Field); ok {
							if _, fv, ok := fieldLoad(fl); ok && fv != nil && fv.Name() == "Children" {
								isChildren = true
							}
						}
					}
					fromKey := false
					for v := range backwardSlice(idx, nil) {
						if call, ok := v.(*ssa.Call); ok && strings.HasSuffix(calleeName(&call.Call), "nibbles.Nibbles).At") {
							fromKey = true
						}
					}
					if !isChildren || !fromKey {
						return
					}
					desc++
					sw := false
					for _, fc := range factsAt(b) {
						if call, ok := fc.cond.(*ssa.Call); ok && fc.truth && strings.HasSuffix(calleeName(&call.Call), "nibbles.Nibbles).StartsWith") {
							sw = true
						}
					}
					c.ob("R-KEYMATCH/triedb", fmt.Sprintf("lookupNode:descent#%d", desc), in.Pos(), sw, "the lookup descends into a child without the remaining key starting with the branch's partial key")
				}
			})
			if found == 0 || desc == 0 {
				c.ob("R-KEYMATCH/triedb", "lookupNode:anchors", f.Pos(), false, fmt.Sprintf("found-returns=%d descents=%d (anchor changed)", found, desc))
			}
		case f.Name() == "insertInspector":
			var newValues []*ssa.Call
			eachInstr(f, func(_ *ssa.BasicBlock, _ int, in ssa.Instruction) {
				if call, ok := in.(*ssa.Call); ok && call.Call.StaticCallee() != nil && strings.HasPrefix(call.Call.StaticCallee().Name(), "NewValue") {
					newValues = append(newValues, call)
				}
			})
			n := 0
			eachInstr(f, func(b *ssa.BasicBlock, _ int, in ssa.Instruction) {
				al, ok := in.(*ssa.Alloc)
				if !ok {
					return
				}
				tn := namedType(al.Type())
				if !strings.HasSuffix(tn, "triedb.restoreNode") && !strings.HasSuffix(tn, "triedb.replaceNode") {
					return
				}
				// NewValue calls dominating this literal
				var dom []*ssa.Call
				for _, nv := range newValues {
					if nv.Block() == b || nv.Block().Dominates(b) {
						dom = append(dom, nv)
					}
				}
				if len(dom) == 0 {
					return
				}
				n++
				carries := false
				for v := range backwardSlice(al, nil) {
					for _, nv := range dom {
						if v == ssa.Value(nv) {
							carries = true
						}
					}
				}
				kind := "restoreNode"
				if strings.HasSuffix(tn, "replaceNode") {
					kind = "replaceNode"
				}
				c.ob("R-NEWVALUE", fmt.Sprintf("insertInspector:%s#%d", kind, n), al.Pos(), carries,
					"after the new value was computed, insertInspector returns a "+kind+" action whose node does not carry it (the node read from storage, with the old value, is put back): the insert is silently dropped when the value comparison says `unchanged`")
			})
			if n == 0 {
				c.ob("R-NEWVALUE", "insertInspector:actions", f.Pos(), false, "no restore/replace action after a NewValue found (anchor changed)")
			}
		}
	}
}

// R-CURSOR: fix() is handed the key position of the branch itself, not a cursor that was advanced past it.
func (c *Ctx) ruleFixCursor() {
	sp := c.ssaPkg(triedbDir)
	if sp == nil {
		return
	}
	c.doc("R-CURSOR", "pkg/trie/triedb: the key handed to fix(branch, key) is the position of that branch: no Advance() on the same *Nibbles value can execute before the call (the cursor passed down to the child is a different object). fix derives the database prefix of the branch's remaining child from it; an advanced cursor makes it panic or look the child up under a wrong prefix")
	n := 0
	perFn := map[*ssa.Function]int{}
	for _, f := range allFuncs(c, sp) {
		eachInstr(f, func(_ *ssa.BasicBlock, _ int, in ssa.Instruction) {
			call, ok := in.(*ssa.Call)
			if !ok {
				return
			}
			cal := call.Call.StaticCallee()
			if cal == nil || !strings.HasPrefix(cal.Name(), "fix") || len(call.Call.Args) < 3 || cal.Pkg != sp && (cal.Origin() == nil || cal.Origin().Pkg != sp) {
				return
			}
			key := call.Call.Args[2]
			n++
			perFn[f]++
			bad := ""
			for _, r := range *key.Referrers() {
				adv, ok := r.(*ssa.Call)
				if !ok || adv == call || len(adv.Call.Args) == 0 || adv.Call.Args[0] != key {
					continue
				}
				if ac := adv.Call.StaticCallee(); ac != nil && ac.Name() == "Advance" && instrReaches(adv, call) {
					bad = c.pos(adv.Pos())
				}
			}
			c.ob("R-CURSOR", fmt.Sprintf("%s:fix-key#%d", shortFn(f), perFn[f]), call.Pos(), bad == "",
				shortFn(f)+" advances the key cursor (at "+bad+") and then hands the SAME *Nibbles to fix(): `prefix := keyNibbles` copies the pointer, not the position, so fix sees a key that is already past the branch — deleting a key whose branch is left with a single child panics (not enough nibbles) or fails to load the sibling")
		})
	}
	if n == 0 {
		c.ob("R-CURSOR", "fix-call", token.NoPos, false, "no call of fix found (anchor changed)")
	}
}

// R-FRESHBASE: append() never grows a slice that aliases the caller's key buffer.
func (c *Ctx) ruleFreshAppendBase() {
	c.doc("R-FRESHBASE", "pkg/trie/triedb: whenever the base of an append() is the direct result of a module function (the database key is built as append(prefix.JoinedBytes(), hash...)), that function returns a freshly allocated slice on every path (make, Clone, or an append onto a fresh base) — a sub-slice of the key buffer with spare capacity would be overwritten in place: the caller's key is replaced by a node hash and the value is stored under a garbled key")
	sp := c.ssaPkg(triedbDir)
	if sp == nil {
		return
	}
	var fresh func(v ssa.Value, depth int) bool
	fresh = func(v ssa.Value, depth int) bool {
		if depth > 6 {
			return false
		}
		switch x := v.(type) {
		case *ssa.Const:
			return true // nil
		case *ssa.MakeSlice:
			return true
		case *ssa.Convert:
			_, fromString := x.X.Type().Underlying().(*types.Basic)
			return fromString
		case *ssa.Slice:
			// a re-slice of a fresh slice is still private
			return fresh(x.X, depth+1)
		case *ssa.Phi:
			for _, e := range x.Edges {
				if !fresh(e, depth+1) {
					return false
				}
			}
			return true
		case *ssa.Call:
			if b, ok := x.Call.Value.(*ssa.Builtin); ok && b.Name() == "append" {
				return fresh(x.Call.Args[0], depth+1)
			}
			nm := calleeName(&x.Call)
			if strings.Contains(nm, "slices.Clone") || nm == "bytes.Clone" || nm == "bytes.Join" || nm == "bytes.Repeat" {
				return true
			}
		}
		return false
	}
	returnsFresh := func(g *ssa.Function) (bool, string) {
		if g != nil && g.Origin() != nil {
			g = g.Origin()
		}
		if g == nil || len(g.Blocks) == 0 {
			return false, "no body"
		}
		for _, r := range returnsOf(g) {
			if len(r.Results) == 0 {
				return false, "no result"
			}
			if !fresh(resultOf(r, 0), 0) {
				return false, c.pos(r.Pos())
			}
		}
		return true, ""
	}
	n := 0
	verdict := map[*ssa.Function]string{}
	for _, f := range allFuncs(c, sp) {
		eachInstr(f, func(_ *ssa.BasicBlock, _ int, in ssa.Instruction) {
			call, ok := in.(*ssa.Call)
			if !ok {
				return
			}
			if b, ok := call.Call.Value.(*ssa.Builtin); !ok || b.Name() != "append" {
				return
			}
			base, ok := call.Call.Args[0].(*ssa.Call)
			if !ok {
				return
			}
			g := base.Call.StaticCallee()
			if g == nil || g.Pkg == nil || !strings.HasPrefix(g.Pkg.Pkg.Path(), modPath) {
				return
			}
			n++
			if _, done := verdict[g]; !done {
				ok, where := returnsFresh(g)
				verdict[g] = where
				if ok {
					verdict[g] = ""
				}
				c.ob("R-FRESHBASE", relName(g.String())+":returns-fresh-slice", g.Pos(), ok,
					relName(g.String())+" can return a slice that aliases its receiver's buffer (return at "+where+"), and its result is the base of append() calls that build database keys: with spare capacity the append overwrites the caller's key bytes in place")
			}
		})
	}
	c.ob("R-FRESHBASE", "scan", token.NoPos, n >= 5, fmt.Sprintf("%d append(f(...), ...) sites in pkg/trie/triedb examined, %d distinct callees", n, len(verdict)))
}

// R-VALUECOPY: a mutating pointer-method is not applied to a by-value copy whose result is then dropped.
func (c *Ctx) ruleValueCopyMutator(rule, dir string) {
	sp := c.ssaPkg(dir)
	if sp == nil {
		return
	}
	c.doc(rule, dir+": a struct received BY VALUE (parameter) or copied out of a field is not mutated through a pointer-receiver method whose effect is then dropped: after the mutating call the copy must be read, passed on, returned or stored — otherwise the mutation (e.g. a node allocated in a copy of the node storage) never reaches the owner and the handle it returned dangles")
	mutates := func(g *ssa.Function) bool {
		if g != nil && g.Origin() != nil {
			g = g.Origin() // instantiation (wrapper) of a generic function/method: the body lives in the origin
		}
		if g == nil || len(g.Blocks) == 0 || len(g.Params) == 0 {
			return false
		}
		m := false
		eachInstr(g, func(_ *ssa.BasicBlock, _ int, in ssa.Instruction) {
			if st, ok := in.(*ssa.Store); ok {
				if fa, ok := st.Addr.(*ssa.FieldAddr); ok && fa.X == ssa.Value(g.Params[0]) {
					m = true
				}
			}
		})
		return m
	}
	n, copies := 0, 0
	for _, f := range allFuncs(c, sp) {
		eachInstr(f, func(_ *ssa.BasicBlock, _ int, in ssa.Instruction) {
			al, ok := in.(*ssa.Alloc)
			if !ok {
				return
			}
			if _, isStruct := al.Type().Underlying().(*types.Pointer).Elem().Underlying().(*types.Struct); !isStruct {
				return
			}
			var init *ssa.Store
			for _, r := range *al.Referrers() {
				if st, ok := r.(*ssa.Store); ok && st.Addr == ssa.Value(al) {
					if _, isParam := st.Val.(*ssa.Parameter); isParam {
						init = st
					}
					if _, isFV := st.Val.(*ssa.FreeVar); isFV {
						init = st
					}
				}
			}
			if init == nil {
				return
			}
			copies++
			for _, r := range *al.Referrers() {
				mcall, ok := r.(*ssa.Call)
				if !ok || len(mcall.Call.Args) == 0 || mcall.Call.Args[0] != ssa.Value(al) || !mutates(mcall.Call.StaticCallee()) {
					continue
				}
				n++
				consumed := false
				for _, r2 := range *al.Referrers() {
					if r2 == ssa.Instruction(init) || r2 == ssa.Instruction(mcall) {
						continue
					}
					if _, isDbg := r2.(*ssa.DebugRef); isDbg {
						continue
					}
					if instrReaches(mcall, r2) {
						consumed = true
					}
				}
				c.ob(rule, fmt.Sprintf("%s:%s.%s#%d", relName(f.String()), al.Comment, mcall.Call.StaticCallee().Name(), n), mcall.Pos(), consumed,
					fmt.Sprintf("%s calls the mutating method %s on `%s`, a by-value COPY of its caller's struct, and never uses the copy again: the mutation is lost to the owner (the value it returned refers to state that no longer exists)", shortFn(f), mcall.Call.StaticCallee().Name(), al.Comment))
			}
		})
	}
	c.ob(rule, "scan", token.NoPos, true, fmt.Sprintf("%d by-value struct copies examined, %d mutating calls on them", copies, n))
}

// R-REMOVEMATCH: the database-backed engine removes a value only from the node whose key matches exactly.
func (c *Ctx) ruleTriedbRemoveMatch() {
	sp := c.ssaPkg(triedbDir)
	if sp == nil {
		return
	}
	c.doc("R-REMOVEMATCH", "TrieDB.removeInspector: every replaceOldValue (the removal of a node's value) is on a path where the node's partial key was compared with the remaining key — Equal() true for a leaf, CommonPrefix() == both lengths for a branch; `remaining key is empty` alone is not a match when the branch has a non-empty partial key (deleting an absent key would remove that branch's value)")
	n := 0
	for _, f := range allFuncs(c, sp) {
		if f.Parent() != nil || !strings.HasPrefix(f.Name(), "removeInspector") {
			continue
		}
		eachInstr(f, func(b *ssa.BasicBlock, _ int, in ssa.Instruction) {
			call, ok := in.(*ssa.Call)
			if !ok || call.Call.StaticCallee() == nil || !strings.HasPrefix(call.Call.StaticCallee().Name(), "replaceOldValue") {
				return
			}
			n++
			matched := false
			for _, fc := range factsAt(b) {
				if cl, ok := fc.cond.(*ssa.Call); ok && cl.Call.StaticCallee() != nil && cl.Call.StaticCallee().Name() == "Equal" && fc.truth {
					matched = true
				}
				if bo, ok := fc.cond.(*ssa.BinOp); ok && ((bo.Op == token.EQL && fc.truth) || (bo.Op == token.NEQ && !fc.truth)) {
					for _, side := range []ssa.Value{bo.X, bo.Y} {
						for v := range backwardSlice(side, nil) {
							if cl, ok := v.(*ssa.Call); ok && cl.Call.StaticCallee() != nil && cl.Call.StaticCallee().Name() == "CommonPrefix" {
								matched = true
							}
						}
					}
				}
			}
			c.ob("R-REMOVEMATCH", fmt.Sprintf("removeInspector:remove-value#%d", n), call.Pos(), matched,
				"a node's value is removed on a path where its partial key was not compared with the remaining key (only `remaining key is empty` holds): Delete of an absent key that ends on the edge into a branch removes that branch's value, or panics in fix()")
		})
	}
	if n == 0 {
		c.ob("R-REMOVEMATCH", "removeInspector:remove-value", token.NoPos, false, "no replaceOldValue call in removeInspector (anchor changed)")
	}
}

// R-NILBRANCHVALUE: reading the value of a branch tolerates a branch without value.
func (c *Ctx) ruleTriedbNilValue() {
	sp := c.ssaPkg(triedbDir)
	if sp == nil {
		return
	}
	c.doc("R-NILBRANCHVALUE", "pkg/trie/triedb: a Branch's optional value handed to inMemoryFetchedValue is either tested for nil before the call or the callee's type switch has a nil case (no default panic for a value-less branch): Get of a key that ends on a value-less in-memory branch returns `absent`")
	n := 0
	for _, f := range allFuncs(c, sp) {
		eachInstr(f, func(b *ssa.BasicBlock, _ int, in ssa.Instruction) {
			call, ok := in.(*ssa.Call)
			if !ok || call.Call.StaticCallee() == nil || !strings.HasPrefix(call.Call.StaticCallee().Name(), "inMemoryFetchedValue") {
				return
			}
			arg := call.Call.Args[0]
			base, fv, isField := fieldLoad(arg)
			if !isField || fv == nil || fv.Name() != "value" || !strings.Contains(base.Type().String(), "Branch[") {
				return
			}
			n++
			guarded := false
			for _, fc := range factsAt(b) {
				if e, neq, isN := nilCmp(fc.cond); isN && fc.truth == neq && sameFieldLoad(e, arg) {
					guarded = true
				}
			}
			callee := call.Call.StaticCallee()
			if callee.Origin() != nil {
				callee = callee.Origin()
			}
			handlesNil := false
			if len(callee.Params) > 0 {
				eachInstr(callee, func(_ *ssa.BasicBlock, _ int, in2 ssa.Instruction) {
					if e, _, isN := nilCmp2(in2); isN && e == ssa.Value(callee.Params[0]) {
						handlesNil = true
					}
				})
			}
			c.ob("R-NILBRANCHVALUE", fmt.Sprintf("%s:branch-value#%d", shortFn(f), n), call.Pos(), guarded || handlesNil,
				shortFn(f)+" hands a branch's value to inMemoryFetchedValue without a nil test and the callee panics (\"unreachable\") on nil: Put(0x1230), Put(0x1240), Get(0x12) before a commit panics")
		})
	}
	if n == 0 {
		c.ob("R-NILBRANCHVALUE", "branch-value", token.NoPos, false, "no read of a branch value through inMemoryFetchedValue (anchor changed)")
	}
}

func nilCmp2(in ssa.Instruction) (ssa.Value, bool, bool) {
	v, ok := in.(ssa.Value)
	if !ok {
		return nil, false, false
	}
	return nilCmp(v)
}

// R-KEYCLONE: the engine never keeps (and later rewrites) the caller's key buffer.
func (c *Ctx) ruleTriedbKeyClone() {
	sp := c.ssaPkg(triedbDir)
	if sp == nil {
		return
	}
	c.doc("R-KEYCLONE", "TrieDB.Put / Delete / Get wrap a COPY of the caller's key (slices.Clone / bytes.Clone / make+copy) in the Nibbles cursor: stored nodes keep views of that buffer which ShiftKey later rewrites in place, so an aliased caller buffer is corrupted and a reused one moves uncommitted entries")
	n := 0
	for _, f := range allFuncs(c, sp) {
		if f.Parent() != nil || f.Signature.Recv() == nil || !strings.Contains(f.Signature.Recv().Type().String(), "TrieDB[") {
			continue
		}
		nm := f.Name()
		if i := strings.Index(nm, "["); i > 0 {
			nm = nm[:i]
		}
		if nm != "Put" && nm != "Delete" && nm != "Get" {
			continue
		}
		eachInstr(f, func(_ *ssa.BasicBlock, _ int, in ssa.Instruction) {
			call, ok := in.(*ssa.Call)
			if !ok || !strings.HasSuffix(calleeName(&call.Call), "nibbles.NewNibbles") {
				return
			}
			n++
			arg := call.Call.Args[0]
			cloned := false
			if cl, ok := arg.(*ssa.Call); ok {
				cn := calleeName(&cl.Call)
				if strings.Contains(cn, "slices.Clone") || cn == "bytes.Clone" {
					cloned = true
				}
			}
			if _, ok := arg.(*ssa.MakeSlice); ok {
				cloned = true
			}
			c.ob("R-KEYCLONE", fmt.Sprintf("TrieDB.%s:key-is-copied", nm), call.Pos(), cloned,
				"TrieDB."+nm+" wraps the caller's key slice itself: after the call the caller's buffer can be rewritten by the trie (key 0x0110 became 0x1010), and reusing the buffer for the next Put moves the previous, uncommitted entry")
		})
	}
	c.ob("R-KEYCLONE", "scan", token.NoPos, n >= 2, fmt.Sprintf("%d NewNibbles(key) sites in TrieDB.Put/Delete/Get", n))
}
