package main

import (
	"fmt"
	"go/constant"
	"go/token"
	"go/types"
	"strings"

	"golang.org/x/tools/go/ssa"
)

const allocDir = "lib/runtime/allocator"

func constOf(p *ssa.Package, name string) (int64, bool) {
	k, ok := p.Pkg.Scope().Lookup(name).(*types.Const)
	if !ok {
		return 0, false
	}
	v, ok := constant.Int64Val(constant.ToInt(k.Val()))
	return v, ok
}

func init() {
	register("C28", "constant-table arithmetic (R-ALLOCCONST), poison-first dominance (R-POISON), widened bound arithmetic and growth sizing in bump (R-BUMP), order table (R-ORDERTAB)",
		"Decides: the size-class constants are mutually consistent (min 8, 23 orders, max = 8<<22 = 32 MiB, header = alignment = 8, 65536 pages * 64 KiB = 4 GiB); Allocate/Deallocate test the poisoned flag before anything else and poison the allocator on every error exit through the deferred handler; requests above MaxPossibleAllocations are rejected; in bump the required size is computed in 64 bits from BOTH the current bumper and the request before it is compared with the memory size, the page count to grow to is derived from that same quantity (never from the request alone), growth beyond MaxWasmPages is refused, and the bumper only advances after the memory is known to be large enough. "+
			"Not decided: non-overlap of live allocations over whole histories (free-list manipulation), header read/write contents.",
		"runtime.Memory implementation trusted", "DESIGN.md §3 R-POISON, R-ALLOCCONST, R-BOUNDS/widen; §4 C28",
		func(c *Ctx) {
			c.load(allocDir)
			c.ruleAllocator()
			c.min("R-ALLOCCONST", 4)
			c.min("R-POISON", 4)
			c.min("R-BUMP", 7)
		})
	register("C29", "resolved-callee tables for the hash and signature helpers (R-CALLEE), exact normalisation of the secp256k1 recovery byte (R-RECID)",
		"Decides which primitive each helper resolves to through the type checker: Blake2b128 -> blake2b.New(16), Blake2bHash -> blake2b.New256, Keccak256 -> sha3.NewLegacyKeccak256 (not the NIST SHA3), Twox64/128/256 -> xxhash.NewS64 with seeds 0..n-1 written little-endian in seed order, Sha256 -> sha256.Sum256; sr25519 Verify decodes the signature with the strict schnorrkel decoder (marker bit required) and only VerifyDeprecated may use the lenient one; ed25519 verification resolves to crypto/ed25519.Verify, which is cofactorless and rejects non-canonical encodings that ZIP-215 accepts (recorded finding); secp256k1 recovery rewrites only the recovery byte, by v >= 27 -> v - 27 exactly as the reference, before calling the library. "+
			"Not decided: the digests and verdicts themselves (library correctness).",
		"golang.org/x/crypto, xxhash, schnorrkel libraries trusted", "DESIGN.md §3 R-CALLEE; §4 C29",
		func(c *Ctx) {
			c.load("lib/common", "lib/crypto/sr25519", "lib/crypto/ed25519", "lib/crypto/secp256k1")
			c.ruleCallee()
			c.ruleRecoveryID()
			c.min("R-RECID", 4)
			c.ruleRecIDOnce()
			c.min("R-RECIDONCE", 1)
			c.min("R-CALLEE", 12)
		})
}

func (c *Ctx) ruleAllocator() {
	sp := c.ssaPkg(allocDir)
	if sp == nil {
		return
	}
	c.doc("R-ALLOCCONST", "MaxPossibleAllocations == MinPossibleAllocations << (NumOrders-1) == 32 MiB; HeaderSize == Aligment == 8; MaxWasmPages*PageSize == 4 GiB")
	get := func(n string) int64 { v, _ := constOf(sp, n); return v }
	c.ob("R-ALLOCCONST", "max==min<<(orders-1)", token.NoPos, get("MaxPossibleAllocations") == get("MinPossibleAllocations")<<(get("NumOrders")-1) && get("MaxPossibleAllocations") == 1<<25,
		fmt.Sprintf("Min=%d NumOrders=%d Max=%d", get("MinPossibleAllocations"), get("NumOrders"), get("MaxPossibleAllocations")))
	c.ob("R-ALLOCCONST", "header==alignment==8", token.NoPos, get("HeaderSize") == 8 && get("Aligment") == 8, fmt.Sprintf("HeaderSize=%d Aligment=%d", get("HeaderSize"), get("Aligment")))
	c.ob("R-ALLOCCONST", "4GiB", token.NoPos, get("MaxWasmPages")*get("PageSize") == 1<<32 && get("PageSize") == 65536, fmt.Sprintf("MaxWasmPages=%d PageSize=%d", get("MaxWasmPages"), get("PageSize")))
	// orderFromSize rejects size > Max
	if f := c.fn(allocDir, "orderFromSize"); f != nil {
		ok := false
		for _, b := range f.Blocks {
			if iff := ifOf(b); iff != nil {
				if subj, op, k, isCmp := cmpWithConst(iff.Cond); isCmp && subj == ssa.Value(f.Params[0]) && op == token.GTR && k == get("MaxPossibleAllocations") && blockRejects(b.Succs[0]) {
					ok = true
				}
			}
		}
		c.ob("R-ALLOCCONST", "orderFromSize:rejects-above-max", f.Pos(), ok, "requests larger than MaxPossibleAllocations (32 MiB) must fail: `size > MaxPossibleAllocations` -> error")
	}
	c.doc("R-POISON", "Allocate/Deallocate: the poisoned test dominates every call; a deferred function sets poisoned when the named error result is non-nil, and every return hands back the content of exactly that result cell (an error returned directly cannot bypass the poisoning)")
	for _, name := range []string{"(*FreeingBumpHeapAllocator).Allocate", "(*FreeingBumpHeapAllocator).Deallocate"} {
		f := c.fn(allocDir, name)
		if f == nil {
			continue
		}
		// first If tests f.poisoned
		first := false
		if iff := ifOf(f.Blocks[0]); iff != nil {
			if _, fv, ok := fieldLoad(iff.Cond); ok && fv != nil && fv.Name() == "poisoned" && blockRejects(f.Blocks[0].Succs[0]) {
				first = true
			}
		}
		noCallBefore := true
		for _, in := range f.Blocks[0].Instrs {
			if _, ok := in.(*ssa.Call); ok {
				noCallBefore = false
			}
		}
		c.ob("R-POISON", name+":poisoned-checked-first", f.Pos(), first && noCallBefore, "a poisoned allocator must refuse every operation before touching memory")
		// deferred poison
		poison := false
		for _, a := range f.AnonFuncs {
			eachInstr(a, func(b *ssa.BasicBlock, _ int, in ssa.Instruction) {
				if st, ok := in.(*ssa.Store); ok {
					if fa, ok := st.Addr.(*ssa.FieldAddr); ok && fieldVar(fa) != nil && fieldVar(fa).Name() == "poisoned" {
						if k, ok := st.Val.(*ssa.Const); ok && k.Value != nil && k.Value.String() == "true" {
							poison = guardedBy(b, func(cond ssa.Value, truth bool) bool {
								_, neq, ok := nilCmp(cond)
								return ok && truth == neq
							})
						}
					}
				}
			})
		}
		isDeferred := false
		eachInstr(f, func(_ *ssa.BasicBlock, _ int, in ssa.Instruction) {
			if _, ok := in.(*ssa.Defer); ok {
				isDeferred = true
			}
		})
		c.ob("R-POISON", name+":poisons-on-error", f.Pos(), poison && isDeferred, "every error exit must poison the allocator (deferred `if err != nil { poisoned = true }`)")
		// the error the deferred function inspects must be the function's own result: every return hands back the
		// content of the captured cell (named result), never a value the closure cannot see
		var cell ssa.Value
		eachInstr(f, func(_ *ssa.BasicBlock, _ int, in ssa.Instruction) {
			if mc, ok := in.(*ssa.MakeClosure); ok {
				for _, b := range mc.Bindings {
					if al, ok := b.(*ssa.Alloc); ok && al.Type().String() == "*error" {
						cell = al
					}
				}
			}
		})
		sees := cell != nil
		nret := 0
		for _, r := range returnsOf(f) {
			nret++
			ev := r.Results[len(r.Results)-1]
			u, ok := ev.(*ssa.UnOp)
			if !ok || u.Op != token.MUL || u.X != cell {
				sees = false
			}
		}
		c.ob("R-POISON", name+":deferred-check-sees-the-returned-error", f.Pos(), sees && nret > 0, "the deferred poisoning function tests a variable that is not the function's (named) error result: errors returned directly bypass it and a failed operation leaves the allocator usable")
	}
	c.doc("R-BUMP", "bump: required = uint64(*bumper)+uint64(size) (widened before adding, derived from both); compared with mem.Size(); pagesFromSize(required); requiredPages > MaxWasmPages -> error; grow target includes requiredPages; *bumper += size only after the checks")
	f := c.fn(allocDir, "bump")
	if f == nil {
		return
	}
	bumper, size := f.Params[0], f.Params[1]
	var required *ssa.BinOp
	eachInstr(f, func(_ *ssa.BasicBlock, _ int, in ssa.Instruction) {
		if bo, ok := in.(*ssa.BinOp); ok && bo.Op == token.ADD {
			if bt, ok := bo.Type().Underlying().(*types.Basic); ok && bt.Kind() == types.Uint64 {
				cx, okx := bo.X.(*ssa.Convert)
				cy, oky := bo.Y.(*ssa.Convert)
				if okx && oky {
					fromB := func(v ssa.Value) bool {
						u, ok := v.(*ssa.UnOp)
						return ok && u.X == ssa.Value(bumper)
					}
					if (fromB(cx.X) && cy.X == ssa.Value(size)) || (fromB(cy.X) && cx.X == ssa.Value(size)) {
						required = bo
					}
				}
			}
		}
	})
	c.ob("R-BUMP", "bump:required=uint64(bumper)+uint64(size)", f.Pos(), required != nil, "the required size must be computed in 64 bits from the current bumper AND the request (each widened before the addition)")
	if required == nil {
		return
	}
	derivesReq := func(v ssa.Value) bool {
		for x := range backwardSlice(v, nil) {
			if x == ssa.Value(required) {
				return true
			}
		}
		return false
	}
	// comparison with mem.Size()
	cmpOK := false
	var growBlock *ssa.BasicBlock
	for _, b := range f.Blocks {
		if iff := ifOf(b); iff != nil {
			if bo, ok := iff.Cond.(*ssa.BinOp); ok && bo.Op == token.GTR && bo.X == ssa.Value(required) {
				if call, ok := bo.Y.(*ssa.Call); ok && call.Call.IsInvoke() && call.Call.Method.Name() == "Size" {
					cmpOK = true
					growBlock = b.Succs[0]
				}
			}
		}
	}
	c.ob("R-BUMP", "bump:required>mem.Size()", f.Pos(), cmpOK, "growth is triggered exactly when the required size exceeds the current memory size")
	// pagesFromSize(required)
	var reqPages ssa.Value
	okPages := false
	eachInstr(f, func(_ *ssa.BasicBlock, _ int, in ssa.Instruction) {
		if call, ok := in.(*ssa.Call); ok && call.Call.StaticCallee() != nil && call.Call.StaticCallee().Name() == "pagesFromSize" {
			if call.Call.Args[0] == ssa.Value(required) {
				okPages = true
				for _, r := range *call.Referrers() {
					if ex, ok := r.(*ssa.Extract); ok && ex.Index == 0 {
						reqPages = ex
					}
				}
			}
		}
	})
	c.ob("R-BUMP", "bump:requiredPages=pagesFromSize(required)", f.Pos(), okPages, "the number of pages to grow to must be derived from bumper+size, not from the request alone: otherwise a block can extend past the end of linear memory")
	// requiredPages > MaxWasmPages rejected
	maxPages, _ := constOf(c.ssaPkg(allocDir), "MaxWasmPages")
	rej := false
	for _, b := range f.Blocks {
		if iff := ifOf(b); iff != nil {
			if subj, op, k, ok := cmpWithConst(iff.Cond); ok && reqPages != nil && subj == reqPages && op == token.GTR && k == maxPages && blockRejects(b.Succs[0]) {
				rej = true
			}
		}
	}
	c.ob("R-BUMP", "bump:refuses-beyond-4GiB", f.Pos(), rej, "growth beyond MaxWasmPages (4 GiB) must fail")
	// Grow argument derives from requiredPages
	growOK := false
	eachInstr(f, func(_ *ssa.BasicBlock, _ int, in ssa.Instruction) {
		if call, ok := in.(*ssa.Call); ok && call.Call.IsInvoke() && call.Call.Method.Name() == "Grow" {
			for x := range backwardSlice(call.Call.Args[0], nil) {
				if reqPages != nil && x == reqPages {
					growOK = true
				}
			}
		}
	})
	c.ob("R-BUMP", "bump:grow-target-covers-requiredPages", f.Pos(), growOK, "the growth target must be at least requiredPages (max(nextPages, requiredPages))")
	// bumper store after the growth block
	adv := false
	eachInstr(f, func(b *ssa.BasicBlock, _ int, in ssa.Instruction) {
		if st, ok := in.(*ssa.Store); ok && st.Addr == ssa.Value(bumper) {
			if bo, ok := st.Val.(*ssa.BinOp); ok && bo.Op == token.ADD && bo.Y == ssa.Value(size) {
				adv = growBlock == nil || !reachable(b, growBlock)
			}
		}
	})
	c.ob("R-BUMP", "bump:bumper-advances-by-size-after-checks", f.Pos(), adv, "*bumper += size happens after (never before) the memory-size check/growth")
	// the 32-bit bump pointer cannot wrap: the 64-bit required size is bounded by 2^32-1 before the store
	nowrap := false
	eachInstr(f, func(b *ssa.BasicBlock, _ int, in ssa.Instruction) {
		st, ok := in.(*ssa.Store)
		if !ok || st.Addr != ssa.Value(bumper) {
			return
		}
		if bo, isSum := st.Val.(*ssa.BinOp); !isSum || bo.Op != token.ADD {
			return // a constant (saturated) value cannot wrap
		}
		nowrap = guardedBy(b, func(cond ssa.Value, truth bool) bool {
			subj, op, k, ok := cmpWithConst(cond)
			if !ok || required == nil || subj != ssa.Value(required) {
				return false
			}
			switch {
			case op == token.GTR && !truth && k <= 1<<32-1, op == token.GEQ && !truth && k <= 1<<32,
				op == token.LEQ && truth && k <= 1<<32-1, op == token.LSS && truth && k <= 1<<32:
				return true
			}
			return false
		})
	})
	c.ob("R-BUMP", "bump:bumper-cannot-wrap", f.Pos(), nowrap, "*bumper += size is a 32-bit addition: unless bumper+size (the 64-bit required size) was bounded by 2^32-1, a block ending exactly at 4 GiB wraps the bump pointer to 0 and later allocations land below the heap base, inside live blocks")
	_ = derivesReq
}

func (c *Ctx) ruleCallee() {
	c.doc("R-CALLEE", "resolved callee table of the hashing helpers and signature verifiers")
	calls := func(dir, fn string) ([]string, *ssa.Function, map[string][]*ssa.Call) {
		f := c.fn(dir, fn)
		var out []string
		byName := map[string][]*ssa.Call{}
		if f == nil {
			return out, nil, byName
		}
		eachInstr(f, func(_ *ssa.BasicBlock, _ int, in ssa.Instruction) {
			if call, ok := in.(*ssa.Call); ok {
				n := calleeName(&call.Call)
				out = append(out, n)
				byName[n] = append(byName[n], call)
			}
		})
		return out, f, byName
	}
	has := func(list []string, suffix string) bool {
		for _, n := range list {
			if strings.HasSuffix(n, suffix) {
				return true
			}
		}
		return false
	}
	chk := func(dir, fn, want string, forbid ...string) {
		list, f, _ := calls(dir, fn)
		if f == nil {
			return
		}
		ok := has(list, want)
		bad := ""
		for _, fb := range forbid {
			if has(list, fb) {
				ok, bad = false, fb
			}
		}
		c.ob("R-CALLEE", dir+"."+fn+"->"+want, f.Pos(), ok, fmt.Sprintf("%s must resolve to %s (forbidden callee present: %q)", fn, want, bad))
	}
	// Blake2b128: blake2b.New(16, nil)
	if list, f, by := calls("lib/common", "Blake2b128"); f != nil {
		ok := false
		for n, cs := range by {
			if strings.HasSuffix(n, "crypto/blake2b.New") {
				if k, isK := constInt(cs[0].Call.Args[0]); isK && k == 16 && isNilConst(cs[0].Call.Args[1]) {
					ok = true
				}
			}
		}
		_ = list
		c.ob("R-CALLEE", "lib/common.Blake2b128->blake2b.New(16,nil)", f.Pos(), ok, "Blake2b128 must be unkeyed BLAKE2b with a 16-byte digest")
	}
	chk("lib/common", "Blake2bHash", "crypto/blake2b.New256", "crypto/blake2b.New512", "crypto/blake2s.New256")
	chk("lib/common", "Keccak256", "crypto/sha3.NewLegacyKeccak256", "crypto/sha3.New256", "crypto/sha3.Sum256")
	chk("lib/common", "Sha256", "crypto/sha256.Sum256", "crypto/sha256.Sum224", "crypto/sha512.Sum512_256")
	// Twox: seeds 0..n-1 in order
	for fn, n := range map[string]int{"Twox64": 1, "Twox128Hash": 2, "Twox256": 4} {
		f := c.fn("lib/common", fn)
		if f == nil {
			continue
		}
		var seeds []int64
		le := true
		// seeds are followed through helpers of the same package (constant arguments bound to their parameters)
		var collect func(g *ssa.Function, env map[ssa.Value]int64, depth int)
		collect = func(g *ssa.Function, env map[ssa.Value]int64, depth int) {
			if depth > 4 {
				return
			}
			resolve := func(v ssa.Value) (int64, bool) {
				if k, ok := constInt(v); ok {
					return k, true
				}
				k, ok := env[stripConv(v)]
				return k, ok
			}
			eachInstr(g, func(_ *ssa.BasicBlock, _ int, in ssa.Instruction) {
				call, ok := in.(*ssa.Call)
				if !ok {
					return
				}
				nm := calleeName(&call.Call)
				if strings.HasSuffix(nm, "xxhash.NewS64") {
					if k, ok := resolve(call.Call.Args[0]); ok {
						seeds = append(seeds, k)
					} else {
						seeds = append(seeds, -1) // seed not a constant on this path
					}
					return
				}
				if strings.Contains(nm, "bigEndian).PutUint64") {
					le = false
				}
				if cal := call.Call.StaticCallee(); cal != nil && cal.Pkg == f.Pkg && cal != g && len(cal.Blocks) > 0 {
					env2 := map[ssa.Value]int64{}
					for i, a := range call.Call.Args {
						if k, ok := resolve(a); ok && i < len(cal.Params) {
							env2[cal.Params[i]] = k
						}
					}
					collect(cal, env2, depth+1)
				}
			})
		}
		collect(f, map[ssa.Value]int64{}, 0)
		ok := len(seeds) == n && le
		for i, s := range seeds {
			if s != int64(i) {
				ok = false
			}
		}
		c.ob("R-CALLEE", "lib/common."+fn+"->xxhash.NewS64(seeds 0..)", f.Pos(), ok, fmt.Sprintf("%s must concatenate little-endian xxHash64 digests with seeds 0..%d in order (found seeds %v, little-endian=%v)", fn, n-1, seeds, le))
	}
	// sr25519
	reaches := func(f *ssa.Function, suffix string) bool {
		found := false
		seen := map[*ssa.Function]bool{}
		var walk func(g *ssa.Function)
		walk = func(g *ssa.Function) {
			if g == nil || seen[g] || len(g.Blocks) == 0 {
				return
			}
			seen[g] = true
			eachInstr(g, func(_ *ssa.BasicBlock, _ int, in ssa.Instruction) {
				if call, ok := in.(*ssa.Call); ok {
					if strings.HasSuffix(calleeName(&call.Call), suffix) {
						found = true
					}
					if cal := call.Call.StaticCallee(); cal != nil && cal.Pkg == f.Pkg {
						walk(cal)
					}
				}
			})
		}
		walk(f)
		return found
	}
	if f := c.fn("lib/crypto/sr25519", "(*PublicKey).Verify"); f != nil {
		c.ob("R-CALLEE", "lib/crypto/sr25519.(*PublicKey).Verify->strict-Signature.Decode", f.Pos(), reaches(f, "go-schnorrkel.Signature).Decode"), "sr25519 Verify must decode the signature with the strict schnorrkel decoder (directly or through a package helper)")
	}
	if f := c.fn("lib/crypto/sr25519", "(*PublicKey).VerifyDeprecated"); f != nil {
		c.ob("R-CALLEE", "lib/crypto/sr25519.(*PublicKey).VerifyDeprecated->lenient-decoder", f.Pos(), reaches(f, "DecodeNotDistinguishedFromEd25519"), "VerifyDeprecated (ext_crypto_sr25519_verify_version_1 only) uses the lenient decoder")
	}
	// wrappers: any helper called by Verify must not reach the lenient decoder
	if f := c.fn("lib/crypto/sr25519", "(*PublicKey).Verify"); f != nil {
		lenient := false
		seen := map[*ssa.Function]bool{}
		var walk func(g *ssa.Function)
		walk = func(g *ssa.Function) {
			if g == nil || seen[g] || len(g.Blocks) == 0 {
				return
			}
			seen[g] = true
			eachInstr(g, func(_ *ssa.BasicBlock, _ int, in ssa.Instruction) {
				if call, ok := in.(*ssa.Call); ok {
					if strings.Contains(calleeName(&call.Call), "DecodeNotDistinguishedFromEd25519") {
						lenient = true
					}
					if cal := call.Call.StaticCallee(); cal != nil && cal.Pkg == f.Pkg {
						walk(cal)
					}
				}
			})
		}
		walk(f)
		c.ob("R-CALLEE", "lib/crypto/sr25519.(*PublicKey).Verify:strict-decoder-transitively", f.Pos(), !lenient, "sr25519 Verify (and the helpers it calls) must not decode the signature with the lenient decoder that accepts signatures lacking the schnorrkel marker bit")
	}
	// ed25519
	if list, f, _ := calls("lib/crypto/ed25519", "(*PublicKey).Verify"); f != nil {
		std := has(list, "crypto/ed25519.Verify")
		c.ob("R-CALLEE", "lib/crypto/ed25519.(*PublicKey).Verify:zip215", f.Pos(), !std, "ed25519 verification resolves to crypto/ed25519.Verify, which is cofactorless and rejects non-canonical point encodings: it does not implement the ZIP-215 rules Substrate's verifier follows (e.g. A = identity, R = non-canonical identity encoding ee ff..7f, S = 0 is accepted under ZIP-215 and rejected here)")
		lenChk := false
		eachInstr(f, func(_ *ssa.BasicBlock, _ int, in ssa.Instruction) {
			if bo, ok := in.(*ssa.BinOp); ok && bo.Op == token.NEQ {
				if _, isLen := lenOf(bo.X); isLen {
					lenChk = true
				}
			}
		})
		c.ob("R-CALLEE", "lib/crypto/ed25519.(*PublicKey).Verify:length-check", f.Pos(), lenChk, "a signature of the wrong length is rejected before verification (crypto/ed25519.Verify would panic or misbehave otherwise)")
	}
}
