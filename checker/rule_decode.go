package main

import (
	"fmt"
	"go/token"
	"go/types"
	"math/big"
	"strings"

	"golang.org/x/tools/go/ssa"
)

// ---------------------------------------------------------------- R-READFULL

// isReaderRead: call resolves to io.Reader.Read (interface invoke on a type whose method set is io.Reader-like).
func isReaderRead(cc *ssa.CallCommon) bool {
	f := calleeFunc(cc)
	if f == nil || f.Name() != "Read" {
		return false
	}
	sig := f.Type().(*types.Signature)
	if sig.Params().Len() != 1 || sig.Results().Len() != 2 {
		return false
	}
	if s, ok := sig.Params().At(0).Type().Underlying().(*types.Slice); !ok || !types.Identical(s.Elem(), types.Typ[types.Byte]) {
		return false
	}
	return true
}

func (c *Ctx) ruleReadFull(rule string, dirs ...string) {
	c.doc(rule, "every Read([]byte) (int, error) call in the decoders either has its byte count compared/used, reads into a buffer of constant length 1, or is a full-read helper (io.ReadFull / binary.Read); a discarded count means truncated input is zero-filled")
	for _, dir := range dirs {
		sp := c.ssaPkg(dir)
		if sp == nil {
			continue
		}
		for _, f := range allFuncs(c, sp) {
			ord := 0
			eachInstr(f, func(_ *ssa.BasicBlock, _ int, in ssa.Instruction) {
				call, ok := in.(*ssa.Call)
				if !ok || !isReaderRead(&call.Call) {
					return
				}
				// a Read method that itself delegates (wrapper) is fine: skip calls inside functions named Read
				ord++
				key := fmt.Sprintf("%s:Read#%d", relName(f.String()), ord)
				args := callArgs(&call.Call)
				buf := args[len(args)-1]
				// buffer of constant length 1
				one := false
				for _, b := range phiInputs(buf) {
					switch x := b.(type) {
					case *ssa.MakeSlice:
						if k, ok := constInt(x.Len); ok && k == 1 {
							one = true
						}
					case *ssa.Slice:
						if al, ok := x.X.(*ssa.Alloc); ok {
							if at, ok := al.Type().Underlying().(*types.Pointer).Elem().Underlying().(*types.Array); ok && at.Len() == 1 {
								one = true
							}
						}
					}
				}
				// n used?
				used := false
				if call.Referrers() != nil {
					for _, r := range *call.Referrers() {
						if ex, ok := r.(*ssa.Extract); ok && ex.Index == 0 && ex.Referrers() != nil && len(*ex.Referrers()) > 0 {
							used = true
						}
						if _, ok := r.(*ssa.Return); ok {
							used = true // forwarded to the caller (a Read wrapper)
						}
					}
				}
				switch {
				case used:
					c.ob(rule, key, call.Pos(), true, "byte count is used")
				case one:
					c.ob(rule, key, call.Pos(), true, "one-byte buffer: err == nil implies n == 1 (io.Reader contract)")
				default:
					c.ob(rule, key, call.Pos(), false, fmt.Sprintf("%s discards the byte count of Read: a short input is silently zero-filled instead of failing", shortFn(f)))
				}
			})
		}
	}
}

// ---------------------------------------------------------------- R-ALLOC

var decodeSources = map[string]bool{
	"decodeLength": true, "decodeUint": true, "ReadByte": true, "Read": true, "Uint16": true, "Uint32": true, "Uint64": true,
	"decodeHeader": true, "decodeHeaderByte": true, "ReadUvarint": true, "ReadVarint": true,
}

// ruleAlloc: allocation sizes in decoders that depend on decoded input must be small by type (<= 2^17) and computed
// without wrap-around.
func (c *Ctx) ruleAlloc(rule string, limit int64, dirs ...string) {
	c.doc(rule, fmt.Sprintf("every make/reflect.MakeSlice/Grow in the decoders whose size is not a constant has a size interval (interval analysis of the SSA expression) of at most %d elements, and no +,-,*,<< inside the size expression may wrap its integer type", limit))
	for _, dir := range dirs {
		sp := c.ssaPkg(dir)
		if sp == nil {
			continue
		}
		for _, f := range allFuncs(c, sp) {
			ord := 0
			ev := newIvlEval()
			check := func(in ssa.Instruction, size ssa.Value, what string) {
				if _, ok := constInt(size); ok {
					return
				}
				ord++
				key := fmt.Sprintf("%s:%s#%d", relName(f.String()), what, ord)
				r := ev.of(size)
				var nodes []ssa.Value
				exprNodes(size, map[ssa.Value]bool{}, &nodes)
				for _, n := range nodes {
					if m, ok := ev.wraps[n]; ok {
						c.ob(rule, key, in.Pos(), false, fmt.Sprintf("size expression contains %s of type %s whose mathematical range [%s,%s] leaves the type: it wraps for some input (e.g. the maximum), so the buffer is shorter than the data that follows", n.String(), n.Type(), m.lo, m.hi))
						return
					}
				}
				if r.hi.Cmp(big.NewInt(limit)) <= 0 && r.lo.Sign() >= 0 {
					c.ob(rule, key, in.Pos(), true, fmt.Sprintf("size in [%s,%s] by type/arithmetics", r.lo, r.hi))
					return
				}
				// derived from len() of existing data only?
				fromInput := false
				bs := backwardSlice(size, nil)
				for v := range bs {
					if call, ok := v.(*ssa.Call); ok {
						if fn := calleeFunc(&call.Call); fn != nil && decodeSources[fn.Name()] {
							fromInput = true
						}
					}
					if _, ok := v.(*ssa.Parameter); ok {
						if _, isInt := typeRange(v.Type()); isInt {
							fromInput = true
						}
					}
				}
				if !fromInput {
					c.ob(rule, key, in.Pos(), true, "size derives from the length of data already held, not from a decoded quantity")
					return
				}
				c.ob(rule, key, in.Pos(), false, fmt.Sprintf("%s allocates %s elements from a decoded quantity with range [%s,%s]: a few input bytes can demand an arbitrarily large allocation", shortFn(f), what, r.lo, r.hi))
			}
			eachInstr(f, func(_ *ssa.BasicBlock, _ int, in ssa.Instruction) {
				switch x := in.(type) {
				case *ssa.MakeSlice:
					check(in, x.Len, "make-slice")
					if x.Cap != x.Len {
						check(in, x.Cap, "make-slice-cap")
					}
				case *ssa.MakeMap:
					if x.Reserve != nil {
						check(in, x.Reserve, "make-map")
					}
				case *ssa.Call:
					switch calleeName(&x.Call) {
					case "reflect.MakeSlice":
						check(in, x.Call.Args[1], "reflect.MakeSlice")
						if len(x.Call.Args) > 2 && x.Call.Args[2] != x.Call.Args[1] {
							check(in, x.Call.Args[2], "reflect.MakeSlice-cap")
						}
					case "reflect.MakeMapWithSize":
						check(in, x.Call.Args[1], "reflect.MakeMapWithSize")
					case "(*bytes.Buffer).Grow":
						check(in, x.Call.Args[1], "Buffer.Grow")
					}
				}
			})
		}
	}
}

// ---------------------------------------------------------------- R-COMPACT

type compactClass struct {
	name  string
	lower *big.Int // values <= lower must be rejected
}

// ruleCompactCanon: in each listed function, for every value decoded with LittleEndian.Uint16/32/64 (optionally >>2)
// there is a rejecting comparison whose rejected half-line is exactly {n <= lower bound of that mode}.
func (c *Ctx) ruleCompactCanon(rule, dir string, funcs ...string) {
	c.doc(rule, "compact-integer modes: Uint16>>2 rejects n<=63, Uint32>>2 rejects n<=16383, 4-byte big mode rejects n<=2^30-1, 8-byte rejects n<=2^56-1 (canonical encoding); evaluated from the constants in the SSA")
	for _, fname := range funcs {
		f := c.fn(dir, fname)
		if f == nil {
			continue
		}
		// classify decoded values
		classOf := func(v ssa.Value) *compactClass {
			v = stripConv(v)
			shift := false
			if b, ok := v.(*ssa.BinOp); ok && b.Op == token.SHR {
				if k, ok := constInt(b.Y); ok && k == 2 {
					shift = true
					v = stripConv(b.X)
				}
			}
			call, ok := v.(*ssa.Call)
			if !ok {
				return nil
			}
			fn := calleeFunc(&call.Call)
			if fn == nil || fn.Pkg() == nil || fn.Pkg().Path() != "encoding/binary" {
				return nil
			}
			switch {
			case fn.Name() == "Uint16" && shift:
				return &compactClass{"mode1(Uint16>>2)", big.NewInt(63)}
			case fn.Name() == "Uint32" && shift:
				return &compactClass{"mode2(Uint32>>2)", big.NewInt(16383)}
			case fn.Name() == "Uint32" && !shift:
				return &compactClass{"big4(Uint32)", big.NewInt(1<<30 - 1)}
			case fn.Name() == "Uint64" && !shift:
				return &compactClass{"big8(Uint64)", big.NewInt(1<<56 - 1)}
			}
			return nil
		}
		found := map[string]*compactClass{}
		okFor := map[string]bool{}
		posFor := map[string]token.Pos{}
		// values may be stored into a variable (phi) before comparison: map each comparison subject back
		eachInstr(f, func(_ *ssa.BasicBlock, _ int, in ssa.Instruction) {
			if v, ok := in.(ssa.Value); ok {
				if cl := classOf(v); cl != nil {
					if !feedsShr2(v) {
						found[cl.name] = cl
						if _, ok := posFor[cl.name]; !ok {
							posFor[cl.name] = in.Pos()
						}
					}
				}
			}
		})
		for _, b := range f.Blocks {
			iff := ifOf(b)
			if iff == nil {
				continue
			}
			cond, flip := stripNot(iff.Cond)
			bo, ok := cond.(*ssa.BinOp)
			if !ok || !isCmp(bo.Op) {
				continue
			}
			subj, op, kv := bo.X, bo.Op, bo.Y
			if _, isC := stripConv(kv).(*ssa.Const); !isC {
				subj, kv, op = bo.Y, bo.X, flipOp(bo.Op)
			}
			kc, ok := stripConv(kv).(*ssa.Const)
			if !ok || kc.Value == nil {
				continue
			}
			k, ok := new(big.Int).SetString(kc.Value.ExactString(), 10)
			if !ok {
				continue
			}
			for _, sv := range phiInputs(stripConv(subj)) {
				cl := classOf(sv)
				if cl == nil {
					continue
				}
				// which edge rejects?
				for si := 0; si < 2; si++ {
					truth := si == 0
					if flip {
						truth = !truth
					}
					if !blockRejects(b.Succs[si]) {
						continue
					}
					// rejected set = {n : (n op k) == truth}; must equal {n <= lower}: test at lower and lower+1 and 0
					inSet := func(n *big.Int) bool {
						cmp := n.Cmp(k)
						var r bool
						switch op {
						case token.LSS:
							r = cmp < 0
						case token.LEQ:
							r = cmp <= 0
						case token.GTR:
							r = cmp > 0
						case token.GEQ:
							r = cmp >= 0
						case token.EQL:
							r = cmp == 0
						case token.NEQ:
							r = cmp != 0
						}
						return r == truth
					}
					l1 := new(big.Int).Add(cl.lower, big.NewInt(1))
					if inSet(big.NewInt(0)) && inSet(cl.lower) && !inSet(l1) {
						okFor[cl.name] = true
					}
				}
			}
		}
		for name, cl := range found {
			c.ob(rule, fmt.Sprintf("%s:%s", relName(f.String()), name), posFor[name], okFor[name],
				fmt.Sprintf("%s decodes %s but has no rejecting comparison whose rejected set is exactly {n <= %s}: non-canonical encodings are accepted", shortFn(f), name, cl.lower))
		}
	}
}

// blockRejects: the region entered at b constructs/returns an error before doing anything else useful
// (contains a call to fmt.Errorf / errors.New or loads a package-level Err* variable) within the block itself.
func blockRejects(b *ssa.BasicBlock) bool {
	for _, in := range b.Instrs {
		switch x := in.(type) {
		case *ssa.Call:
			n := calleeName(&x.Call)
			if n == "fmt.Errorf" || n == "errors.New" {
				return true
			}
		case *ssa.UnOp:
			if g, ok := x.X.(*ssa.Global); ok && x.Op == token.MUL && (strings.HasPrefix(g.Name(), "Err") || strings.HasPrefix(g.Name(), "err")) {
				return true
			}
		}
	}
	return false
}

// ruleCompactWidths: the big-integer-mode byte lengths handled by decodeUint must cover what encodeUint emits for
// a 64-bit uint: {4,...,8}.
func (c *Ctx) ruleCompactWidths(rule string) {
	f := c.fn("pkg/scale", "(*decodeState).decodeUint")
	if f == nil {
		return
	}
	c.doc(rule, "decodeUint handles every big-integer-mode byte length the encoder can emit for a 64-bit uint (4..8): each width has a non-rejecting case")
	// find comparisons byteLen == K where byteLen derives from (prefix>>2)+4
	handled := map[int64]bool{}
	var at token.Pos
	for _, b := range f.Blocks {
		iff := ifOf(b)
		if iff == nil {
			continue
		}
		subj, op, k, ok := cmpWithConst(iff.Cond)
		if !ok || op != token.EQL {
			continue
		}
		// subject must be (x>>2)+4
		bo, ok := stripConv(subj).(*ssa.BinOp)
		if !ok || bo.Op != token.ADD {
			continue
		}
		if four, ok := constInt(bo.Y); !ok || four != 4 {
			continue
		}
		at = iff.Pos()
		if !blockRejects(b.Succs[0]) {
			handled[k] = true
		}
	}
	for w := int64(4); w <= 8; w++ {
		if !at.IsValid() {
			at = f.Pos()
		}
		c.ob(rule, fmt.Sprintf("decodeUint:bigmode-width:%d", w), at, handled[w],
			fmt.Sprintf("a compact uint whose big-integer mode uses %d bytes (emitted by the encoder for values needing %d bytes) is rejected by the decoder: encode/decode do not round-trip", w, w))
	}
}

// ruleTagDefault: functions that switch on a tag byte read from the input reject unknown tags.
func (c *Ctx) ruleTagDefault(rule, dir string, funcs ...string) {
	c.doc(rule, "switches on a tag byte (bool / option / result) have a default that sets an error: the block reached when every `tag == K` comparison fails constructs an error")
	for _, fname := range funcs {
		f := c.fn(dir, fname)
		if f == nil {
			continue
		}
		// collect If blocks comparing the same subject with constants
		var chain []*ssa.BasicBlock
		var subj ssa.Value
		for _, b := range f.Blocks {
			iff := ifOf(b)
			if iff == nil {
				continue
			}
			s, op, _, ok := cmpWithConst(iff.Cond)
			if !ok || op != token.EQL {
				continue
			}
			if bt, ok := s.Type().Underlying().(*types.Basic); !ok || bt.Kind() != types.Uint8 {
				continue
			}
			if subj == nil {
				subj = s
			}
			if s == subj {
				chain = append(chain, b)
			}
		}
		if len(chain) < 2 {
			c.ob(rule, relName(f.String())+":tag-switch", f.Pos(), false, "tag switch not found (expected comparisons of the tag byte with 0 and 1)")
			continue
		}
		last := chain[len(chain)-1]
		def := last.Succs[1]
		c.ob(rule, relName(f.String())+":tag-default", last.Instrs[len(last.Instrs)-1].Pos(), blockRejects(def),
			shortFn(f)+": a tag byte other than the enumerated ones must produce an error")
	}
}

// ruleBigIntCanon: decodeBigInt's big mode rejects a zero most-significant byte.
func (c *Ctx) ruleBigIntCanon() {
	f := c.fn("pkg/scale", "(*decodeState).decodeBigInt")
	if f == nil {
		return
	}
	c.doc("R-COMPACT/bigint", "decodeBigInt big mode: a rejecting edge exists on `buf[byteLen-1] == 0` (top byte non-zero) and on BitLen() <= 30 (value does not fit the four-byte mode)")
	top, small := false, false
	var at token.Pos = f.Pos()
	for _, b := range f.Blocks {
		iff := ifOf(b)
		if iff == nil {
			continue
		}
		for _, cv := range phiInputs(iff.Cond) {
			subj, op, k, ok := cmpWithConst(cv)
			if !ok {
				continue
			}
			// buf[len-1] == 0
			if u, ok := stripConv(subj).(*ssa.UnOp); ok && u.Op == token.MUL {
				if ia, ok := u.X.(*ssa.IndexAddr); ok && op == token.EQL && k == 0 {
					if bo, ok := ia.Index.(*ssa.BinOp); ok && bo.Op == token.SUB {
						top = true
						at = iff.Pos()
					}
				}
			}
			if call, ok := stripConv(subj).(*ssa.Call); ok && calleeName(&call.Call) == "(*math/big.Int).BitLen" {
				if (op == token.LEQ && k == 30) || (op == token.LSS && k == 31) {
					small = true
				}
			}
		}
	}
	// the conditions may be combined with ||: look at any BinOp in the function as well
	eachInstr(f, func(_ *ssa.BasicBlock, _ int, in ssa.Instruction) {
		bo, ok := in.(*ssa.BinOp)
		if !ok {
			return
		}
		subj, op, k, ok := cmpWithConst(bo)
		if !ok {
			return
		}
		if u, ok := stripConv(subj).(*ssa.UnOp); ok && u.Op == token.MUL {
			if ia, ok := u.X.(*ssa.IndexAddr); ok && op == token.EQL && k == 0 {
				if ib, ok := ia.Index.(*ssa.BinOp); ok && ib.Op == token.SUB {
					top = true
				}
			}
		}
		if call, ok := stripConv(subj).(*ssa.Call); ok && calleeName(&call.Call) == "(*math/big.Int).BitLen" {
			if (op == token.LEQ && k == 30) || (op == token.LSS && k == 31) {
				small = true
			}
		}
	})
	c.ob("R-COMPACT/bigint", "decodeBigInt:top-byte-nonzero", at, top, "big-integer mode must reject a zero most significant byte (non-canonical)")
	c.ob("R-COMPACT/bigint", "decodeBigInt:not-below-2^30", at, small, "big-integer mode must reject values that fit the four-byte mode (below 2^30)")
}

// feedsShr2: v (through conversions) is only an operand of `>> 2`, i.e. it is not the decoded value itself.
func feedsShr2(v ssa.Value) bool {
	if v.Referrers() == nil {
		return false
	}
	for _, r := range *v.Referrers() {
		switch x := r.(type) {
		case *ssa.BinOp:
			if k, ok := constInt(x.Y); ok && x.Op == token.SHR && k == 2 && x.X == v {
				return true
			}
		case *ssa.Convert:
			if feedsShr2(x) {
				return true
			}
		}
	}
	return false
}

// ruleCompactEnc: encodeUint's mode thresholds are 2^6, 2^14, 2^30 (strict), the payload is i<<2 and the mode tags 0,1,2
// (big mode: ((n-4)<<2)+3).
func (c *Ctx) ruleCompactEnc(rule string) {
	f := c.fn("pkg/scale", "(*encodeState).encodeUint")
	if f == nil {
		return
	}
	c.doc(rule, "encodeUint: mode k is chosen iff i < 2^(6,14,30) (first match), payload i<<2 + k; the big-integer length byte is ((numBytes-4)<<2)+3")
	i := f.Params[1]
	want := map[int64]int64{64: 0, 16384: 1, 1 << 30: 2}
	seen := map[int64]bool{}
	for _, b := range f.Blocks {
		iff := ifOf(b)
		if iff == nil {
			continue
		}
		subj, op, k, ok := cmpWithConst(iff.Cond)
		if !ok || stripConv(subj) != ssa.Value(i) {
			continue
		}
		tag, isThreshold := want[k]
		okk := isThreshold && op == token.LSS
		// payload in the true block
		shl, add := false, int64(0)
		for _, in := range b.Succs[0].Instrs {
			if bo, ok := in.(*ssa.BinOp); ok {
				if kk, ok := constInt(bo.Y); ok {
					if bo.Op == token.SHL && kk == 2 {
						shl = true
					}
					if bo.Op == token.ADD {
						add = kk
					}
				}
			}
		}
		seen[k] = true
		c.ob(rule, fmt.Sprintf("encodeUint:threshold:%d", k), iff.Pos(), okk && shl && add == tag,
			fmt.Sprintf("comparison i %s %d selects a mode writing (i<<2:%v)+%d; specification: i < %d selects tag %d", op, k, shl, add, k, tag))
	}
	for k := range want {
		if !seen[k] {
			c.ob(rule, fmt.Sprintf("encodeUint:threshold:%d", k), f.Pos(), false, fmt.Sprintf("no comparison of i with %d found", k))
		}
	}
	// big mode length byte
	bigOK := false
	eachInstr(f, func(_ *ssa.BasicBlock, _ int, in ssa.Instruction) {
		if bo, ok := in.(*ssa.BinOp); ok && bo.Op == token.ADD {
			if k, ok := constInt(bo.Y); ok && k == 3 {
				if sh, ok := bo.X.(*ssa.BinOp); ok && sh.Op == token.SHL {
					if k2, ok := constInt(sh.Y); ok && k2 == 2 {
						if cv, ok := stripConv(sh.X).(*ssa.BinOp); ok && cv.Op == token.SUB {
							if k4, ok := constInt(cv.Y); ok && k4 == 4 {
								bigOK = true
							}
						}
					}
				}
			}
		}
	})
	c.ob(rule, "encodeUint:bigmode-length-byte", f.Pos(), bigOK, "big-integer mode length byte must be ((numBytes-4)<<2)+3")
	// number of payload bytes = ceil(bitlen/8): a loop shifting right by exactly 8 with a +1 counter, or (bits.Len(i)+7)/8
	loopForm, closedForm, closedBad := false, false, ""
	eachInstr(f, func(b *ssa.BasicBlock, _ int, in ssa.Instruction) {
		bo, ok := in.(*ssa.BinOp)
		if !ok {
			return
		}
		if bo.Op == token.SHR {
			if k, ok := constInt(bo.Y); ok && k == 8 && reachable(b, b) && len(b.Succs) > 0 {
				if _, isPhi := bo.X.(*ssa.Phi); isPhi {
					loopForm = true
				}
			}
		}
		if bo.Op == token.QUO {
			if k, ok := constInt(bo.Y); ok && k == 8 {
				if add, ok := bo.X.(*ssa.BinOp); ok && add.Op == token.ADD {
					if call, ok := stripConv(add.X).(*ssa.Call); ok && strings.HasPrefix(calleeName(&call.Call), "math/bits.Len") {
						if kk, ok := constInt(add.Y); ok {
							if kk == 7 {
								closedForm = true
							} else {
								closedBad = fmt.Sprintf("(bits.Len(i)+%d)/8", kk)
							}
						}
					}
				}
			}
		}
	})
	c.ob(rule, "encodeUint:bigmode-byte-count", f.Pos(), (loopForm || closedForm) && closedBad == "",
		"the number of payload bytes of the big-integer mode must be ceil(bitlen/8) (a >>8 counting loop, or (bits.Len(i)+7)/8); found "+closedBad+": a most significant zero byte is emitted for values whose bit length is a multiple of 8 (non-canonical, rejected by the decoder)")
}
