package main

import (
	"fmt"
	"go/token"
	"go/types"
	"strings"

	"golang.org/x/tools/go/ssa"
)

var ownExempt = map[string]string{
	"(*InMemoryTrie).Load":            "nodes under construction from the database are not yet shared with any snapshot",
	"(*InMemoryTrie).loadNode":        "nodes under construction from the database are not yet shared with any snapshot",
	"loadStorageValue":                "nodes under construction from the database are not yet shared with any snapshot",
	"(*InMemoryTrie).prepForMutation": "the ownership primitive itself; its paths are decided by R-OWN/prep",
	"(*InMemoryTrie).writeDirtyNode":  "SetClean after the node was persisted only flips the persistence flag Dirty; content and Merkle value are unchanged for every snapshot sharing the node",
}

func init() {
	register("C03", "copy-on-write ownership typestate on SSA (R-OWN, /prep, /snap, /fresh, /alias)", "Copy-on-write ownership typestate over the SSA of pkg/trie/inmemory: every write through a *node.Node on every path of every function is through a node the trie owns (fresh literal, prepForMutation result, Copy result); prepForMutation returns the same node only when generations are equal; Snapshot bumps the generation and resets deltas; Copy never aliases Children. "+
		"Isolation between snapshots is violated exactly when some path writes through a node it does not own, so this decides a necessary condition for all key/value histories. Not decided: aliasing of []byte storage values, dot/state bookkeeping beyond read-only use of cached tries.",
		"ownership sources are exactly: node literal, prepForMutation result, (*Node).Copy result; loader functions exempt by table", "DESIGN.md §3 R-OWN; §4 C03",
		func(c *Ctx) {
			c.load("pkg/trie/inmemory", "pkg/trie/node")
			c.ruleOwn(ownExempt)
			c.ruleOwnPrep()
			c.ruleOwnSnap()
			c.ruleOwnFresh(ownExempt)
			c.ruleOwnAlias("pkg/trie/inmemory", "pkg/trie/node")
			c.min("R-OWN/alias", 6)
			c.ruleFreshMap()
			c.min("R-FRESHMAP", 2)
			c.min("R-OWN", 30)
			c.min("R-OWN/prep", 3)
			c.min("R-OWN/snap", 4)
			c.min("R-OWN/fresh", 8)
		})
}

var trieWalkers = []walkerSpec{
	{dir: inmemDir, fn: "retrieveFromBranch", keyParam: 2, k1: "return-value"},
	{dir: inmemDir, fn: "retrieveFromLeaf", keyParam: 2, k1: "return-value"},
	{dir: inmemDir, fn: "(*InMemoryTrie).deleteLeaf", keyParam: 2, k1: "register-deleted"},
	{dir: inmemDir, fn: "(*InMemoryTrie).deleteBranch", keyParam: 2, k1: "store-nil-value"},
	{dir: inmemDir, fn: "getFromDBAtNode", keyParam: 2, k1: "return-value"},
	{dir: inmemDir, fn: "getKeysWithPrefixFromBranch", keyParam: 2},
	{dir: inmemDir, fn: "(*InMemoryTrie).clearPrefixLimitBranch", keyParam: 2},
	{dir: inmemDir, fn: "(*InMemoryTrie).clearPrefixLimitChild", keyParam: 2, caller: true},
	{dir: inmemDir, fn: "(*InMemoryTrie).clearPrefixAtNode", keyParam: 2},
	{dir: inmemDir, fn: "(*InMemoryTrie).insertInBranch", keyParam: 2},
}

var proofWalkers = []walkerSpec{
	{dir: "pkg/trie/inmemory/proof", fn: "walkRoot", keyParam: 1, k1: "found-return"},
	{dir: "pkg/trie/inmemory/proof", fn: "walk", keyParam: 1, k1: "found-return"},
}

func init() {
	register("C02", "radix-trie walker rules on SSA (R-KEYMATCH K1/K2), prefix conversion (R-PREFIX), pre-order consumption (R-PREORDER), nil-vs-empty value tests (R-NILVALUE)",
		"Decides for every path of the in-memory trie walkers: a node is the target of get/delete only through an exact partial-key match (K1); a walker descends into Children[key[i]] only when the node's partial key is a prefix of the key (K2); byte prefixes reach the nibble walkers unmodified (R-PREFIX); limited deletion consumes a branch's own value before its children (R-PREORDER); presence of a value is tested with nil, never with len()==0 (an empty value is a value). "+
			"These are necessary for the trie to behave as an ordered byte-string map for every key set. Not decided: NextKey ordering, limit accounting, merge shapes.",
		"bytes.Equal/HasPrefix trusted; walker table frozen (12 walkers)", "DESIGN.md §3 R-KEYMATCH, R-PREFIX, R-PREORDER; §4 C02",
		func(c *Ctx) {
			c.load("pkg/trie/inmemory", "pkg/trie/node")
			c.ruleMergeOnce()
			c.min("R-MERGEONCE", 1)
			c.ruleKeyMatch(trieWalkers)
			c.min("R-KEYMATCH/K2", 8)
			c.min("R-KEYMATCH/K1", 5)
			c.rulePrefix()
			c.min("R-PREFIX", 4)
			c.rulePreorder()
			c.min("R-PREORDER", 2)
			c.ruleNilValue("pkg/trie/inmemory")
			c.ruleEmptyCopy("pkg/trie/node", "pkg/trie/inmemory")
			c.min("R-NILVALUE/copy", 5)
			c.min("R-NILVALUE", 7)
			c.ruleValueCarry(ownExempt)
			c.min("R-VALUECARRY", 6)
			c.ruleNextKey()
			c.min("R-NEXTKEY", 4)
		})
}

var trieThreshDirs = []string{"pkg/trie/inmemory", "pkg/trie/node", "pkg/trie/inmemory/proof", "pkg/trie/triedb", "pkg/trie/triedb/codec", "pkg/trie/triedb/proof", "pkg/trie/triedb/nibbles"}

func init() {
	register("C06", "threshold agreement between the two trie engines and the specification (R-THRESH) + header variant tables (R-VARIANT)",
		"Decides that the database-backed engine looks a key up only through exact partial-key matches and prefix-guarded descents, that an insert which matched an existing node always installs the newly computed value, and that it hashes exactly the values the specification and the in-memory engine hash (len > MaxInlineValue, V1: 33 bytes and more), inlines exactly the child references shorter than 32 bytes, and uses the specification's node-header variant table with an exhaustive decoder. These are necessary for both engines to compute the spec root for every map. "+
			"Not decided: the insert/remove/commit algorithms of triedb, lookups after commit.",
		"constants are read from the SSA; MaxInlineValue is abstractly evaluated per version", "DESIGN.md §3 R-THRESH, R-VARIANT; §4 C06",
		func(c *Ctx) {
			c.load(append([]string{"pkg/trie"}, trieThreshDirs...)...)
			c.ruleThresh(trieThreshDirs...)
			c.min("R-THRESH", 14)
			c.ruleVariant("pkg/trie/triedb/codec")
			c.min("R-VARIANT/table", 7)
			c.ruleTriedb()
			c.ruleCommitOrder()
			c.min("R-COMMITORDER", 1)
			c.ruleFixCursor()
			c.ruleFreshAppendBase()
			c.ruleValueCopyMutator("R-VALUECOPY", triedbDir)
			c.ruleTriedbRemoveMatch()
			c.ruleTriedbNilValue()
			c.ruleTriedbKeyClone()
			c.min("R-KEYMATCH/triedb", 3)
			c.min("R-NEWVALUE", 3)
		})
}

func (c *Ctx) ruleNodeEncodeOrder() {
	c.doc("R-ENCORDER", "node.Encode writes header, partial key, children bitmap, value, children in this order and node.decodeBranch/decodeLeaf read them in the same order")
	enc := c.fn("pkg/trie/node", "(*Node).Encode")
	c.ruleSeq("R-ENCORDER", enc, []seqMarker{
		{"header", callNamed("encodeHeader")},
		{"partial-key", callNamed("NibblesToKeyLE")},
		{"children-bitmap", callNamed("ChildrenBitmap")},
		{"value", callNamed("Blake2bHash", "Encode")},
		{"children", callNamed("encodeChildrenOpportunisticParallel")},
	}, "writer and reader of the node encoding must agree on the field order")
	isDecodeInto := func(field string, want bool) func(in ssa.Instruction) bool {
		return func(in ssa.Instruction) bool {
			call, ok := in.(*ssa.Call)
			if !ok || !strings.HasSuffix(calleeName(&call.Call), "scale.Decoder).Decode") {
				return false
			}
			args := callArgs(&call.Call)
			isField := false
			if mi, ok := args[len(args)-1].(*ssa.MakeInterface); ok {
				if fa, ok := mi.X.(*ssa.FieldAddr); ok && fieldVar(fa) != nil && fieldVar(fa).Name() == field {
					isField = true
				}
			}
			return isField == want
		}
	}
	dec := c.fn("pkg/trie/node", "decodeBranch")
	valueStep := func(in ssa.Instruction) bool {
		return isDecodeInto("StorageValue", true)(in) || callNamed("decodeHashedValue")(in)
	}
	c.ruleSeq("R-ENCORDER", dec, []seqMarker{
		{"partial-key", callNamed("decodeKey")},
		{"children-bitmap", callNamed("io.ReadFull", "Read")},
		{"value", valueStep},
		{"children", isDecodeInto("StorageValue", false)},
	}, "writer and reader of the node encoding must agree on the field order")
}

func init() {
	register("C01", "threshold/variant/encoding-order tables + ownership and value-flag typestate on the SSA of the in-memory trie (R-THRESH, R-VARIANT, R-ENCORDER, R-OWN, R-VALUECARRY, R-KEYMATCH on insert/delete, R-EMPTYROOT)",
		"Decides structural necessary conditions of `root == spec root for every map and history`: only values longer than MaxInlineValue are hashed (V1: >32 bytes, V0: never) and nodes shorter than 32 bytes are inlined, on every comparison site; the header variant table equals the specification and encoder/decoder agree on the field order; every content write goes through an owned, dirty node (so no cached Merkle value is stale and no other snapshot is touched); a node's MustBeHashed flag always travels with its value; insert/delete walkers only act on exact key matches and only descend through matching partial keys; the empty trie hashes to BLAKE2b-256(0x00). "+
			"Not decided: that insert/delete produce the canonical radix shape for every history, the hash function itself.",
		"blake2b and SCALE trusted; spec constants embedded in the checker", "DESIGN.md §3 R-THRESH, R-VARIANT, R-OWN, R-KEYMATCH; §4 C01",
		func(c *Ctx) {
			c.load("pkg/trie", "pkg/trie/inmemory", "pkg/trie/node")
			c.ruleThresh("pkg/trie/inmemory", "pkg/trie/node")
			c.min("R-THRESH", 10)
			c.ruleVariant("pkg/trie/node")
			c.min("R-VARIANT/table", 7)
			c.ruleVariantSelect()
			c.min("R-VARIANT/select", 6)
			c.ruleNodeEncodeOrder()
			c.min("R-ENCORDER", 7)
			c.ruleOwn(ownExempt)
			c.ruleOwnPrep()
			c.ruleOwnFresh(ownExempt)
			c.min("R-OWN", 30)
			c.ruleValueCarry(ownExempt)
			c.min("R-VALUECARRY", 6)
			c.ruleNilValue("pkg/trie/inmemory")
			c.ruleEmptyCopy("pkg/trie/node", "pkg/trie/inmemory")
			c.min("R-NILVALUE/copy", 5)
			c.min("R-NILVALUE", 7)
			c.ruleKeyMatch([]walkerSpec{trieWalkers[2], trieWalkers[3], trieWalkers[9]})
			c.ruleEmptyRoot()
		})
}

// R-EMPTYROOT: trie.EmptyHash = blake2b(0x00) and Hash() returns it for the nil root.
func (c *Ctx) ruleEmptyRoot() {
	c.doc("R-EMPTYROOT", "trie.EmptyHash is initialised as MustBlake2bHash([]byte{0}) and (*InMemoryTrie).Hash returns it when the root is nil")
	sp := c.ssaPkg("pkg/trie")
	if sp == nil {
		return
	}
	initf := sp.Func("init")
	ok := false
	if initf != nil {
		eachInstr(initf, func(_ *ssa.BasicBlock, _ int, in ssa.Instruction) {
			st, isSt := in.(*ssa.Store)
			if !isSt {
				return
			}
			g, isG := st.Addr.(*ssa.Global)
			if !isG || g.Name() != "EmptyHash" {
				return
			}
			call, isCall := st.Val.(*ssa.Call)
			if !isCall || !strings.HasSuffix(calleeName(&call.Call), "MustBlake2bHash") {
				return
			}
			// argument: slice of a 1-element array storing 0
			if sl, isSl := call.Call.Args[0].(*ssa.Slice); isSl {
				if al, isAl := sl.X.(*ssa.Alloc); isAl {
					n, zero := 0, true
					for _, r := range *al.Referrers() {
						if ia, isIA := r.(*ssa.IndexAddr); isIA {
							for _, r2 := range *ia.Referrers() {
								if s2, isS2 := r2.(*ssa.Store); isS2 {
									n++
									if k, isK := constInt(s2.Val); !isK || k != 0 {
										zero = false
									}
								}
							}
						}
					}
					ok = n == 1 && zero
				}
			}
		})
	}
	var p = sp.Pkg.Scope().Lookup("EmptyHash").Pos()
	c.ob("R-EMPTYROOT", "pkg/trie.EmptyHash", p, ok, "EmptyHash must be the BLAKE2b-256 hash of the single byte 0x00")
	h := c.fn(inmemDir, "(*InMemoryTrie).Hash")
	if h == nil {
		return
	}
	okH := false
	eachInstr(h, func(b *ssa.BasicBlock, _ int, in ssa.Instruction) {
		u, isU := in.(*ssa.UnOp)
		if !isU {
			return
		}
		if g, isG := u.X.(*ssa.Global); !isG || g.Name() != "EmptyHash" {
			return
		}
		if _, isRet := b.Instrs[len(b.Instrs)-1].(*ssa.Return); !isRet {
			return
		}
		okH = guardedBy(b, func(cond ssa.Value, truth bool) bool {
			e, neq, isN := nilCmp(cond)
			if !isN {
				return false
			}
			_, isRoot := isFieldLoadNamed(e, "root")
			return isRoot && truth != neq
		})
	})
	c.ob("R-EMPTYROOT", "(*InMemoryTrie).Hash:nil-root", h.Pos(), okH, "Hash() must return trie.EmptyHash exactly when the root is nil")
}

func init() {
	register("C07", "header variant table/exhaustiveness (R-VARIANT), short-read (R-READFULL), allocation/interval no-wrap (R-ALLOC), explicit-panic reachability (R-NOPANIC), nil inlined child (R-NILCHILD), header length loop (R-HEADERLOOP), field order (R-ENCORDER)",
		"Decides for both node codecs (pkg/trie/node and pkg/trie/triedb/codec), for every input byte string: the header byte table equals the specification and every variant the header decoder can return has a non-panicking handler; no Read discards its byte count; every buffer sized by a decoded length is bounded by type (<= 2^16 nibbles) and its size arithmetic cannot wrap (so the maximum key length 65535 decodes); no explicit panic is reachable from Decode; an inlined child that decodes to the empty node is rejected before it is dereferenced; the multi-byte key-length loop reads a byte and checks overflow on every iteration (terminates); encoder and decoder use the same field order. "+
			"Not decided: value-level round-trip equality; nil dereferences other than the tabled one; panics inside the Go runtime (index/slice) other than those guarded by the interval rule.",
		"io.Reader contract; pkg/scale's byte-string decoder is covered by C12", "DESIGN.md §3 R-VARIANT, R-READFULL, R-ALLOC, R-NOPANIC; §4 C07",
		func(c *Ctx) {
			c.load("pkg/trie/node", "pkg/trie/triedb/codec", "pkg/scale", "pkg/trie/codec", "internal/primitives/core/hash")
			c.ruleDecodeAssign("internal/primitives/core/hash")
			c.min("R-DECODEASSIGN", 1)
			c.ruleVariantSelect()
			c.min("R-VARIANT/select", 6)
			c.ruleVariant("pkg/trie/node")
			c.ruleVariant("pkg/trie/triedb/codec")
			c.min("R-VARIANT/table", 14)
			c.min("R-VARIANT/exhaustive", 14)
			c.ruleReadFull("R-READFULL", "pkg/trie/node", "pkg/trie/triedb/codec")
			c.min("R-READFULL", 6)
			c.ruleAlloc("R-ALLOC", 1<<17, "pkg/trie/node", "pkg/trie/triedb/codec")
			c.min("R-ALLOC", 2)
			c.ruleNodeEncodeOrder()
			c.ruleNilChild()
			c.ruleHeaderLoop("pkg/trie/node")
			c.ruleHeaderLoop("pkg/trie/triedb/codec")
			var entries []*ssa.Function
			entries = append(entries, c.fn("pkg/trie/node", "Decode"))
			if sp := c.ssaPkg("pkg/trie/triedb/codec"); sp != nil {
				entries = append(entries, sp.Func("Decode"))
			}
			c.ruleNoPanic("R-NOPANIC", entries, map[string]string{
				"Decode#1":       "default of the variant switch; every variant decodeHeaderByte can return has a case (decided on this run by R-VARIANT/exhaustive)",
				"Decode[H]#1":    "default of the variant switch; every variant decodeHeaderByte can return has a case (decided on this run by R-VARIANT/exhaustive)",
				"decodeBranch#1": "codec.decodeBranch: scale.Unmarshal of a child reference into the fixed-length hash H on the len(hash) >= H.Length() edge cannot fail (exactly Length() bytes are read); probed with 32..63 byte references",
				"decodeBranch[H]#1": "same as decodeBranch#1 (generic origin)",
			}, nil)
		})
}

// R-NILCHILD: the node returned by node.Decode ((nil, nil) for the empty header 0x00) is nil-checked before any
// dereference, in every function that decodes untrusted node encodings.
func (c *Ctx) ruleNilChild() { c.ruleNilDecode("R-NILCHILD", false, "pkg/trie/node") }

func (c *Ctx) ruleNilDecode(rule string, xref bool, dirs ...string) {
	c.doc(rule, "every dereference (field access) of the *Node returned by node.Decode is dominated by a nil test of it: Decode returns (nil, nil) for the empty-node header")
	for _, dir := range dirs {
		sp := c.ssaPkg(dir)
		if sp == nil {
			continue
		}
		total := 0
		for _, f := range allFuncs(c, sp) {
			n := 0
			eachInstr(f, func(b *ssa.BasicBlock, _ int, in ssa.Instruction) {
				fa, ok := in.(*ssa.FieldAddr)
				if !ok {
					return
				}
				var ex *ssa.Extract
				for _, v := range phiInputs(fa.X) {
					if e, ok := v.(*ssa.Extract); ok {
						if call, ok := e.Tuple.(*ssa.Call); ok && e.Index == 0 && strings.HasSuffix(calleeName(&call.Call), "pkg/trie/node.Decode") {
							ex = e
						}
					}
				}
				if ex == nil {
					return
				}
				n++
				total++
				ok2 := guardedBy(b, func(cond ssa.Value, truth bool) bool {
					e, neq, isN := nilCmp(cond)
					return isN && (e == ssa.Value(ex) || e == fa.X) && truth == neq
				})
				key := fmt.Sprintf("%s:decoded-node-deref#%d", relName(f.String()), n)
				msg := shortFn(f) + " dereferences the node returned by node.Decode without a nil check: an encoding of the empty node (0x00) makes Decode return (nil, nil) and the caller panics"
				if xref {
					c.xref(rule, key, fa.Pos(), ok2, msg)
				} else {
					c.ob(rule, key, fa.Pos(), ok2, msg)
				}
			})
		}
		if total == 0 && !xref {
			c.ob(rule, dir+":decoded-node-deref", sp.Members["init"].Pos(), false, "no dereference of a decoded node found in "+dir+" (anchor changed)")
		}
	}
}

// R-HEADERLOOP: the unbounded loop accumulating the partial key length reads from the reader on every iteration with
// the error exiting, and the accumulating uint16 addition is followed by an overflow comparison.
func (c *Ctx) ruleHeaderLoop(dir string) {
	f := c.fn(dir, "decodeHeader")
	if f == nil {
		return
	}
	c.doc("R-HEADERLOOP", "decodeHeader: the accumulation `partialKeyLength += uint16(b)` is checked for wrap-around (result < previous => error) and each loop iteration performs a Read whose error leaves the loop")
	n := 0
	eachInstr(f, func(b *ssa.BasicBlock, _ int, in ssa.Instruction) {
		bo, ok := in.(*ssa.BinOp)
		if !ok || bo.Op.String() != "+" {
			return
		}
		bt, ok := bo.Type().Underlying().(*types.Basic)
		if !ok || bt.Kind() != types.Uint16 {
			return
		}
		// only the accumulation (one operand is a phi / loop-carried)
		if _, isPhi := bo.X.(*ssa.Phi); !isPhi {
			if _, isPhi2 := bo.Y.(*ssa.Phi); !isPhi2 {
				return
			}
		}
		n++
		checked := false
		for _, r := range *bo.Referrers() {
			if cmp, ok := r.(*ssa.BinOp); ok && (cmp.Op.String() == "<" || cmp.Op.String() == ">") {
				other := cmp.Y
				if cmp.Y == ssa.Value(bo) {
					other = cmp.X
				}
				if other == bo.X || other == bo.Y {
					// the comparison must guard an error exit
					for _, rr := range *cmp.Referrers() {
						if iff, ok := rr.(*ssa.If); ok {
							if blockRejects(iff.Block().Succs[0]) || blockRejects(iff.Block().Succs[1]) {
								checked = true
							}
						}
					}
				}
			}
		}
		c.ob("R-HEADERLOOP", fmt.Sprintf("%s.decodeHeader:accumulate#%d", dir, n), bo.Pos(), checked,
			"the uint16 accumulation of the partial key length must be followed by an overflow check (sum < previous => ErrPartialKeyTooBig); otherwise a long length prefix wraps to a short key")
		// a Read in the same loop (same or dominating block within the loop): look for a Read call that dominates the add
		hasRead := false
		eachInstr(f, func(rb *ssa.BasicBlock, _ int, rin ssa.Instruction) {
			if call, ok := rin.(*ssa.Call); ok && isReaderRead(&call.Call) && rb.Dominates(b) && reachable(b, rb) {
				hasRead = true
			}
		})
		c.ob("R-HEADERLOOP", fmt.Sprintf("%s.decodeHeader:read-per-iteration#%d", dir, n), bo.Pos(), hasRead,
			"each iteration of the length loop must consume a byte from the reader (otherwise the loop does not terminate on a constant 255 byte)")
	})
	if n == 0 {
		c.ob("R-HEADERLOOP", dir+".decodeHeader:accumulate", f.Pos(), false, "accumulating addition not found (anchor changed)")
	}
}

func init() {
	register("C04", "hashed-value resolution and DB key agreement (R-HASHEDVALUE), walker rules on the DB reader (R-KEYMATCH), batch write discipline (R-ORDER/batch), thresholds on the persistence path (R-THRESH)",
		"Decides structural necessary conditions of `reloading/reading by root returns the same values`: the DB reader returns a value only through the non-hashed edge or resolves the hash with the key layout the writer used (PartialKey || hash); child lookups by Merkle value skip inlined children; the reader descends only through matching partial keys and targets exact matches; all node writes of one state go into one batch that is flushed only on success; the writer and loader agree on which nodes are inlined (<32 bytes). "+
			"Not decided: that every dirty node/child trie is reached by the writer, value equality after reload.",
		"database Get/Put/batch semantics trusted", "DESIGN.md §3 R-HASHEDVALUE, R-KEYMATCH, R-ORDER/batch; §4 C04",
		func(c *Ctx) {
			c.load("pkg/trie", "pkg/trie/inmemory", "pkg/trie/node")
			c.ruleHashedValue()
			c.min("R-HASHEDVALUE", 3)
			c.min("R-HASHEDVALUE/dbget", 2)
			c.min("R-HASHEDVALUE/key", 3)
			c.ruleKeyMatch([]walkerSpec{trieWalkers[4]})
			c.min("R-KEYMATCH/K2", 1)
			c.ruleWriteDirtyBatch()
			c.min("R-ORDER/batch", 3)
			c.ruleRootRecv()
			c.min("R-ROOTRECV", 3)
			c.ruleVariantSelect()
			c.min("R-VARIANT/select", 6)
			c.ruleThresh("pkg/trie/inmemory")
			c.min("R-THRESH", 7)
			c.ruleValueCarry(ownExempt)
		})
}

func init() {
	register("C05", "proof walkers and verifier rules on SSA: locally computed digests (R-PROOFHASH), value comparison dominance (R-VERIFYCMP), nil decoded nodes (R-NILDECODE), walker key matching (R-KEYMATCH), hashed-value resolution (R-HASHEDVALUE), placeholder-vs-inlined test (R-NILVALUE), explicit panics (R-NOPANIC)",
		"Decides structural necessary conditions of proof soundness/completeness: every proof node is keyed by the digest the verifier computes itself and the root is selected by equality of that digest with the given root hash (a supplied node can never stand for another hash); a success return of Verify is dominated by the value comparison (or the documented empty-expected-value case, recorded as a known finding); decoded nodes are nil-checked before use; the proof generator and the lookup that ends verification only descend through matching partial keys and target exact matches; hashed values are resolved before being returned/compared; inlined children are told from placeholders by nil-ness, not emptiness. "+
			"Not decided: that the generator includes the value node of V1 hashed values; hash collision resistance.",
		"blake2b trusted; node.Decode robustness is C07's", "DESIGN.md §3 R-PROOFHASH, R-VERIFYCMP, R-KEYMATCH; §4 C05",
		func(c *Ctx) {
			c.load("pkg/trie", "pkg/trie/inmemory", "pkg/trie/node", "pkg/trie/inmemory/proof", "pkg/trie/db", "pkg/scale", "pkg/trie/codec")
			c.ruleProofHash()
			c.ruleProofChild()
			c.ruleProofValue()
			c.min("R-PROOFVALUE", 2)
			c.ruleEachKey()
			c.min("R-EACHKEY", 1)
			c.ruleNilDecode("R-NILDECODE", false, "pkg/trie/inmemory/proof")
			c.ruleNilDecode("R-NILDECODE-trusted-db", true, "pkg/trie/inmemory")
			c.min("R-NILDECODE", 2)
			c.ruleKeyMatch(append(append([]walkerSpec{}, proofWalkers...), trieWalkers[0], trieWalkers[1]))
			c.min("R-KEYMATCH/K2", 3)
			c.min("R-KEYMATCH/K1", 4)
			c.ruleHashedValue()
			c.ruleNilValue("pkg/trie/inmemory/proof")
			c.ruleThresh("pkg/trie/inmemory/proof", "pkg/trie/node")
			c.min("R-THRESH", 4)
			entries := []*ssa.Function{c.fn("pkg/trie/inmemory/proof", "Verify")}
			c.ruleNoPanic("R-NOPANIC", entries, map[string]string{
				"Decode#1":           "default of the variant switch; every variant decodeHeaderByte can return has a case (R-VARIANT/exhaustive, C07)",
				"retrieveFromLeaf#1": "db.Get on the proof MemoryDB fails only for a key that is not 32 bytes or not present; the key is the 32-byte hashed value decodeHashedValue produced; a missing value node is the generator's incompleteness noted under not_decided — recorded as cross-reference",
				"retrieveFromBranch#1": "same as retrieveFromLeaf#1",
			}, func(f *ssa.Function) bool {
				// stay inside the proof verifier, the trie lookup and the node decoder
				p := f.Pkg
				if p == nil && f.Origin() != nil {
					p = f.Origin().Pkg
				}
				if p == nil {
					return true
				}
				switch relName(p.Pkg.Path()) {
				case "pkg/trie/inmemory/proof", "pkg/trie/inmemory", "pkg/trie/node", "pkg/trie/db", "pkg/trie/codec":
					return false
				}
				return true
			})
		})
}

// R-PROOFHASH / R-VERIFYCMP
func (c *Ctx) ruleProofHash() {
	c.doc("R-PROOFHASH", "buildTrie keys digestToEncoding with the digest it computes (MerkleValueRoot of the node bytes) and selects the root by bytes.Equal(digest, rootHash); NewMemoryDBFromProof keys by the locally computed hash")
	bt := c.fn("pkg/trie/inmemory/proof", "buildTrie")
	if bt != nil {
		var digestSrc ssa.Value
		eachInstr(bt, func(_ *ssa.BasicBlock, _ int, in ssa.Instruction) {
			if call, ok := in.(*ssa.Call); ok && strings.HasSuffix(calleeName(&call.Call), "node.MerkleValueRoot") {
				digestSrc = call.Call.Args[1] // the buffer the digest is written to
			}
		})
		fromDigest := func(v ssa.Value) bool {
			if digestSrc == nil {
				return false
			}
			for x := range backwardSlice(v, nil) {
				if call, ok := x.(*ssa.Call); ok && strings.HasSuffix(calleeName(&call.Call), "(*bytes.Buffer).Bytes") {
					for y := range backwardSlice(call.Call.Args[0], nil) {
						for z := range backwardSlice(digestSrc, nil) {
							if y == z {
								if _, isCall := y.(*ssa.Call); isCall {
									return true
								}
								if _, isEx := y.(*ssa.TypeAssert); isEx {
									return true
								}
							}
						}
					}
				}
			}
			return false
		}
		n := 0
		eachInstr(bt, func(_ *ssa.BasicBlock, _ int, in ssa.Instruction) {
			if mu, ok := in.(*ssa.MapUpdate); ok {
				n++
				c.ob("R-PROOFHASH", fmt.Sprintf("buildTrie:map-key#%d", n), mu.Pos(), fromDigest(mu.Key), "proof nodes must be indexed by the digest computed locally from their bytes, never by anything the prover states")
			}
		})
		// root selection
		rootSel := false
		eachInstr(bt, func(b *ssa.BasicBlock, _ int, in ssa.Instruction) {
			call, ok := in.(*ssa.Call)
			if !ok || !strings.HasSuffix(calleeName(&call.Call), "node.Decode") {
				return
			}
			rootSel = guardedBy(b, func(cond ssa.Value, truth bool) bool {
				eq := callTo(cond, "bytes.Equal")
				if eq == nil || !truth {
					return false
				}
				a0, a1 := eq.Call.Args[0], eq.Call.Args[1]
				return (fromDigest(a0) && a1 == ssa.Value(bt.Params[1])) || (fromDigest(a1) && a0 == ssa.Value(bt.Params[1]))
			})
		})
		c.ob("R-PROOFHASH", "buildTrie:root-selected-by-digest", bt.Pos(), rootSel, "the root node is decoded only on the edge where its locally computed digest equals the given root hash")
	}
	c.doc("R-VERIFYCMP", "every success return of proof.Verify is dominated by the true edge of bytes.Equal(value, proofTrieValue); the `len(value) > 0 &&` bypass is the recorded finding D28")
	v := c.fn("pkg/trie/inmemory/proof", "Verify")
	if v == nil {
		return
	}
	for i, r := range returnsOf(v) {
		if !isNilConst(resultOf(r, 0)) {
			continue
		}
		facts := factsAt(r.Block())
		eq, bypass := false, false
		for _, fc := range facts {
			if callTo(fc.cond, "bytes.Equal") != nil && fc.truth {
				eq = true
			}
		}
		// reachable without the Equal-true edge?
		if !eq {
			// is the only alternative the documented len(value)==0 bypass?
			for _, b := range v.Blocks {
				if iff := ifOf(b); iff != nil {
					if subj, op, k, ok := cmpWithConst(iff.Cond); ok && k == 0 && op == token.GTR {
						if l, ok := lenOf(subj); ok && l == ssa.Value(v.Params[3]) {
							bypass = true
						}
					}
				}
			}
		}
		key := fmt.Sprintf("Verify:success-return#%d", i+1)
		if eq {
			c.ob("R-VERIFYCMP", key, r.Pos(), true, "success dominated by the value comparison")
		} else if bypass {
			c.ob("R-VERIFYCMP", key+":empty-expected-value-bypass", r.Pos(), false, "Verify succeeds without comparing values when the expected value is empty: Verify(proof, root, k, \"\") confirms any present key whatever its value")
		} else {
			c.ob("R-VERIFYCMP", key, r.Pos(), false, "a success return of Verify is not dominated by the comparison of the expected value with the value found in the proof trie")
		}
	}
}

func init() {
	register("C38", "walker/prefix rules on the key-listing path + resolved call chain from the RPC (R-KEYMATCH/K2, R-PREFIX, R-PREORDER(addAllKeys), R-CALLCHAIN, R-PAGECURSOR)",
		"Decides: state_getKeysPaged/GetKeysWithPrefix reach (*InMemoryTrie).GetKeysWithPrefix through the resolved call chain; the prefix walker only descends through a partial key that is a prefix of the search prefix (no panic, no unrelated subtree); the byte prefix reaches the walker as exactly 2*len nibbles (the trimmed trailing zero nibble is the recorded finding D3); keys of a subtree are appended in pre-order (the branch's own key first), which is ascending byte order. "+
			"The paging cursor is decided structurally (R-PAGECURSOR: strict comparison against the client's after-key only, never defaulted to the prefix). Not decided: that comparing lower-case hex strings equals byte order for every client-supplied after-key spelling.",
		"none beyond the Go type checker", "DESIGN.md §3 R-KEYMATCH, R-PREFIX; §4 C38",
		func(c *Ctx) {
			c.load("pkg/trie/inmemory", "pkg/trie/node", "dot/state", "dot/rpc/modules")
			c.ruleKeyMatch([]walkerSpec{trieWalkers[5]})
			c.min("R-KEYMATCH/K2", 1)
			c.rulePrefix("(*InMemoryTrie).GetKeysWithPrefix")
			c.min("R-PREFIX", 1)
			c.rulePreorder("addAllKeys")
			c.min("R-PREORDER", 1)
			c.rulePageCursor()
			c.min("R-PAGECURSOR", 2)
			c.ruleRootArg()
			c.min("R-ROOTARG", 12)
			// call chain
			c.doc("R-CALLCHAIN", "StateModule.GetKeysPaged -> StorageAPI.GetKeysWithPrefix -> (*InmemoryStorageState).GetKeysWithPrefix -> TrieState.GetKeysWithPrefix -> (*InMemoryTrie).GetKeysWithPrefix")
			chain := [][2]string{{"dot/rpc/modules", "(*StateModule).GetKeysPaged"}, {"dot/state", "(*InmemoryStorageState).GetKeysWithPrefix"}}
			for _, ch := range chain {
				f := c.fn(ch[0], ch[1])
				if f == nil {
					continue
				}
				found := false
				eachInstr(f, func(_ *ssa.BasicBlock, _ int, in ssa.Instruction) {
					if call, ok := in.(*ssa.Call); ok {
						if fn := calleeFunc(&call.Call); fn != nil && fn.Name() == "GetKeysWithPrefix" {
							found = true
						}
					}
				})
				c.ob("R-CALLCHAIN", ch[0]+"."+ch[1]+"->GetKeysWithPrefix", f.Pos(), found, ch[1]+" must obtain the keys through GetKeysWithPrefix")
			}
		})
}
