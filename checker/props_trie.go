package main

var ownExempt = map[string]string{
	"(*InMemoryTrie).Load":     "nodes under construction from the database are not yet shared with any snapshot",
	"(*InMemoryTrie).loadNode": "nodes under construction from the database are not yet shared with any snapshot",
	"loadStorageValue":         "nodes under construction from the database are not yet shared with any snapshot",
	"(*InMemoryTrie).prepForMutation": "the ownership primitive itself; its paths are decided by R-OWN/prep",
	"(*InMemoryTrie).writeDirtyNode":  "SetClean after the node was persisted only flips the persistence flag Dirty; content and Merkle value are unchanged for every snapshot sharing the node",
}

func init() {
	register("C03", "copy-on-write ownership typestate on SSA (R-OWN, /prep, /snap, /fresh, /alias)", "Copy-on-write ownership typestate over the SSA of pkg/trie/inmemory: every write through a *node.Node on every path of every function is through a node the trie owns (fresh literal, prepForMutation result, Copy result); prepForMutation returns the same node only when generations are equal; Snapshot bumps the generation and resets deltas; Copy never aliases Children. "+
		"Isolation between snapshots is violated exactly when some path writes through a node it does not own, so this decides a necessary condition for all key/value histories. Not decided: aliasing of []byte storage values, dot/state bookkeeping beyond read-only use of cached tries.",
		"ownership sources are exactly: node literal, prepForMutation result, (*Node).Copy result; loader functions exempt by table", "DESIGN.md §3 R-OWN; §4 C03",
		func(c *Ctx) {
			c.load("pkg/trie/inmemory", "pkg/trie/node")
			c.ruleOwn(ownExempt)
			c.ruleOwnPrep()
			c.ruleOwnSnap()
			c.ruleOwnFresh(ownExempt)
			c.ruleOwnAlias("pkg/trie/inmemory", "pkg/trie/node")
			c.min("R-OWN/alias", 6)
			c.min("R-OWN", 30)
			c.min("R-OWN/prep", 3)
			c.min("R-OWN/snap", 4)
			c.min("R-OWN/fresh", 8)
		})
}
