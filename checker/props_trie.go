package main

var ownExempt = map[string]string{
	"(*InMemoryTrie).Load":     "nodes under construction from the database are not yet shared with any snapshot",
	"(*InMemoryTrie).loadNode": "nodes under construction from the database are not yet shared with any snapshot",
	"loadStorageValue":         "nodes under construction from the database are not yet shared with any snapshot",
	"(*InMemoryTrie).prepForMutation": "the ownership primitive itself; its paths are decided by R-OWN/prep",
	"(*InMemoryTrie).writeDirtyNode":  "SetClean after the node was persisted only flips the persistence flag Dirty; content and Merkle value are unchanged for every snapshot sharing the node",
}

func init() {
	register("C03", "copy-on-write ownership typestate on SSA (R-OWN, /prep, /snap, /fresh, /alias)", "Copy-on-write ownership typestate over the SSA of pkg/trie/inmemory: every write through a *node.Node on every path of every function is through a node the trie owns (fresh literal, prepForMutation result, Copy result); prepForMutation returns the same node only when generations are equal; Snapshot bumps the generation and resets deltas; Copy never aliases Children. "+
		"Isolation between snapshots is violated exactly when some path writes through a node it does not own, so this decides a necessary condition for all key/value histories. Not decided: aliasing of []byte storage values, dot/state bookkeeping beyond read-only use of cached tries.",
		"ownership sources are exactly: node literal, prepForMutation result, (*Node).Copy result; loader functions exempt by table", "DESIGN.md §3 R-OWN; §4 C03",
		func(c *Ctx) {
			c.load("pkg/trie/inmemory", "pkg/trie/node")
			c.ruleOwn(ownExempt)
			c.ruleOwnPrep()
			c.ruleOwnSnap()
			c.ruleOwnFresh(ownExempt)
			c.ruleOwnAlias("pkg/trie/inmemory", "pkg/trie/node")
			c.min("R-OWN/alias", 6)
			c.min("R-OWN", 30)
			c.min("R-OWN/prep", 3)
			c.min("R-OWN/snap", 4)
			c.min("R-OWN/fresh", 8)
		})
}

var trieWalkers = []walkerSpec{
	{dir: inmemDir, fn: "retrieveFromBranch", keyParam: 2, k1: "return-value"},
	{dir: inmemDir, fn: "retrieveFromLeaf", keyParam: 2, k1: "return-value"},
	{dir: inmemDir, fn: "(*InMemoryTrie).deleteLeaf", keyParam: 2, k1: "register-deleted"},
	{dir: inmemDir, fn: "(*InMemoryTrie).deleteBranch", keyParam: 2, k1: "store-nil-value"},
	{dir: inmemDir, fn: "getFromDBAtNode", keyParam: 2, k1: "return-value"},
	{dir: inmemDir, fn: "getKeysWithPrefixFromBranch", keyParam: 2},
	{dir: inmemDir, fn: "(*InMemoryTrie).clearPrefixLimitBranch", keyParam: 2},
	{dir: inmemDir, fn: "(*InMemoryTrie).clearPrefixLimitChild", keyParam: 2, caller: true},
	{dir: inmemDir, fn: "(*InMemoryTrie).clearPrefixAtNode", keyParam: 2},
	{dir: inmemDir, fn: "(*InMemoryTrie).insertInBranch", keyParam: 2},
}

var proofWalkers = []walkerSpec{
	{dir: "pkg/trie/inmemory/proof", fn: "walkRoot", keyParam: 1, k1: "found-return"},
	{dir: "pkg/trie/inmemory/proof", fn: "walk", keyParam: 1, k1: "found-return"},
}

func init() {
	register("C02", "radix-trie walker rules on SSA (R-KEYMATCH K1/K2), prefix conversion (R-PREFIX), pre-order consumption (R-PREORDER), nil-vs-empty value tests (R-NILVALUE)",
		"Decides for every path of the in-memory trie walkers: a node is the target of get/delete only through an exact partial-key match (K1); a walker descends into Children[key[i]] only when the node's partial key is a prefix of the key (K2); byte prefixes reach the nibble walkers unmodified (R-PREFIX); limited deletion consumes a branch's own value before its children (R-PREORDER); presence of a value is tested with nil, never with len()==0 (an empty value is a value). "+
			"These are necessary for the trie to behave as an ordered byte-string map for every key set. Not decided: NextKey ordering, limit accounting, merge shapes.",
		"bytes.Equal/HasPrefix trusted; walker table frozen (12 walkers)", "DESIGN.md §3 R-KEYMATCH, R-PREFIX, R-PREORDER; §4 C02",
		func(c *Ctx) {
			c.load("pkg/trie/inmemory", "pkg/trie/node")
			c.ruleKeyMatch(trieWalkers)
			c.min("R-KEYMATCH/K2", 8)
			c.min("R-KEYMATCH/K1", 5)
			c.rulePrefix()
			c.min("R-PREFIX", 4)
			c.rulePreorder()
			c.min("R-PREORDER", 2)
			c.ruleNilValue("pkg/trie/inmemory")
			c.min("R-NILVALUE", 7)
			c.ruleValueCarry(ownExempt)
			c.min("R-VALUECARRY", 6)
		})
}
