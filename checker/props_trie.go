package main

import (
	"strings"

	"golang.org/x/tools/go/ssa"
)

var ownExempt = map[string]string{
	"(*InMemoryTrie).Load":            "nodes under construction from the database are not yet shared with any snapshot",
	"(*InMemoryTrie).loadNode":        "nodes under construction from the database are not yet shared with any snapshot",
	"loadStorageValue":                "nodes under construction from the database are not yet shared with any snapshot",
	"(*InMemoryTrie).prepForMutation": "the ownership primitive itself; its paths are decided by R-OWN/prep",
	"(*InMemoryTrie).writeDirtyNode":  "SetClean after the node was persisted only flips the persistence flag Dirty; content and Merkle value are unchanged for every snapshot sharing the node",
}

func init() {
	register("C03", "copy-on-write ownership typestate on SSA (R-OWN, /prep, /snap, /fresh, /alias)", "Copy-on-write ownership typestate over the SSA of pkg/trie/inmemory: every write through a *node.Node on every path of every function is through a node the trie owns (fresh literal, prepForMutation result, Copy result); prepForMutation returns the same node only when generations are equal; Snapshot bumps the generation and resets deltas; Copy never aliases Children. "+
		"Isolation between snapshots is violated exactly when some path writes through a node it does not own, so this decides a necessary condition for all key/value histories. Not decided: aliasing of []byte storage values, dot/state bookkeeping beyond read-only use of cached tries.",
		"ownership sources are exactly: node literal, prepForMutation result, (*Node).Copy result; loader functions exempt by table", "DESIGN.md §3 R-OWN; §4 C03",
		func(c *Ctx) {
			c.load("pkg/trie/inmemory", "pkg/trie/node")
			c.ruleOwn(ownExempt)
			c.ruleOwnPrep()
			c.ruleOwnSnap()
			c.ruleOwnFresh(ownExempt)
			c.ruleOwnAlias("pkg/trie/inmemory", "pkg/trie/node")
			c.min("R-OWN/alias", 6)
			c.min("R-OWN", 30)
			c.min("R-OWN/prep", 3)
			c.min("R-OWN/snap", 4)
			c.min("R-OWN/fresh", 8)
		})
}

var trieWalkers = []walkerSpec{
	{dir: inmemDir, fn: "retrieveFromBranch", keyParam: 2, k1: "return-value"},
	{dir: inmemDir, fn: "retrieveFromLeaf", keyParam: 2, k1: "return-value"},
	{dir: inmemDir, fn: "(*InMemoryTrie).deleteLeaf", keyParam: 2, k1: "register-deleted"},
	{dir: inmemDir, fn: "(*InMemoryTrie).deleteBranch", keyParam: 2, k1: "store-nil-value"},
	{dir: inmemDir, fn: "getFromDBAtNode", keyParam: 2, k1: "return-value"},
	{dir: inmemDir, fn: "getKeysWithPrefixFromBranch", keyParam: 2},
	{dir: inmemDir, fn: "(*InMemoryTrie).clearPrefixLimitBranch", keyParam: 2},
	{dir: inmemDir, fn: "(*InMemoryTrie).clearPrefixLimitChild", keyParam: 2, caller: true},
	{dir: inmemDir, fn: "(*InMemoryTrie).clearPrefixAtNode", keyParam: 2},
	{dir: inmemDir, fn: "(*InMemoryTrie).insertInBranch", keyParam: 2},
}

var proofWalkers = []walkerSpec{
	{dir: "pkg/trie/inmemory/proof", fn: "walkRoot", keyParam: 1, k1: "found-return"},
	{dir: "pkg/trie/inmemory/proof", fn: "walk", keyParam: 1, k1: "found-return"},
}

func init() {
	register("C02", "radix-trie walker rules on SSA (R-KEYMATCH K1/K2), prefix conversion (R-PREFIX), pre-order consumption (R-PREORDER), nil-vs-empty value tests (R-NILVALUE)",
		"Decides for every path of the in-memory trie walkers: a node is the target of get/delete only through an exact partial-key match (K1); a walker descends into Children[key[i]] only when the node's partial key is a prefix of the key (K2); byte prefixes reach the nibble walkers unmodified (R-PREFIX); limited deletion consumes a branch's own value before its children (R-PREORDER); presence of a value is tested with nil, never with len()==0 (an empty value is a value). "+
			"These are necessary for the trie to behave as an ordered byte-string map for every key set. Not decided: NextKey ordering, limit accounting, merge shapes.",
		"bytes.Equal/HasPrefix trusted; walker table frozen (12 walkers)", "DESIGN.md §3 R-KEYMATCH, R-PREFIX, R-PREORDER; §4 C02",
		func(c *Ctx) {
			c.load("pkg/trie/inmemory", "pkg/trie/node")
			c.ruleKeyMatch(trieWalkers)
			c.min("R-KEYMATCH/K2", 8)
			c.min("R-KEYMATCH/K1", 5)
			c.rulePrefix()
			c.min("R-PREFIX", 4)
			c.rulePreorder()
			c.min("R-PREORDER", 2)
			c.ruleNilValue("pkg/trie/inmemory")
			c.min("R-NILVALUE", 7)
			c.ruleValueCarry(ownExempt)
			c.min("R-VALUECARRY", 6)
		})
}

var trieThreshDirs = []string{"pkg/trie/inmemory", "pkg/trie/node", "pkg/trie/inmemory/proof", "pkg/trie/triedb", "pkg/trie/triedb/codec", "pkg/trie/triedb/proof"}

func init() {
	register("C06", "threshold agreement between the two trie engines and the specification (R-THRESH) + header variant tables (R-VARIANT)",
		"Decides that the database-backed engine hashes exactly the values the specification and the in-memory engine hash (len > MaxInlineValue, V1: 33 bytes and more), inlines exactly the child references shorter than 32 bytes, and uses the specification's node-header variant table with an exhaustive decoder. These are necessary for both engines to compute the spec root for every map. "+
			"Not decided: the insert/remove/commit algorithms of triedb, lookups after commit.",
		"constants are read from the SSA; MaxInlineValue is abstractly evaluated per version", "DESIGN.md §3 R-THRESH, R-VARIANT; §4 C06",
		func(c *Ctx) {
			c.load(append([]string{"pkg/trie"}, trieThreshDirs...)...)
			c.ruleThresh(trieThreshDirs...)
			c.min("R-THRESH", 14)
			c.ruleVariant("pkg/trie/triedb/codec")
			c.min("R-VARIANT/table", 7)
		})
}

func (c *Ctx) ruleNodeEncodeOrder() {
	c.doc("R-ENCORDER", "node.Encode writes header, partial key, children bitmap, value, children in this order and node.decodeBranch/decodeLeaf read them in the same order")
	enc := c.fn("pkg/trie/node", "(*Node).Encode")
	c.ruleSeq("R-ENCORDER", enc, []seqMarker{
		{"header", callNamed("encodeHeader")},
		{"partial-key", callNamed("NibblesToKeyLE")},
		{"children-bitmap", callNamed("ChildrenBitmap")},
		{"value", callNamed("Blake2bHash", "Encode")},
		{"children", callNamed("encodeChildrenOpportunisticParallel")},
	})
	isDecodeInto := func(field string, want bool) func(in ssa.Instruction) bool {
		return func(in ssa.Instruction) bool {
			call, ok := in.(*ssa.Call)
			if !ok || !strings.HasSuffix(calleeName(&call.Call), "scale.Decoder).Decode") {
				return false
			}
			args := callArgs(&call.Call)
			isField := false
			if mi, ok := args[len(args)-1].(*ssa.MakeInterface); ok {
				if fa, ok := mi.X.(*ssa.FieldAddr); ok && fieldVar(fa) != nil && fieldVar(fa).Name() == field {
					isField = true
				}
			}
			return isField == want
		}
	}
	dec := c.fn("pkg/trie/node", "decodeBranch")
	valueStep := func(in ssa.Instruction) bool {
		return isDecodeInto("StorageValue", true)(in) || callNamed("decodeHashedValue")(in)
	}
	c.ruleSeq("R-ENCORDER", dec, []seqMarker{
		{"partial-key", callNamed("decodeKey")},
		{"children-bitmap", callNamed("io.ReadFull", "Read")},
		{"value", valueStep},
		{"children", isDecodeInto("StorageValue", false)},
	})
}

func init() {
	register("C01", "threshold/variant/encoding-order tables + ownership and value-flag typestate on the SSA of the in-memory trie (R-THRESH, R-VARIANT, R-ENCORDER, R-OWN, R-VALUECARRY, R-KEYMATCH on insert/delete, R-EMPTYROOT)",
		"Decides structural necessary conditions of `root == spec root for every map and history`: only values longer than MaxInlineValue are hashed (V1: >32 bytes, V0: never) and nodes shorter than 32 bytes are inlined, on every comparison site; the header variant table equals the specification and encoder/decoder agree on the field order; every content write goes through an owned, dirty node (so no cached Merkle value is stale and no other snapshot is touched); a node's MustBeHashed flag always travels with its value; insert/delete walkers only act on exact key matches and only descend through matching partial keys; the empty trie hashes to BLAKE2b-256(0x00). "+
			"Not decided: that insert/delete produce the canonical radix shape for every history, the hash function itself.",
		"blake2b and SCALE trusted; spec constants embedded in the checker", "DESIGN.md §3 R-THRESH, R-VARIANT, R-OWN, R-KEYMATCH; §4 C01",
		func(c *Ctx) {
			c.load("pkg/trie", "pkg/trie/inmemory", "pkg/trie/node")
			c.ruleThresh("pkg/trie/inmemory", "pkg/trie/node")
			c.min("R-THRESH", 10)
			c.ruleVariant("pkg/trie/node")
			c.min("R-VARIANT/table", 7)
			c.ruleNodeEncodeOrder()
			c.min("R-ENCORDER", 7)
			c.ruleOwn(ownExempt)
			c.ruleOwnPrep()
			c.ruleOwnFresh(ownExempt)
			c.min("R-OWN", 30)
			c.ruleValueCarry(ownExempt)
			c.min("R-VALUECARRY", 6)
			c.ruleNilValue("pkg/trie/inmemory")
			c.min("R-NILVALUE", 7)
			c.ruleKeyMatch([]walkerSpec{trieWalkers[2], trieWalkers[3], trieWalkers[9]})
			c.ruleEmptyRoot()
		})
}

// R-EMPTYROOT: trie.EmptyHash = blake2b(0x00) and Hash() returns it for the nil root.
func (c *Ctx) ruleEmptyRoot() {
	c.doc("R-EMPTYROOT", "trie.EmptyHash is initialised as MustBlake2bHash([]byte{0}) and (*InMemoryTrie).Hash returns it when the root is nil")
	sp := c.ssaPkg("pkg/trie")
	if sp == nil {
		return
	}
	initf := sp.Func("init")
	ok := false
	if initf != nil {
		eachInstr(initf, func(_ *ssa.BasicBlock, _ int, in ssa.Instruction) {
			st, isSt := in.(*ssa.Store)
			if !isSt {
				return
			}
			g, isG := st.Addr.(*ssa.Global)
			if !isG || g.Name() != "EmptyHash" {
				return
			}
			call, isCall := st.Val.(*ssa.Call)
			if !isCall || !strings.HasSuffix(calleeName(&call.Call), "MustBlake2bHash") {
				return
			}
			// argument: slice of a 1-element array storing 0
			if sl, isSl := call.Call.Args[0].(*ssa.Slice); isSl {
				if al, isAl := sl.X.(*ssa.Alloc); isAl {
					n, zero := 0, true
					for _, r := range *al.Referrers() {
						if ia, isIA := r.(*ssa.IndexAddr); isIA {
							for _, r2 := range *ia.Referrers() {
								if s2, isS2 := r2.(*ssa.Store); isS2 {
									n++
									if k, isK := constInt(s2.Val); !isK || k != 0 {
										zero = false
									}
								}
							}
						}
					}
					ok = n == 1 && zero
				}
			}
		})
	}
	var p = sp.Pkg.Scope().Lookup("EmptyHash").Pos()
	c.ob("R-EMPTYROOT", "pkg/trie.EmptyHash", p, ok, "EmptyHash must be the BLAKE2b-256 hash of the single byte 0x00")
	h := c.fn(inmemDir, "(*InMemoryTrie).Hash")
	if h == nil {
		return
	}
	okH := false
	eachInstr(h, func(b *ssa.BasicBlock, _ int, in ssa.Instruction) {
		u, isU := in.(*ssa.UnOp)
		if !isU {
			return
		}
		if g, isG := u.X.(*ssa.Global); !isG || g.Name() != "EmptyHash" {
			return
		}
		if _, isRet := b.Instrs[len(b.Instrs)-1].(*ssa.Return); !isRet {
			return
		}
		okH = guardedBy(b, func(cond ssa.Value, truth bool) bool {
			e, neq, isN := nilCmp(cond)
			if !isN {
				return false
			}
			_, isRoot := isFieldLoadNamed(e, "root")
			return isRoot && truth != neq
		})
	})
	c.ob("R-EMPTYROOT", "(*InMemoryTrie).Hash:nil-root", h.Pos(), okH, "Hash() must return trie.EmptyHash exactly when the root is nil")
}
